package eng

import "golang.org/x/tools/go/ssa"

// AssumeNil seeds the environment with the fact that v is (not) nil at the start of the
// search. Unlike Assume the fact is an ordinary path fact: it is dropped when v is redefined
// (when the instruction computing v is executed on the explored path).
func (e *PSEnv) AssumeNil(v ssa.Value, isNil bool) {
	e.nilness[e.Resolve(v)] = isNil
}

// AssumeNilAlways fixes the nil-ness of v for the whole search, wherever the instruction
// computing it is executed (specialisation of the scenario, like Assume for conditions).
func (e *PSEnv) AssumeNilAlways(v ssa.Value, isNil bool) {
	if e.stickyNil == nil {
		e.stickyNil = map[ssa.Value]bool{}
	}
	e.stickyNil[v] = isNil
}

// EdgeOrigin prepares a path-sensitive search that starts by taking edge k: it returns the
// location of the terminator of the edge's source block and a copy of cut (nil allowed) in
// which the other out-edges of that block are cut as well. Starting there (rather than at
// EdgeStart) lets the search bind the phis of the edge's target block and record the branch
// condition.
func EdgeOrigin(fn *ssa.Function, k EdgeKey, cut *Cut) (Loc, *Cut) {
	src := fn.Blocks[k[0]]
	nc := NewCut()
	if cut != nil {
		for e := range cut.Edges {
			nc.Edges[e] = true
		}
		for i := range cut.Instrs {
			nc.Instrs[i] = true
		}
	}
	for _, s := range src.Succs {
		if s.Index != k[1] {
			nc.Edges[EdgeKey{src.Index, s.Index}] = true
		}
	}
	return Loc{src, len(src.Instrs) - 1}, nc
}

// EdgeStart returns the location at which the target block of edge k of fn starts.
func EdgeStart(fn *ssa.Function, k EdgeKey) Loc {
	return Loc{fn.Blocks[k[1]], 0}
}
