package eng

import "golang.org/x/tools/go/ssa"

// AssumeNil seeds the environment with the fact that v is (not) nil at the start of the
// search. Unlike Assume the fact is an ordinary path fact: it is dropped when v is redefined
// (when the instruction computing v is executed on the explored path).
func (e *PSEnv) AssumeNil(v ssa.Value, isNil bool) {
	e.nilness[e.Resolve(v)] = isNil
}

// AssumeNilAlways fixes the nil-ness of v for the whole search, wherever the instruction
// computing it is executed (specialisation of the scenario, like Assume for conditions).
func (e *PSEnv) AssumeNilAlways(v ssa.Value, isNil bool) {
	if e.stickyNil == nil {
		e.stickyNil = map[ssa.Value]bool{}
	}
	e.stickyNil[v] = isNil
}

// EdgeStart returns the location at which the target block of edge k of fn starts.
func EdgeStart(fn *ssa.Function, k EdgeKey) Loc {
	return Loc{fn.Blocks[k[1]], 0}
}
