package eng

import (
	"sync"

	"golang.org/x/tools/go/ssa"
)

var (
	liveWriteMu    sync.Mutex
	liveWriteCache = map[*ssa.Alloc]bool{}
)

// WrittenByLiveClosure reports whether the local variable `cell` is captured by a function
// literal that assigns it and that is used in any way other than being deferred directly
// (called, stored, passed to another function, started with `go`). A deferred literal runs
// when the function returns, after every load the function itself makes before its return
// sequence; RetVal accounts for those.
func WrittenByLiveClosure(cell *ssa.Alloc) bool {
	liveWriteMu.Lock()
	if v, ok := liveWriteCache[cell]; ok {
		liveWriteMu.Unlock()
		return v
	}
	liveWriteMu.Unlock()
	res := false
	if refs := cell.Referrers(); refs != nil {
		for _, ref := range *refs {
			mc, ok := ref.(*ssa.MakeClosure)
			if !ok {
				continue
			}
			lit, _ := mc.Fn.(*ssa.Function)
			if lit == nil {
				continue
			}
			for i, b := range mc.Bindings {
				if b != ssa.Value(cell) || i >= len(lit.FreeVars) {
					continue
				}
				if !freeVarWritten(lit, lit.FreeVars[i], 0) {
					continue
				}
				if !deferredOnly(mc) {
					res = true
				}
			}
		}
	}
	liveWriteMu.Lock()
	liveWriteCache[cell] = res
	liveWriteMu.Unlock()
	return res
}

// deferredOnly: the closure value's only use is as the callee of a defer.
func deferredOnly(mc *ssa.MakeClosure) bool {
	refs := mc.Referrers()
	if refs == nil || len(*refs) == 0 {
		return false
	}
	for _, r := range *refs {
		d, ok := r.(*ssa.Defer)
		if !ok || d.Call.Value != ssa.Value(mc) {
			return false
		}
	}
	return true
}

// freeVarWritten: lit (or a literal nested in it that captures the same variable) stores to fv.
func freeVarWritten(lit *ssa.Function, fv *ssa.FreeVar, depth int) bool {
	if depth > 4 {
		return true
	}
	for _, b := range lit.Blocks {
		for _, in := range b.Instrs {
			switch x := in.(type) {
			case *ssa.Store:
				if x.Addr == ssa.Value(fv) {
					return true
				}
			case *ssa.MakeClosure:
				inner, _ := x.Fn.(*ssa.Function)
				if inner == nil {
					continue
				}
				for i, bd := range x.Bindings {
					if bd == ssa.Value(fv) && i < len(inner.FreeVars) && freeVarWritten(inner, inner.FreeVars[i], depth+1) {
						return true
					}
				}
			}
		}
	}
	return false
}
