package eng

import (
	"fmt"
	"go/token"
	"go/types"

	"golang.org/x/tools/go/ssa"
)

// MustPass is the K1 edge-cut rule: every path from `from` to `target` must cross the cut.
// It records one obligation and returns whether it was discharged.
//   - an empty cut means the guard the rule looks for does not exist → violated;
//   - a target unreachable even without the cut is reported as undecided (the rule would
//     otherwise pass vacuously on dead or restructured code).
func (c *Ctx) MustPass(rule, construct string, from Loc, target ssa.Instruction, cut *Cut, what string) bool {
	fn := target.Parent()
	c.Touch(fn)
	if cut == nil || cut.Size() == 0 {
		c.Bad(rule, construct, target.Pos(), "guard not found in %s: %s", c.P.FnName(fn), what)
		return false
	}
	if FindPath(from, target, nil) == nil {
		c.Unk(rule, construct, target.Pos(), "target not reachable from start in %s; cannot decide: %s", c.P.FnName(fn), what)
		return false
	}
	if path := FindPath(from, target, cut); path != nil {
		// second opinion: prune self-contradictory paths (repeated tests of the same value)
		ps := c.P.FindPathPS(from, func(in ssa.Instruction) bool { return in == target }, cut, nil)
		if ps == nil {
			c.Ok(rule, construct, target.Pos(), "in %s every consistent path to the target passes: %s (paths avoiding it contradict an earlier test of the same value)", c.P.FnName(fn), what)
			return true
		}
		if ps.Exhausted {
			c.Unk(rule, construct, target.Pos(), "in %s the path-sensitive search exceeded its state budget; cannot decide: %s", c.P.FnName(fn), what)
			return false
		}
		c.Bad(rule, construct, target.Pos(), "in %s a path reaches the target without passing the guard (%s): %s",
			c.P.FnName(fn), what, c.P.PathString(ps.Path))
		return false
	}
	c.Ok(rule, construct, target.Pos(), "in %s every path to the target passes: %s", c.P.FnName(fn), what)
	return true
}

// NilOnlyVia is the phi-edge form of K1: value v, used by instruction `use`, can be nil
// there only on paths that cross the cut.
func (c *Ctx) NilOnlyVia(rule, construct string, v ssa.Value, use ssa.Instruction, cut *Cut, what string) bool {
	fn := use.Parent()
	c.Touch(fn)
	if cut == nil || cut.Size() == 0 {
		c.Bad(rule, construct, use.Pos(), "guard not found in %s: %s", c.P.FnName(fn), what)
		return false
	}
	ps := c.P.FindPathPS(Entry(fn), func(in ssa.Instruction) bool { return in == use }, cut,
		func(env *PSEnv, _ ssa.Instruction) bool { return env.MayBeNil(v) })
	if ps != nil {
		c.Bad(rule, construct, use.Pos(), "in %s the value can be nil without passing the guard (%s): %s", c.P.FnName(fn), what, c.P.PathString(ps.Path))
		return false
	}
	c.Ok(rule, construct, use.Pos(), "in %s the value is nil only on paths through: %s", c.P.FnName(fn), what)
	return true
}

// MustPassAll applies MustPass from function entry for several guards (conjunction).
func (c *Ctx) MustPassAll(rule, construct string, target ssa.Instruction, guards map[string]*Cut) bool {
	ok := true
	for _, name := range sortedKeys(guards) {
		if !c.MustPass(rule, construct+"/"+name, Entry(target.Parent()), target, guards[name], name) {
			ok = false
		}
	}
	return ok
}

func sortedKeys[V any](m map[string]V) []string {
	var ks []string
	for k := range m {
		ks = append(ks, k)
	}
	for i := range ks {
		for j := i + 1; j < len(ks); j++ {
			if ks[j] < ks[i] {
				ks[i], ks[j] = ks[j], ks[i]
			}
		}
	}
	return ks
}

// OneCall returns the single call in fn (not in nested literals) to one of the named
// callees; it records an undecided obligation if there is not exactly one.
func (c *Ctx) OneCall(rule string, fn *ssa.Function, names ...string) ssa.CallInstruction {
	cs := c.P.CallsTo(fn, names...)
	if len(cs) != 1 {
		c.Unk(rule, fmt.Sprintf("anchor:%s→%s", c.P.FnName(fn), names[0]), fn.Pos(),
			"expected exactly one call of %v in %s, found %d", names, c.P.FnName(fn), len(cs))
		return nil
	}
	return cs[0]
}

// SomeCalls returns the calls in fn to the named callees, recording an undecided
// obligation if there are none.
func (c *Ctx) SomeCalls(rule string, fn *ssa.Function, names ...string) []ssa.CallInstruction {
	cs := c.P.CallsTo(fn, names...)
	if len(cs) == 0 {
		c.Unk(rule, fmt.Sprintf("anchor:%s→%s", c.P.FnName(fn), names[0]), fn.Pos(),
			"expected a call of %v in %s, found none", names, c.P.FnName(fn))
	}
	return cs
}

// SuccessCut builds the cut "the error result of call was nil".
func SuccessCut(calls ...ssa.CallInstruction) *Cut {
	cut := NewCut()
	for _, call := range calls {
		if call != nil {
			cut.AddEdges(SuccessEdges(call)...)
		}
	}
	return cut
}

// ResultCut builds the cut "result idx of the call had boolean value val".
func ResultCut(val bool, idx int, calls ...ssa.CallInstruction) *Cut {
	cut := NewCut()
	for _, call := range calls {
		if call != nil {
			cut.AddEdges(ResultEdges(call, idx, val)...)
		}
	}
	return cut
}

// CallCut builds the node cut "one of these calls was executed".
func CallCut(calls ...ssa.CallInstruction) *Cut {
	cut := NewCut()
	for _, call := range calls {
		if call != nil {
			cut.AddInstrs(call.(ssa.Instruction))
		}
	}
	return cut
}

// Union merges cuts.
func Union(cuts ...*Cut) *Cut {
	out := NewCut()
	for _, c := range cuts {
		if c == nil {
			continue
		}
		for e := range c.Edges {
			out.Edges[e] = true
		}
		for i := range c.Instrs {
			out.Instrs[i] = true
		}
	}
	return out
}

// CmpEdges collects the edges on which a comparison matched by `match` has the given
// outcome. match receives (op, x, y) of each atomic comparison and returns
// (matches, outcome-of-the-comparison-on-the-wanted-edge).
func CmpEdges(fn *ssa.Function, match func(op token.Token, x, y ssa.Value) (bool, bool)) []EdgeKey {
	return CondEdges(fn, func(cond ssa.Value) (bool, bool) {
		op, x, y, ok := Cmp(cond)
		if !ok {
			return false, false
		}
		return match(op, x, y)
	})
}

// IsLenOf reports whether v is len(x) for an x satisfying pred.
func IsLenOf(v ssa.Value, pred func(ssa.Value) bool) bool {
	call, ok := v.(*ssa.Call)
	if !ok {
		return false
	}
	b, ok := call.Call.Value.(*ssa.Builtin)
	if !ok || b.Name() != "len" || len(call.Call.Args) != 1 {
		return false
	}
	return pred(call.Call.Args[0])
}

// IsCallOf reports whether v is (a result of) a call to one of the named callees.
func (p *Prog) IsCallOf(v ssa.Value, names ...string) bool {
	v = Strip(v)
	if e, ok := v.(*ssa.Extract); ok {
		v = e.Tuple
	}
	call, ok := v.(*ssa.Call)
	if !ok {
		return false
	}
	n := p.CalleeName(call)
	for _, x := range names {
		if n == x {
			return true
		}
	}
	return false
}

// IsParam returns a predicate for "is parameter number i of fn (or a load of it)".
func IsParam(fn *ssa.Function, name string) func(ssa.Value) bool {
	return func(v ssa.Value) bool {
		v = Strip(v)
		if p, ok := v.(*ssa.Parameter); ok {
			return p.Parent() == fn && (p.Name() == name || LogicalName(p) == name)
		}
		// a parameter captured by a closure is spilled to a heap cell at entry
		if ld, ok := v.(*ssa.UnOp); ok && ld.Op == token.MUL {
			if a, ok := ld.X.(*ssa.Alloc); ok {
				return SpilledParam(a) != nil && SpilledParam(a).Parent() == fn && (SpilledParam(a).Name() == name || LogicalName(SpilledParam(a)) == name)
			}
		}
		return false
	}
}

// ConstInt returns the integer value of a constant.
func ConstInt(v ssa.Value) (int64, bool) {
	k, ok := v.(*ssa.Const)
	if !ok || k.Value == nil {
		return 0, false
	}
	if b, isB := k.Type().Underlying().(*types.Basic); !isB || b.Info()&types.IsInteger == 0 {
		return 0, false
	}
	return k.Int64(), true
}

// LoadsField reports whether v is a load of field `field` (a *types.Var) of some struct.
func LoadsField(v ssa.Value, field *types.Var) bool {
	v = Strip(v)
	switch x := v.(type) {
	case *ssa.UnOp:
		if x.Op == token.MUL {
			if fa, ok := x.X.(*ssa.FieldAddr); ok {
				return FieldVar(fa.X.Type(), fa.Field) == field
			}
		}
	case *ssa.Field:
		return FieldVar(x.X.Type(), x.Field) == field
	}
	return false
}

// FieldEdges collects the edges on which the boolean field `field` has value val
// (conditions `x.F` / `!x.F`).
func FieldEdges(fn *ssa.Function, field *types.Var, val bool) []EdgeKey {
	return BoolEdges(fn, func(v ssa.Value) bool { return LoadsField(v, field) }, val)
}

// PanicOrReturnOnly reports whether, starting at edge e, control inevitably reaches a
// panic or return without executing an instruction satisfying `bad`.
func ReachesFrom(b *ssa.BasicBlock, isTarget func(ssa.Instruction) bool) bool {
	return FindPathF(Loc{b, 0}, isTarget, nil) != nil
}

// DerivedBoolEdges returns the edges on which the boolean `root` is known to have value
// val although the branch tests a value computed from it with !, && or || (a phi whose other
// incoming values are all the same constant): on the edge where the phi differs from that
// constant it carries the non-constant operand.
func DerivedBoolEdges(fn *ssa.Function, isRoot func(ssa.Value) bool, val bool) []EdgeKey {
	var out []EdgeKey
	for _, b := range fn.Blocks {
		if len(b.Instrs) == 0 {
			continue
		}
		ifi, ok := b.Instrs[len(b.Instrs)-1].(*ssa.If)
		if !ok {
			continue
		}
		cond, neg := Unnot(ifi.Cond)
		phi, ok := cond.(*ssa.Phi)
		if !ok {
			continue
		}
		var nonConst ssa.Value
		constVal, haveConst, mixed := false, false, false
		for _, e := range phi.Edges {
			if k, isK := e.(*ssa.Const); isK && k.Value != nil {
				v := k.Value.String() == "true"
				if haveConst && v != constVal {
					mixed = true
				}
				constVal, haveConst = v, true
				continue
			}
			if nonConst != nil && nonConst != e {
				mixed = true
			}
			nonConst = e
		}
		if mixed || !haveConst || nonConst == nil {
			continue
		}
		inner, ineg := Unnot(nonConst)
		// nested derivation (phi of phi)
		if !isRoot(inner) {
			continue
		}
		// on the edge where phi == !constVal the non-constant operand has value !constVal
		operandVal := !constVal
		rootVal := operandVal != ineg
		if rootVal == val {
			out = append(out, IfEdge(b, neg, !constVal))
		}
	}
	return out
}
