package eng

import (
	"fmt"
	"go/ast"
	"go/constant"
	"go/token"
	"go/types"
)

// EvalInt evaluates an integer-valued package-level constant or variable initialiser
// ("internal/repository/pack.MaxHeaderEntries"). It understands constants known to the
// type checker, + - * / on integers, parentheses, integer conversions, references to other
// package-level vars/consts, len of arrays, and encoding/binary.Size(T(k)) for basic T.
func (p *Prog) EvalInt(name string) (int64, error) {
	obj := p.Obj(name)
	if obj == nil {
		return 0, fmt.Errorf("%s does not resolve", name)
	}
	return p.evalObj(obj, 0)
}

func (p *Prog) evalObj(obj types.Object, depth int) (int64, error) {
	if depth > 12 {
		return 0, fmt.Errorf("initialiser recursion too deep at %s", obj.Name())
	}
	switch o := obj.(type) {
	case *types.Const:
		v, ok := constant.Int64Val(constant.ToInt(o.Val()))
		if !ok {
			return 0, fmt.Errorf("constant %s is not an integer", o.Name())
		}
		return v, nil
	case *types.Var:
		pk := p.ByPath[o.Pkg().Path()]
		if pk == nil {
			return 0, fmt.Errorf("package of %s not loaded from source", o.Name())
		}
		for _, f := range pk.Syntax {
			for _, d := range f.Decls {
				gd, ok := d.(*ast.GenDecl)
				if !ok || gd.Tok != token.VAR {
					continue
				}
				for _, sp := range gd.Specs {
					vs := sp.(*ast.ValueSpec)
					for i, n := range vs.Names {
						if pk.TypesInfo.Defs[n] == obj && i < len(vs.Values) {
							return p.evalExpr(pk.TypesInfo, vs.Values[i], depth+1)
						}
					}
				}
			}
		}
		return 0, fmt.Errorf("no initialiser found for var %s", o.Name())
	}
	return 0, fmt.Errorf("%s is neither const nor var", obj.Name())
}

func (p *Prog) evalExpr(info *types.Info, e ast.Expr, depth int) (int64, error) {
	if tv, ok := info.Types[e]; ok && tv.Value != nil {
		if v, exact := constant.Int64Val(constant.ToInt(tv.Value)); exact {
			return v, nil
		}
	}
	switch x := e.(type) {
	case *ast.ParenExpr:
		return p.evalExpr(info, x.X, depth)
	case *ast.Ident:
		if o := info.Uses[x]; o != nil {
			return p.evalObj(o, depth+1)
		}
	case *ast.SelectorExpr:
		if o := info.Uses[x.Sel]; o != nil {
			return p.evalObj(o, depth+1)
		}
	case *ast.BinaryExpr:
		a, err := p.evalExpr(info, x.X, depth)
		if err != nil {
			return 0, err
		}
		b, err := p.evalExpr(info, x.Y, depth)
		if err != nil {
			return 0, err
		}
		switch x.Op {
		case token.ADD:
			return a + b, nil
		case token.SUB:
			return a - b, nil
		case token.MUL:
			return a * b, nil
		case token.QUO:
			if b == 0 {
				return 0, fmt.Errorf("division by zero")
			}
			return a / b, nil
		case token.SHL:
			return a << uint(b), nil
		}
	case *ast.CallExpr:
		// conversion T(x)
		if tv, ok := info.Types[x.Fun]; ok && tv.IsType() && len(x.Args) == 1 {
			return p.evalExpr(info, x.Args[0], depth)
		}
		// binary.Size(v) for a value of basic (fixed-size) type
		if sel, ok := x.Fun.(*ast.SelectorExpr); ok && len(x.Args) == 1 {
			if fo, ok := info.Uses[sel.Sel].(*types.Func); ok && fo.Pkg() != nil && fo.Pkg().Path() == "encoding/binary" && fo.Name() == "Size" {
				t := info.TypeOf(x.Args[0])
				if b, ok := t.Underlying().(*types.Basic); ok {
					switch b.Kind() {
					case types.Uint8, types.Int8, types.Bool:
						return 1, nil
					case types.Uint16, types.Int16:
						return 2, nil
					case types.Uint32, types.Int32, types.Float32:
						return 4, nil
					case types.Uint64, types.Int64, types.Float64:
						return 8, nil
					}
				}
			}
		}
		// len(x) of an array type
		if id, ok := x.Fun.(*ast.Ident); ok && id.Name == "len" && len(x.Args) == 1 {
			if at, ok := info.TypeOf(x.Args[0]).Underlying().(*types.Array); ok {
				return at.Len(), nil
			}
		}
	}
	return 0, fmt.Errorf("cannot evaluate %T at %s", e, p.Pos(e.Pos()))
}
