package eng

import (
	"fmt"
	"go/token"
	"sort"
	"strings"

	"golang.org/x/tools/go/ssa"
)

// PSEnv is the per-path knowledge of the light path-sensitive search: which value each
// phi currently stands for, which values are known nil / non-nil, and the outcome of
// comparisons over stable operands that the path already decided.
type PSEnv struct {
	p       *Prog
	alias   map[*ssa.Phi]ssa.Value
	nilness map[ssa.Value]bool // true = nil
	conds   map[string]bool
	// sticky holds seeded facts (specialisation); never forgotten, shared by all clones
	sticky map[string]bool
	// stickyNil: seeded nil-ness of values, valid wherever the value is (re)computed
	stickyNil map[ssa.Value]bool
}

func newEnv(p *Prog) *PSEnv {
	return &PSEnv{p: p, alias: map[*ssa.Phi]ssa.Value{}, nilness: map[ssa.Value]bool{}, conds: map[string]bool{}}
}

func (e *PSEnv) clone() *PSEnv {
	n := newEnv(e.p)
	n.sticky = e.sticky
	n.stickyNil = e.stickyNil
	for k, v := range e.alias {
		n.alias[k] = v
	}
	for k, v := range e.nilness {
		n.nilness[k] = v
	}
	for k, v := range e.conds {
		n.conds[k] = v
	}
	return n
}

// Resolve follows phi bindings and value-preserving wrappers.
func (e *PSEnv) Resolve(v ssa.Value) ssa.Value {
	for i := 0; i < 32; i++ {
		switch x := v.(type) {
		case *ssa.Phi:
			if a, ok := e.alias[x]; ok {
				v = a
				continue
			}
			return v
		case *ssa.ChangeInterface:
			v = x.X
			continue
		case *ssa.ChangeType:
			v = x.X
			continue
		case *ssa.UnOp:
			// a load of a local / captured variable with exactly one reaching store is that
			// stored value (stores made by callees through a captured reference between the
			// store and the load are not seen: documented imprecision)
			if x.Op == token.MUL {
				if sts, zero, ok := ReachingStores(x); ok && !zero && len(sts) == 1 {
					v = sts[0].Val
					continue
				}
			}
		}
		return v
	}
	return v
}

// Nil reports what the path knows about v: (isNil, known).
func (e *PSEnv) Nil(v ssa.Value) (bool, bool) {
	if n, ok := e.stickyNil[v]; ok {
		return n, true
	}
	r := e.Resolve(v)
	if n, ok := e.stickyNil[r]; ok {
		return n, true
	}
	switch x := r.(type) {
	case *ssa.Const:
		if x.IsNil() {
			return true, true
		}
		return false, true
	case *ssa.MakeInterface, *ssa.Alloc, *ssa.MakeClosure, *ssa.MakeMap, *ssa.MakeSlice, *ssa.MakeChan, *ssa.FieldAddr, *ssa.IndexAddr, *ssa.Function:
		return false, true
	case *ssa.Call:
		if e.p != nil {
			name := e.p.CalleeName(x)
			if neverNil[name] {
				return false, true
			}
			// errors.Wrap(err, …) is nil exactly when err is nil
			if nilPreserving[name] && len(x.Call.Args) > 0 {
				return e.Nil(x.Call.Args[0])
			}
		}
	case *ssa.UnOp:
		if x.Op == token.MUL {
			if g, ok := x.X.(*ssa.Global); ok && strings.HasPrefix(strings.ToLower(g.Name()), "err") {
				return false, true
			}
		}
	}
	if n, ok := e.nilness[r]; ok {
		return n, true
	}
	return false, false
}

// MayBeNil reports whether v can be nil on this path (unknown counts as may-be-nil).
func (e *PSEnv) MayBeNil(v ssa.Value) bool {
	n, known := e.Nil(v)
	return !known || n
}

// stable: an SSA value never changes once defined (re-execution in a loop is handled by
// forget), so every operand can key a remembered comparison.
func stable(v ssa.Value) bool {
	if v != nil {
		return true
	}
	switch x := v.(type) {
	case *ssa.Parameter, *ssa.Const, *ssa.FreeVar, *ssa.Call, *ssa.Extract, *ssa.Phi, *ssa.Function, *ssa.Global:
		return true
	case *ssa.UnOp:
		// load of a package-level variable (sentinel errors, options) or negation of a stable value
		if x.Op == token.MUL {
			_, isG := x.X.(*ssa.Global)
			return isG
		}
		return stable(x.X)
	case *ssa.BinOp:
		return stable(x.X) && stable(x.Y)
	case *ssa.Field:
		return stable(x.X)
	}
	return false
}

func (e *PSEnv) valKey(v ssa.Value) string { return e.valKeyD(v, 0) }

func (e *PSEnv) valKeyD(v ssa.Value, d int) string {
	if d > 6 {
		// loop-carried values (i = i + 1) alias to expressions over themselves
		return v.Name()
	}
	v = e.Resolve(v)
	switch x := v.(type) {
	case *ssa.Const:
		return "k:" + x.String()
	case *ssa.Global:
		return "g:" + x.String()
	case *ssa.UnOp:
		if x.Op == token.MUL {
			if g, ok := x.X.(*ssa.Global); ok {
				return "*g:" + g.String()
			}
		}
		return x.Op.String() + "(" + e.valKeyD(x.X, d+1) + ")"
	case *ssa.BinOp:
		return "(" + e.valKeyD(x.X, d+1) + x.Op.String() + e.valKeyD(x.Y, d+1) + ")"
	case *ssa.Field:
		return e.valKeyD(x.X, d+1) + fmt.Sprintf(".%d", x.Field)
	case *ssa.Call:
		if b, ok := x.Call.Value.(*ssa.Builtin); ok && b.Name() == "len" && len(x.Call.Args) == 1 && stableDeep(e, x.Call.Args[0]) {
			return "len(" + e.valKeyD(x.Call.Args[0], d+1) + ")"
		}
	}
	return v.Name()
}

func stableDeep(e *PSEnv, v ssa.Value) bool { return stable(e.Resolve(v)) }

// condKey canonicalises a condition over stable operands; ok=false if it has none.
func (e *PSEnv) condKey(cond ssa.Value) (key string, negated bool, ok bool) {
	c, neg := Unnot(cond)
	c = e.Resolve(c)
	if c2, neg2 := Unnot(c); neg2 {
		c, neg = c2, !neg
	}
	if op, x, y, isCmp := Cmp(c); isCmp {
		rx, ry := e.Resolve(x), e.Resolve(y)
		if !stable(rx) || !stable(ry) {
			return "", false, false
		}
		kx, ky := e.valKey(rx), e.valKey(ry)
		switch op {
		case token.NEQ:
			op, neg = token.EQL, !neg
		case token.GEQ:
			op, neg = token.LSS, !neg
		case token.LEQ:
			op, neg = token.GTR, !neg
		}
		if op == token.EQL && kx > ky {
			kx, ky = ky, kx
		}
		if op == token.GTR { // x > y  ≡  y < x
			op, kx, ky = token.LSS, ky, kx
		}
		return kx + op.String() + ky, neg, true
	}
	if stable(c) {
		return "v:" + e.valKey(c), neg, true
	}
	return "", false, false
}

// assume applies "cond has value val" to the environment; false if contradictory.
func (e *PSEnv) assume(cond ssa.Value, val bool) bool {
	c, neg := Unnot(cond)
	if neg {
		val = !val
	}
	c = e.Resolve(c)
	if k, ok := c.(*ssa.Const); ok && k.Value != nil {
		return (k.Value.String() == "true") == val
	}
	// seeded facts (the scenario being evaluated) take precedence over anything inferred
	if len(e.sticky) > 0 {
		if key, kneg, ok := e.condKey(c); ok {
			if fixed, seeded := e.sticky[key]; seeded {
				return fixed == (val != kneg)
			}
		}
		// facts are seeded before any phi is bound: also look the condition up as written
		raw := &PSEnv{p: e.p, alias: map[*ssa.Phi]ssa.Value{}, nilness: map[ssa.Value]bool{}, conds: map[string]bool{}}
		if key, kneg, ok := raw.condKey(c); ok {
			if fixed, seeded := e.sticky[key]; seeded {
				return fixed == (val != kneg)
			}
		}
	}
	// comparisons of integer constants (loop counters of `for range N`) are decided outright
	if op, x, y, isCmp := Cmp(c); isCmp {
		if a, okA := e.intValue(x, 0); okA {
			if b, okB := e.intValue(y, 0); okB {
				var res bool
				switch op {
				case token.EQL:
					res = a == b
				case token.NEQ:
					res = a != b
				case token.LSS:
					res = a < b
				case token.LEQ:
					res = a <= b
				case token.GTR:
					res = a > b
				case token.GEQ:
					res = a >= b
				}
				return res == val
			}
		}
	}
	if op, x, y, isCmp := Cmp(c); isCmp && (op == token.EQL || op == token.NEQ) {
		var other ssa.Value
		if IsNilConst(e.Resolve(x)) {
			other = y
		} else if IsNilConst(e.Resolve(y)) {
			other = x
		}
		if other != nil {
			wantNil := (op == token.EQL) == val
			if n, known := e.Nil(other); known {
				return n == wantNil
			}
			e.nilness[e.Resolve(other)] = wantNil
			return true
		}
	}
	if key, kneg, ok := e.condKey(c); ok {
		v := val != kneg
		if fixed, seeded := e.sticky[key]; seeded {
			return fixed == v
		}
		if old, seen := e.conds[key]; seen {
			return old == v
		}
		e.conds[key] = v
	}
	return true
}

// forget drops knowledge about a value that is being (re)defined.
func (e *PSEnv) forget(v ssa.Value) {
	delete(e.nilness, v)
	name := v.Name()
	for k := range e.conds {
		if strings.Contains(k, name) {
			// names are like t12; avoid dropping t120 when forgetting t12
			if containsToken(k, name) {
				delete(e.conds, k)
			}
		}
	}
}

func containsToken(s, tok string) bool {
	for i := 0; ; {
		j := strings.Index(s[i:], tok)
		if j < 0 {
			return false
		}
		end := i + j + len(tok)
		if end >= len(s) || s[end] < '0' || s[end] > '9' {
			return true
		}
		i = end
	}
}

func (e *PSEnv) key() string {
	var parts []string
	for k, v := range e.alias {
		parts = append(parts, "a"+k.Name()+"="+v.Name())
	}
	for k, v := range e.nilness {
		parts = append(parts, fmt.Sprintf("n%s=%v", k.Name(), v))
	}
	for k, v := range e.conds {
		parts = append(parts, fmt.Sprintf("c%s=%v", k, v))
	}
	sort.Strings(parts)
	return strings.Join(parts, ";")
}

// PSResult is the outcome of a path-sensitive search.
type PSResult struct {
	Path      []*ssa.BasicBlock
	Env       *PSEnv
	Exhausted bool // state budget exceeded: the result is the conservative "path exists"
}

// FindPathPS is FindPathF with pruning of paths that contradict themselves: it tracks phi
// bindings, nil-ness of values established by nil tests and the outcome of repeated
// comparisons over stable operands. accept (optional) is consulted when the target is
// reached and may reject the path based on what is known. It returns nil if no consistent
// path exists.
func (p *Prog) FindPathPS(from Loc, isTarget func(ssa.Instruction) bool, cut *Cut, accept func(env *PSEnv, target ssa.Instruction) bool) *PSResult {
	return p.FindPathSeeded(from, isTarget, cut, accept, nil)
}

// Assume records that the boolean SSA value cond has value val on every explored path
// (specialisation of a parameter, option or input byte); false if contradictory.
func (e *PSEnv) Assume(cond ssa.Value, val bool) bool {
	c, neg := Unnot(cond)
	if neg {
		val = !val
	}
	key, kneg, ok := e.condKey(c)
	if !ok {
		return false
	}
	if e.sticky == nil {
		e.sticky = map[string]bool{}
	}
	v := val != kneg
	if old, seen := e.sticky[key]; seen && old != v {
		return false
	}
	e.sticky[key] = v
	return true
}

// FindPathSeeded is FindPathPS with an initial environment prepared by seed.
func (p *Prog) FindPathSeeded(from Loc, isTarget func(ssa.Instruction) bool, cut *Cut, accept func(env *PSEnv, target ssa.Instruction) bool, seed func(env *PSEnv)) *PSResult {
	if cut == nil {
		cut = NewCut()
	}
	type state struct {
		b    *ssa.BasicBlock
		i    int
		env  *PSEnv
		path []*ssa.BasicBlock
	}
	const maxStates = 40000
	// blocks from which a target is reachable at all (path-insensitively, respecting the
	// cut): everything else is pruned at once
	canReach := map[*ssa.BasicBlock]bool{}
	{
		fn := from.B.Parent()
		var work []*ssa.BasicBlock
		for _, b := range fn.Blocks {
			for _, in := range b.Instrs {
				if isTarget(in) {
					if !canReach[b] {
						canReach[b] = true
						work = append(work, b)
					}
					break
				}
			}
		}
		for len(work) > 0 {
			b := work[len(work)-1]
			work = work[:len(work)-1]
			for _, pr := range b.Preds {
				if canReach[pr] || cut.Edges[EdgeKey{pr.Index, b.Index}] {
					continue
				}
				canReach[pr] = true
				work = append(work, pr)
			}
		}
	}
	visited := map[string]bool{}
	env0 := newEnv(p)
	if seed != nil {
		seed(env0)
	}
	stack := []state{{from.B, from.I, env0, []*ssa.BasicBlock{from.B}}}
	n := 0
	for len(stack) > 0 {
		st := stack[len(stack)-1]
		stack = stack[:len(stack)-1]
		n++
		if n > maxStates {
			return &PSResult{Path: st.path, Env: st.env, Exhausted: true}
		}
		b, env := st.b, st.env
		blocked := false
		for i := st.i; i < len(b.Instrs); i++ {
			in := b.Instrs[i]
			if isTarget(in) {
				if accept == nil || accept(env, in) {
					return &PSResult{Path: st.path, Env: env}
				}
				blocked = true
				break
			}
			if cut.Instrs[in] {
				blocked = true
				break
			}
			if v, ok := in.(ssa.Value); ok {
				if _, isPhi := in.(*ssa.Phi); !isPhi {
					env.forget(v)
				}
			}
		}
		if blocked || len(b.Instrs) == 0 {
			continue
		}
		term := b.Instrs[len(b.Instrs)-1]
		type succ struct {
			to  *ssa.BasicBlock
			env *PSEnv
		}
		var succs []succ
		switch t := term.(type) {
		case *ssa.If:
			for k, s := range b.Succs {
				if cut.Edges[EdgeKey{b.Index, s.Index}] {
					continue
				}
				ne := env.clone()
				if !ne.assume(t.Cond, k == 0) {
					continue
				}
				succs = append(succs, succ{s, ne})
			}
		default:
			for _, s := range b.Succs {
				if cut.Edges[EdgeKey{b.Index, s.Index}] {
					continue
				}
				succs = append(succs, succ{s, env.clone()})
			}
		}
		for _, s := range succs {
			if !canReach[s.to] {
				continue
			}
			// bind phis of the successor simultaneously
			predIdx := -1
			for i, pr := range s.to.Preds {
				if pr == b {
					predIdx = i
					break
				}
			}
			if predIdx >= 0 {
				newAlias := map[*ssa.Phi]ssa.Value{}
				for _, in := range s.to.Instrs {
					phi, ok := in.(*ssa.Phi)
					if !ok {
						break
					}
					newAlias[phi] = s.env.Resolve(phi.Edges[predIdx])
				}
				for phi, v := range newAlias {
					s.env.forget(phi)
					if v == ssa.Value(phi) {
						delete(s.env.alias, phi)
					} else {
						s.env.alias[phi] = v
					}
				}
			}
			key := fmt.Sprintf("%d|%s", s.to.Index, s.env.key())
			if visited[key] {
				continue
			}
			visited[key] = true
			np := append(append([]*ssa.BasicBlock(nil), st.path...), s.to)
			stack = append(stack, state{s.to, 0, s.env, np})
		}
	}
	return nil
}
