package eng

import (
	"go/token"

	"golang.org/x/tools/go/ssa"
)

// OriginOpts configures the K3 backward value-origin slice.
type OriginOpts struct {
	// Through lists calls that pass a value through: callee name → indices of the explicit
	// arguments whose origin is the origin of the result (-1 = receiver).
	Through map[string][]int
	// P is needed to name callees.
	P *Prog
}

// Origins returns the root values v may originate from, following phis, slices,
// conversions, interface wrapping, loads of local variables (reaching stores), loads of
// fields of local structs (all stores to that field in the function), builtin append/copy
// sources and the configured pass-through calls. Roots are calls, parameters, free
// variables, constants, globals, allocations and loads from non-local memory.
func Origins(v ssa.Value, o *OriginOpts) []ssa.Value {
	var out []ssa.Value
	seen := map[ssa.Value]bool{}
	var rec func(v ssa.Value, d int)
	add := func(v ssa.Value) {
		for _, x := range out {
			if x == v {
				return
			}
		}
		out = append(out, v)
	}
	rec = func(v ssa.Value, d int) {
		if v == nil || seen[v] {
			return
		}
		seen[v] = true
		if d > 40 {
			add(v)
			return
		}
		switch x := v.(type) {
		case *ssa.Phi:
			for _, e := range x.Edges {
				rec(e, d+1)
			}
		case *ssa.Slice:
			rec(x.X, d+1)
		case *ssa.Convert:
			rec(x.X, d+1)
		case *ssa.ChangeType:
			rec(x.X, d+1)
		case *ssa.ChangeInterface:
			rec(x.X, d+1)
		case *ssa.MakeInterface:
			rec(x.X, d+1)
		case *ssa.TypeAssert:
			rec(x.X, d+1)
		case *ssa.UnOp:
			if x.Op != token.MUL {
				add(v)
				return
			}
			switch a := x.X.(type) {
			case *ssa.Alloc:
				sts, zero, ok := ReachingStores(x)
				if !ok {
					add(v)
					return
				}
				if zero {
					add(a)
				}
				for _, st := range sts {
					rec(st.Val, d+1)
				}
			case *ssa.FieldAddr:
				if base, ok := a.X.(*ssa.Alloc); ok {
					n := 0
					for _, b := range base.Parent().Blocks {
						for _, in := range b.Instrs {
							st, isSt := in.(*ssa.Store)
							if !isSt {
								continue
							}
							if fa, isFA := st.Addr.(*ssa.FieldAddr); isFA && fa.X == base && fa.Field == a.Field {
								rec(st.Val, d+1)
								n++
							}
						}
					}
					if n == 0 {
						add(v)
					}
					return
				}
				add(v)
			case *ssa.FreeVar:
				// a captured variable of the enclosing function
				add(a)
			default:
				add(v)
			}
		case *ssa.Extract:
			if call, ok := x.Tuple.(*ssa.Call); ok && o != nil && o.P != nil {
				if idx, through := o.Through[o.P.CalleeName(call)]; through {
					followArgs(call, idx, func(a ssa.Value) { rec(a, d+1) })
					return
				}
			}
			add(v)
		case *ssa.Call:
			if b, ok := x.Call.Value.(*ssa.Builtin); ok {
				switch b.Name() {
				case "append":
					for _, a := range x.Call.Args {
						rec(a, d+1)
					}
					return
				}
			}
			if o != nil && o.P != nil {
				if idx, through := o.Through[o.P.CalleeName(x)]; through {
					followArgs(x, idx, func(a ssa.Value) { rec(a, d+1) })
					return
				}
			}
			add(v)
		default:
			add(v)
		}
	}
	rec(v, 0)
	return out
}

func followArgs(call *ssa.Call, idx []int, f func(ssa.Value)) {
	for _, i := range idx {
		if i < 0 {
			if r := Recv(call); r != nil {
				f(r)
			}
			continue
		}
		if a := Arg(call, i); a != nil {
			f(a)
		}
	}
}

// Describe renders a root value for diagnostics.
func (p *Prog) Describe(v ssa.Value) string {
	switch x := v.(type) {
	case *ssa.Call:
		return "call:" + p.CalleeName(x)
	case *ssa.Extract:
		if c, ok := x.Tuple.(*ssa.Call); ok {
			return "call:" + p.CalleeName(c)
		}
	case *ssa.Parameter:
		return "param:" + LogicalName(x)
	case *ssa.FreeVar:
		return "free:" + LogicalName(x)
	case *ssa.Const:
		return "const:" + x.String()
	case *ssa.Global:
		return "global:" + x.Name()
	case *ssa.Alloc:
		return "alloc:" + x.Comment
	case *ssa.MakeSlice:
		return "make"
	}
	if d := p.ValueDesc(v); d != "" {
		return d
	}
	return v.String()
}

// RootCall returns the call a root value is a result of (nil otherwise).
func RootCall(v ssa.Value) *ssa.Call {
	switch x := v.(type) {
	case *ssa.Call:
		return x
	case *ssa.Extract:
		if c, ok := x.Tuple.(*ssa.Call); ok {
			return c
		}
	}
	return nil
}

// Uses lists the instructions that use v directly or through value-preserving wrappers,
// phis, slices and appends (forward closure within the function).
func Uses(v ssa.Value) []ssa.Instruction {
	var out []ssa.Instruction
	seen := map[ssa.Value]bool{}
	var rec func(v ssa.Value)
	rec = func(v ssa.Value) {
		if seen[v] {
			return
		}
		seen[v] = true
		refs := v.Referrers()
		if refs == nil {
			return
		}
		for _, r := range *refs {
			out = append(out, r)
			switch x := r.(type) {
			case *ssa.Phi, *ssa.Slice, *ssa.Convert, *ssa.ChangeType, *ssa.ChangeInterface, *ssa.MakeInterface:
				rec(x.(ssa.Value))
			case *ssa.Call:
				if b, ok := x.Call.Value.(*ssa.Builtin); ok && b.Name() == "append" {
					rec(x)
				}
			case *ssa.Store:
				// stored into a local variable: follow the loads
				if a, ok := x.Addr.(*ssa.Alloc); ok && x.Val == v {
					for _, ar := range *a.Referrers() {
						if ld, ok := ar.(*ssa.UnOp); ok && ld.Op == token.MUL {
							rec(ld)
						}
					}
				}
			}
		}
	}
	rec(v)
	return out
}

// InLoopWith reports whether instructions a and b lie on a common CFG cycle that does
// not re-execute def (i.e. b can be reached again from itself without passing def).
func ReExecutableWithout(b ssa.Instruction, def ssa.Instruction) bool {
	cut := NewCut().AddInstrs(def)
	return FindPath(After(b), b, cut) != nil
}
