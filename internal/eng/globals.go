package eng

import (
	"sort"
	"strings"

	"golang.org/x/tools/go/ssa"
)

// Global resolves "<short pkg>.<Name>" to the package-level variable (nil if absent).
func (p *Prog) Global(name string) *ssa.Global {
	i := strings.LastIndex(name, ".")
	if i < 0 {
		return nil
	}
	pkg, n := name[:i], name[i+1:]
	for path, sp := range p.SSAPkg {
		if Short(path) != pkg || sp == nil {
			continue
		}
		if g, ok := sp.Members[n].(*ssa.Global); ok {
			return g
		}
	}
	return nil
}

// GlobalName is the inverse of Global.
func GlobalName(g *ssa.Global) string {
	if g == nil || g.Pkg == nil {
		return ""
	}
	return Short(g.Pkg.Pkg.Path()) + "." + g.Name()
}

// GlobalStores lists the stores to a package-level variable in its package's init function
// and in every source function of the module.
func (p *Prog) GlobalStores(g *ssa.Global) []*ssa.Store {
	var out []*ssa.Store
	scan := func(fn *ssa.Function) {
		if fn == nil {
			return
		}
		for _, b := range fn.Blocks {
			for _, in := range b.Instrs {
				if st, ok := in.(*ssa.Store); ok && st.Addr == ssa.Value(g) {
					out = append(out, st)
				}
			}
		}
	}
	if g.Pkg != nil {
		scan(g.Pkg.Func("init"))
	}
	for _, fn := range p.Funcs {
		scan(fn)
	}
	return out
}

// CallsWhere lists the calls of fn satisfying pred.
func (p *Prog) CallsWhere(fn *ssa.Function, pred func(ssa.CallInstruction) bool) []ssa.CallInstruction {
	var out []ssa.CallInstruction
	for _, c := range Calls(fn) {
		if pred(c) {
			out = append(out, c)
		}
	}
	return out
}

// EdgeList returns the edges of a cut in a deterministic order.
func (c *Cut) EdgeList() []EdgeKey {
	var out []EdgeKey
	for e := range c.Edges {
		out = append(out, e)
	}
	sort.Slice(out, func(i, j int) bool {
		if out[i][0] != out[j][0] {
			return out[i][0] < out[j][0]
		}
		return out[i][1] < out[j][1]
	})
	return out
}
