package eng

import (
	"fmt"
	"go/ast"
	"go/parser"
	"go/token"
	"go/types"

	"golang.org/x/tools/go/packages"
)

type progImporter struct {
	byPath map[string]*types.Package
}

func (pi *progImporter) Import(path string) (*types.Package, error) {
	if p, ok := pi.byPath[path]; ok {
		return p, nil
	}
	return nil, fmt.Errorf("package %s not available to the witness", path)
}

// TypeCheckSnippet type-checks a synthetic source file (a compile-fail / compile-ok
// witness) against the packages of the loaded program and returns the type errors.
// Nothing is written to disk and nothing is executed.
func (p *Prog) TypeCheckSnippet(src string) ([]error, error) {
	imp := &progImporter{byPath: map[string]*types.Package{}}
	packages.Visit(p.Pkgs, nil, func(pk *packages.Package) {
		if pk.Types != nil {
			imp.byPath[pk.PkgPath] = pk.Types
		}
	})
	fset := token.NewFileSet()
	f, err := parser.ParseFile(fset, "witness.go", src, 0)
	if err != nil {
		return nil, fmt.Errorf("witness does not parse: %w", err)
	}
	var errs []error
	conf := types.Config{Importer: imp, Error: func(e error) { errs = append(errs, e) }}
	_, _ = conf.Check("witness", fset, []*ast.File{f}, nil)
	return errs, nil
}
