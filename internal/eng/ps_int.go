package eng

import (
	"go/token"

	"golang.org/x/tools/go/ssa"
)

// intValue evaluates v to an integer if it is a constant or simple arithmetic over
// constants after resolving phis along the current path.
func (e *PSEnv) intValue(v ssa.Value, d int) (int64, bool) {
	if d > 6 {
		return 0, false
	}
	v = e.Resolve(v)
	switch x := v.(type) {
	case *ssa.Const:
		return ConstInt(x)
	case *ssa.BinOp:
		a, okA := e.intValue(x.X, d+1)
		b, okB := e.intValue(x.Y, d+1)
		if !okA || !okB {
			return 0, false
		}
		switch x.Op {
		case token.ADD:
			return a + b, true
		case token.SUB:
			return a - b, true
		case token.MUL:
			return a * b, true
		}
	case *ssa.Convert:
		return e.intValue(x.X, d+1)
	}
	return 0, false
}
