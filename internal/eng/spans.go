package eng

import (
	"path/filepath"
	"sort"
)

// Span is the source extent of an analysed function (byte offsets in File, relative to the
// repository root). Used by the mutant sweep to know where the rules looked.
type Span struct {
	Func  string `json:"func"`
	File  string `json:"file"`
	Start int    `json:"start"`
	End   int    `json:"end"`
}

// Spans returns the extents of the outermost analysed functions of the restic module.
func (c *Ctx) Spans() []Span {
	seen := map[string]bool{}
	var out []Span
	for f := range c.touched {
		r := Root(f)
		if o := r.Origin(); o != nil {
			r = o
		}
		syn := r.Syntax()
		if syn == nil || !syn.Pos().IsValid() {
			continue
		}
		ps, pe := c.P.Fset.Position(syn.Pos()), c.P.Fset.Position(syn.End())
		rel, err := filepath.Rel(c.P.Cfg.RepoDir, ps.Filename)
		if err != nil || len(rel) > 1 && rel[:2] == ".." {
			continue
		}
		name := c.P.FnName(r)
		if seen[name] {
			continue
		}
		seen[name] = true
		out = append(out, Span{Func: name, File: rel, Start: ps.Offset, End: pe.Offset})
	}
	sort.Slice(out, func(i, j int) bool {
		if out[i].File != out[j].File {
			return out[i].File < out[j].File
		}
		return out[i].Start < out[j].Start
	})
	return out
}
