// Package eng is the analysis engine behind rlint: it loads the current working tree of
// restic, builds SSA and offers the reusable analyses (path cuts, call-site enumeration,
// value origin, locksets, coverage) the per-property rules are written with.
package eng

import (
	"fmt"
	"go/ast"
	"go/token"
	"go/types"
	"os"
	"path/filepath"
	"sort"
	"strings"

	"golang.org/x/tools/go/packages"
	"golang.org/x/tools/go/ssa"
	"golang.org/x/tools/go/ssa/ssautil"
)

// Mod is the module path of the analysed repository.
const Mod = "github.com/restic/restic"

// Config selects what is loaded.
type Config struct {
	RepoDir string
	GOOS    string
	GOARCH  string
	Tags    []string
	// Overlay maps absolute file names to replacement contents (mutant controls).
	Overlay map[string][]byte
	// Patterns defaults to ./cmd/... ./internal/...
	Patterns []string
}

func (c Config) String() string {
	goos, goarch := c.GOOS, c.GOARCH
	if goos == "" {
		goos = "linux"
	}
	if goarch == "" {
		goarch = "amd64"
	}
	s := goos + "/" + goarch
	if len(c.Tags) > 0 {
		s += " tags=" + strings.Join(c.Tags, ",")
	}
	return s
}

// Prog is a loaded, type-checked program in SSA form.
type Prog struct {
	Cfg    Config
	Fset   *token.FileSet
	Pkgs   []*packages.Package
	ByPath map[string]*packages.Package
	SSA    *ssa.Program
	SSAPkg map[string]*ssa.Package
	// Funcs are all source functions (incl. function literals and methods) of the
	// restic module, sorted by name then position.
	Funcs []*ssa.Function
	// Files analysed (relative to RepoDir).
	Files []string
	// IgnoredFiles are go files of the loaded packages excluded by build constraints.
	IgnoredFiles []string

	fnByName map[string]*ssa.Function
	litIndex map[*ssa.Function]string
	modTypes []*types.Named
}

// Load loads the restic packages from cfg.RepoDir. Any load or type error is returned:
// a check never passes on code it could not understand.
func Load(cfg Config) (*Prog, error) {
	if cfg.RepoDir == "" {
		cfg.RepoDir = "/repo"
	}
	pats := cfg.Patterns
	if len(pats) == 0 {
		pats = []string{"./cmd/...", "./internal/..."}
	}
	env := append(os.Environ(), "GOFLAGS=-mod=mod", "GOPROXY=off", "GOWORK=off")
	// Use the toolchain named by the repository's go.mod straight from the module cache
	// when it is there: the go command's own auto-switch breaks under GOTOOLCHAIN=local or
	// GOSUMDB=off, which a caller's environment may carry.
	if tc := repoToolchainBin(cfg.RepoDir); tc != "" {
		// exec.LookPath resolves "go" through this process's PATH, so set it here too.
		if !strings.HasPrefix(os.Getenv("PATH"), tc+string(os.PathListSeparator)) {
			_ = os.Setenv("PATH", tc+string(os.PathListSeparator)+os.Getenv("PATH"))
		}
		env = append(env, "PATH="+os.Getenv("PATH"), "GOTOOLCHAIN=local")
	}
	if cfg.GOOS != "" {
		env = append(env, "GOOS="+cfg.GOOS)
	}
	if cfg.GOARCH != "" {
		env = append(env, "GOARCH="+cfg.GOARCH)
	}
	if cfg.GOOS != "" || cfg.GOARCH != "" {
		env = append(env, "CGO_ENABLED=0")
	}
	pc := &packages.Config{
		Mode: packages.NeedName | packages.NeedFiles | packages.NeedCompiledGoFiles |
			packages.NeedImports | packages.NeedDeps | packages.NeedTypes | packages.NeedSyntax |
			packages.NeedTypesInfo | packages.NeedTypesSizes | packages.NeedModule,
		Dir:     cfg.RepoDir,
		Env:     env,
		Tests:   false,
		Overlay: cfg.Overlay,
	}
	if len(cfg.Tags) > 0 {
		pc.BuildFlags = []string{"-tags=" + strings.Join(cfg.Tags, ",")}
	}
	pkgs, err := packages.Load(pc, pats...)
	if err != nil {
		return nil, fmt.Errorf("load: %w", err)
	}
	if len(pkgs) == 0 {
		return nil, fmt.Errorf("load: no packages matched %v in %s", pats, cfg.RepoDir)
	}
	var errs []string
	packages.Visit(pkgs, nil, func(p *packages.Package) {
		if !strings.HasPrefix(p.PkgPath, Mod) {
			return
		}
		for _, e := range p.Errors {
			errs = append(errs, e.Error())
		}
	})
	if len(errs) > 0 {
		sort.Strings(errs)
		if len(errs) > 10 {
			errs = errs[:10]
		}
		return nil, fmt.Errorf("load: %d package errors: %s", len(errs), strings.Join(errs, "; "))
	}
	p := &Prog{Cfg: cfg, Fset: pkgs[0].Fset, ByPath: map[string]*packages.Package{}, SSAPkg: map[string]*ssa.Package{}}
	for _, pk := range pkgs {
		if !strings.HasPrefix(pk.PkgPath, Mod) {
			continue
		}
		p.Pkgs = append(p.Pkgs, pk)
		p.ByPath[pk.PkgPath] = pk
		for _, f := range pk.CompiledGoFiles {
			if rel, err := filepath.Rel(cfg.RepoDir, f); err == nil {
				p.Files = append(p.Files, rel)
			}
		}
		for _, f := range pk.IgnoredFiles {
			if rel, err := filepath.Rel(cfg.RepoDir, f); err == nil && strings.HasSuffix(rel, ".go") && !strings.HasSuffix(rel, "_test.go") {
				p.IgnoredFiles = append(p.IgnoredFiles, rel)
			}
		}
	}
	sort.Slice(p.Pkgs, func(i, j int) bool { return p.Pkgs[i].PkgPath < p.Pkgs[j].PkgPath })
	sort.Strings(p.Files)
	sort.Strings(p.IgnoredFiles)
	if len(p.Pkgs) < 20 {
		return nil, fmt.Errorf("load: only %d restic packages loaded (expected > 20)", len(p.Pkgs))
	}
	prog, spkgs := ssautil.Packages(pkgs, ssa.BuilderMode(0))
	for i, sp := range spkgs {
		if sp == nil {
			return nil, fmt.Errorf("ssa: no SSA package for %s", pkgs[i].PkgPath)
		}
		if strings.HasPrefix(pkgs[i].PkgPath, Mod) {
			p.SSAPkg[pkgs[i].PkgPath] = sp
		}
	}
	prog.Build()
	p.SSA = prog
	p.fnByName = map[string]*ssa.Function{}
	p.litIndex = map[*ssa.Function]string{}
	for fn := range ssautil.AllFunctions(prog) {
		// bodies of range-over-func loops are synthetic literals holding source code
		if fn.Synthetic != "" && !strings.Contains(fn.Synthetic, "instance of") && !strings.Contains(fn.Synthetic, "range-over-func") {
			continue
		}
		if len(fn.Blocks) == 0 {
			continue
		}
		root := fn
		for root.Parent() != nil {
			root = root.Parent()
		}
		if root.Origin() != nil {
			// an instantiation of a generic: analyse the generic origin instead,
			// unless the origin has no body of its own.
			continue
		}
		if root.Pkg == nil || !strings.HasPrefix(root.Pkg.Pkg.Path(), Mod) {
			continue
		}
		p.Funcs = append(p.Funcs, fn)
	}
	sort.Slice(p.Funcs, func(i, j int) bool {
		a, b := p.Funcs[i], p.Funcs[j]
		an, bn := a.String(), b.String()
		if an != bn {
			return an < bn
		}
		return a.Pos() < b.Pos()
	})
	for _, fn := range p.Funcs {
		p.fnByName[p.FnName(fn)] = fn
	}
	return p, nil
}

// Short strips the module prefix of a package path.
func Short(pkgPath string) string {
	if pkgPath == Mod {
		return "."
	}
	return strings.TrimPrefix(pkgPath, Mod+"/")
}

// FuncObjName gives the canonical name of a function object:
// "internal/repository.(*Repository).Flush", "internal/restic.Repository.LoadIndex"
// (interface or value receiver), "os.Rename".
func FuncObjName(f *types.Func) string {
	if f == nil {
		return ""
	}
	f = f.Origin()
	pkg := ""
	if f.Pkg() != nil {
		pkg = Short(f.Pkg().Path())
	}
	sig, _ := f.Type().(*types.Signature)
	if sig != nil && sig.Recv() != nil {
		t := sig.Recv().Type()
		ptr := false
		if pt, ok := t.(*types.Pointer); ok {
			t = pt.Elem()
			ptr = true
		}
		name := "?"
		switch tt := t.(type) {
		case *types.Named:
			name = tt.Obj().Name()
			if tt.Obj().Pkg() != nil {
				pkg = Short(tt.Obj().Pkg().Path())
			}
		case *types.Alias:
			name = tt.Obj().Name()
		case *types.Interface:
			name = "interface"
		case *types.TypeParam:
			name = tt.Obj().Name()
		}
		if ptr {
			return pkg + ".(*" + name + ")." + f.Name()
		}
		return pkg + "." + name + "." + f.Name()
	}
	return pkg + "." + f.Name()
}

// FnName gives a stable, position-free name for an SSA function. Function literals
// are named after their enclosing function plus an ordinal ("$1", "$2" in source order).
func (p *Prog) FnName(fn *ssa.Function) string {
	if fn == nil {
		return "<nil>"
	}
	if fn.Parent() != nil {
		if s, ok := p.litIndex[fn]; ok {
			return s
		}
		par := fn.Parent()
		lits := append([]*ssa.Function(nil), par.AnonFuncs...)
		sort.Slice(lits, func(i, j int) bool { return lits[i].Pos() < lits[j].Pos() })
		base := p.FnName(par)
		for i, l := range lits {
			p.litIndex[l] = fmt.Sprintf("%s$%d", base, i+1)
		}
		if s, ok := p.litIndex[fn]; ok {
			return s
		}
		return base + "$?"
	}
	if o := fn.Origin(); o != nil {
		fn = o
	}
	if obj, ok := fn.Object().(*types.Func); ok && obj != nil {
		return FuncObjName(obj)
	}
	if fn.Pkg != nil {
		return Short(fn.Pkg.Pkg.Path()) + "." + fn.Name()
	}
	return fn.String()
}

// Fn resolves a canonical function name ("internal/crypto.(*Key).Open") to its SSA
// function; nil if the anchor does not resolve.
func (p *Prog) Fn(name string) *ssa.Function {
	return p.fnByName[name]
}

// Lits returns the function literals directly or transitively nested in fn, in source order.
func (p *Prog) Lits(fn *ssa.Function) []*ssa.Function {
	var out []*ssa.Function
	var rec func(f *ssa.Function)
	rec = func(f *ssa.Function) {
		l := append([]*ssa.Function(nil), f.AnonFuncs...)
		sort.Slice(l, func(i, j int) bool { return l[i].Pos() < l[j].Pos() })
		for _, a := range l {
			out = append(out, a)
			rec(a)
		}
	}
	rec(fn)
	return out
}

// WithLits returns fn followed by all its nested literals.
func (p *Prog) WithLits(fn *ssa.Function) []*ssa.Function {
	return append([]*ssa.Function{fn}, p.Lits(fn)...)
}

// Root returns the outermost enclosing function.
func Root(fn *ssa.Function) *ssa.Function {
	for fn.Parent() != nil {
		fn = fn.Parent()
	}
	return fn
}

// PkgOf returns the short package path a function belongs to.
func PkgOf(fn *ssa.Function) string {
	r := Root(fn)
	if o := r.Origin(); o != nil {
		r = o
	}
	if r.Pkg != nil {
		return Short(r.Pkg.Pkg.Path())
	}
	if obj := r.Object(); obj != nil && obj.Pkg() != nil {
		return Short(obj.Pkg().Path())
	}
	return ""
}

// Pos renders a position relative to the repository.
func (p *Prog) Pos(pos token.Pos) string {
	if !pos.IsValid() {
		return "-"
	}
	ps := p.Fset.Position(pos)
	rel, err := filepath.Rel(p.Cfg.RepoDir, ps.Filename)
	if err != nil {
		rel = ps.Filename
	}
	return fmt.Sprintf("%s:%d", rel, ps.Line)
}

// Pkg returns the type-checked package with the given short path, or nil.
func (p *Prog) Pkg(short string) *packages.Package {
	if short == "." {
		return p.ByPath[Mod]
	}
	return p.ByPath[Mod+"/"+short]
}

// Obj looks up a package-level object "internal/pack.MaxHeaderSize".
func (p *Prog) Obj(name string) types.Object {
	i := strings.LastIndex(name, ".")
	if i < 0 {
		return nil
	}
	pk := p.Pkg(name[:i])
	if pk == nil || pk.Types == nil {
		return nil
	}
	return pk.Types.Scope().Lookup(name[i+1:])
}

// NamedType looks up a named type "internal/data.Node".
func (p *Prog) NamedType(name string) *types.Named {
	o := p.Obj(name)
	if o == nil {
		return nil
	}
	tn, ok := o.(*types.TypeName)
	if !ok {
		return nil
	}
	n, _ := tn.Type().(*types.Named)
	return n
}

// Field returns the field object of a struct type: "internal/data.Node", "Mode".
func (p *Prog) Field(typeName, field string) *types.Var {
	n := p.NamedType(typeName)
	if n == nil {
		return nil
	}
	st, ok := n.Underlying().(*types.Struct)
	if !ok {
		return nil
	}
	for i := 0; i < st.NumFields(); i++ {
		if st.Field(i).Name() == field {
			return st.Field(i)
		}
	}
	return nil
}

// FuncDecl finds the AST declaration of a source function (nil for literals).
func (p *Prog) FuncDecl(fn *ssa.Function) *ast.FuncDecl {
	if fn == nil {
		return nil
	}
	if d, ok := fn.Syntax().(*ast.FuncDecl); ok {
		return d
	}
	return nil
}

// InfoFor returns the types.Info of the package containing pos.
func (p *Prog) InfoFor(fn *ssa.Function) *types.Info {
	pk := p.Pkg(PkgOf(fn))
	if pk == nil {
		return nil
	}
	return pk.TypesInfo
}

// repoToolchainBin returns the bin directory of the cached toolchain named in the
// repository's go.mod ("toolchain goX.Y.Z", else "go X.Y.Z"), or "".
func repoToolchainBin(repo string) string {
	b, err := os.ReadFile(filepath.Join(repo, "go.mod"))
	if err != nil {
		return ""
	}
	ver := ""
	for _, line := range strings.Split(string(b), "\n") {
		f := strings.Fields(line)
		if len(f) == 2 && f[0] == "toolchain" {
			ver = f[1]
			break
		}
		if len(f) == 2 && f[0] == "go" && ver == "" {
			ver = "go" + f[1]
		}
	}
	if ver == "" {
		return ""
	}
	var caches []string
	if mc := os.Getenv("GOMODCACHE"); mc != "" {
		caches = append(caches, mc)
	}
	if gp := os.Getenv("GOPATH"); gp != "" {
		caches = append(caches, filepath.Join(gp, "pkg", "mod"))
	}
	if home, err := os.UserHomeDir(); err == nil {
		caches = append(caches, filepath.Join(home, "go", "pkg", "mod"))
	}
	caches = append(caches, "/root/go/pkg/mod")
	for _, mc := range caches {
		ms, _ := filepath.Glob(filepath.Join(mc, "golang.org", "toolchain@v0.0.1-"+ver+".*", "bin"))
		for _, m := range ms {
			if st, err := os.Stat(filepath.Join(m, "go")); err == nil && !st.IsDir() {
				return m
			}
		}
	}
	return ""
}
