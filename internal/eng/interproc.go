package eng

import (
	"go/types"

	"golang.org/x/tools/go/ssa"
)

// CallersOf returns the static call sites of fn in the restic functions (calls through
// interfaces are matched by method object identity of the abstract method they implement
// only when `viaIface` lists the interface method names that dispatch to it).
func (p *Prog) CallersOf(fn *ssa.Function, viaIface ...string) []Site {
	name := p.FnName(fn)
	names := append([]string{name}, viaIface...)
	return p.AllCallsTo(names...)
}

// ParamIndex returns the index of parameter prm among the explicit (non-receiver)
// parameters of its function, or -2 for the receiver, -3 if not found.
func ParamIndex(prm *ssa.Parameter) int {
	fn := prm.Parent()
	off := 0
	if fn.Signature.Recv() != nil {
		off = 1
	}
	for i, q := range fn.Params {
		if q == prm {
			if i < off {
				return -2
			}
			return i - off
		}
	}
	return -3
}

// InterOrigins extends Origins across function boundaries: a root that is a parameter of
// a named function is replaced by the origins of the corresponding argument at every call
// site of that function (static callee or one of the interface methods in viaIface[name]),
// up to the given depth. Parameters of function literals and parameters without any call
// site stay roots.
func (p *Prog) InterOrigins(v ssa.Value, o *OriginOpts, depth int, viaIface map[string][]string) []ssa.Value {
	var out []ssa.Value
	seen := map[ssa.Value]bool{}
	var rec func(v ssa.Value, d int)
	rec = func(v ssa.Value, d int) {
		for _, r := range Origins(v, o) {
			if seen[r] {
				continue
			}
			seen[r] = true
			prm, isP := r.(*ssa.Parameter)
			if !isP || d <= 0 || prm.Parent().Parent() != nil {
				out = append(out, r)
				continue
			}
			idx := ParamIndex(prm)
			if idx < 0 {
				out = append(out, r)
				continue
			}
			sites := p.CallersOf(prm.Parent(), viaIface[p.FnName(prm.Parent())]...)
			if len(sites) == 0 {
				out = append(out, r)
				continue
			}
			for _, s := range sites {
				if a := Arg(s.Call, idx); a != nil {
					rec(a, d-1)
				} else {
					out = append(out, r)
				}
			}
		}
	}
	rec(v, depth)
	return out
}

// ExportedFields lists the exported (hence JSON-serialised) field names of a struct type.
func ExportedFields(n *types.Named) []string {
	st, ok := n.Underlying().(*types.Struct)
	if !ok {
		return nil
	}
	var out []string
	for i := 0; i < st.NumFields(); i++ {
		if st.Field(i).Exported() {
			out = append(out, st.Field(i).Name())
		}
	}
	return out
}

// FieldStoresIn lists the values stored to field `field` (of any base) in fn and its literals.
func (p *Prog) FieldStoresIn(fn *ssa.Function, field *types.Var) []*ssa.Store {
	var out []*ssa.Store
	for _, f := range p.WithLits(fn) {
		for _, b := range f.Blocks {
			for _, in := range b.Instrs {
				st, ok := in.(*ssa.Store)
				if !ok {
					continue
				}
				if fa, ok := st.Addr.(*ssa.FieldAddr); ok && FieldVar(fa.X.Type(), fa.Field) == field {
					out = append(out, st)
				}
			}
		}
	}
	return out
}

// AllFieldStores lists every store to the given field in the program.
func (p *Prog) AllFieldStores(field *types.Var) []*ssa.Store {
	var out []*ssa.Store
	for _, f := range p.Funcs {
		for _, b := range f.Blocks {
			for _, in := range b.Instrs {
				st, ok := in.(*ssa.Store)
				if !ok {
					continue
				}
				if fa, ok := st.Addr.(*ssa.FieldAddr); ok && FieldVar(fa.X.Type(), fa.Field) == field {
					out = append(out, st)
				}
			}
		}
	}
	return out
}

// SpilledParam returns the parameter whose value the heap cell `a` holds if `a` is the
// entry spill of a captured parameter that is never reassigned (neither in the function nor
// in its literals); nil otherwise.
func SpilledParam(a *ssa.Alloc) *ssa.Parameter {
	var prm *ssa.Parameter
	for _, r := range *a.Referrers() {
		st, ok := r.(*ssa.Store)
		if !ok || st.Addr != ssa.Value(a) {
			continue
		}
		p, isP := st.Val.(*ssa.Parameter)
		if !isP || prm != nil {
			return nil
		}
		prm = p
	}
	if prm == nil {
		return nil
	}
	// reassignment inside a literal shows up as a store to the corresponding free variable
	var lits func(f *ssa.Function) bool
	lits = func(f *ssa.Function) bool {
		for _, l := range f.AnonFuncs {
			for _, fv := range l.FreeVars {
				if fv.Name() != prm.Name() {
					continue
				}
				for _, r := range *fv.Referrers() {
					if st, ok := r.(*ssa.Store); ok && st.Addr == ssa.Value(fv) {
						return false
					}
				}
			}
			if !lits(l) {
				return false
			}
		}
		return true
	}
	if !lits(a.Parent()) {
		return nil
	}
	return prm
}
