package eng

import (
	"go/token"

	"golang.org/x/tools/go/ssa"
)

// UsesReaching is Uses with reaching definitions for local variables: when v is stored into a
// local cell, only those loads of the cell are followed that the store reaches without an
// intervening store to the same cell. (Uses follows every load of the cell, which makes a
// named result that is overwritten before each return look like a use of every value ever
// assigned to it.)
func UsesReaching(v ssa.Value) []ssa.Instruction {
	var out []ssa.Instruction
	seen := map[ssa.Value]bool{}
	var rec func(v ssa.Value)
	rec = func(v ssa.Value) {
		if v == nil || seen[v] {
			return
		}
		seen[v] = true
		refs := v.Referrers()
		if refs == nil {
			return
		}
		for _, r := range *refs {
			switch x := r.(type) {
			case *ssa.Phi, *ssa.Slice, *ssa.Convert, *ssa.ChangeType, *ssa.ChangeInterface, *ssa.MakeInterface:
				out = append(out, r)
				rec(x.(ssa.Value))
			case *ssa.Call:
				out = append(out, r)
				if b, ok := x.Call.Value.(*ssa.Builtin); ok && b.Name() == "append" {
					rec(x)
				}
			case *ssa.Store:
				a, isLocal := x.Addr.(*ssa.Alloc)
				if !isLocal || x.Val != v {
					out = append(out, r)
					continue
				}
				// other stores to the same cell kill this definition
				kill := NewCut()
				for _, ar := range *a.Referrers() {
					if st, ok := ar.(*ssa.Store); ok && st != x && st.Addr == ssa.Value(a) {
						kill.AddInstrs(st)
					}
				}
				// a closure that captures the cell and assigns it (the body of a range-over-func
				// loop returning through a named result) overwrites the value whenever it runs:
				// calls made while such a closure exists end this definition's reach
				for _, ar := range *a.Referrers() {
					mc, ok := ar.(*ssa.MakeClosure)
					if !ok {
						continue
					}
					lit, _ := mc.Fn.(*ssa.Function)
					if lit == nil {
						continue
					}
					writes := false
					for i, b := range mc.Bindings {
						if b != ssa.Value(a) || i >= len(lit.FreeVars) {
							continue
						}
						for _, fr := range *lit.FreeVars[i].Referrers() {
							if st, isSt := fr.(*ssa.Store); isSt && st.Addr == ssa.Value(lit.FreeVars[i]) {
								writes = true
							}
						}
					}
					if !writes {
						continue
					}
					for _, blk := range a.Parent().Blocks {
						for _, in := range blk.Instrs {
							if call, isCall := in.(*ssa.Call); isCall {
								if _, isB := call.Call.Value.(*ssa.Builtin); !isB && FindPath(After(mc), call, nil) != nil {
									kill.AddInstrs(call)
								}
							}
						}
					}
				}
				escapes := false
				for _, ar := range *a.Referrers() {
					switch y := ar.(type) {
					case *ssa.UnOp:
						if y.Op == token.MUL && FindPath(After(x), y, kill) != nil {
							rec(y)
						}
					case *ssa.Store:
					default:
						// the address is taken (closure capture, call argument): be conservative
						_ = y
						escapes = true
					}
				}
				if escapes {
					out = append(out, r)
				}
			default:
				out = append(out, r)
			}
		}
	}
	rec(v)
	return out
}
