package eng

import (
	"bufio"
	"encoding/json"
	"fmt"
	"go/token"
	"os"
	"path/filepath"
	"sort"
	"strings"
	"time"

	"golang.org/x/tools/go/ssa"
)

// Verdict of one obligation.
type Verdict string

const (
	Discharged Verdict = "discharged"
	Violated   Verdict = "violated"
	Undecided  Verdict = "undecided" // counts as a violation
)

// Obligation is one (rule, construct) pair decided by a rule.
type Obligation struct {
	Rule      string  `json:"rule"`
	Construct string  `json:"construct"`
	Verdict   Verdict `json:"verdict"`
	Where     string  `json:"where,omitempty"`
	Detail    string  `json:"detail,omitempty"`
	Config    string  `json:"config,omitempty"`
	Trivial   bool    `json:"-"`
}

// Key identifies the obligation independent of source positions.
func (o Obligation) Key() string { return o.Rule + "|" + o.Construct }

// Ctx collects the obligations of one property on one program.
type Ctx struct {
	P    *Prog
	Prop string
	Tier string
	Obl  []Obligation
	// Notes are informational lines for the evidence (reference-count deviations …).
	Notes []string
	// Analysed functions (names), for the evidence.
	analysed map[string]bool
	touched  map[*ssa.Function]bool
}

func NewCtx(p *Prog, prop, tier string) *Ctx {
	return &Ctx{P: p, Prop: prop, Tier: tier, analysed: map[string]bool{}, touched: map[*ssa.Function]bool{}}
}

// Touch records that a function was analysed.
func (c *Ctx) Touch(fns ...*ssa.Function) {
	for _, f := range fns {
		if f != nil {
			c.analysed[c.P.FnName(f)] = true
			c.touched[f] = true
		}
	}
}

func (c *Ctx) add(v Verdict, rule, construct string, pos token.Pos, format string, args ...any) {
	construct = strings.ReplaceAll(construct, " ", "_")
	c.Obl = append(c.Obl, Obligation{Rule: rule, Construct: construct, Verdict: v,
		Where: c.P.Pos(pos), Detail: fmt.Sprintf(format, args...), Config: c.P.Cfg.String()})
}

// Ok records a discharged obligation.
func (c *Ctx) Ok(rule, construct string, pos token.Pos, format string, args ...any) {
	c.add(Discharged, rule, construct, pos, format, args...)
}

// Bad records a violated obligation.
func (c *Ctx) Bad(rule, construct string, pos token.Pos, format string, args ...any) {
	c.add(Violated, rule, construct, pos, format, args...)
}

// Unk records an obligation the rule could not decide (anchor unresolved, unknown idiom).
func (c *Ctx) Unk(rule, construct string, pos token.Pos, format string, args ...any) {
	c.add(Undecided, rule, construct, pos, format, args...)
}

// Check records Ok or Bad depending on cond.
func (c *Ctx) Check(cond bool, rule, construct string, pos token.Pos, format string, args ...any) bool {
	if cond {
		c.Ok(rule, construct, pos, format, args...)
	} else {
		c.Bad(rule, construct, pos, format, args...)
	}
	return cond
}

// Note adds an informational note.
func (c *Ctx) Note(format string, args ...any) {
	c.Notes = append(c.Notes, fmt.Sprintf(format, args...))
}

// NeedFn resolves a function anchor; an unresolved anchor is an undecided obligation.
func (c *Ctx) NeedFn(rule, name string) *ssa.Function {
	fn := c.P.Fn(name)
	if fn == nil {
		c.Unk(rule, "anchor:"+name, token.NoPos, "anchor function %s does not resolve in %s", name, c.P.Cfg)
		return nil
	}
	c.Touch(fn)
	return fn
}

// Floor requires at least min obligations for the rule (a rule matching nothing passes
// vacuously forever, so it is a failure); ref is the count confirmed by reading.
func (c *Ctx) Floor(rule string, min, ref int) {
	n := 0
	for _, o := range c.Obl {
		if o.Rule == rule {
			n++
		}
	}
	if n < min {
		c.Unk(rule, "floor", token.NoPos, "rule produced %d obligations, at least %d expected (reference %d): anchors vanished", n, min, ref)
		return
	}
	if ref > 0 && n != ref {
		c.Note("rule %s: %d obligations, reference count confirmed by reading was %d", rule, n, ref)
	}
}

// ---- known findings -------------------------------------------------------

// Finding is a line of /verif/known_findings.txt.
type Finding struct {
	Status    string // known | fixed
	Property  string
	Rule      string
	Construct string
	Commit    string
	Text      string
}

// LoadFindings parses the known-findings file. Format, one per line:
//
//	known: property=C31 rule=<rule> construct=<construct> <what fails>
//	fixed: property=C48 <commit> rule=<rule> construct=<construct> <what failed>
func LoadFindings(path string) ([]Finding, error) {
	f, err := os.Open(path)
	if err != nil {
		if os.IsNotExist(err) {
			return nil, nil
		}
		return nil, err
	}
	defer f.Close()
	var out []Finding
	sc := bufio.NewScanner(f)
	for sc.Scan() {
		line := strings.TrimSpace(sc.Text())
		if line == "" || strings.HasPrefix(line, "#") {
			continue
		}
		var fd Finding
		switch {
		case strings.HasPrefix(line, "known:"):
			fd.Status = "known"
			line = strings.TrimSpace(strings.TrimPrefix(line, "known:"))
		case strings.HasPrefix(line, "fixed:"):
			fd.Status = "fixed"
			line = strings.TrimSpace(strings.TrimPrefix(line, "fixed:"))
		default:
			return nil, fmt.Errorf("known findings: unparsable line %q", line)
		}
		var rest []string
		for _, tok := range strings.Fields(line) {
			switch {
			case strings.HasPrefix(tok, "property=") && fd.Property == "":
				fd.Property = strings.TrimPrefix(tok, "property=")
			case strings.HasPrefix(tok, "rule=") && fd.Rule == "":
				fd.Rule = strings.TrimPrefix(tok, "rule=")
			case strings.HasPrefix(tok, "construct=") && fd.Construct == "":
				fd.Construct = strings.TrimPrefix(tok, "construct=")
			case fd.Status == "fixed" && fd.Commit == "" && fd.Property != "" && fd.Rule == "" && len(rest) == 0:
				fd.Commit = tok
			default:
				rest = append(rest, tok)
			}
		}
		fd.Text = strings.Join(rest, " ")
		out = append(out, fd)
	}
	return out, sc.Err()
}

// ---- evidence ---------------------------------------------------------------

// Result is the outcome of evaluating one property.
type Result struct {
	Prop        string
	Tier        string
	Obl         []Obligation
	Notes       []string
	Functions   []string
	Configs     []string
	Packages    int
	Files       int
	Ignored     []string
	Explanation string
	Assumptions []string
	Controls    []ControlResult
	Wall        time.Duration
}

// ControlResult is the outcome of one mutant control.
type ControlResult struct {
	Name   string `json:"name"`
	Status string `json:"status"` // fired | missed | skipped
	Detail string `json:"detail,omitempty"`
}

// Finish compares violations with the known findings, writes the evidence file and the
// violations replay file, prints KNOWN-FINDING / VIOLATION lines and returns the exit code.
func (r *Result) Finish(verifDir string, findings []Finding, seed int64) int {
	evDir := filepath.Join(verifDir, "evidence")
	_ = os.MkdirAll(evDir, 0o755)
	known := map[string]Finding{}
	for _, f := range findings {
		if f.Status == "known" && f.Property == r.Prop {
			known[f.Rule+"|"+f.Construct] = f
		}
	}
	// dedupe obligations by key+config (same rule instance may be evaluated once per config)
	sort.SliceStable(r.Obl, func(i, j int) bool {
		if r.Obl[i].Rule != r.Obl[j].Rule {
			return r.Obl[i].Rule < r.Obl[j].Rule
		}
		if r.Obl[i].Construct != r.Obl[j].Construct {
			return r.Obl[i].Construct < r.Obl[j].Construct
		}
		return r.Obl[i].Config < r.Obl[j].Config
	})
	var viol, knownHit []Obligation
	discharged := 0
	distinct := map[string]bool{}
	for _, o := range r.Obl {
		distinct[o.Key()] = true
		switch o.Verdict {
		case Discharged:
			discharged++
		default:
			if _, ok := known[o.Key()]; ok {
				knownHit = append(knownHit, o)
			} else {
				viol = append(viol, o)
			}
		}
	}
	printedKnown := map[string]bool{}
	for _, o := range knownHit {
		if printedKnown[o.Key()] {
			continue
		}
		printedKnown[o.Key()] = true
		f := known[o.Key()]
		fmt.Printf("KNOWN-FINDING: property=%s rule=%s construct=%s at %s: %s\n", r.Prop, o.Rule, o.Construct, o.Where, f.Text)
	}
	// A control that does not fire says something about the checker, not about /repo: it is
	// reported (evidence: controls, controls_fired/controls_total; a CONTROL-MISSED line) but
	// never turned into a violation of the property on the analysed tree.
	for _, c := range r.Controls {
		if c.Status == "missed" {
			fmt.Printf("CONTROL-MISSED: property=%s control=%s: %s\n", r.Prop, c.Name, c.Detail)
			r.Notes = append(r.Notes, "positive control "+c.Name+" did not fire: "+c.Detail)
		}
		if c.Status == "skipped" {
			fmt.Printf("CONTROL-SKIPPED: property=%s control=%s: %s\n", r.Prop, c.Name, c.Detail)
			r.Notes = append(r.Notes, "positive control "+c.Name+" not applicable to this tree: "+c.Detail)
		}
	}
	replay := filepath.Join(evDir, r.Prop+".violations.json")
	if len(viol) > 0 {
		b, _ := json.MarshalIndent(map[string]any{"property_id": r.Prop, "tier": r.Tier, "violations": viol}, "", " ")
		_ = os.WriteFile(replay, append(b, '\n'), 0o644)
	} else {
		_ = os.Remove(replay)
	}
	// samples: all violations first, then a spread of discharged obligations
	var samples []any
	for _, o := range viol {
		samples = append(samples, o)
	}
	for _, o := range knownHit {
		samples = append(samples, map[string]any{"known_finding": o})
	}
	perRule := map[string]int{}
	sampled := map[string]bool{}
	for _, o := range r.Obl {
		if o.Verdict == Discharged && perRule[o.Rule] < 6 && len(samples) < 80 && !sampled[o.Key()] {
			sampled[o.Key()] = true
			perRule[o.Rule]++
			samples = append(samples, o)
		}
	}
	ruleCounts := map[string]int{}
	for _, o := range r.Obl {
		ruleCounts[o.Rule]++
	}
	fired, total, skipped := 0, 0, 0
	for _, c := range r.Controls {
		switch c.Status {
		case "fired":
			fired++
			total++
		case "missed":
			total++
		case "skipped":
			skipped++
		}
	}
	cov := map[string]any{
		"explanation":         r.Explanation,
		"obligations":         len(r.Obl),
		"discharged":          discharged,
		"evaluations":         len(r.Obl),
		"distinct_nontrivial": len(distinct),
		"rule": "one evaluation = one (rule, construct) obligation decided on the SSA/type-checked form of /repo's current tree; " +
			"distinct = distinct rule|construct keys (the same instance evaluated in several build configurations counts once)",
		"samples":            samples,
		"exhaustive":         true,
		"rule_counts":        ruleCounts,
		"known_findings_hit": len(printedKnown),
		"functions_analysed": len(r.Functions),
		"functions":          capList(r.Functions, 80),
		"packages":           r.Packages,
		"files":              r.Files,
		"configurations":     r.Configs,
		"ignored_files":      capList(r.Ignored, 60),
		"notes":              r.Notes,
		"checker_cmd":        fmt.Sprintf("bin/rlint -repo /repo -prop %s -tier %s", r.Prop, r.Tier),
	}
	if len(r.Controls) > 0 {
		cov["controls"] = r.Controls
		cov["controls_fired"] = fired
		cov["controls_total"] = total
		cov["controls_skipped"] = skipped
	}
	ev := map[string]any{
		"property_id": r.Prop,
		"tier":        r.Tier,
		"seed":        seed,
		"level":       "other",
		"coverage":    cov,
		"assumptions": r.Assumptions,
		"wall_s":      float64(int(r.Wall.Seconds()*100)) / 100,
		"violations":  len(viol),
	}
	b, _ := json.MarshalIndent(ev, "", " ")
	if err := os.WriteFile(filepath.Join(evDir, r.Prop+".json"), append(b, '\n'), 0o644); err != nil {
		fmt.Fprintf(os.Stderr, "cannot write evidence: %v\n", err)
		return 1
	}
	fmt.Printf("%s tier=%s obligations=%d discharged=%d known=%d violations=%d configs=%d functions=%d wall=%.1fs\n",
		r.Prop, r.Tier, len(r.Obl), discharged, len(knownHit), len(viol), len(r.Configs), len(r.Functions), r.Wall.Seconds())
	if len(viol) > 0 {
		for _, o := range viol {
			fmt.Printf("  %s rule=%s construct=%s at %s [%s]: %s\n", strings.ToUpper(string(o.Verdict)), o.Rule, o.Construct, o.Where, o.Config, o.Detail)
		}
		fmt.Printf("VIOLATION property=%s replay=%s\n", r.Prop, replay)
		return 1
	}
	return 0
}

func capList(l []string, n int) []string {
	if len(l) <= n {
		return l
	}
	out := append([]string(nil), l[:n]...)
	return append(out, fmt.Sprintf("… and %d more", len(l)-n))
}

// Functions returns the sorted list of analysed functions.
func (c *Ctx) Functions() []string {
	var out []string
	for k := range c.analysed {
		out = append(out, k)
	}
	sort.Strings(out)
	return out
}
