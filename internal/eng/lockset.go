package eng

import (
	"go/token"
	"sort"
	"strings"

	"golang.org/x/tools/go/ssa"
)

// AccessPath renders the access path of a value rooted at a parameter, receiver or
// captured variable ("mi.idxMutex", "c.repo.idx"); "" if it is not of that form.
func AccessPath(v ssa.Value) string {
	for i := 0; i < 20; i++ {
		switch x := v.(type) {
		case *ssa.Parameter:
			return x.Name()
		case *ssa.FreeVar:
			return x.Name()
		case *ssa.ChangeType:
			v = x.X
			continue
		case *ssa.UnOp:
			if x.Op != token.MUL {
				return ""
			}
			switch a := x.X.(type) {
			case *ssa.Alloc:
				if p := SpilledParam(a); p != nil {
					return p.Name()
				}
				// a local variable assigned exactly once from something with a path
				var only ssa.Value
				n := 0
				for _, r := range *a.Referrers() {
					if st, ok := r.(*ssa.Store); ok && st.Addr == ssa.Value(a) {
						only = st.Val
						n++
					}
				}
				if n == 1 {
					v = only
					continue
				}
				return ""
			case *ssa.FreeVar:
				return a.Name()
			case *ssa.FieldAddr:
				v = a
				continue
			}
			return ""
		case *ssa.FieldAddr:
			base := AccessPath(x.X)
			if base == "" {
				return ""
			}
			fv := FieldVar(x.X.Type(), x.Field)
			if fv == nil {
				return ""
			}
			return base + "." + fv.Name()
		case *ssa.Field:
			base := AccessPath(x.X)
			if base == "" {
				return ""
			}
			fv := FieldVar(x.X.Type(), x.Field)
			if fv == nil {
				return ""
			}
			return base + "." + fv.Name()
		default:
			return ""
		}
	}
	return ""
}

// Lock modes.
const (
	LockNone  = 0
	LockRead  = 1
	LockWrite = 2
)

// LockOp classifies a call as a mutex operation: (path of the mutex, +mode for acquire /
// -mode for release, ok).
func (p *Prog) LockOp(call ssa.CallInstruction) (string, int, bool) {
	name := p.CalleeName(call)
	var mode int
	switch name {
	case "sync.(*Mutex).Lock", "sync.(*RWMutex).Lock":
		mode = LockWrite
	case "sync.(*RWMutex).RLock":
		mode = LockRead
	case "sync.(*Mutex).Unlock", "sync.(*RWMutex).Unlock":
		mode = -LockWrite
	case "sync.(*RWMutex).RUnlock":
		mode = -LockRead
	default:
		return "", 0, false
	}
	path := AccessPath(Recv(call))
	if path == "" {
		return "", 0, false
	}
	return path, mode, true
}

// Lockset is the set of locks that are certainly held (path → mode).
type Lockset map[string]int

func (l Lockset) clone() Lockset {
	n := Lockset{}
	for k, v := range l {
		n[k] = v
	}
	return n
}

func (l Lockset) String() string {
	var parts []string
	for k, v := range l {
		m := "R"
		if v == LockWrite {
			m = "W"
		}
		parts = append(parts, k+":"+m)
	}
	sort.Strings(parts)
	return "{" + strings.Join(parts, ",") + "}"
}

func meet(a, b Lockset) Lockset {
	out := Lockset{}
	for k, v := range a {
		if w, ok := b[k]; ok {
			if w < v {
				v = w
			}
			out[k] = v
		}
	}
	return out
}

func equalLS(a, b Lockset) bool {
	if len(a) != len(b) {
		return false
	}
	for k, v := range a {
		if b[k] != v {
			return false
		}
	}
	return true
}

// Locksets computes, for every instruction of fn, the locks that are held on every path
// reaching it (forward must-analysis). Deferred unlocks keep the lock until function exit.
// `entry` is the lockset assumed at function entry (caller-holds annotations).
func (p *Prog) Locksets(fn *ssa.Function, entry Lockset) map[ssa.Instruction]Lockset {
	in := map[*ssa.BasicBlock]Lockset{}
	out := map[*ssa.BasicBlock]Lockset{}
	have := map[*ssa.BasicBlock]bool{}
	if entry == nil {
		entry = Lockset{}
	}
	transfer := func(b *ssa.BasicBlock, s Lockset, record map[ssa.Instruction]Lockset) Lockset {
		cur := s.clone()
		for _, instr := range b.Instrs {
			if record != nil {
				record[instr] = cur.clone()
			}
			call, ok := instr.(*ssa.Call)
			if !ok {
				continue // defer/go do not change the lockset here
			}
			path, mode, isLock := p.LockOp(call)
			if !isLock {
				continue
			}
			if mode > 0 {
				if cur[path] < mode {
					cur[path] = mode
				}
			} else {
				delete(cur, path)
			}
		}
		return cur
	}
	work := []*ssa.BasicBlock{fn.Blocks[0]}
	in[fn.Blocks[0]] = entry.clone()
	have[fn.Blocks[0]] = true
	for len(work) > 0 {
		b := work[len(work)-1]
		work = work[:len(work)-1]
		o := transfer(b, in[b], nil)
		if prev, ok := out[b]; ok && equalLS(prev, o) {
			continue
		}
		out[b] = o
		for _, s := range b.Succs {
			var ni Lockset
			if !have[s] {
				ni = o.clone()
			} else {
				ni = meet(in[s], o)
			}
			if !have[s] || !equalLS(ni, in[s]) {
				in[s] = ni
				have[s] = true
				work = append(work, s)
			}
		}
	}
	res := map[ssa.Instruction]Lockset{}
	for _, b := range fn.Blocks {
		if !have[b] {
			continue
		}
		transfer(b, in[b], res)
	}
	return res
}

// FieldAccess is one access to a struct field.
type FieldAccess struct {
	Instr ssa.Instruction // the FieldAddr / Field instruction
	Base  string          // access path of the struct value ("" if unknown)
	Write bool
}

// FieldAccesses lists the accesses in fn to the given field (a *types.Var compared by
// identity through FieldVar).
func FieldAccesses(fn *ssa.Function, isField func(ssa.Value, int) bool) []FieldAccess {
	var out []FieldAccess
	for _, b := range fn.Blocks {
		for _, in := range b.Instrs {
			switch x := in.(type) {
			case *ssa.FieldAddr:
				if !isField(x.X, x.Field) {
					continue
				}
				out = append(out, FieldAccess{Instr: x, Base: AccessPath(x.X), Write: addrIsWritten(x)})
			case *ssa.Field:
				if !isField(x.X, x.Field) {
					continue
				}
				out = append(out, FieldAccess{Instr: x, Base: AccessPath(x.X)})
			}
		}
	}
	return out
}

// addrIsWritten reports whether the field address is stored to, or the map/slice loaded
// from it is updated in place.
func addrIsWritten(fa *ssa.FieldAddr) bool {
	for _, r := range *fa.Referrers() {
		switch u := r.(type) {
		case *ssa.Store:
			if u.Addr == ssa.Value(fa) {
				return true
			}
		case *ssa.UnOp:
			if u.Op != token.MUL {
				continue
			}
			for _, rr := range *u.Referrers() {
				switch w := rr.(type) {
				case *ssa.MapUpdate:
					if w.Map == ssa.Value(u) {
						return true
					}
				case *ssa.Call:
					if b, ok := w.Call.Value.(*ssa.Builtin); ok && (b.Name() == "delete" || b.Name() == "clear") && len(w.Call.Args) > 0 && w.Call.Args[0] == ssa.Value(u) {
						return true
					}
				case *ssa.IndexAddr:
					// element of a slice field written in place
					for _, r3 := range *w.Referrers() {
						if st, ok := r3.(*ssa.Store); ok && st.Addr == ssa.Value(w) {
							return true
						}
					}
				}
			}
		}
	}
	return false
}
