package eng

import (
	"go/types"
	"sort"
	"strings"

	"golang.org/x/tools/go/ssa"
)

// ClosureOpts bounds the K8 call-closure computation.
type ClosureOpts struct {
	// StopAt: functions (by name) that are recorded but not expanded.
	StopAt map[string]bool
	// StopIface: interface types (full names) whose method calls are recorded as boundary
	// effects and not followed into implementations (backend.Backend).
	StopIface map[string]bool
}

// Closure is the result of CallClosure.
type Closure struct {
	Funcs    map[*ssa.Function]bool
	Boundary []Site // calls through a StopIface interface
	// Parent edges for diagnostics: function → the function it was first reached from.
	From map[*ssa.Function]*ssa.Function
}

// Names returns the sorted names of the functions in the closure.
func (c *Closure) Names(p *Prog) []string {
	var out []string
	for f := range c.Funcs {
		out = append(out, p.FnName(f))
	}
	sort.Strings(out)
	return out
}

// Chain renders how f was reached from the root.
func (c *Closure) Chain(p *Prog, f *ssa.Function) string {
	var parts []string
	seen := map[*ssa.Function]bool{}
	for x := f; x != nil && !seen[x]; x = c.From[x] {
		seen[x] = true
		parts = append([]string{p.FnName(x)}, parts...)
	}
	if len(parts) > 8 {
		parts = append(parts[:3], append([]string{"…"}, parts[len(parts)-4:]...)...)
	}
	return strings.Join(parts, " → ")
}

// moduleTypes lists the named, non-generic types declared in the module's packages.
func (p *Prog) moduleTypes() []*types.Named {
	if p.modTypes != nil {
		return p.modTypes
	}
	for _, pk := range p.Pkgs {
		sc := pk.Types.Scope()
		for _, n := range sc.Names() {
			tn, ok := sc.Lookup(n).(*types.TypeName)
			if !ok || tn.IsAlias() {
				continue
			}
			nt, ok := tn.Type().(*types.Named)
			if !ok || nt.TypeParams().Len() > 0 {
				continue
			}
			p.modTypes = append(p.modTypes, nt)
		}
	}
	return p.modTypes
}

// Implementations resolves an interface method call to the methods of module types that
// implement the interface (class-hierarchy analysis restricted to the module).
func (p *Prog) Implementations(iface types.Type, method *types.Func) []*ssa.Function {
	it, ok := iface.Underlying().(*types.Interface)
	if !ok {
		return nil
	}
	var out []*ssa.Function
	// inside a generic function the interface mentions type parameters, so
	// types.Implements cannot succeed: match by method name instead (over-approximation)
	byName := mentionsTypeParam(iface, 0) || mentionsTypeParam(method.Type(), 0)
	for _, nt := range p.moduleTypes() {
		if _, isIface := nt.Underlying().(*types.Interface); isIface {
			continue
		}
		for _, t := range []types.Type{nt, types.NewPointer(nt)} {
			if byName {
				ms := p.SSA.MethodSets.MethodSet(t)
				var sel *types.Selection
				for i := 0; i < ms.Len(); i++ {
					if ms.At(i).Obj().Name() == method.Name() {
						sel = ms.At(i)
					}
				}
				if sel == nil {
					continue
				}
				if f := p.SSA.MethodValue(sel); f != nil {
					out = append(out, f)
				}
				break
			}
			if !types.Implements(t, it) {
				continue
			}
			ms := p.SSA.MethodSets.MethodSet(t)
			sel := ms.Lookup(method.Pkg(), method.Name())
			if sel == nil {
				continue
			}
			if f := p.SSA.MethodValue(sel); f != nil {
				out = append(out, f)
			}
			break
		}
	}
	return out
}

// CallClosure computes the functions reachable from root: static callees, function
// literals created in reachable functions, functions referenced as values, and interface
// calls resolved by CHA over the module's types. Functions outside the module are not
// expanded.
func (p *Prog) CallClosure(root *ssa.Function, o *ClosureOpts) *Closure {
	if o == nil {
		o = &ClosureOpts{}
	}
	res := &Closure{Funcs: map[*ssa.Function]bool{}, From: map[*ssa.Function]*ssa.Function{}}
	var work []*ssa.Function
	add := func(f, from *ssa.Function) {
		if f == nil {
			return
		}
		if orig := f.Origin(); orig != nil {
			f = orig
		}
		// bound-method / thunk wrappers: use the underlying method
		if f.Synthetic != "" && len(f.Blocks) > 0 && f.Pkg == nil {
			// wrappers have bodies that call the real method; expanding them is fine
		}
		if res.Funcs[f] {
			return
		}
		res.Funcs[f] = true
		res.From[f] = from
		if len(f.Blocks) == 0 {
			return
		}
		if !strings.HasPrefix(packagePathOf(f), Mod) {
			return
		}
		if o.StopAt[p.FnName(f)] {
			return
		}
		work = append(work, f)
	}
	add(root, nil)
	for len(work) > 0 {
		f := work[len(work)-1]
		work = work[:len(work)-1]
		for _, b := range f.Blocks {
			for _, in := range b.Instrs {
				// functions used as values
				for _, op := range in.Operands(nil) {
					if op == nil || *op == nil {
						continue
					}
					switch v := (*op).(type) {
					case *ssa.Function:
						add(v, f)
					case *ssa.MakeClosure:
						if fn, ok := v.Fn.(*ssa.Function); ok {
							add(fn, f)
						}
					}
				}
				if mc, ok := in.(*ssa.MakeClosure); ok {
					if fn, ok := mc.Fn.(*ssa.Function); ok {
						add(fn, f)
					}
				}
				call, ok := in.(ssa.CallInstruction)
				if !ok {
					continue
				}
				cc := call.Common()
				if cc.IsInvoke() {
					recvT := cc.Value.Type()
					if nt, ok := recvT.(*types.Named); ok && nt.Obj().Pkg() != nil && o.StopIface[nt.Obj().Pkg().Path()+"."+nt.Obj().Name()] {
						res.Boundary = append(res.Boundary, Site{f, call})
						continue
					}
					for _, impl := range p.Implementations(recvT, cc.Method) {
						add(impl, f)
					}
					continue
				}
				if callee := cc.StaticCallee(); callee != nil {
					add(callee, f)
				}
			}
		}
	}
	return res
}

func packagePathOf(f *ssa.Function) string {
	r := Root(f)
	if o := r.Origin(); o != nil {
		r = o
	}
	if r.Pkg != nil {
		return r.Pkg.Pkg.Path()
	}
	if obj := r.Object(); obj != nil && obj.Pkg() != nil {
		return obj.Pkg().Path()
	}
	// synthetic wrappers: derive from the receiver type of the signature
	if r.Signature != nil && r.Signature.Recv() != nil {
		t := r.Signature.Recv().Type()
		if pt, ok := t.(*types.Pointer); ok {
			t = pt.Elem()
		}
		if nt, ok := t.(*types.Named); ok && nt.Obj().Pkg() != nil {
			return nt.Obj().Pkg().Path()
		}
	}
	return ""
}

// mentionsTypeParam reports whether a type refers to a type parameter.
func mentionsTypeParam(t types.Type, d int) bool {
	if t == nil || d > 8 {
		return false
	}
	switch x := t.(type) {
	case *types.TypeParam:
		return true
	case *types.Named:
		for i := 0; i < x.TypeArgs().Len(); i++ {
			if mentionsTypeParam(x.TypeArgs().At(i), d+1) {
				return true
			}
		}
		return false
	case *types.Pointer:
		return mentionsTypeParam(x.Elem(), d+1)
	case *types.Slice:
		return mentionsTypeParam(x.Elem(), d+1)
	case *types.Array:
		return mentionsTypeParam(x.Elem(), d+1)
	case *types.Map:
		return mentionsTypeParam(x.Key(), d+1) || mentionsTypeParam(x.Elem(), d+1)
	case *types.Chan:
		return mentionsTypeParam(x.Elem(), d+1)
	case *types.Signature:
		for i := 0; i < x.Params().Len(); i++ {
			if mentionsTypeParam(x.Params().At(i).Type(), d+1) {
				return true
			}
		}
		for i := 0; i < x.Results().Len(); i++ {
			if mentionsTypeParam(x.Results().At(i).Type(), d+1) {
				return true
			}
		}
	case *types.Interface:
		for i := 0; i < x.NumMethods(); i++ {
			if mentionsTypeParam(x.Method(i).Type(), d+1) {
				return true
			}
		}
	}
	return false
}
