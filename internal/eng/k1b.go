package eng

import (
	"go/token"

	"golang.org/x/tools/go/ssa"
)

// CmpEdgesEq returns the edges of fn on which an == / != comparison selected by match holds
// as an equality.
func CmpEdgesEq(fn *ssa.Function, match func(x, y ssa.Value) bool) []EdgeKey {
	return CmpEdges(fn, func(op token.Token, x, y ssa.Value) (bool, bool) {
		if (op != token.EQL && op != token.NEQ) || !match(x, y) {
			return false, false
		}
		return true, op == token.EQL
	})
}
