package eng

import (
	"fmt"
	"os"
	"go/token"
	"go/types"
	"sort"
	"strings"

	"golang.org/x/tools/go/ssa"
)

// Loc is a program point: just before instruction I of block B.
type Loc struct {
	B *ssa.BasicBlock
	I int
}

// EdgeKey identifies a CFG edge by block indices.
type EdgeKey [2]int

// IndexOf returns the index of an instruction in its block.
func IndexOf(in ssa.Instruction) int {
	for i, x := range in.Block().Instrs {
		if x == in {
			return i
		}
	}
	return -1
}

// At is the point just before in; After the point just after it.
func At(in ssa.Instruction) Loc    { return Loc{in.Block(), IndexOf(in)} }
func After(in ssa.Instruction) Loc { return Loc{in.Block(), IndexOf(in) + 1} }

// Entry is the entry point of fn.
func Entry(fn *ssa.Function) Loc { return Loc{fn.Blocks[0], 0} }

// Cut is a set of CFG edges and instructions that a path may not cross.
type Cut struct {
	Edges  map[EdgeKey]bool
	Instrs map[ssa.Instruction]bool
}

func NewCut() *Cut { return &Cut{Edges: map[EdgeKey]bool{}, Instrs: map[ssa.Instruction]bool{}} }

func (c *Cut) AddEdges(es ...EdgeKey) *Cut {
	for _, e := range es {
		c.Edges[e] = true
	}
	return c
}

func (c *Cut) AddInstrs(is ...ssa.Instruction) *Cut {
	for _, i := range is {
		if i != nil {
			c.Instrs[i] = true
		}
	}
	return c
}

// Size is the number of cut elements (0 means the cut found nothing to anchor on).
func (c *Cut) Size() int { return len(c.Edges) + len(c.Instrs) }

// FindPath searches a CFG path from `from` to just before `target` that crosses no cut edge
// and executes no cut instruction. It returns the sequence of blocks, or nil if none exists.
func FindPath(from Loc, target ssa.Instruction, cut *Cut) []*ssa.BasicBlock {
	return FindPathF(from, func(in ssa.Instruction) bool { return in == target }, cut)
}

// FindPathF is FindPath with a target predicate.
func FindPathF(from Loc, isTarget func(ssa.Instruction) bool, cut *Cut) []*ssa.BasicBlock {
	if cut == nil {
		cut = NewCut()
	}
	// scan returns (found, fellThrough)
	scan := func(b *ssa.BasicBlock, i int) (bool, bool) {
		for ; i < len(b.Instrs); i++ {
			in := b.Instrs[i]
			if isTarget(in) {
				return true, false
			}
			if cut.Instrs[in] {
				return false, false
			}
		}
		return false, true
	}
	parent := map[*ssa.BasicBlock]*ssa.BasicBlock{}
	found, fell := scan(from.B, from.I)
	if found {
		return []*ssa.BasicBlock{from.B}
	}
	if !fell {
		return nil
	}
	visited := map[*ssa.BasicBlock]bool{}
	var queue []*ssa.BasicBlock
	push := func(fromB *ssa.BasicBlock) {
		for _, s := range fromB.Succs {
			if cut.Edges[EdgeKey{fromB.Index, s.Index}] || visited[s] {
				continue
			}
			visited[s] = true
			if _, ok := parent[s]; !ok {
				parent[s] = fromB
			}
			queue = append(queue, s)
		}
	}
	push(from.B)
	for len(queue) > 0 {
		b := queue[0]
		queue = queue[1:]
		found, fell := scan(b, 0)
		if found {
			// reconstruct
			var rev []*ssa.BasicBlock
			seen := map[*ssa.BasicBlock]bool{}
			for x := b; x != nil && !seen[x]; x = parent[x] {
				seen[x] = true
				rev = append(rev, x)
				if x == from.B {
					break
				}
			}
			for i, j := 0, len(rev)-1; i < j; i, j = i+1, j-1 {
				rev[i], rev[j] = rev[j], rev[i]
			}
			if rev[0] != from.B {
				rev = append([]*ssa.BasicBlock{from.B}, rev...)
			}
			return rev
		}
		if fell {
			push(b)
		}
	}
	return nil
}

// PathString renders a block path with source lines.
func (p *Prog) PathString(path []*ssa.BasicBlock) string {
	var parts []string
	last := ""
	for _, b := range path {
		pos := token.NoPos
		for _, in := range b.Instrs {
			if in.Pos().IsValid() {
				pos = in.Pos()
				break
			}
		}
		s := p.Pos(pos)
		if s == "-" || s == last {
			continue
		}
		last = s
		if i := strings.LastIndex(s, ":"); i >= 0 {
			s = "L" + s[i+1:]
		}
		parts = append(parts, s)
	}
	if os.Getenv("RLINT_DEBUG") != "" {
		var idx []string
		for _, b := range path {
			idx = append(idx, fmt.Sprint(b.Index))
		}
		return strings.Join(parts, "→") + " blocks=" + strings.Join(idx, ",")
	}
	if len(parts) > 14 {
		parts = append(parts[:6], append([]string{"…"}, parts[len(parts)-6:]...)...)
	}
	return strings.Join(parts, "→")
}

// IsNilConst reports whether v is the nil constant.
func IsNilConst(v ssa.Value) bool {
	c, ok := v.(*ssa.Const)
	return ok && c.IsNil()
}

// Unnot strips boolean negations; neg reports whether an odd number was stripped.
func Unnot(v ssa.Value) (ssa.Value, bool) {
	neg := false
	for {
		u, ok := v.(*ssa.UnOp)
		if !ok || u.Op != token.NOT {
			return v, neg
		}
		v = u.X
		neg = !neg
	}
}

// IfEdge returns the edge taken from the If-terminated block b when its (un-negated)
// condition evaluates to val.
func IfEdge(b *ssa.BasicBlock, neg bool, val bool) EdgeKey {
	taken := val != neg // value of the real condition
	if taken {
		return EdgeKey{b.Index, b.Succs[0].Index}
	}
	return EdgeKey{b.Index, b.Succs[1].Index}
}

// CondEdges enumerates the If instructions of fn; for each, match receives the
// condition stripped of negations and returns (decides, truth): if decides, the edge on
// which the stripped condition has value `truth` is collected.
func CondEdges(fn *ssa.Function, match func(cond ssa.Value) (bool, bool)) []EdgeKey {
	var out []EdgeKey
	for _, b := range fn.Blocks {
		if len(b.Instrs) == 0 {
			continue
		}
		ifi, ok := b.Instrs[len(b.Instrs)-1].(*ssa.If)
		if !ok {
			continue
		}
		cond, neg := Unnot(ifi.Cond)
		if ok, truth := match(cond); ok {
			out = append(out, IfEdge(b, neg, truth))
		}
	}
	// The last operand of `a && b` / `a || b` is not tested by an If of its own when go/ssa
	// lowers the expression to a phi (tagless switch cases, conditions stored in variables):
	// on the edge where the phi differs from its constant arms it carries that operand.
	for _, want := range []bool{true, false} {
		want := want
		out = append(out, DerivedBoolEdges(fn, func(v ssa.Value) bool {
			ok, truth := match(v)
			return ok && truth == want
		}, want)...)
	}
	return out
}

// Cmp decomposes a comparison.
func Cmp(v ssa.Value) (op token.Token, x, y ssa.Value, ok bool) {
	b, isb := v.(*ssa.BinOp)
	if !isb {
		return 0, nil, nil, false
	}
	switch b.Op {
	case token.EQL, token.NEQ, token.LSS, token.LEQ, token.GTR, token.GEQ:
		return b.Op, b.X, b.Y, true
	}
	return 0, nil, nil, false
}

// NilEdges returns the edges on which a value satisfying same() is nil (wantNil) or non-nil.
func NilEdges(fn *ssa.Function, same func(ssa.Value) bool, wantNil bool) []EdgeKey {
	return CondEdges(fn, func(c ssa.Value) (bool, bool) {
		op, x, y, ok := Cmp(c)
		if !ok || (op != token.EQL && op != token.NEQ) {
			return false, false
		}
		var other ssa.Value
		switch {
		case IsNilConst(x):
			other = y
		case IsNilConst(y):
			other = x
		default:
			return false, false
		}
		if !same(other) {
			return false, false
		}
		// cond true means: EQL → nil, NEQ → non-nil
		return true, (op == token.EQL) == wantNil
	})
}

// BoolEdges returns the edges on which a boolean value satisfying same() equals val.
func BoolEdges(fn *ssa.Function, same func(ssa.Value) bool, val bool) []EdgeKey {
	return CondEdges(fn, func(c ssa.Value) (bool, bool) {
		if same(c) {
			return true, val
		}
		// comparisons against constant true/false
		if op, x, y, ok := Cmp(c); ok && (op == token.EQL || op == token.NEQ) {
			if k, isK := y.(*ssa.Const); isK && same(x) && k.Value != nil && types.Identical(k.Type().Underlying(), types.Typ[types.Bool]) {
				kv := k.Value.String() == "true"
				return true, (op == token.EQL) == (kv == val)
			}
		}
		return false, false
	})
}

// ---- value identity -------------------------------------------------------

// ReachingStores returns, for a load `*a` of a local Alloc, the stores that may reach it
// (intraprocedural reaching definitions). ok=false if the address is not a local Alloc or a
// path from function entry reaches the load without a store (zero value).
func ReachingStores(load *ssa.UnOp) (stores []*ssa.Store, zero bool, ok bool) {
	if load.Op != token.MUL {
		return nil, false, false
	}
	var a ssa.Value
	volatile, clobbered := false, false
	switch x := load.X.(type) {
	case *ssa.Alloc:
		// a closure that is called, passed on or started as a goroutine assigns the
		// variable: a store in this function need not be the value a later load sees when a
		// call (during which the closure may run) lies between the two
		volatile = WrittenByLiveClosure(x)
		a = x
	case *ssa.FreeVar:
		// a captured variable: stores inside this literal are visible; a path without a
		// store carries the unknown outer value (reported as zero)
		a = x
	default:
		return nil, false, false
	}
	seen := map[*ssa.Store]bool{}
	visited := map[*ssa.BasicBlock]bool{}
	var scanBack func(b *ssa.BasicBlock, i int)
	scanBack = func(b *ssa.BasicBlock, i int) {
		for ; i >= 0; i-- {
			if st, isSt := b.Instrs[i].(*ssa.Store); isSt && st.Addr == a {
				if !seen[st] {
					seen[st] = true
					stores = append(stores, st)
				}
				return
			}
			if ai, isInstr := a.(ssa.Instruction); isInstr && b.Instrs[i] == ai {
				zero = true
				return
			}
			if volatile {
				switch b.Instrs[i].(type) {
				case *ssa.Call, *ssa.Go:
					// (deferred calls are not counted: a literal that is only deferred is not
					// "live", and range-over-func bodies run during the iterator call only)
					clobbered = true
				}
			}
		}
		if len(b.Preds) == 0 {
			zero = true
			return
		}
		for _, pr := range b.Preds {
			if visited[pr] {
				continue
			}
			visited[pr] = true
			scanBack(pr, len(pr.Instrs)-1)
		}
	}
	scanBack(load.Block(), IndexOf(load)-1)
	if clobbered {
		return nil, false, false
	}
	return stores, zero, true
}

// Strip removes value-preserving wrappers (interface conversions, type changes).
func Strip(v ssa.Value) ssa.Value {
	for {
		switch x := v.(type) {
		case *ssa.ChangeInterface:
			v = x.X
		case *ssa.MakeInterface:
			v = x.X
		case *ssa.ChangeType:
			v = x.X
		default:
			return v
		}
	}
}

// SameAs returns a predicate that holds for SSA values that are certainly the value v:
// v itself, interface conversions of it, loads of a local variable all of whose reaching
// stores store it, and phis all of whose edges are it.
func SameAs(v ssa.Value) func(ssa.Value) bool {
	// v itself may be a load of a local cell (a captured parameter): compare the stored value
	canon := func(x ssa.Value) ssa.Value {
		for i := 0; i < 4; i++ {
			x = Strip(x)
			ld, ok := x.(*ssa.UnOp)
			if !ok || ld.Op != token.MUL {
				return x
			}
			sts, zero, ok := ReachingStores(ld)
			if !ok || zero || len(sts) != 1 {
				return x
			}
			x = sts[0].Val
		}
		return x
	}
	vc := canon(v)
	var same func(x ssa.Value, depth int) bool
	same = func(x ssa.Value, depth int) bool {
		if depth > 6 {
			return false
		}
		x = Strip(x)
		if x == Strip(v) || canon(x) == vc {
			return true
		}
		switch t := x.(type) {
		case *ssa.UnOp:
			if t.Op == token.MUL {
				sts, zero, ok := ReachingStores(t)
				if !ok || zero || len(sts) == 0 {
					return false
				}
				for _, st := range sts {
					if !same(st.Val, depth+1) {
						return false
					}
				}
				return true
			}
		case *ssa.Phi:
			for _, e := range t.Edges {
				if e == ssa.Value(t) {
					continue
				}
				if !same(e, depth+1) {
					return false
				}
			}
			return len(t.Edges) > 0
		}
		return false
	}
	return func(x ssa.Value) bool { return same(x, 0) }
}

// AnyOf combines predicates.
func AnyOf(ps ...func(ssa.Value) bool) func(ssa.Value) bool {
	return func(v ssa.Value) bool {
		for _, p := range ps {
			if p(v) {
				return true
			}
		}
		return false
	}
}

// ---- calls ------------------------------------------------------------------

// CalleeFunc returns the static callee (function or literal) of a call, or nil.
func CalleeFunc(c ssa.CallInstruction) *ssa.Function {
	return c.Common().StaticCallee()
}

// CalleeName gives the canonical name of the callee: a function/method name as in
// FuncObjName, a literal name, "field:<pkg>.<Type>.<field>" for calls through a struct
// field holding a func, "param:<name>" / "free:<name>" for func-typed parameters / captured
// variables, "" otherwise.
func (p *Prog) CalleeName(c ssa.CallInstruction) string {
	cc := c.Common()
	if cc.IsInvoke() {
		return FuncObjName(cc.Method)
	}
	if f := cc.StaticCallee(); f != nil {
		if f.Parent() != nil {
			return p.FnName(f)
		}
		if o := f.Origin(); o != nil {
			f = o
		}
		if obj, ok := f.Object().(*types.Func); ok && obj != nil {
			return FuncObjName(obj)
		}
		// bound method wrappers / thunks
		if f.Synthetic != "" {
			if obj, ok := f.Object().(*types.Func); ok && obj != nil {
				return FuncObjName(obj)
			}
		}
		return f.String()
	}
	if b, ok := cc.Value.(*ssa.Builtin); ok {
		return "builtin." + b.Name()
	}
	return p.ValueDesc(cc.Value)
}

// ValueDesc describes where a non-static function value comes from.
func (p *Prog) ValueDesc(v ssa.Value) string {
	v = Strip(v)
	switch x := v.(type) {
	case *ssa.Parameter:
		return "param:" + LogicalName(x)
	case *ssa.FreeVar:
		return "free:" + LogicalName(x)
	case *ssa.UnOp:
		if x.Op == token.MUL {
			if fa, ok := x.X.(*ssa.FieldAddr); ok {
				return "field:" + FieldName(fa.X.Type(), fa.Field)
			}
			if g, ok := x.X.(*ssa.Global); ok {
				return "global:" + Short(g.Pkg.Pkg.Path()) + "." + g.Name()
			}
			if fv, ok := x.X.(*ssa.FreeVar); ok {
				return "free:" + LogicalName(fv)
			}
			if a, ok := x.X.(*ssa.Alloc); ok {
				return "local:" + a.Comment
			}
		}
	case *ssa.Field:
		return "field:" + FieldName(x.X.Type(), x.Field)
	case *ssa.MakeClosure:
		if f, ok := x.Fn.(*ssa.Function); ok {
			return p.FnName(f)
		}
	case *ssa.Function:
		return p.FnName(x)
	}
	return ""
}

// FieldName gives "<pkg>.<Type>.<field>" for field index i of (pointer to) struct type t.
func FieldName(t types.Type, i int) string {
	if pt, ok := t.Underlying().(*types.Pointer); ok {
		t = pt.Elem()
	}
	name := ""
	switch n := t.(type) {
	case *types.Named:
		name = n.Obj().Name()
		if n.Obj().Pkg() != nil {
			name = Short(n.Obj().Pkg().Path()) + "." + name
		}
	case *types.Alias:
		name = n.Obj().Name()
	}
	st, ok := t.Underlying().(*types.Struct)
	if !ok || i >= st.NumFields() {
		return name + ".?"
	}
	return name + "." + st.Field(i).Name()
}

// FieldVar returns the field object selected by a FieldAddr/Field instruction.
func FieldVar(t types.Type, i int) *types.Var {
	if pt, ok := t.Underlying().(*types.Pointer); ok {
		t = pt.Elem()
	}
	st, ok := t.Underlying().(*types.Struct)
	if !ok || i >= st.NumFields() {
		return nil
	}
	return st.Field(i)
}

// Calls returns the call instructions (call, go, defer) of fn in block/instruction order.
func Calls(fn *ssa.Function) []ssa.CallInstruction {
	var out []ssa.CallInstruction
	for _, b := range fn.Blocks {
		for _, in := range b.Instrs {
			if c, ok := in.(ssa.CallInstruction); ok {
				out = append(out, c)
			}
		}
	}
	return out
}

// CallsTo returns the calls in fn whose callee name is one of names.
func (p *Prog) CallsTo(fn *ssa.Function, names ...string) []ssa.CallInstruction {
	set := map[string]bool{}
	for _, n := range names {
		set[n] = true
	}
	var out []ssa.CallInstruction
	for _, c := range Calls(fn) {
		if set[p.CalleeName(c)] {
			out = append(out, c)
		}
	}
	sortCalls(out)
	return out
}

func sortCalls(cs []ssa.CallInstruction) {
	sort.SliceStable(cs, func(i, j int) bool { return cs[i].Pos() < cs[j].Pos() })
}

// Site is a call site somewhere in the program.
type Site struct {
	Fn   *ssa.Function
	Call ssa.CallInstruction
}

// AllCallsTo enumerates the call sites of the named callees in all restic functions.
func (p *Prog) AllCallsTo(names ...string) []Site {
	set := map[string]bool{}
	for _, n := range names {
		set[n] = true
	}
	return p.AllCallsWhere(func(fn *ssa.Function, c ssa.CallInstruction) bool { return set[p.CalleeName(c)] })
}

// AllCallsWhere enumerates call sites satisfying pred in all restic functions.
func (p *Prog) AllCallsWhere(pred func(fn *ssa.Function, c ssa.CallInstruction) bool) []Site {
	var out []Site
	for _, fn := range p.Funcs {
		for _, c := range Calls(fn) {
			if pred(fn, c) {
				out = append(out, Site{fn, c})
			}
		}
	}
	return out
}

// RecvType returns the static type of the receiver of a method call (invoke or static).
func RecvType(c ssa.CallInstruction) types.Type {
	cc := c.Common()
	if cc.IsInvoke() {
		return cc.Value.Type()
	}
	if f := cc.StaticCallee(); f != nil && f.Signature.Recv() != nil && len(cc.Args) > 0 {
		return cc.Args[0].Type()
	}
	return nil
}

// MethodName returns the bare method/function name of the callee ("" if dynamic).
func MethodName(c ssa.CallInstruction) string {
	cc := c.Common()
	if cc.IsInvoke() {
		return cc.Method.Name()
	}
	if f := cc.StaticCallee(); f != nil {
		if o := f.Origin(); o != nil {
			f = o
		}
		if obj := f.Object(); obj != nil {
			return obj.Name()
		}
		return f.Name()
	}
	return ""
}

// IsMethodOf reports whether the call is a call of `method` on a receiver whose type
// implements (or is, or embeds) the interface iface.
func IsMethodOf(c ssa.CallInstruction, iface *types.Named, method string) bool {
	if iface == nil || MethodName(c) != method {
		return false
	}
	t := RecvType(c)
	if t == nil {
		return false
	}
	it, ok := iface.Underlying().(*types.Interface)
	if !ok {
		return false
	}
	if types.Implements(t, it) {
		return true
	}
	if _, isPtr := t.Underlying().(*types.Pointer); !isPtr {
		if _, isIface := t.Underlying().(*types.Interface); !isIface {
			return types.Implements(types.NewPointer(t), it)
		}
	}
	return false
}

// Arg returns the i-th explicit argument of a call (not counting the receiver).
func Arg(c ssa.CallInstruction, i int) ssa.Value {
	cc := c.Common()
	off := 0
	if !cc.IsInvoke() {
		if f := cc.StaticCallee(); f != nil && f.Signature.Recv() != nil {
			off = 1
		}
	}
	if i+off < len(cc.Args) {
		return cc.Args[i+off]
	}
	return nil
}

// Recv returns the receiver value of a method call.
func Recv(c ssa.CallInstruction) ssa.Value {
	cc := c.Common()
	if cc.IsInvoke() {
		return cc.Value
	}
	if f := cc.StaticCallee(); f != nil && f.Signature.Recv() != nil && len(cc.Args) > 0 {
		return cc.Args[0]
	}
	return nil
}

var errorType = types.Universe.Lookup("error").Type()

// IsErrorType reports whether t is the predeclared error type.
func IsErrorType(t types.Type) bool { return types.Identical(t, errorType) }

// Results returns the SSA values holding the results of a call, indexed by result
// position (nil where a result is unused).
func Results(c ssa.CallInstruction) []ssa.Value {
	call, ok := c.(*ssa.Call)
	if !ok {
		return nil
	}
	sig := c.Common().Signature()
	n := sig.Results().Len()
	out := make([]ssa.Value, n)
	if n == 1 {
		out[0] = call
		return out
	}
	for _, r := range *call.Referrers() {
		if e, ok := r.(*ssa.Extract); ok && e.Index < n {
			out[e.Index] = e
		}
	}
	return out
}

// ErrResult returns the value holding the error result of a call (nil if none/unused).
func ErrResult(c ssa.CallInstruction) ssa.Value {
	sig := c.Common().Signature()
	res := Results(c)
	for i := sig.Results().Len() - 1; i >= 0; i-- {
		if IsErrorType(sig.Results().At(i).Type()) {
			if i < len(res) {
				return res[i]
			}
		}
	}
	return nil
}

// SuccessEdges returns the edges on which the error result of call c is known to be nil.
func SuccessEdges(c ssa.CallInstruction) []EdgeKey {
	ev := ErrResult(c)
	if ev == nil {
		return nil
	}
	return NilEdges(c.Parent(), SameAs(ev), true)
}

// FailureEdges returns the edges on which the error result of c is known to be non-nil.
func FailureEdges(c ssa.CallInstruction) []EdgeKey {
	ev := ErrResult(c)
	if ev == nil {
		return nil
	}
	return NilEdges(c.Parent(), SameAs(ev), false)
}

// ResultTrueEdges returns the edges on which the (first) bool result of c has value val.
func ResultEdges(c ssa.CallInstruction, idx int, val bool) []EdgeKey {
	res := Results(c)
	if idx >= len(res) || res[idx] == nil {
		return nil
	}
	return BoolEdges(c.Parent(), SameAs(res[idx]), val)
}

// Returns lists the Return instructions of fn.
func Returns(fn *ssa.Function) []*ssa.Return {
	var out []*ssa.Return
	for _, b := range fn.Blocks {
		if len(b.Instrs) == 0 || b == fn.Recover {
			// the recover block is only entered after a recovered panic
			continue
		}
		if r, ok := b.Instrs[len(b.Instrs)-1].(*ssa.Return); ok {
			out = append(out, r)
		}
	}
	return out
}

// RetVal returns result i of a return, looking through the spill that go/ssa inserts in
// functions with defers (`*res = v; rundefers; t = *res; return t`).
func RetVal(r *ssa.Return, i int) ssa.Value {
	if i < 0 || i >= len(r.Results) {
		return nil
	}
	v := r.Results[i]
	ld, ok := v.(*ssa.UnOp)
	if !ok || ld.Op != token.MUL {
		return v
	}
	a, ok := ld.X.(*ssa.Alloc)
	if !ok || a.Heap {
		// a captured (named) result may be changed by a deferred closure
		return v
	}
	b := r.Block()
	for j := IndexOf(ld) - 1; j >= 0; j-- {
		if st, isSt := b.Instrs[j].(*ssa.Store); isSt && st.Addr == ssa.Value(a) {
			return st.Val
		}
		if _, isRD := b.Instrs[j].(*ssa.RunDefers); isRD {
			continue
		}
	}
	return v
}

// RetVals returns all results of a return, un-spilled.
func RetVals(r *ssa.Return) []ssa.Value {
	out := make([]ssa.Value, len(r.Results))
	for i := range r.Results {
		out[i] = RetVal(r, i)
	}
	return out
}

// MayBeNil reports whether value v (an error result of a return) may be nil, looking
// through phis and local-variable loads. Unknown values may be nil.
func MayBeNil(v ssa.Value) bool { return mayBeNil(nil, v) }

// neverNil lists error constructors that never return nil.
var neverNil = map[string]bool{
	"global:internal/errors.New": true, "global:internal/errors.Errorf": true,
	"fmt.Errorf": true, "errors.New": true, "internal/errors.Fatal": true, "internal/errors.Fatalf": true,
	"github.com/pkg/errors.New": true, "github.com/pkg/errors.Errorf": true,
}

// nilPreserving lists error wrappers whose result is nil exactly when their first argument is.
var nilPreserving = map[string]bool{
	"global:internal/errors.Wrap": true, "global:internal/errors.Wrapf": true, "global:internal/errors.WithStack": true,
	"github.com/pkg/errors.Wrap": true, "github.com/pkg/errors.Wrapf": true, "github.com/pkg/errors.WithStack": true,
}

// MayBeNil is like the package-level MayBeNil but also knows the error constructors that
// never return nil and treats exported package-level sentinel errors (Err…) as non-nil.
func (p *Prog) MayBeNil(v ssa.Value) bool { return mayBeNil(p, v) }

func mayBeNil(p *Prog, v ssa.Value) bool {
	seen := map[ssa.Value]bool{}
	var rec func(v ssa.Value) bool
	rec = func(v ssa.Value) bool {
		if seen[v] {
			return false
		}
		seen[v] = true
		switch x := v.(type) {
		case *ssa.Const:
			return x.IsNil()
		case *ssa.MakeInterface:
			return false
		case *ssa.Phi:
			for _, e := range x.Edges {
				if rec(e) {
					return true
				}
			}
			return false
		case *ssa.Call:
			if p != nil && neverNil[p.CalleeName(x)] {
				return false
			}
			return true
		case *ssa.UnOp:
			if x.Op == token.MUL {
				if g, isG := x.X.(*ssa.Global); isG && strings.HasPrefix(strings.ToLower(g.Name()), "err") {
					return false
				}
				sts, zero, ok := ReachingStores(x)
				if !ok {
					return true
				}
				if zero {
					return true
				}
				for _, st := range sts {
					if rec(st.Val) {
						return true
					}
				}
				return false
			}
		}
		return true
	}
	return rec(v)
}

// Panics lists the panic instructions of fn.
func Panics(fn *ssa.Function) []*ssa.Panic {
	var out []*ssa.Panic
	for _, b := range fn.Blocks {
		for _, in := range b.Instrs {
			if pn, ok := in.(*ssa.Panic); ok {
				out = append(out, pn)
			}
		}
	}
	return out
}
