package eng

import (
	"fmt"
	"go/ast"
	"go/token"
)

// EvalLiteralField evaluates an integer-valued field of the composite literal that
// initialises a package-level variable: EvalLiteralField("internal/repository.lockerInst",
// "refreshInterval").
func (p *Prog) EvalLiteralField(varName, field string) (int64, error) {
	obj := p.Obj(varName)
	if obj == nil {
		return 0, fmt.Errorf("%s does not resolve", varName)
	}
	pk := p.ByPath[obj.Pkg().Path()]
	if pk == nil {
		return 0, fmt.Errorf("package of %s not loaded from source", varName)
	}
	for _, f := range pk.Syntax {
		for _, d := range f.Decls {
			gd, ok := d.(*ast.GenDecl)
			if !ok || gd.Tok != token.VAR {
				continue
			}
			for _, sp := range gd.Specs {
				vs := sp.(*ast.ValueSpec)
				for i, n := range vs.Names {
					if pk.TypesInfo.Defs[n] != obj || i >= len(vs.Values) {
						continue
					}
					var lit *ast.CompositeLit
					switch x := vs.Values[i].(type) {
					case *ast.CompositeLit:
						lit = x
					case *ast.UnaryExpr:
						if cl, ok := x.X.(*ast.CompositeLit); ok {
							lit = cl
						}
					}
					if lit == nil {
						return 0, fmt.Errorf("%s is not initialised by a composite literal", varName)
					}
					for _, el := range lit.Elts {
						kv, ok := el.(*ast.KeyValueExpr)
						if !ok {
							continue
						}
						if id, ok := kv.Key.(*ast.Ident); ok && id.Name == field {
							return p.evalExpr(pk.TypesInfo, kv.Value, 1)
						}
					}
					return 0, fmt.Errorf("field %s not set in the literal of %s", field, varName)
				}
			}
		}
	}
	return 0, fmt.Errorf("no initialiser found for %s", varName)
}
