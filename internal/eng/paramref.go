package eng

import (
	_ "embed"
	"encoding/json"
	"sort"
	"strings"
	"sync"

	"golang.org/x/tools/go/ssa"
)

// Rules name parameters and captured variables of the analysed functions ("the parameter
// `filter` of ReadPacks", "a call of the captured `fn`"). Such names are local: renaming one
// changes no behaviour. paramref.json freezes, for the tree the rules were confirmed on, the
// names and types of the parameters and free variables of every function of the repository
// (regenerate with `rlint -gen-paramref`). A parameter whose current name is unknown to that
// reference, but which sits at the position and has the type of a recorded one whose name has
// disappeared from the function, is that parameter under a new name: LogicalName gives the
// recorded name, so a rule keeps recognising it.

//go:embed paramref.json
var paramRefJSON []byte

type NameRef struct {
	N string `json:"n"`
	T string `json:"t"`
}

type FnRef struct {
	P []NameRef `json:"p,omitempty"`
	F []NameRef `json:"f,omitempty"`
}

var (
	paramRefOnce sync.Once
	paramRef     map[string]FnRef
)

func loadParamRef() {
	paramRefOnce.Do(func() {
		paramRef = map[string]FnRef{}
		if len(paramRefJSON) > 2 {
			_ = json.Unmarshal(paramRefJSON, &paramRef)
		}
	})
}

// LogicalName returns the reference name of a parameter or free variable (see above), or its
// current name.
func LogicalName(v ssa.Value) string {
	loadParamRef()
	switch x := v.(type) {
	case *ssa.Parameter:
		fn := x.Parent()
		if fn == nil {
			return x.Name()
		}
		cur := make([]string, len(fn.Params))
		idx := -1
		for i, p := range fn.Params {
			cur[i] = p.Name()
			if p == x {
				idx = i
			}
		}
		return logical(paramRef[refKey(fn)].P, cur, idx, x.Name(), x.Type().String())
	case *ssa.FreeVar:
		fn := x.Parent()
		if fn == nil {
			return x.Name()
		}
		cur := make([]string, len(fn.FreeVars))
		idx := -1
		for i, p := range fn.FreeVars {
			cur[i] = p.Name()
			if p == x {
				idx = i
			}
		}
		// free variables are listed in order of first use: match by name and type, not position
		ref := paramRef[refKey(fn)].F
		for _, r := range ref {
			if r.N == x.Name() {
				return x.Name()
			}
		}
		var cand []string
		for _, r := range ref {
			if r.T != x.Type().String() {
				continue
			}
			gone := true
			for _, c := range cur {
				if c == r.N {
					gone = false
				}
			}
			if gone {
				cand = append(cand, r.N)
			}
		}
		// unambiguous only: one recorded name of this type vanished, one current name of this type is new
		if len(cand) == 1 {
			news := 0
			for i, c := range cur {
				known := false
				for _, r := range ref {
					if r.N == c {
						known = true
					}
				}
				if !known && fn.FreeVars[i].Type().String() == x.Type().String() {
					news++
				}
			}
			if news == 1 {
				return cand[0]
			}
		}
		_ = idx
		return x.Name()
	}
	return ""
}

func logical(ref []NameRef, cur []string, idx int, name, typ string) string {
	if idx < 0 || idx >= len(ref) || len(ref) != len(cur) {
		return name
	}
	r := ref[idx]
	if r.N == name || r.T != typ {
		return name
	}
	for _, c := range cur {
		if c == r.N {
			return name // the recorded name is still in use elsewhere: not a plain rename
		}
	}
	return r.N
}

// GenParamRef renders the reference table for the loaded program.
func (p *Prog) GenParamRef() ([]byte, error) {
	out := map[string]FnRef{}
	for _, fn := range p.Funcs {
		if fn.Pkg == nil && fn.Parent() == nil {
			continue
		}
		key := refKey(fn)
		if !strings.Contains(key, "github.com/restic/restic/") {
			continue
		}
		var r FnRef
		for _, x := range fn.Params {
			r.P = append(r.P, NameRef{x.Name(), x.Type().String()})
		}
		for _, x := range fn.FreeVars {
			r.F = append(r.F, NameRef{x.Name(), x.Type().String()})
		}
		if len(r.P)+len(r.F) == 0 {
			continue
		}
		out[key] = r
	}
	keys := make([]string, 0, len(out))
	for k := range out {
		keys = append(keys, k)
	}
	sort.Strings(keys)
	var sb strings.Builder
	sb.WriteString("{\n")
	for i, k := range keys {
		kb, _ := json.Marshal(k)
		vb, _ := json.Marshal(out[k])
		sb.Write(kb)
		sb.WriteString(": ")
		sb.Write(vb)
		if i < len(keys)-1 {
			sb.WriteString(",")
		}
		sb.WriteString("\n")
	}
	sb.WriteString("}\n")
	return []byte(sb.String()), nil
}

// refKey names a function in the reference table. A named function is its own name; a function
// literal is named by its parent, its signature and its position among the parent's literals of
// that signature — so that a new literal of another shape, inserted before it, does not shift it
// onto another literal's entry (the compiler's $N numbering would).
func refKey(fn *ssa.Function) string {
	par := fn.Parent()
	if par == nil {
		return fn.String()
	}
	sig := sigTypes(fn)
	k := 0
	for _, a := range par.AnonFuncs {
		if a == fn {
			break
		}
		if sigTypes(a) == sig {
			k++
		}
	}
	return refKey(par) + "#" + sig + "#" + string(rune('0'+k%10)) + string(rune('0'+(k/10)%10))
}

// sigTypes renders a signature by its parameter and result types only (names are what the
// table is there to recover).
func sigTypes(fn *ssa.Function) string {
	var sb strings.Builder
	sb.WriteString("func(")
	ps := fn.Signature.Params()
	for i := 0; i < ps.Len(); i++ {
		if i > 0 {
			sb.WriteString(",")
		}
		sb.WriteString(ps.At(i).Type().String())
	}
	sb.WriteString(")(")
	rs := fn.Signature.Results()
	for i := 0; i < rs.Len(); i++ {
		if i > 0 {
			sb.WriteString(",")
		}
		sb.WriteString(rs.At(i).Type().String())
	}
	sb.WriteString(")")
	return sb.String()
}
