package rules

import (
	"go/token"

	"golang.org/x/tools/go/ssa"

	"verif/internal/eng"
)

// ruleWithinAnchor (C22): the windows of --keep-within and --keep-within-<period> are
// measured from the newest snapshot of the group that is not dated in the future. In
// findLatestTimestamp the result is one of the snapshots' own timestamps (or the zero time):
// every value that reaches the return is read from Snapshot.Time behind the true edge of
// Time.Before(now) — never the clock itself. Anchoring at time.Now() (when a future-dated
// snapshot exists) measures the window from today and can expire every real snapshot while
// the future one keeps the "would remove all snapshots" guard quiet.
func ruleWithinAnchor(c *eng.Ctx) {
	const rule = "within-anchor"
	fn := c.NeedFn(rule, "internal/data.findLatestTimestamp")
	if fn == nil {
		return
	}
	timeF := c.P.Field("internal/data.Snapshot", "Time")
	nows := c.P.CallsTo(fn, "time.Now")
	if timeF == nil || len(nows) == 0 {
		c.Unk(rule, "anchor:Snapshot.Time/time.Now", fn.Pos(), "Snapshot.Time or the time.Now() call does not resolve")
		return
	}
	isNow := func(v ssa.Value) bool {
		for _, n := range nows {
			if eng.SameAs(n.Value())(v) {
				return true
			}
		}
		return false
	}
	// edges on which a snapshot time is known to lie before now
	notFuture := eng.CondEdges(fn, func(cond ssa.Value) (bool, bool) {
		call, ok := cond.(*ssa.Call)
		if !ok || len(call.Call.Args) != 2 {
			return false, false
		}
		switch c.P.CalleeName(call) {
		case "time.Time.Before":
			if eng.LoadsField(call.Call.Args[0], timeF) && isNow(call.Call.Args[1]) {
				return true, true
			}
		case "time.Time.After":
			if eng.LoadsField(call.Call.Args[1], timeF) && isNow(call.Call.Args[0]) {
				return true, true
			}
			if eng.LoadsField(call.Call.Args[0], timeF) && isNow(call.Call.Args[1]) {
				return true, false
			}
		}
		return false, false
	})
	n := 0
	for _, r := range eng.Returns(fn) {
		// values reaching the return
		var vals []ssa.Value
		seen := map[ssa.Value]bool{}
		var rec func(v ssa.Value)
		rec = func(v ssa.Value) {
			if seen[v] {
				return
			}
			seen[v] = true
			if phi, ok := v.(*ssa.Phi); ok {
				for _, e := range phi.Edges {
					rec(e)
				}
				return
			}
			vals = append(vals, v)
		}
		rec(eng.RetVal(r, 0))
		for _, v := range vals {
			n++
			switch x := v.(type) {
			case *ssa.Const:
				c.Ok(rule, "findLatestTimestamp:result:zero-time", r.Pos(), "the zero time (no snapshot qualified)")
			case *ssa.UnOp:
				if x.Op == token.MUL && eng.LoadsField(x, timeF) {
					c.MustPass(rule, "findLatestTimestamp:result=snapshot-time→not-in-the-future", eng.Entry(fn), x, eng.NewCut().AddEdges(notFuture...), "sn.Time.Before(now)")
					continue
				}
				c.Bad(rule, "findLatestTimestamp:result-origin", r.Pos(), "the anchor is read from %s, not from a snapshot's Time", c.P.Describe(v))
			default:
				c.Bad(rule, "findLatestTimestamp:result-origin", r.Pos(), "the anchor can be %s — it must be the time of a snapshot of the group", c.P.Describe(v))
			}
		}
	}
	c.Check(n >= 2, rule, "findLatestTimestamp:values", fn.Pos(), "%d values reach the result", n)
}
