package rules

import "verif/internal/eng"

func init() {
	register(&Property{
		ID: "C12",
		Explanation: "Decides the shape of the lock protocol, which must hold for every interleaving: (lock-protocol) in newLock the lock file is created only behind the success edge of a first checkForOtherLocks; success is returned only behind the success edges of createLock and of a second checkForOtherLocks executed after a settle delay — for exclusive and non-exclusive locks alike — and when that second check fails every way out passes unlock (the created file is removed); (conflict-rule) the per-lock callback of checkForOtherLocks returns nil only on the false edges of both the own and the other lock's Exclusive flag and only if the lock file could be read, and checkForOtherLocks returns nil only after a complete error-free scan; (stale-only) RemoveStaleLocks removes a lock only on the true edge of lock.stale(), the one it examined, and stale() is true only by age beyond staleLockTimeout or a dead process on the same host; (process-probe) where processExists probes the owner with a signal, it reports the process gone only on the not-a-permission-error edge of a test of the signal's error (kill() of a live process of another user fails with EPERM) — the genuine defect found here (`unlock` run by another user removed the lock of a running restic process) is fixed; (lock-file-writers) lock files are created only by createLock and removed only by unlock, adoptReplacementLock, the clean-up in refreshStaleLock and the unlock command. Not decided: interleavings of two or three processes, clock skew and listing delays of the backend (these need model checking).",
		Assumptions: commonAssumptions,
		Technique:   "static analysis: CFG edge cuts on the lock-acquisition protocol + call-site enumeration of lock-file writers (go/ssa)",
		Run: func(c *eng.Ctx) {
			ruleLockProtocol(c)
			ruleConflictRule(c)
			ruleStaleOnly(c)
			ruleLockFileWriters(c)
			ruleProcessProbe(c)
		},
		AllConfigs: true,
		Controls: []Control{
			{Name: "eperm-counts-as-process-gone", File: "internal/repository/lock_file_unix.go",
				Old: "	if errors.Is(err, syscall.EPERM) {", New: "	if errors.Is(err, syscall.EPERM) && l.PID < 0 {", Rule: "process-probe"},
			{Name: "create-before-first-check", File: "internal/repository/lock_file.go",
				Old: "	if err = lock.checkForOtherLocks(ctx); err != nil {\n		return nil, err\n	}\n\n	lockID, err := lock.createLock(ctx)", New: "	lockID, err := lock.createLock(ctx)", Rule: "lock-protocol"},
			{Name: "conflict-leaves-lock-file", File: "internal/repository/lock_file.go",
				Old: "		_ = lock.unlock(ctx)\n		return nil, err", New: "		return nil, err", Rule: "lock-protocol"},
			{Name: "only-own-exclusive-counts", File: "internal/repository/lock_file.go",
				Old: "			if l.Exclusive || lock.Exclusive {", New: "			if l.Exclusive {", Rule: "conflict-rule"},
			{Name: "unlock-removes-all-foreign-locks", File: "internal/repository/lock.go",
				Old: "		if lock.stale() {\n			err = (&internalRepository{repo}).RemoveUnpacked(ctx, restic.LockFile, id)", New: "		if lock.stale() || lock.Hostname == \"\" {\n			err = (&internalRepository{repo}).RemoveUnpacked(ctx, restic.LockFile, id)", Rule: "stale-only"},
		},
	})
	register(&Property{
		ID: "C13",
		Explanation: "Decides: (create-then-remove) in lockHandle.refresh and refreshStaleLock the old lock file is removed (adoptReplacementLock) only behind the success edge of createReplacementLock, the lock adopted is the one just created, and success is returned only through adoptReplacementLock; refreshStaleLock creates a replacement only if the own lock file still exists and adopts it only if a second existence check — after creating it — succeeded and still found the file; adoptReplacementLock switches l.lockID first and removes the id read before the switch, so there is no moment without a lock file; (cancel-before-unlock) the deferred clean-up of refreshLocks cancels the holder's context before it removes the lock file, both refresh goroutines register their clean-up before any exit, refreshLocks refreshes only inside the refreshability window, and a failed stale refresh calls cancel() (true is returned only on success); (lock-timing) with the initialisers evaluated, 0 < refreshInterval < refreshabilityTimeout < staleLockTimeout and refreshabilityTimeout + refreshInterval <= staleLockTimeout, and staleLockTimeout is reassigned only by a testing hook; (refresh-rendezvous) refreshLocks and monitorLockRefresh, started together with channels made for this pair, cannot block each other for ever: for every pair of blocking channel operations (one per goroutine) whose only other way out is the cancellation of the lock context, some shared channel is sent on by one and received from by the other — the genuine defect found here (a regular refresh finishing after the monitor had requested a forced refresh left both blocked in their sends, so the lock was neither refreshed nor monitored and the context never cancelled) is fixed; (monitor-own-clock) the expiry monitor can stop the holder without the cooperation of the refresh goroutine: every blocking channel operation of monitorLockRefresh has a clock case and from each clock case a return (whose clean-up cancels the holder's context) is reachable without another rendezvous — on the pinned tree both fail (a refresh that hangs in the backend is never given up; demonstrated), which is recorded as a KNOWN-FINDING because the repair needs a new give-up policy and timing parameter; (last-refresh-on-success) the time refreshLocks measures its blind-refresh window from is read once before the loop and afterwards only behind the success edge of lock.refresh or tryRefreshStaleLock (lock.Time itself also advances on failed attempts; added after a seeded change). (plain-refresh-not-cancellable) lockHandle.refresh, which has no clean-up for its replacement file when the upload reports an error, is only ever called with context.TODO()/Background(): a cancelled upload can have reached the repository, and the replacement would stay behind as a fresh lock of a finished process (added after a seeded change that passed the locker's context); refreshStaleLock, which does run under the locker's context, uploads its replacement with the delayed-cancel context, so that an Unlock in the middle of a forced refresh still lets the replacement be adopted or cleaned up (genuine defect, demonstrated, fixed: the replacement stayed in the repository). Not decided: the request/result hand-over on the per-request result channel; real timing (scheduler stalls, suspend/resume).",
		Assumptions: commonAssumptions,
		Technique:   "static analysis: CFG edge cuts + value origin of the removed lock id + evaluation of timing constants (go/ssa, go/constant)",
		Run: func(c *eng.Ctx) {
			rulePlainRefreshNotCancellable(c)
			ruleCreateThenRemove(c)
			ruleCancelBeforeUnlock(c)
			ruleLockTiming(c)
			ruleRendezvousNoCycle(c)
			ruleMonitorOwnClock(c)
			ruleLastRefreshOnSuccess(c)
		},
		Controls: []Control{
			{Name: "forced-refresh-uploads-with-the-lockers-context", File: "internal/repository/lock_file.go",
				Old: "	ctx, cancel := delayedCancelContext(ctx, unlockCancelDelay)\n	defer cancel()\n\n	id, err := l.createReplacementLock(ctx)\n	if err != nil {\n		return err\n	}\n\n	time.Sleep(waitBeforeLockCheck)\n\n	exists, err = l.checkExistence(ctx)\n", New: "	id, err := l.createReplacementLock(ctx)\n	if err != nil {\n		return err\n	}\n\n	time.Sleep(waitBeforeLockCheck)\n\n	exists, err = l.checkExistence(ctx)\n\n	ctx, cancel := delayedCancelContext(ctx, unlockCancelDelay)\n	defer cancel()\n", Rule: "plain-refresh-not-cancellable"},
			{Name: "regular-refresh-with-the-lockers-context", File: "internal/repository/lock.go",
				Old: "			err := lock.refresh(context.TODO())", New: "			err := lock.refresh(ctx)", Rule: "plain-refresh-not-cancellable"},
			{Name: "window-restarts-after-failed-refresh", File: "internal/repository/lock.go",
				Old: "			if err != nil {\n				logger(\"unable to refresh lock: %v\\n\", err)\n			} else {\n				lastRefresh = lock.Time", New: "			lastRefresh = lock.Time\n			if err != nil {\n				logger(\"unable to refresh lock: %v\\n\", err)\n			} else {", Rule: "last-refresh-on-success"},
			{Name: "monitor-waits-for-result-without-ticker", File: "internal/repository/lock.go",
				Old: "		case success := <-refreshStaleLockResult:\n			if success {", New: "		case success := <-refreshStaleLockResult:\n			if !success {\n				success = <-refreshStaleLockResult\n			}\n			if success {", Rule: "monitor-own-clock"},
			{Name: "monitor-does-not-drain-notifications-while-requesting", File: "internal/repository/lock.go",
				Old: "				case <-refreshed:\n					// ignore delayed refresh notifications. The refresh goroutine cannot\n					// receive the request while it waits to deliver its notification.\n", New: "", Rule: "refresh-rendezvous"},
			{Name: "remove-old-lock-before-creating-new", File: "internal/repository/lock_file.go",
				Old: "	id, err := l.createReplacementLock(ctx)\n	if err != nil {\n		return err\n	}\n\n	ctx, cancel := delayedCancelContext(ctx, unlockCancelDelay)\n	defer cancel()\n	return l.adoptReplacementLock(ctx, id)",
				New: "	id, err := l.createReplacementLock(ctx)\n	if err != nil {\n		debug.Log(\"create failed: %v\", err)\n	}\n\n	ctx, cancel := delayedCancelContext(ctx, unlockCancelDelay)\n	defer cancel()\n	return l.adoptReplacementLock(ctx, id)", Rule: "create-then-remove"},
			{Name: "unlock-before-cancel", File: "internal/repository/lock.go",
				Old: "		// ensure that the context was cancelled before removing the lock\n		unlocker.cancel()\n", New: "", Rule: "cancel-before-unlock"},
			{Name: "stale-timeout-below-refresh-window", File: "internal/repository/lock_file.go",
				Old: "var staleLockTimeout = 30 * time.Minute", New: "var staleLockTimeout = 12 * time.Minute", Rule: "lock-timing"},
			{Name: "failed-stale-refresh-keeps-running", File: "internal/repository/lock.go",
				Old: "		// cancel context while the backend is still frozen to prevent accidental modifications\n		cancel()\n", New: "		_ = cancel\n", Rule: "cancel-before-unlock"},
		},
	})
}
