package rules

import (
	"go/token"
	"go/types"

	"golang.org/x/tools/go/ssa"

	"verif/internal/eng"
)

// ruleRewriteDedupSet (C09, C33): in the rewriter goroutine of MasterIndex.Rewrite a pack
// entry is marked "already processed" only if it is kept: either the index file it came
// from stays (it is not added to the obsolete set in that iteration) or the entry is stored
// into a new index right away. Otherwise a later (or the same) index file's copy of the
// entry is skipped as a duplicate and the pack loses its only index entry.
func ruleRewriteDedupSet(c *eng.Ctx) {
	const rule = "processed-implies-kept"
	root := c.NeedFn(rule, pkgIndex+".(*MasterIndex).Rewrite")
	if root == nil {
		return
	}
	var lit *ssa.Function
	var stores []ssa.CallInstruction
	for _, l := range c.P.Lits(root) {
		if sp := c.P.CallsTo(l, pkgIndex+".(*Index).StorePack"); len(sp) > 0 {
			lit, stores = l, sp
		}
	}
	if lit == nil {
		c.Unk(rule, "Rewrite:rewriter-goroutine", root.Pos(), "no function literal of Rewrite stores packs into a new index")
		return
	}
	c.Touch(lit)
	// the processed set: receiver of the Has call that guards StorePack
	var setRoot ssa.Value
	for _, h := range eng.Calls(lit) {
		if eng.MethodName(h) != "Has" || eng.Recv(h) == nil {
			continue
		}
		guards := true
		for _, sp := range stores {
			if eng.FindPath(eng.Entry(lit), sp.(ssa.Instruction), eng.ResultCut(false, 0, h)) != nil {
				guards = false
			}
		}
		if !guards {
			continue
		}
		for _, r := range eng.Origins(eng.Recv(h), nil) {
			setRoot = r
		}
	}
	if setRoot == nil {
		c.Bad(rule, "Rewrite:duplicate-test→StorePack", lit.Pos(), "StorePack in the rewriter is not guarded by a duplicate test (Has == false) on a processed-set")
		return
	}
	c.Ok(rule, "Rewrite:duplicate-test→StorePack", stores[0].Pos(), "every StorePack of the rewriter is guarded by processedSet.Has(hash) == false")
	isSet := func(v ssa.Value) bool {
		for _, r := range eng.Origins(v, nil) {
			if r == setRoot {
				return true
			}
		}
		return false
	}
	// mutations of the processed set and of the captured obsolete set
	var setMut, obsMut []ssa.Instruction
	for _, call := range eng.Calls(lit) {
		m := eng.MethodName(call)
		if (m != "Insert" && m != "Merge") || eng.Recv(call) == nil {
			continue
		}
		if nt, ok := eng.Recv(call).Type().(*types.Named); !ok || nt.Obj().Name() != "IDSet" {
			continue
		}
		switch {
		case isSet(eng.Recv(call)):
			setMut = append(setMut, call.(ssa.Instruction))
		default:
			for _, r := range eng.Origins(eng.Recv(call), nil) {
				if _, isFV := r.(*ssa.FreeVar); isFV {
					obsMut = append(obsMut, call.(ssa.Instruction))
				}
			}
		}
	}
	if len(setMut) == 0 || len(obsMut) == 0 {
		c.Unk(rule, "Rewrite:sets", lit.Pos(), "expected insertions into the processed set (%d) and into the captured obsolete set (%d)", len(setMut), len(obsMut))
		return
	}
	// outer loop header: the block receiving the rewrite tasks
	var header *ssa.BasicBlock
	for _, b := range lit.Blocks {
		for _, in := range b.Instrs {
			if rcv, ok := in.(*ssa.UnOp); ok && rcv.Op == token.ARROW && header == nil {
				isOuter := true
				for _, o := range lit.Blocks {
					if o != b && o.Dominates(b) {
						for _, oin := range o.Instrs {
							if r2, ok := oin.(*ssa.UnOp); ok && r2.Op == token.ARROW {
								isOuter = false
							}
						}
					}
				}
				if isOuter {
					header = b
				}
			}
		}
	}
	if header == nil {
		c.Unk(rule, "Rewrite:task-loop", lit.Pos(), "cannot find the loop receiving the rewrite tasks")
		return
	}
	iterEnd := header.Instrs[0]
	intoHeader := eng.NewCut()
	for _, p := range header.Preds {
		intoHeader.AddEdges(eng.EdgeKey{p.Index, header.Index})
	}
	storeCut := eng.NewCut()
	for _, sp := range stores {
		storeCut.AddInstrs(sp.(ssa.Instruction))
	}
	isObs := func(in ssa.Instruction) bool {
		for _, o := range obsMut {
			if o == in {
				return true
			}
		}
		return false
	}
	for _, m := range setMut {
		key := "Rewrite:processed-set." + eng.MethodName(m.(ssa.CallInstruction))
		// does this iteration make the source index obsolete (before or after m)?
		obsAfter := eng.FindPathF(eng.After(m), isObs, intoHeader) != nil
		obsBefore := false
		for _, o := range obsMut {
			if eng.FindPath(eng.After(o), m, intoHeader) != nil {
				obsBefore = true
			}
		}
		if !obsAfter && !obsBefore {
			c.Ok(rule, key+":source-index-kept", m.Pos(), "the entries are marked processed on a path that keeps their index file (it is not added to the obsolete set in this iteration)")
			continue
		}
		// the entry must then be stored into a new index before the iteration ends
		if p := eng.FindPath(eng.After(m), iterEnd, storeCut); p != nil {
			c.Bad(rule, key+":stored-when-source-index-dropped", m.Pos(),
				"a pack entry is marked processed although its index file is dropped in the same iteration and the entry is not stored into a new index on %s: its only index entry can be lost", c.P.PathString(p))
			continue
		}
		c.Ok(rule, key+":stored-when-source-index-dropped", m.Pos(), "the entry marked processed is stored into the new index on every path to the end of the iteration")
	}
	c.Floor(rule, 3, 3)
}
