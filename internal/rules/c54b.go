package rules

import (
	"golang.org/x/tools/go/ssa"

	"verif/internal/eng"
)

// ruleStatsWalkComplete (C54, "the number of entries in the selected snapshots and the total
// size of their regular files"): the numbers printed are totals over *every* node of every
// selected snapshot only if the walk is neither cut short nor its failure turned into a result:
//   - the walk callback of stats returns nothing but nil, the error it was handed, or an error
//     it constructs by a call — never a sentinel loaded from a package variable
//     (walker.ErrSkipNode would silently leave out a subtree or the rest of a directory);
//   - when it is handed an error for a node, it does not return nil;
//   - the errors of walker.Walk in statsWalkSnapshot and of statsWalkSnapshot in its callers are
//     handed on before the function returns (shared rule form of load-errors-propagate).
func ruleStatsWalkComplete(c *eng.Ctx) {
	const rule = "stats-walk-complete"
	fn := c.NeedFn(rule, "cmd/restic.statsWalkTree")
	if fn == nil {
		return
	}
	var cb *ssa.Function
	for _, l := range c.P.Lits(fn) {
		if l.Parent() == fn && len(l.Params) == 4 {
			cb = l
		}
	}
	if cb == nil {
		c.Unk(rule, "statsWalkTree:callback", fn.Pos(), "walk callback not found")
		return
	}
	c.Touch(cb)
	errP := cb.Params[3]
	n := 0
	for _, r := range eng.Returns(cb) {
		for _, o := range eng.Origins(eng.RetVal(r, 0), nil) {
			n++
			switch {
			case eng.IsNilConst(o), eng.SameAs(errP)(o):
				c.Ok(rule, "statsWalkTree:callback-result", r.Pos(), "nil or the error handed in")
			default:
				call := eng.RootCall(o)
				c.Check(call != nil && call.Call.StaticCallee() != nil, rule, "statsWalkTree:callback-result", r.Pos(), "the callback returns only nil, the walk error or an error it constructs — never a skip sentinel (%s)", c.P.Describe(o))
			}
		}
	}
	c.Check(n >= 3, rule, "statsWalkTree:callback-returns", cb.Pos(), "%d return values classified", n)
	for _, e := range eng.NilEdges(cb, eng.SameAs(errP), false) {
		bad := false
		for _, r := range eng.Returns(cb) {
			if eng.FindPath(eng.EdgeStart(cb, e), r, nil) != nil && c.P.MayBeNil(eng.RetVal(r, 0)) {
				if !eng.SameAs(errP)(eng.RetVal(r, 0)) {
					bad = true
				}
			}
		}
		c.Check(!bad, rule, "statsWalkTree:node-error-is-returned", cb.Pos(), "a node the walker could not load ends the walk with an error instead of being left out of the totals")
	}
	ruleErrorsConsumed(c, "stats-errors-propagate", []string{"cmd/restic.statsWalkSnapshot"}, nil, 1)
	if ws := c.NeedFn(rule, "cmd/restic.statsWalkSnapshot"); ws != nil {
		walks := c.P.CallsTo(ws, "internal/walker.Walk")
		c.Check(len(walks) == 1, rule, "statsWalkSnapshot:walks-the-tree", ws.Pos(), "%d calls of walker.Walk", len(walks))
		for _, w := range walks {
			ev := eng.ErrResult(w)
			if ev == nil {
				c.Bad(rule, "statsWalkSnapshot:walk-error-returned", w.Pos(), "the error of walker.Walk is discarded")
				continue
			}
			for _, r := range eng.Returns(ws) {
				if !c.P.MayBeNil(eng.RetVal(r, 0)) {
					continue
				}
				if eng.FindPath(eng.After(w.(ssa.Instruction)), r, nil) == nil {
					continue
				}
				c.MustPass(rule, "statsWalkSnapshot:success→walk-succeeded", eng.After(w.(ssa.Instruction)), r, eng.NewCut().AddEdges(eng.NilEdges(ws, eng.SameAs(ev), true)...), "walker.Walk returned nil")
			}
		}
	}
}
