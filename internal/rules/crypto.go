package rules

import (
	"go/constant"
	"go/token"
	"go/types"

	"golang.org/x/tools/go/ssa"

	"verif/internal/eng"
)

const (
	pkgCrypto = "internal/repository/crypto"
	fnSeal    = pkgCrypto + ".(*Key).Seal"
	fnOpen    = pkgCrypto + ".(*Key).Open"
	fnNonce   = pkgCrypto + ".NewRandomNonce"
	xorStream = "crypto/cipher.Stream.XORKeyStream"
)

func constVal(c *eng.Ctx, rule, name string) (constant.Value, bool) {
	o := c.P.Obj(name)
	k, ok := o.(*types.Const)
	if !ok {
		c.Unk(rule, "anchor:"+name, token.NoPos, "constant %s does not resolve", name)
		return nil, false
	}
	return k.Val(), true
}

func constIntVal(c *eng.Ctx, rule, name string) (int64, bool) {
	v, ok := constVal(c, rule, name)
	if !ok {
		return 0, false
	}
	i, exact := constant.Int64Val(constant.ToInt(v))
	if !exact {
		// never fail silently: a caller that returns early on !ok would pass vacuously
		c.Unk(rule, "anchor:"+name+":integer", token.NoPos, "constant %s is not an integer constant (%s)", name, v.Kind())
	}
	return i, exact
}

// lenEqEdges: edges on which len(<param name>) == k.
func lenEqEdges(fn *ssa.Function, param string, k int64) []eng.EdgeKey {
	isP := eng.IsParam(fn, param)
	return eng.CmpEdges(fn, func(op token.Token, x, y ssa.Value) (bool, bool) {
		if op != token.EQL && op != token.NEQ {
			return false, false
		}
		if !eng.IsLenOf(x, isP) {
			x, y = y, x
		}
		if !eng.IsLenOf(x, isP) {
			return false, false
		}
		if v, ok := eng.ConstInt(y); !ok || v != k {
			return false, false
		}
		return true, op == token.EQL
	})
}

// ruleMacBeforeDecrypt (C03, C05): in Key.Open the keystream is applied only after the
// Poly1305 tag verified.
func ruleMacBeforeDecrypt(c *eng.Ctx) {
	const rule = "mac-before-decrypt"
	fn := c.NeedFn(rule, fnOpen)
	if fn == nil {
		return
	}
	xors := c.SomeCalls(rule, fn, xorStream)
	verify := c.P.CallsTo(fn, pkgCrypto+".poly1305Verify")
	for _, x := range xors {
		c.MustPass(rule, "Key.Open:poly1305Verify→XORKeyStream", eng.Entry(fn), x.(ssa.Instruction),
			eng.ResultCut(true, 0, verify...), "true branch of poly1305Verify(ct, nonce, key, mac)")
	}
	// a nil error is returned only after decryption
	for _, r := range eng.Returns(fn) {
		if len(r.Results) == 2 && c.P.MayBeNil(eng.RetVal(r, 1)) {
			c.MustPass(rule, "Key.Open:nil-error-only-after-verify", eng.Entry(fn), r,
				eng.ResultCut(true, 0, verify...), "true branch of poly1305Verify before a nil-error return")
		}
	}
	c.Floor(rule, 2, 2)
}

// ruleSealGuards (C05): Seal refuses invalid keys, wrong-size and all-zero nonces.
func ruleSealGuards(c *eng.Ctx) {
	const rule = "seal-guards"
	fn := c.NeedFn(rule, fnSeal)
	if fn == nil {
		return
	}
	iv, ok := constIntVal(c, rule, pkgCrypto+".ivSize")
	if !ok {
		return
	}
	valid := c.P.CallsTo(fn, pkgCrypto+".(*Key).Valid")
	vnonce := c.P.CallsTo(fn, pkgCrypto+".validNonce")
	for _, x := range c.SomeCalls(rule, fn, xorStream) {
		xi := x.(ssa.Instruction)
		c.MustPass(rule, "Key.Seal:Valid→XORKeyStream", eng.Entry(fn), xi, eng.ResultCut(true, 0, valid...), "k.Valid() is true")
		c.MustPass(rule, "Key.Seal:validNonce→XORKeyStream", eng.Entry(fn), xi, eng.ResultCut(true, 0, vnonce...), "validNonce(nonce) is true")
		c.MustPass(rule, "Key.Seal:nonce-length→XORKeyStream", eng.Entry(fn), xi,
			eng.NewCut().AddEdges(lenEqEdges(fn, "nonce", iv)...), "len(nonce) == ivSize")
		// the nonce used for the stream is the checked parameter
		for _, ctr := range c.P.CallsTo(fn, "crypto/cipher.NewCTR") {
			c.Check(eng.IsParam(fn, "nonce")(eng.Arg(ctr, 1)), rule, "Key.Seal:NewCTR-uses-checked-nonce", ctr.Pos(),
				"cipher.NewCTR takes the nonce parameter that was validated")
		}
	}
	// every return passes the encryption (rejecting branches panic, they do not return dst)
	xs := c.P.CallsTo(fn, xorStream)
	for _, r := range eng.Returns(fn) {
		c.MustPass(rule, "Key.Seal:return-only-after-encrypt", eng.Entry(fn), r, eng.CallCut(xs...), "XORKeyStream executed before return")
	}
	c.Floor(rule, 4, 5)
}

// ruleOpenGuards (C05): Open rejects short input, invalid keys and all-zero nonces before
// it slices or decrypts.
func ruleOpenGuards(c *eng.Ctx) {
	const rule = "open-guards"
	fn := c.NeedFn(rule, fnOpen)
	if fn == nil {
		return
	}
	valid := c.P.CallsTo(fn, pkgCrypto+".(*Key).Valid")
	vnonce := c.P.CallsTo(fn, pkgCrypto+".validNonce")
	isCT := eng.IsParam(fn, "ciphertext")
	// edges on which NOT (len(ciphertext) < k.Overhead())
	short := eng.CmpEdges(fn, func(op token.Token, x, y ssa.Value) (bool, bool) {
		if eng.IsLenOf(x, isCT) && c.P.IsCallOf(y, pkgCrypto+".(*Key).Overhead") {
			switch op {
			case token.LSS:
				return true, false
			case token.GEQ:
				return true, true
			}
		}
		if eng.IsLenOf(y, isCT) && c.P.IsCallOf(x, pkgCrypto+".(*Key).Overhead") {
			switch op {
			case token.GTR:
				return true, false
			case token.LEQ:
				return true, true
			}
		}
		return false, false
	})
	n := 0
	for _, b := range fn.Blocks {
		for _, in := range b.Instrs {
			if sl, ok := in.(*ssa.Slice); ok && isCT(sl.X) {
				n++
				c.MustPass(rule, "Key.Open:length-check→slice-ciphertext", eng.Entry(fn), sl,
					eng.NewCut().AddEdges(short...), "len(ciphertext) >= k.Overhead()")
			}
		}
	}
	if n == 0 {
		c.Unk(rule, "Key.Open:slice-ciphertext", fn.Pos(), "no slicing of the ciphertext parameter found")
	}
	for _, x := range c.SomeCalls(rule, fn, xorStream) {
		xi := x.(ssa.Instruction)
		c.MustPass(rule, "Key.Open:Valid→XORKeyStream", eng.Entry(fn), xi, eng.ResultCut(true, 0, valid...), "k.Valid() is true")
		c.MustPass(rule, "Key.Open:validNonce→XORKeyStream", eng.Entry(fn), xi, eng.ResultCut(true, 0, vnonce...), "validNonce(nonce) is true")
	}
	c.Floor(rule, 3, 4)
}

// ruleKDFGuards (C05): scrypt runs only with a salt of the right length and checked params.
func ruleKDFGuards(c *eng.Ctx) {
	const rule = "kdf-guards"
	fn := c.NeedFn(rule, pkgCrypto+".KDF")
	if fn == nil {
		return
	}
	sl, ok := constIntVal(c, rule, pkgCrypto+".saltLength")
	if !ok {
		return
	}
	check := c.P.CallsTo(fn, "github.com/elithrar/simple-scrypt.(*Params).Check")
	for _, k := range c.SomeCalls(rule, fn, "golang.org/x/crypto/scrypt.Key") {
		ki := k.(ssa.Instruction)
		c.MustPass(rule, "KDF:salt-length→scrypt.Key", eng.Entry(fn), ki, eng.NewCut().AddEdges(lenEqEdges(fn, "salt", sl)...), "len(salt) == saltLength")
		c.MustPass(rule, "KDF:params.Check→scrypt.Key", eng.Entry(fn), ki, eng.SuccessCut(check...), "params.Check() returned nil")
	}
	c.Floor(rule, 2, 2)
}

// ruleCryptoConsts (C05): Extension == ivSize + macSize and the sizes match the primitives.
func ruleCryptoConsts(c *eng.Ctx) {
	const rule = "crypto-consts"
	ext, ok1 := constIntVal(c, rule, pkgCrypto+".Extension")
	iv, ok2 := constIntVal(c, rule, pkgCrypto+".ivSize")
	mac, ok3 := constIntVal(c, rule, pkgCrypto+".macSize")
	if !(ok1 && ok2 && ok3) {
		return
	}
	c.Check(ext == iv+mac, rule, "Extension==ivSize+macSize", c.P.Obj(pkgCrypto+".Extension").Pos(), "Extension=%d ivSize=%d macSize=%d", ext, iv, mac)
	c.Check(iv == 16 && mac == 16, rule, "ivSize==aes.BlockSize,macSize==poly1305.TagSize", c.P.Obj(pkgCrypto+".ivSize").Pos(), "ivSize=%d macSize=%d", iv, mac)
	// Overhead() returns macSize, NonceSize() returns ivSize
	for name, want := range map[string]int64{"Overhead": mac, "NonceSize": iv} {
		fn := c.NeedFn(rule, pkgCrypto+".(*Key)."+name)
		if fn == nil {
			continue
		}
		ok := true
		for _, r := range eng.Returns(fn) {
			v, isK := eng.ConstInt(eng.RetVal(r, 0))
			if !isK || v != want {
				ok = false
			}
		}
		c.Check(ok, rule, "Key."+name+"-returns-constant", fn.Pos(), "%s() returns the constant %d on every path", name, want)
	}
}

// baseOf strips slicing, field and index addressing to the underlying object.
func baseOf(v ssa.Value) ssa.Value {
	for {
		switch x := v.(type) {
		case *ssa.Slice:
			v = x.X
		case *ssa.FieldAddr:
			v = x.X
		case *ssa.IndexAddr:
			v = x.X
		case *ssa.ChangeType:
			v = x.X
		case *ssa.Convert:
			v = x.X
		default:
			return v
		}
	}
}

// ruleRNG (C04): nonces, keys and salts come from crypto/rand and a short or failed read
// cannot be returned.
func ruleRNG(c *eng.Ctx) {
	const rule = "rng"
	for _, name := range []string{pkgCrypto + ".NewRandomNonce", pkgCrypto + ".NewRandomKey", pkgCrypto + ".NewSalt"} {
		fn := c.NeedFn(rule, name)
		if fn == nil {
			continue
		}
		short := c.P.FnName(fn)
		reads := c.SomeCalls(rule, fn, "crypto/rand.Read")
		bases := map[ssa.Value]bool{}
		for _, rd := range reads {
			res := eng.Results(rd)
			bases[baseOf(eng.Arg(rd, 0))] = true
			var nEq []eng.EdgeKey
			if len(res) == 2 && res[0] != nil {
				sameN := eng.SameAs(res[0])
				nEq = eng.CmpEdges(fn, func(op token.Token, x, y ssa.Value) (bool, bool) {
					if op != token.EQL && op != token.NEQ {
						return false, false
					}
					if !sameN(x) {
						x, y = y, x
					}
					if _, isK := eng.ConstInt(y); !sameN(x) || !isK {
						return false, false
					}
					return true, op == token.EQL
				})
			}
			for _, r := range eng.Returns(fn) {
				c.MustPass(rule, short+":read-count-checked", eng.After(rd.(ssa.Instruction)), r, eng.NewCut().AddEdges(nEq...), "n == requested size after rand.Read")
				c.MustPass(rule, short+":read-error-checked", eng.After(rd.(ssa.Instruction)), r, eng.SuccessCut(rd), "rand.Read error is nil")
			}
		}
		// the returned object is the one that was filled
		for _, r := range eng.Returns(fn) {
			okAll := len(r.Results) > 0
			for _, root := range eng.Origins(eng.RetVal(r, 0), nil) {
				if !bases[baseOf(root)] {
					okAll = false
				}
			}
			c.Check(okAll, rule, short+":returns-filled-buffer", r.Pos(), "the returned value is the buffer handed to crypto/rand.Read")
		}
	}
	c.Floor(rule, 9, 13)
}

// ruleFreshNonce (C04): every Seal gets a nonce produced for it alone by NewRandomNonce.
func ruleFreshNonce(c *eng.Ctx) {
	const rule = "fresh-nonce"
	aead := c.P.NamedType("crypto/cipher.AEAD")
	_ = aead
	sites := c.P.AllCallsWhere(func(fn *ssa.Function, call ssa.CallInstruction) bool {
		if c.P.CalleeName(call) == fnSeal {
			return true
		}
		// calls through cipher.AEAD or any interface whose Seal is implemented by *Key
		if call.Common().IsInvoke() && call.Common().Method.Name() == "Seal" {
			return true
		}
		return false
	})
	for _, s := range sites {
		c.Touch(s.Fn)
		name := c.P.FnName(s.Fn) + ":Seal"
		nonce := eng.Arg(s.Call, 1)
		roots := eng.Origins(nonce, nil)
		if len(roots) != 1 || !isFreshNonceCall(c, roots[0], 0) {
			var ds []string
			for _, r := range roots {
				ds = append(ds, c.P.Describe(r))
			}
			c.Bad(rule, name+":nonce-origin", s.Call.Pos(), "nonce argument of Seal does not originate solely from a NewRandomNonce() call in this function: %v", ds)
			continue
		}
		c.Ok(rule, name+":nonce-origin", s.Call.Pos(), "nonce originates from NewRandomNonce() at %s", c.P.Pos(roots[0].Pos()))
		nc := eng.RootCall(roots[0])
		seals := 0
		counted := map[ssa.Instruction]bool{}
		for _, u := range eng.Uses(nc) {
			if counted[u] {
				continue
			}
			counted[u] = true
			if uc, ok := u.(ssa.CallInstruction); ok && eng.MethodName(uc) == "Seal" && eng.Arg(uc, 1) != nil {
				isNonceArg := false
				for _, r := range eng.Origins(eng.Arg(uc, 1), nil) {
					if r == ssa.Value(nc) {
						isNonceArg = true
					}
				}
				if isNonceArg {
					seals++
				}
			}
		}
		c.Check(seals == 1, rule, name+":single-use", s.Call.Pos(), "the NewRandomNonce() result feeds %d Seal call(s)", seals)
		c.Check(!eng.ReExecutableWithout(s.Call.(ssa.Instruction), nc), rule, name+":not-reused-in-loop", s.Call.Pos(),
			"Seal cannot be re-executed without a new NewRandomNonce() call")
	}
	c.Floor(rule, 12, 12)
}
