package rules

import (
	"strings"

	"golang.org/x/tools/go/ssa"

	"verif/internal/eng"
)

// finders: callee → index of the explicit argument that lists the snapshot files.
var snapshotFinders = map[string]int{
	"internal/data.(*SnapshotFilter).FindAll":    1,
	"internal/data.(*SnapshotFilter).FindLatest": 1,
	"internal/data.FindSnapshot":                 1,
	"internal/data.ForAllSnapshots":              1,
}

func isLoadIndexCall(call ssa.CallInstruction) bool {
	return eng.MethodName(call) == "LoadIndex"
}

// ruleListBeforeIndex (C14): a reader lists the snapshots before it loads the index, so
// every snapshot it sees was completely indexed when the index was read.
func ruleListBeforeIndex(c *eng.Ctx) {
	const rule = "list-before-index"
	snapK, ok := constIntVal(c, rule, pkgRestic+".SnapshotFile")
	if !ok {
		return
	}
	// wrapper summaries: functions that hand one of their parameters to a finder as lister
	wrappers := map[string]int{}
	for name, idx := range snapshotFinders {
		wrappers[name] = idx
	}
	for round := 0; round < 2; round++ {
		for _, fn := range c.P.Funcs {
			if fn.Parent() != nil {
				continue
			}
			name := c.P.FnName(fn)
			if _, done := wrappers[name]; done {
				continue
			}
			if strings.HasPrefix(eng.PkgOf(fn), "internal/data") {
				continue
			}
			for _, f := range c.P.WithLits(fn) {
				for _, call := range eng.Calls(f) {
					li, isFinder := wrappers[c.P.CalleeName(call)]
					if !isFinder {
						continue
					}
					for _, r := range eng.Origins(eng.Arg(call, li), nil) {
						if prm, isP := r.(*ssa.Parameter); isP && prm.Parent() == fn {
							if pi := eng.ParamIndex(prm); pi >= 0 {
								wrappers[name] = pi
							}
						}
					}
				}
			}
		}
	}
	checkerSnap := c.P.Field("internal/checker.Checker", "snapshots")
	isMemorized := func(fn *ssa.Function, v ssa.Value, loads []ssa.CallInstruction) (bool, string) {
		roots := eng.Origins(v, nil)
		if len(roots) == 0 {
			return false, "no origin"
		}
		for _, r := range roots {
			if checkerSnap != nil && eng.LoadsField(r, checkerSnap) {
				continue // filled by Checker.LoadSnapshots (checked below)
			}
			call := eng.RootCall(r)
			if call == nil || c.P.CalleeName(call) != pkgRestic+".MemorizeList" {
				return false, "lister originates from " + c.P.Describe(r) + " (the live repository), not from restic.MemorizeList"
			}
			if k, isK := eng.ConstInt(eng.Arg(call, 2)); !isK || k != snapK {
				return false, "MemorizeList is not applied to SnapshotFile"
			}
			for _, l := range loads {
				if l.Parent() == call.Parent() && eng.FindPath(eng.After(l.(ssa.Instruction)), call, nil) != nil {
					return false, "MemorizeList at " + c.P.Pos(call.Pos()) + " can run after LoadIndex"
				}
			}
		}
		return true, ""
	}
	exempt := map[string]string{
		"cmd/restic.runPruneWithRepo": "prune holds the exclusive lock: no concurrent writer exists (stated in the code)",
	}
	nfun := 0
	for _, fn := range c.P.Funcs {
		if fn.Parent() != nil {
			continue
		}
		pkg := eng.PkgOf(fn)
		if !(pkg == "cmd/restic" || pkg == "internal/fuse" || pkg == "internal/checker" || strings.HasPrefix(pkg, "internal/")) || strings.HasPrefix(pkg, pkgRepo) {
			continue
		}
		var loads []ssa.CallInstruction
		for _, call := range eng.Calls(fn) {
			if isLoadIndexCall(call) {
				loads = append(loads, call)
			}
		}
		if len(loads) == 0 {
			continue
		}
		c.Touch(fn)
		nfun++
		fname := c.P.FnName(fn)
		nsites := 0
		// finder sites in fn and its literals; a literal's calls are positioned at its creation
		type site struct {
			at    ssa.Instruction
			call  ssa.CallInstruction
			owner *ssa.Function
		}
		var sites []site
		for _, f := range c.P.WithLits(fn) {
			for _, call := range eng.Calls(f) {
				if _, isFinder := wrappers[c.P.CalleeName(call)]; !isFinder {
					continue
				}
				at := call.(ssa.Instruction)
				if f != fn {
					// position of the outermost literal's MakeClosure inside fn
					lit := f
					for lit.Parent() != fn {
						lit = lit.Parent()
					}
					at = nil
					for _, b := range fn.Blocks {
						for _, in := range b.Instrs {
							if mc, ok := in.(*ssa.MakeClosure); ok && mc.Fn == ssa.Value(lit) {
								at = mc
							}
						}
					}
					if at == nil {
						continue
					}
				}
				sites = append(sites, site{at, call, f})
			}
		}
		for _, s := range sites {
			after := false
			for _, l := range loads {
				if eng.FindPath(eng.After(l.(ssa.Instruction)), s.at, nil) != nil {
					after = true
				}
			}
			key := fname + ":" + c.P.CalleeName(s.call)
			nsites++
			if !after {
				c.Ok(rule, key, s.call.Pos(), "the snapshot lookup cannot run after LoadIndex in %s", fname)
				continue
			}
			if why, ok := exempt[fname]; ok {
				c.Ok(rule, key, s.call.Pos(), "exempt: %s", why)
				continue
			}
			li := wrappers[c.P.CalleeName(s.call)]
			lister := eng.Arg(s.call, li)
			if s.owner != fn {
				// the lister is a captured variable of fn: resolve it there
				for _, r := range eng.Origins(lister, nil) {
					if fv, ok := r.(*ssa.FreeVar); ok {
						lister = captureSource(fn, s.owner, fv)
					}
				}
			}
			if lister == nil {
				c.Unk(rule, key, s.call.Pos(), "cannot resolve the lister argument of the snapshot lookup")
				continue
			}
			good, why := isMemorized(fn, lister, loads)
			c.Check(good, rule, key, s.call.Pos(), "snapshot lookup after LoadIndex uses a list memorized before LoadIndex%s", ifs(why != "", ": "+why, ""))
		}
		if nsites == 0 {
			c.Ok(rule, fname+":no-snapshot-lookup", fn.Pos(), "%s loads the index but looks up no snapshots itself", fname)
		}
	}
	// checker: the memorized list is the only source of Checker.snapshots, and LoadIndex is
	// preceded by LoadSnapshots wherever both are used
	if checkerSnap != nil {
		for _, st := range c.P.AllFieldStores(checkerSnap) {
			good := false
			for _, r := range eng.Origins(st.Val, nil) {
				if call := eng.RootCall(r); call != nil && c.P.CalleeName(call) == pkgRestic+".MemorizeList" {
					good = true
				}
			}
			c.Check(good, rule, c.P.FnName(st.Parent())+":Checker.snapshots=", st.Pos(), "Checker.snapshots is assigned the result of restic.MemorizeList only")
		}
		for _, fn := range c.P.Funcs {
			ls := c.P.CallsTo(fn, "internal/checker.(*Checker).LoadSnapshots")
			for _, li := range c.P.CallsTo(fn, "internal/checker.(*Checker).LoadIndex") {
				c.MustPass(rule, c.P.FnName(fn)+":LoadSnapshots→LoadIndex", eng.Entry(fn), li.(ssa.Instruction), eng.SuccessCut(ls...), "Checker.LoadSnapshots returned nil before Checker.LoadIndex")
			}
		}
	}
	if nfun < 10 {
		c.Unk(rule, "floor:functions", 0, "only %d functions calling LoadIndex found, expected at least 10", nfun)
	}
	c.Floor(rule, 15, 30)
}

func ifs(b bool, x, y string) string {
	if b {
		return x
	}
	return y
}

// captureSource returns the value bound to free variable fv of literal lit when it was
// created in (an ancestor chain ending at) fn; nil if not resolvable.
func captureSource(fn, lit *ssa.Function, fv *ssa.FreeVar) ssa.Value {
	idx := -1
	for i, v := range lit.FreeVars {
		if v == fv {
			idx = i
		}
	}
	if idx < 0 || lit.Parent() == nil {
		return nil
	}
	par := lit.Parent()
	for _, b := range par.Blocks {
		for _, in := range b.Instrs {
			mc, ok := in.(*ssa.MakeClosure)
			if !ok || mc.Fn != ssa.Value(lit) || idx >= len(mc.Bindings) {
				continue
			}
			bound := mc.Bindings[idx]
			// bindings are addresses of the captured variable: the value is what was stored
			if a, ok := bound.(*ssa.Alloc); ok {
				var last ssa.Value
				n := 0
				for _, r := range *a.Referrers() {
					if st, ok := r.(*ssa.Store); ok && st.Addr == ssa.Value(a) {
						last = st.Val
						n++
					}
				}
				if n == 1 {
					return last
				}
				return nil
			}
			if pfv, ok := bound.(*ssa.FreeVar); ok && par != fn {
				return captureSource(fn, par, pfv)
			}
			return bound
		}
	}
	return nil
}
