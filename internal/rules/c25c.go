package rules

import (
	"go/token"
	"strings"

	"golang.org/x/tools/go/ssa"

	"verif/internal/eng"
)

// ruleAddOnlyAbsentTags (C25): Snapshot.RemoveTags takes out one occurrence per tag, which is
// only right while a tag list never holds a tag twice; AddTags keeps it that way: the append
// of a tag is not reachable from the edge on which an existing tag compared equal to it,
// except through the next iteration of the loop over the tags to add.
func ruleAddOnlyAbsentTags(c *eng.Ctx) {
	const rule = "add-only-absent-tags"
	fn := c.NeedFn(rule, "internal/data.(*Snapshot).AddTags")
	if fn == nil {
		return
	}
	tagsF := c.P.Field("internal/data.Snapshot", "Tags")
	if tagsF == nil {
		c.Unk(rule, "anchor:Snapshot.Tags", fn.Pos(), "field does not resolve")
		return
	}
	var appends []ssa.Instruction
	for _, st := range c.P.FieldStoresIn(fn, tagsF) {
		if st.Parent() == fn {
			appends = append(appends, st)
		}
	}
	// string equality between an element of sn.Tags and the tag to add
	equal := eng.CmpEdges(fn, func(op token.Token, x, y ssa.Value) (bool, bool) {
		if op != token.EQL && op != token.NEQ {
			return false, false
		}
		if x.Type().String() != "string" || y.Type().String() != "string" {
			return false, false
		}
		return true, op == token.EQL
	})
	// … or a membership test of the tag list written as a call: slices.Contains(sn.Tags, t), sn.hasTag(t)
	for _, call := range eng.Calls(fn) {
		name := c.P.CalleeName(call)
		isMember := name == "internal/data.(*Snapshot).hasTag" ||
			(strings.HasPrefix(name, "slices.Contains") && mentionsFieldDeepArgs(eng.Arg(call, 0), tagsF))
		if isMember && call.Value() != nil {
			equal = append(equal, eng.BoolEdges(fn, eng.SameAs(call.Value()), true)...)
		}
	}
	// outermost loop header
	var header *ssa.BasicBlock
	for _, b := range fn.Blocks {
		for _, p := range b.Preds {
			if b.Dominates(p) && (header == nil || b.Dominates(header)) {
				header = b
			}
		}
	}
	if len(appends) == 0 || len(equal) == 0 || header == nil || len(header.Instrs) == 0 {
		c.Bad(rule, "AddTags:shape", fn.Pos(), "AddTags has %d stores to Tags, %d tag comparisons and a loop (%v): a tag is appended without having been compared with the existing ones", len(appends), len(equal), header != nil)
		return
	}
	ok := true
	for _, e := range equal {
		for _, a := range appends {
			if eng.FindPath(eng.EdgeStart(fn, e), a, eng.NewCut().AddInstrs(header.Instrs[0])) != nil {
				ok = false
			}
		}
	}
	c.Check(ok, rule, "AddTags:equal-tag-found→not-appended", appends[0].Pos(), "after an existing tag compared equal the tag is not appended (the next tag to add is taken up instead)")
	// and the append is reached only after the inner loop over the existing tags ended
	c.Check(len(appends) == 1, rule, "AddTags:one-append", fn.Pos(), "one store to Snapshot.Tags in AddTags (%d)", len(appends))
}

// ruleRemoveEveryOccurrence (C25, "no tag of R" — also for snapshots that carry a tag twice):
// RemoveTags looks at every tag of the snapshot for each tag to remove. From the edge on which a
// tag compared equal to the one to remove, the scan over the snapshot's tags goes on: neither
// the next tag to remove nor the end of the function is reached without passing the inner
// loop's header again (genuine defect, fixed: a `break` after the first match left the second
// `a` of [a, a] in place).
func ruleRemoveEveryOccurrence(c *eng.Ctx) {
	const rule = "remove-every-occurrence"
	fn := c.NeedFn(rule, "internal/data.(*Snapshot).RemoveTags")
	if fn == nil {
		return
	}
	equal := eng.CmpEdges(fn, func(op token.Token, x, y ssa.Value) (bool, bool) {
		if (op != token.EQL && op != token.NEQ) || x.Type().String() != "string" || y.Type().String() != "string" {
			return false, false
		}
		return true, op == token.EQL
	})
	var headers []*ssa.BasicBlock
	for _, b := range fn.Blocks {
		for _, p := range b.Preds {
			if b.Dominates(p) {
				headers = append(headers, b)
				break
			}
		}
	}
	if len(equal) == 0 || len(headers) < 2 {
		c.Unk(rule, "RemoveTags:shape", fn.Pos(), "expected a comparison of tags inside two nested loops, found %d comparisons and %d loops", len(equal), len(headers))
		return
	}
	for _, e := range equal {
		cmpBlock := fn.Blocks[e[0]]
		var inner, outer *ssa.BasicBlock
		for _, h := range headers {
			if h.Dominates(cmpBlock) || h == cmpBlock {
				if inner == nil || inner.Dominates(h) {
					inner = h
				}
			}
		}
		for _, h := range headers {
			if inner != nil && h != inner && h.Dominates(inner) && (outer == nil || outer.Dominates(h)) {
				outer = h
			}
		}
		if inner == nil || outer == nil || len(inner.Instrs) == 0 || len(outer.Instrs) == 0 {
			c.Unk(rule, "RemoveTags:loops", fn.Pos(), "the loops around the tag comparison were not identified")
			continue
		}
		again := eng.NewCut().AddInstrs(inner.Instrs[0])
		c.MustPass(rule, "RemoveTags:match→scan-goes-on", eng.EdgeStart(fn, e), outer.Instrs[0], again, "the scan over the snapshot's tags continues after a removal")
		for _, r := range eng.Returns(fn) {
			c.MustPass(rule, "RemoveTags:match→scan-goes-on", eng.EdgeStart(fn, e), r, again, "the scan over the snapshot's tags continues after a removal")
		}
	}
}
