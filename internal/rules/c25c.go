package rules

import (
	"go/token"

	"golang.org/x/tools/go/ssa"

	"verif/internal/eng"
)

// ruleAddOnlyAbsentTags (C25): Snapshot.RemoveTags takes out one occurrence per tag, which is
// only right while a tag list never holds a tag twice; AddTags keeps it that way: the append
// of a tag is not reachable from the edge on which an existing tag compared equal to it,
// except through the next iteration of the loop over the tags to add.
func ruleAddOnlyAbsentTags(c *eng.Ctx) {
	const rule = "add-only-absent-tags"
	fn := c.NeedFn(rule, "internal/data.(*Snapshot).AddTags")
	if fn == nil {
		return
	}
	tagsF := c.P.Field("internal/data.Snapshot", "Tags")
	if tagsF == nil {
		c.Unk(rule, "anchor:Snapshot.Tags", fn.Pos(), "field does not resolve")
		return
	}
	var appends []ssa.Instruction
	for _, st := range c.P.FieldStoresIn(fn, tagsF) {
		if st.Parent() == fn {
			appends = append(appends, st)
		}
	}
	// string equality between an element of sn.Tags and the tag to add
	equal := eng.CmpEdges(fn, func(op token.Token, x, y ssa.Value) (bool, bool) {
		if op != token.EQL && op != token.NEQ {
			return false, false
		}
		if x.Type().String() != "string" || y.Type().String() != "string" {
			return false, false
		}
		return true, op == token.EQL
	})
	// outermost loop header
	var header *ssa.BasicBlock
	for _, b := range fn.Blocks {
		for _, p := range b.Preds {
			if b.Dominates(p) && (header == nil || b.Dominates(header)) {
				header = b
			}
		}
	}
	if len(appends) == 0 || len(equal) == 0 || header == nil || len(header.Instrs) == 0 {
		c.Bad(rule, "AddTags:shape", fn.Pos(), "AddTags has %d stores to Tags, %d tag comparisons and a loop (%v): a tag is appended without having been compared with the existing ones", len(appends), len(equal), header != nil)
		return
	}
	ok := true
	for _, e := range equal {
		for _, a := range appends {
			if eng.FindPath(eng.EdgeStart(fn, e), a, eng.NewCut().AddInstrs(header.Instrs[0])) != nil {
				ok = false
			}
		}
	}
	c.Check(ok, rule, "AddTags:equal-tag-found→not-appended", appends[0].Pos(), "after an existing tag compared equal the tag is not appended (the next tag to add is taken up instead)")
	// and the append is reached only after the inner loop over the existing tags ended
	c.Check(len(appends) == 1, rule, "AddTags:one-append", fn.Pos(), "one store to Snapshot.Tags in AddTags (%d)", len(appends))
}
