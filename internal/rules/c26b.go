package rules

import (
	"go/token"
	"strings"

	"golang.org/x/tools/go/ssa"

	"verif/internal/eng"
)

// ruleUnreadableSnapshotRemoval (C26): handleUnreadableSnapshotFile is the one place where a
// snapshot file is removed without a successor having been saved. It does so only when the
// user asked for it with --forget AND named exactly this snapshot on the command line
// (slices.Index(args, id) >= 0), and not in a dry run; otherwise the command fails. A load
// that failed for a transient reason must never cost a snapshot nobody named.
func ruleUnreadableSnapshotRemoval(c *eng.Ctx) {
	const rule = "unreadable-removal-needs-named-id"
	fn := c.NeedFn(rule, "cmd/restic.handleUnreadableSnapshotFile")
	if fn == nil {
		return
	}
	var removes []ssa.CallInstruction
	for _, call := range eng.Calls(fn) {
		if eng.MethodName(call) == "RemoveUnpacked" {
			removes = append(removes, call)
		}
	}
	if len(removes) == 0 {
		c.Unk(rule, "handleUnreadableSnapshotFile:removal", fn.Pos(), "no RemoveUnpacked call found")
		return
	}
	forgetF := c.P.Field("cmd/restic.RepairOptions", "Forget")
	dryF := c.P.Field("cmd/restic.RepairOptions", "DryRun")
	if forgetF == nil || dryF == nil {
		c.Unk(rule, "anchor:RepairOptions", fn.Pos(), "RepairOptions.Forget/DryRun do not resolve")
		return
	}
	isArgs, isID := eng.IsParam(fn, "args"), eng.IsParam(fn, "id")
	named := eng.CmpEdges(fn, func(op token.Token, x, y ssa.Value) (bool, bool) {
		call := eng.RootCall(x)
		k, isK := eng.ConstInt(y)
		if call == nil || !isK || !strings.HasPrefix(c.P.CalleeName(call), "slices.Index") || len(call.Call.Args) != 2 {
			return false, false
		}
		if !isArgs(call.Call.Args[0]) || !isID(call.Call.Args[1]) {
			return false, false
		}
		switch {
		case op == token.GEQ && k == 0, op == token.GTR && k == -1, op == token.NEQ && k == -1:
			return true, true
		case op == token.LSS && k == 0, op == token.LEQ && k == -1, op == token.EQL && k == -1:
			return true, false
		}
		return false, false
	})
	for _, rm := range removes {
		ri := rm.(ssa.Instruction)
		c.MustPass(rule, "handleUnreadableSnapshotFile:--forget→remove", eng.Entry(fn), ri, eng.NewCut().AddEdges(eng.FieldEdges(fn, forgetF, true)...), "opts.Forget")
		c.MustPass(rule, "handleUnreadableSnapshotFile:id-named-by-user→remove", eng.Entry(fn), ri, eng.NewCut().AddEdges(named...), "slices.Index(args, id) >= 0")
		c.MustPass(rule, "handleUnreadableSnapshotFile:not-dry-run→remove", eng.Entry(fn), ri, eng.NewCut().AddEdges(eng.FieldEdges(fn, dryF, false)...), "opts.DryRun is false")
	}
	// every other way out reports failure or the (dry-run) announcement
	for _, r := range eng.Returns(fn) {
		if !eng.IsNilConst(eng.RetVal(r, 1)) {
			continue // returns an error value (Find's, Remove's or the Fatal)
		}
		c.MustPass(rule, "handleUnreadableSnapshotFile:success→forget-of-named-id", eng.Entry(fn), r, eng.NewCut().AddEdges(named...), "slices.Index(args, id) >= 0")
	}
}
