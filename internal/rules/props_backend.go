package rules

import (
	"go/token"

	"golang.org/x/tools/go/ssa"

	"verif/internal/eng"
)

var localSaveSpec = atomicSpec{
	rule:      "atomic-save",
	fn:        "internal/backend/local.(*Local).Save",
	nameCall:  "internal/backend/local.(*Local).Filename|internal/backend/layout.Layout.Filename",
	tempCalls: []string{"global:internal/backend/local.tempFile", "os.CreateTemp"},
	allowFinal: map[string]string{
		"path/filepath.Dir":  "computes the directory",
		"path/filepath.Base": "computes the temporary name",
		"internal/debug.Log": "logging",
		"internal/backend/local.setFileReadonly": "chmod after the rename",
	},
	syncCall: "os.(*File).Sync",
	dirSync:  "internal/backend/local.fsyncDir",
}

var cacheSaveSpec = atomicSpec{
	rule:      "atomic-save",
	fn:        "internal/backend/cache.(*Cache).save",
	nameCall:  "internal/backend/cache.(*Cache).filename",
	tempCalls: []string{"os.CreateTemp"},
	allowFinal: map[string]string{
		"path/filepath.Dir":  "computes the directory",
		"internal/debug.Log": "logging",
	},
}

// ruleLocalLengthCheck (C36): the rename happens only if the number of bytes written equals
// the announced length.
func ruleLocalLengthCheck(c *eng.Ctx) {
	const rule = "atomic-save"
	fn := c.NeedFn(rule, localSaveSpec.fn)
	if fn == nil {
		return
	}
	copies := c.P.CallsTo(fn, "io.Copy")
	var eq []eng.EdgeKey
	for _, cp := range copies {
		res := eng.Results(cp)
		if len(res) == 0 || res[0] == nil {
			continue
		}
		isN := eng.SameAs(res[0])
		eq = append(eq, eng.CmpEdges(fn, func(op token.Token, x, y ssa.Value) (bool, bool) {
			if op != token.EQL && op != token.NEQ {
				return false, false
			}
			if !isN(x) {
				x, y = y, x
			}
			if !isN(x) || eng.MethodName(asCall(y)) != "Length" {
				return false, false
			}
			return true, op == token.EQL
		})...)
	}
	for _, r := range c.P.CallsTo(fn, "os.Rename") {
		c.MustPass(rule, "Local.Save:length-matches→rename", eng.Entry(fn), r.(ssa.Instruction), eng.NewCut().AddEdges(eq...), "bytes written == rd.Length()")
	}
}

func asCall(v ssa.Value) ssa.CallInstruction {
	if call := eng.RootCall(eng.Strip(v)); call != nil {
		return call
	}
	return nilCall{}
}

type nilCall struct{ ssa.CallInstruction }

func (nilCall) Common() *ssa.CallCommon { return &ssa.CallCommon{} }

func init() {
	register(&Property{
		ID: "C35",
		Explanation: "Decides the shape of the retry wrapper: (retry-save) inside the retried operation of retry.Backend.Save the backend Save is reachable only through the success edge of rd.Rewind() (every attempt starts at the beginning of the data), and from a failed attempt every way out passes the HasAtomicReplace==true edge or a Remove of the same handle — no condition other than atomic replace may skip the removal of the partial file — and the failure is reported (nil only if the backend's Save returned nil); (list-dedup) in retry.Backend.List the caller's callback is invoked only on the 'name not yet reported' edge, the name is inserted into the same set on every path through the invocation, and the set is created once per List call outside the retried operation; (permanent) the operation wrapper converts the operation's error into backoff.Permanent once the permanent-error attempts are used up and consults Backend.IsPermanentError, Stat treats not-exist as permanent, and Save/Load/Stat/Remove/List are all overridden and perform their backend call only inside be.retry. (load-consumer-starts-afresh) every function literal handed to Backend.Load as consumer — which the retry layer calls again after an attempt that failed half-way — copies into a destination it creates itself, never into a captured bytes.Buffer that it has not emptied first (added after a seeded change that hoisted loadRaw's buffer out of the consumer: partial + full bytes were returned with a nil error). Not decided: the outcome under every fault sequence and retry budget (behaviour of the backoff library).",
		Assumptions: append([]string{"github.com/cenkalti/backoff stops retrying on backoff.Permanent errors"}, commonAssumptions...),
		Technique:   "static analysis: CFG edge cuts inside the retried closures + wrapper-method coverage (go/ssa, go/types)",
		Run: func(c *eng.Ctx) {
			ruleLoadConsumerStartsAfresh(c)
			ruleRetrySave(c)
			ruleRetryListDedup(c)
			ruleRetryPermanent(c)
		},
		Controls: []Control{
			{Name: "loadraw-buffer-outside-the-consumer", File: "internal/repository/raw.go",
				Old: "	err = be.Load(ctx, h, 0, 0, func(rd io.Reader) error {\n		wr := new(bytes.Buffer)\n", New: "	wr := new(bytes.Buffer)\n	err = be.Load(ctx, h, 0, 0, func(rd io.Reader) error {\n", Rule: "load-consumer-starts-afresh"},
			{Name: "retry-without-rewind", File: "internal/backend/retry/backend_retry.go",
				Old: "		err := rd.Rewind()\n		if err != nil {\n			return err\n		}\n\n		err = be.Backend.Save(ctx, h, rd)", New: "		err := be.Backend.Save(ctx, h, rd)", Rule: "retry-save"},
			{Name: "keep-partial-file", File: "internal/backend/retry/backend_retry.go",
				Old: "			rerr := be.Backend.Remove(ctx, h)\n			if rerr != nil {\n				debug.Log(\"Remove(%v) returned error: %v\", h, rerr)\n			}\n", New: "", Rule: "retry-save"},
			{Name: "list-reports-duplicates", File: "internal/backend/retry/backend_retry.go",
				Old: "			if _, ok := listed[fi.Name]; ok {\n				return nil\n			}\n", New: "", Rule: "list-dedup"},
			{Name: "list-set-per-attempt", File: "internal/backend/retry/backend_retry.go",
				Old: "	err := be.retry(listCtx, fmt.Sprintf(\"List(%v)\", t), func() error {\n", New: "	err := be.retry(listCtx, fmt.Sprintf(\"List(%v)\", t), func() error {\n		listed = make(map[string]struct{})\n", Rule: "list-dedup"},
		},
	})
	register(&Property{
		ID: "C37",
		Explanation: "Decides the structure that enforces the limits: (token-paired) every backend.Backend method that takes a Handle (Save, Load, Stat, Remove) is overridden by connectionLimitedBackend, and in each the forwarded call is reachable only after `defer be.typeDependentLimit(h.Type)()` — the token is taken before the operation and released at every exit — with the limit chosen by the handle's own Type; (lock-bypass) in typeDependentLimit GetToken and the freeze lock are reachable only on the t != LockFile edge, a return without any blocking call exists for lock files, the token is taken before waiting on the freeze lock, and the non-lock branch returns sem.ReleaseToken after GetToken; Freeze/Unfreeze acquire/release the same freeze lock; the semaphore is a channel of capacity Properties().Connections where GetToken deposits and ReleaseToken withdraws exactly one token; (freeze-gate-held) the freeze lock taken at the gate would have to stay held (or be a read lock held) until the operation is over for 'while frozen no new operation starts' to hold under every interleaving — typeDependentLimit gives it back before it returns, so an operation that has passed the gate starts its wrapped call also after Freeze() returned: a genuine gap, demonstrated (findings/C37), listed as a known finding because closing it makes Freeze wait for every transfer in flight. Not decided: fairness and liveness under contention.",
		Assumptions: append([]string{"a buffered channel of capacity n admits at most n undelivered sends"}, commonAssumptions...),
		Technique:   "static analysis: interface-method coverage + CFG cuts on the defer/acquire pattern (go/ssa, go/types)",
		Run: func(c *eng.Ctx) {
			ruleSemaWrapped(c)
			ruleLockBypass(c)
			ruleFreezeGateHeld(c)
		},
		Controls: []Control{
			{Name: "stat-without-token", File: "internal/backend/sema/backend.go",
				Old: "	defer be.typeDependentLimit(h.Type)()\n\n	if ctx.Err() != nil {\n		return backend.FileInfo{}, ctx.Err()\n	}", New: "	if ctx.Err() != nil {\n		return backend.FileInfo{}, ctx.Err()\n	}", Rule: "token-paired"},
			{Name: "lock-files-wait-for-freeze", File: "internal/backend/sema/backend.go",
				Old: "	if t == backend.LockFile {\n		return func() {}\n	}\n	be.sem.GetToken()\n	// prevent token usage while the backend is frozen\n	be.freezeLock.Lock()\n	defer be.freezeLock.Unlock()", New: "	be.freezeLock.Lock()\n	defer be.freezeLock.Unlock()\n	if t == backend.LockFile {\n		return func() {}\n	}\n	be.sem.GetToken()", Rule: "lock-bypass"},
			{Name: "token-released-immediately", File: "internal/backend/sema/backend.go",
				Old: "	defer be.typeDependentLimit(h.Type)()\n\n	if ctx.Err() != nil {\n		return ctx.Err()\n	}\n\n	return be.Backend.Remove(ctx, h)", New: "	be.typeDependentLimit(h.Type)()\n\n	if ctx.Err() != nil {\n		return ctx.Err()\n	}\n\n	return be.Backend.Remove(ctx, h)", Rule: "token-paired"},
		},
	})
	register(&Property{
		ID: "C39",
		Explanation: "Decides why dry runs and lock-free reads cannot modify the repository: (dryrun-total) dryrun.Backend embeds nothing, declares every backend.Backend method itself and no function of package dryrun calls Save/Remove/Delete/Warmup* on a backend; Repository has exactly one backend-typed field, assigned only by New, UseCache and SetDryRun, and SetDryRun wraps it in dryrun.New; (lock-xor-dry) internalOpenWithLocked returns success only after LockRepo succeeded or SetDryRun ran, SetDryRun only on the dryRun edge, and no success return skips both; (dry-flag-forwarded) the struct fields bound to a flag named \"dry-run\" are found from the flag registrations; every open call of cmd/restic is classified (dry-run flag forwarded / dry-run keeps the lock / --no-lock / always locked) and every write command's dry-run field reaches its open call; (dry-mutation-guard) forget and prune, which keep the lock in dry-run mode, reach their mutations (ParallelRemove; deleteFiles, rewriteIndexFiles, WithBlobUploader, SaveFallback in PrunePlan.Execute) only on the DryRun==false edge and forward the flag to repository.PruneOptions and to forget --prune; (backend-mutation-callers, backend-save-callers) Save/Remove/Delete of a backend are called only from classified sites of package repository and from wrappers inside the same method; compile-fail witnesses show commands can write only snapshot files. Not decided: byte-for-byte equality of the repository (no execution).",
		Assumptions: commonAssumptions,
		Technique:   "static analysis: wrapper totality (method sets), flag-to-argument value flow, CFG edge cuts, call-site enumeration, compile-fail witnesses",
		AllConfigs:  true,
		Run: func(c *eng.Ctx) {
			ruleDryrunTotal(c)
			ruleLockXorDry(c)
			ruleDryFlagForwarded(c)
			ruleDryMutationGuard(c)
			ruleBackendMutationCallers(c)
			ruleBackendSaveCallers(c)
			ruleWriteableWitness(c, "writeable-witness")
		},
		Controls: []Control{
			{Name: "dryrun-forwards-remove", File: "internal/backend/dryrun/dry_backend.go",
				Old: "func (be *Backend) Remove(_ context.Context, _ backend.Handle) error {\n	return nil\n}", New: "func (be *Backend) Remove(ctx context.Context, h backend.Handle) error {\n	if h.Type == backend.LockFile {\n		return be.b.Remove(ctx, h)\n	}\n	return nil\n}", Rule: "dryrun-total"},
			{Name: "rewrite-ignores-dry-run-flag", File: "cmd/restic/cmd_rewrite.go",
				Old: "		ctx, repo, unlock, err = openWithAppendLock(ctx, gopts, opts.DryRun, printer)", New: "		ctx, repo, unlock, err = openWithAppendLock(ctx, gopts, false, printer)", Rule: "dry-flag-forwarded"},
			{Name: "prune-dry-run-deletes-unreferenced", File: "internal/repository/prune.go",
				Old: "func (plan *PrunePlan) Execute(ctx context.Context, printer restic.Printer) error {\n	if plan.opts.DryRun {", New: "func (plan *PrunePlan) Execute(ctx context.Context, printer restic.Printer) error {\n	if len(plan.removePacksFirst) != 0 {\n		_ = deleteFiles(ctx, true, &internalRepository{plan.repo}, plan.removePacksFirst, restic.PackFile, printer)\n		plan.removePacksFirst = nil\n	}\n	if plan.opts.DryRun {", Rule: "dry-mutation-guard"},
			{Name: "open-unlocked-and-not-dry", File: "cmd/restic/lock.go",
				Old: "	} else {\n		repo.SetDryRun()\n	}", New: "	}", Rule: "lock-xor-dry"},
		},
	})
	register(&Property{
		ID: "C38",
		Explanation: "Decides the shape that keeps a cache in any state from changing what restic reads: (atomic-save) Cache.save publishes a cache file only by renaming a completely copied and closed temporary created in the same directory, removes the temporary on errors and hands the final name to nothing else that could create it; (backend-first) cacheBackend.Save/Remove touch the cache only behind the success edge of the wrapped backend's operation and report success only after it, and a failed download into the cache removes the partial entry; (forget-and-retry) LoadRaw, LoadBlob, listPack and checkPack each drop the cached copy (cache.Forget, or no cache configured) between a failed/mismatching attempt and the single retry; (nil-only-after-hash, C02) every load path returns success only after the hash comparison, so a stale or corrupted cache file is either detected and replaced or reported; (cache-locks) cacheBackend.inProgress is only touched under inProgressMutex; (forget-allowance) Cache.Forget marks a handle in its delete-at-most-once table only on the edge where Cache.remove reported an actual deletion (remove returns true only as os.Remove(...)==nil) and deletes only handles not marked before, so a failed first load of an uncached file cannot use up the one repair a later corrupted cache file needs — added after a seeded change. Not decided: concurrent clearing of the cache directory by another process at arbitrary points (file-system races).",
		Assumptions: append([]string{"os.Rename within one directory is atomic"}, commonAssumptions...),
		Technique:   "static analysis: CFG edge cuts for save/retry ordering + lockset + nil-flow of load results (go/ssa)",
		Run: func(c *eng.Ctx) {
			ruleAtomicSave(c, cacheSaveSpec)
			ruleBackendFirst(c)
			ruleForgetAndRetry(c)
			ruleNilOnlyAfterHash(c)
			ruleGuardedFields(c, cacheInProgressGuard)
			ruleForgetAllowance(c)
		},
		Controls: []Control{
			{Name: "forget-marks-handles-it-did-not-delete", File: "internal/backend/cache/file.go",
				Old: "	removed, err := c.remove(h)\n	if removed {\n		c.forgotten.Store(h, struct{}{})\n	}\n	return err", New: "	_, err := c.remove(h)\n	c.forgotten.Store(h, struct{}{})\n	return err", Rule: "forget-allowance"},
			{Name: "cache-before-backend", File: "internal/backend/cache/backend.go",
				Old: "	// first, save in the backend\n	err = b.Backend.Save(ctx, h, rd)\n	if err != nil {\n		return err\n	}\n\n	// next, save in the cache\n	err = rd.Rewind()\n	if err != nil {\n		return err\n	}\n\n	err = b.Cache.save(h, rd)\n	if err != nil {\n		debug.Log(\"unable to save %v to cache: %v\", h, err)\n		return err\n	}\n\n	return nil",
				New: "	err = b.Cache.save(h, rd)\n	if err != nil {\n		debug.Log(\"unable to save %v to cache: %v\", h, err)\n		return err\n	}\n	err = rd.Rewind()\n	if err != nil {\n		return err\n	}\n	return b.Backend.Save(ctx, h, rd)", Rule: "backend-first"},
			{Name: "retry-without-forget", File: "internal/repository/raw.go",
				Old: "		if r.cache != nil {\n			// Cleanup cache to make sure it's not the cached copy that is broken.\n			// Ignore error as there's not much we can do in that case.\n			_ = r.cache.Forget(h)\n		}\n", New: "", Rule: "forget-and-retry"},
			{Name: "cache-writes-final-name-directly", File: "internal/backend/cache/file.go",
				Old: "	f, err := os.CreateTemp(dir, \"tmp-\")", New: "	f, err := os.Create(finalname)", Rule: "atomic-save"},
		},
	})
	register(&Property{
		ID: "C36",
		Explanation: "Decides, for every execution and crash point of (*local.Local).Save: (atomic-save) the final name is the destination of exactly one os.Rename whose source is the Name() of the temporary created by tempFile in filepath.Dir(finalname); the rename is reachable only through the success edges of io.Copy (into that temporary) and f.Close, the bytes-written == rd.Length() edge, after f.Sync() was called, and — from Sync — only on its success edge or an edge classifying the error as 'sync not supported'; after the rename success is reported only after fsyncDir succeeded (same tolerance); apart from Rename the final name is handed only to Dir/Base/debug.Log/setFileReadonly, so no other call can create it; error paths remove the temporary; (temp-not-listed) the temporary name is Base(finalname) plus a constant with a non-hex character, Repository.List passes a name to its callback only on the success edge of ParseID, and the tempFile hook is never reassigned. (temp-removed-on-failure) the deferred clean-up of Local.Save calls os.Remove(f.Name()) on every path on which the save's error is non-nil — also when the close or the rename failed, after which the file is no longer open; the local backend lists whatever lies in a repository directory (added after a seeded change that removed the file only if Close succeeded). Not decided: atomicity and durability semantics of rename/fsync on the underlying file system.",
		Assumptions: append([]string{"os.Rename within one directory is atomic; fsync makes file content durable"}, commonAssumptions...),
		Technique:   "static analysis: CFG edge cuts (success edges, tolerant sync form, path-sensitive) + value origin of every use of the final name (go/ssa)",
		AllConfigs:  true,
		Run: func(c *eng.Ctx) {
			ruleAtomicSave(c, localSaveSpec)
			ruleLocalLengthCheck(c)
			ruleTempNotListed(c)
			ruleTempRemovedOnFailure(c)
		},
		Controls: []Control{
			{Name: "temp-kept-when-it-was-closed-already", File: "internal/backend/local/local.go",
				Old: "			_ = f.Close() // Double Close is harmless.\n", New: "			if f.Close() != nil {\n				return\n			}\n", Rule: "temp-removed-on-failure"},
			{Name: "rename-before-sync", File: "internal/backend/local/local.go",
				Old: "	err = f.Sync()\n	syncNotSup := err != nil && (errors.Is(err, syscall.ENOTSUP) || isMacENOTTY(err))\n	if err != nil && !syncNotSup {\n		return errors.WithStack(err)\n	}\n",
				New: "	syncNotSup := false\n", Rule: "atomic-save"},
			{Name: "ignore-short-write", File: "internal/backend/local/local.go",
				Old: "	if wbytes != rd.Length() {\n		return errors.Errorf(\"wrote %d bytes instead of the expected %d bytes\", wbytes, rd.Length())\n	}\n", New: "	_ = wbytes\n", Rule: "atomic-save"},
			{Name: "ignore-sync-error", File: "internal/backend/local/local.go",
				Old: "	if err != nil && !syncNotSup {\n		return errors.WithStack(err)\n	}\n\n	// Close, then rename.", New: "	if err != nil && !syncNotSup {\n		debug.Log(\"sync failed: %v\", err)\n	}\n\n	// Close, then rename.", Rule: "atomic-save"},
			{Name: "temp-name-parses-as-id", File: "internal/backend/local/local.go",
				Old: "tmpname := filepath.Base(finalname) + \"-tmp-\"", New: "tmpname := filepath.Base(finalname) + \"00\"", Rule: "temp-not-listed"},
			{Name: "list-reports-unparsable-names", File: "internal/repository/repository.go",
				Old: "			debug.Log(\"unable to parse %v as an ID\", fi.Name)\n			return nil\n", New: "			debug.Log(\"unable to parse %v as an ID\", fi.Name)\n", Rule: "temp-not-listed"},
		},
	})
}
