package rules

import (
	"go/token"

	"golang.org/x/tools/go/ssa"

	"verif/internal/eng"
)

var localSaveSpec = atomicSpec{
	rule:      "atomic-save",
	fn:        "internal/backend/local.(*Local).Save",
	nameCall:  "internal/backend/local.(*Local).Filename|internal/backend/layout.Layout.Filename",
	tempCalls: []string{"global:internal/backend/local.tempFile", "os.CreateTemp"},
	allowFinal: map[string]string{
		"path/filepath.Dir":  "computes the directory",
		"path/filepath.Base": "computes the temporary name",
		"internal/debug.Log": "logging",
		"internal/backend/local.setFileReadonly": "chmod after the rename",
	},
	syncCall: "os.(*File).Sync",
	dirSync:  "internal/backend/local.fsyncDir",
}

var cacheSaveSpec = atomicSpec{
	rule:      "atomic-save",
	fn:        "internal/backend/cache.(*Cache).save",
	nameCall:  "internal/backend/cache.(*Cache).filename",
	tempCalls: []string{"os.CreateTemp"},
	allowFinal: map[string]string{
		"path/filepath.Dir":  "computes the directory",
		"internal/debug.Log": "logging",
	},
}

// ruleLocalLengthCheck (C36): the rename happens only if the number of bytes written equals
// the announced length.
func ruleLocalLengthCheck(c *eng.Ctx) {
	const rule = "atomic-save"
	fn := c.NeedFn(rule, localSaveSpec.fn)
	if fn == nil {
		return
	}
	copies := c.P.CallsTo(fn, "io.Copy")
	var eq []eng.EdgeKey
	for _, cp := range copies {
		res := eng.Results(cp)
		if len(res) == 0 || res[0] == nil {
			continue
		}
		isN := eng.SameAs(res[0])
		eq = append(eq, eng.CmpEdges(fn, func(op token.Token, x, y ssa.Value) (bool, bool) {
			if op != token.EQL && op != token.NEQ {
				return false, false
			}
			if !isN(x) {
				x, y = y, x
			}
			if !isN(x) || eng.MethodName(asCall(y)) != "Length" {
				return false, false
			}
			return true, op == token.EQL
		})...)
	}
	for _, r := range c.P.CallsTo(fn, "os.Rename") {
		c.MustPass(rule, "Local.Save:length-matches→rename", eng.Entry(fn), r.(ssa.Instruction), eng.NewCut().AddEdges(eq...), "bytes written == rd.Length()")
	}
}

func asCall(v ssa.Value) ssa.CallInstruction {
	if call := eng.RootCall(eng.Strip(v)); call != nil {
		return call
	}
	return nilCall{}
}

type nilCall struct{ ssa.CallInstruction }

func (nilCall) Common() *ssa.CallCommon { return &ssa.CallCommon{} }

func init() {
	register(&Property{
		ID: "C38",
		Explanation: "Decides the shape that keeps a cache in any state from changing what restic reads: (atomic-save) Cache.save publishes a cache file only by renaming a completely copied and closed temporary created in the same directory, removes the temporary on errors and hands the final name to nothing else that could create it; (backend-first) cacheBackend.Save/Remove touch the cache only behind the success edge of the wrapped backend's operation and report success only after it, and a failed download into the cache removes the partial entry; (forget-and-retry) LoadRaw, LoadBlob, listPack and checkPack each drop the cached copy (cache.Forget, or no cache configured) between a failed/mismatching attempt and the single retry; (nil-only-after-hash, C02) every load path returns success only after the hash comparison, so a stale or corrupted cache file is either detected and replaced or reported; (cache-locks) cacheBackend.inProgress is only touched under inProgressMutex. Not decided: concurrent clearing of the cache directory by another process at arbitrary points (file-system races).",
		Assumptions: append([]string{"os.Rename within one directory is atomic"}, commonAssumptions...),
		Technique:   "static analysis: CFG edge cuts for save/retry ordering + lockset + nil-flow of load results (go/ssa)",
		Run: func(c *eng.Ctx) {
			ruleAtomicSave(c, cacheSaveSpec)
			ruleBackendFirst(c)
			ruleForgetAndRetry(c)
			ruleNilOnlyAfterHash(c)
			ruleGuardedFields(c, cacheInProgressGuard)
		},
		Controls: []Control{
			{Name: "cache-before-backend", File: "internal/backend/cache/backend.go",
				Old: "	// first, save in the backend\n	err = b.Backend.Save(ctx, h, rd)\n	if err != nil {\n		return err\n	}\n\n	// next, save in the cache\n	err = rd.Rewind()\n	if err != nil {\n		return err\n	}\n\n	err = b.Cache.save(h, rd)\n	if err != nil {\n		debug.Log(\"unable to save %v to cache: %v\", h, err)\n		return err\n	}\n\n	return nil",
				New: "	err = b.Cache.save(h, rd)\n	if err != nil {\n		debug.Log(\"unable to save %v to cache: %v\", h, err)\n		return err\n	}\n	err = rd.Rewind()\n	if err != nil {\n		return err\n	}\n	return b.Backend.Save(ctx, h, rd)", Rule: "backend-first"},
			{Name: "retry-without-forget", File: "internal/repository/raw.go",
				Old: "		if r.cache != nil {\n			// Cleanup cache to make sure it's not the cached copy that is broken.\n			// Ignore error as there's not much we can do in that case.\n			_ = r.cache.Forget(h)\n		}\n", New: "", Rule: "forget-and-retry"},
			{Name: "cache-writes-final-name-directly", File: "internal/backend/cache/file.go",
				Old: "	f, err := os.CreateTemp(dir, \"tmp-\")", New: "	f, err := os.Create(finalname)", Rule: "atomic-save"},
		},
	})
	register(&Property{
		ID: "C36",
		Explanation: "Decides, for every execution and crash point of (*local.Local).Save: (atomic-save) the final name is the destination of exactly one os.Rename whose source is the Name() of the temporary created by tempFile in filepath.Dir(finalname); the rename is reachable only through the success edges of io.Copy (into that temporary) and f.Close, the bytes-written == rd.Length() edge, after f.Sync() was called, and — from Sync — only on its success edge or an edge classifying the error as 'sync not supported'; after the rename success is reported only after fsyncDir succeeded (same tolerance); apart from Rename the final name is handed only to Dir/Base/debug.Log/setFileReadonly, so no other call can create it; error paths remove the temporary; (temp-not-listed) the temporary name is Base(finalname) plus a constant with a non-hex character, Repository.List passes a name to its callback only on the success edge of ParseID, and the tempFile hook is never reassigned. Not decided: atomicity and durability semantics of rename/fsync on the underlying file system.",
		Assumptions: append([]string{"os.Rename within one directory is atomic; fsync makes file content durable"}, commonAssumptions...),
		Technique:   "static analysis: CFG edge cuts (success edges, tolerant sync form, path-sensitive) + value origin of every use of the final name (go/ssa)",
		AllConfigs:  true,
		Run: func(c *eng.Ctx) {
			ruleAtomicSave(c, localSaveSpec)
			ruleLocalLengthCheck(c)
			ruleTempNotListed(c)
		},
		Controls: []Control{
			{Name: "rename-before-sync", File: "internal/backend/local/local.go",
				Old: "	err = f.Sync()\n	syncNotSup := err != nil && (errors.Is(err, syscall.ENOTSUP) || isMacENOTTY(err))\n	if err != nil && !syncNotSup {\n		return errors.WithStack(err)\n	}\n",
				New: "	syncNotSup := false\n", Rule: "atomic-save"},
			{Name: "ignore-short-write", File: "internal/backend/local/local.go",
				Old: "	if wbytes != rd.Length() {\n		return errors.Errorf(\"wrote %d bytes instead of the expected %d bytes\", wbytes, rd.Length())\n	}\n", New: "	_ = wbytes\n", Rule: "atomic-save"},
			{Name: "ignore-sync-error", File: "internal/backend/local/local.go",
				Old: "	if err != nil && !syncNotSup {\n		return errors.WithStack(err)\n	}\n\n	// Close, then rename.", New: "	if err != nil && !syncNotSup {\n		debug.Log(\"sync failed: %v\", err)\n	}\n\n	// Close, then rename.", Rule: "atomic-save"},
			{Name: "temp-name-parses-as-id", File: "internal/backend/local/local.go",
				Old: "tmpname := filepath.Base(finalname) + \"-tmp-\"", New: "tmpname := filepath.Base(finalname) + \"00\"", Rule: "temp-not-listed"},
			{Name: "list-reports-unparsable-names", File: "internal/repository/repository.go",
				Old: "			debug.Log(\"unable to parse %v as an ID\", fi.Name)\n			return nil\n", New: "			debug.Log(\"unable to parse %v as an ID\", fi.Name)\n", Rule: "temp-not-listed"},
		},
	})
}
