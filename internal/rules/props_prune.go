package rules

import "verif/internal/eng"

func init() {
	register(&Property{
		ID: "C48",
		Explanation: "Decides the structural necessary condition behind 'each member once': every method of index.AssociatedSet that enumerates members by walking one of the per-entry iterators of the index (MasterIndex.Values, Index.Values, indexMap.values yield one element per stored copy of a blob) guards its yield with a first-occurrence test against a local seen-set that is updated on every path before yielding; Len and Keys enumerate through All and inherit it. The rule reported the genuine defect in AssociatedSet.All (a blob stored in two packs was yielded twice, Len()==2 for a one-member set), which is fixed; (slot-discipline) Get, Set, Delete and the enumeration agree on where a handle lives: the overflow map is consulted first and the index position is used only on its miss edge, a slot value[idx]/isSet[idx] is addressed only with the handle's own position and only behind idx != -1 and idx < len(value) (value and isSet are allocated with one length), Set always ends with the handle recorded (overflow update, or value stored and isSet=true), Delete with it removed (overflow delete, isSet=false, or no slot exists), Get reports a member only for an overflow hit or a set slot, and Get and the enumeration have no effects. Not decided: that Intersect/Sub preserve values, and the stability of index positions (MasterIndex.blobIndex).",
		Assumptions: commonAssumptions,
		Technique:   "static analysis: guard-and-update pattern on the CFG of range-over-func bodies (go/ssa)",
		Run: func(c *eng.Ctx) {
			ruleSetOverMultimap(c)
			ruleAssocSetSlots(c)
		},
		Controls: []Control{
			{Name: "set-skips-overflow-lookup", File: "internal/repository/index/associated_data.go",
				Old: "func (a *AssociatedSet[T]) Set(bh restic.BlobHandle, val T) {\n	if _, ok := a.overflow[bh]; ok {\n		a.overflow[bh] = val\n		return\n	}\n", New: "func (a *AssociatedSet[T]) Set(bh restic.BlobHandle, val T) {\n", Rule: "slot-discipline"},
			{Name: "delete-keeps-slot-set", File: "internal/repository/index/associated_data.go",
				Old: "	if idx < len(bt.value) && idx != -1 {\n		bt.isSet[idx] = false\n	}", New: "	if idx < len(bt.value) && idx != -1 {\n		var zero T\n		bt.value[idx] = zero\n	}", Rule: "slot-discipline"},
			{Name: "get-ignores-isset", File: "internal/repository/index/associated_data.go",
				Old: "	has := bt.isSet[idx]\n	if has {\n		return bt.value[idx], has\n	}", New: "	has := bt.isSet[idx]\n	if has || idx > 0 {\n		return bt.value[idx], true\n	}", Rule: "slot-discipline"},
			{Name: "drop-seen-test", File: "internal/repository/index/associated_data.go",
				Old: "			if reported[bh.Type][idx] {\n				// duplicate index entry of an already reported handle\n				continue\n			}\n", New: "", Rule: "set-over-multimap"},
			{Name: "forget-to-mark-reported", File: "internal/repository/index/associated_data.go",
				Old: "			reported[bh.Type][idx] = true\n", New: "", Rule: "set-over-multimap"},
		},
	})
	register(&Property{
		ID: "C33",
		Explanation: "Decides effects and order of repair index: (no-pack-removal) the call closure of repository.RepairIndex (static callees, function literals, function values, interface calls resolved by class-hierarchy analysis over the module; calls on backend.Backend are the effect boundary) contains neither PrunePlan.Execute nor RepairPacks — the only pack removers by rule pack-removers —, every removal call with a constant file type in the closure names IndexFile, and the only direct backend Remove in it is the removeUnpacked wrapper; (repair-order) rewriteIndexFiles is reachable from the pack-reading step only through createIndexFromPacks' success edge and after successful listings; in createIndexFromPacks a pack's entries enter the index (StorePack) only on the success edge of listPack for that pack with the entries just listed — unreadable packs are never indexed — and success requires the workers and the flush to succeed; (rewrite-order) obsolete index files are removed only after all new ones were saved; (reread-implies-removed) in the pack listing callback of RepairIndex every pack put into the to-read map is inserted into removePacks (the set whose entries Rewrite drops) with the same ID, both happen for packs unknown to the index and for size mismatches (specialised evaluation of the lookup result and the size comparison), and packs the index mentions but the listing lacks are inserted too — added after a seeded change that kept stale entries of size-mismatched packs; (kept-index-has-no-excluded-pack) MasterIndex.Rewrite leaves an index file unchanged only behind len(idx.Packs().Intersect(excludePacks)) == 0, otherwise the file is marked obsolete and its other entries are re-stored through the filtering iterator (added after a seeded change that dropped the test from the fast path for full index files). (listpack-retries) listPack gives a pack up only after a second pack.List failed too — repair index leaves out a pack whose header could not be listed and still succeeds, so one damaged read must not count (added after a seeded change that retried only with a cache configured). Not decided: that the listed positions equal the true positions (C06) for every pack content.",
		Assumptions: commonAssumptions,
		Technique:   "static analysis: call-graph effect closure (CHA within the module, backend interface as boundary) + CFG edge cuts (go/ssa)",
		AllConfigs:  true,
		Run: func(c *eng.Ctx) {
			ruleListPackRetries(c)
			ruleNoPackRemoval(c)
			ruleRepairIndexOrder(c)
			ruleRewriteOrder(c)
			ruleRewriteDedupSet(c)
			ruleKeptIndexHasNoExcludedPack(c)
			rulePackRemovers(c)
			ruleRereadImpliesRemoved(c)
		},
		Controls: []Control{
			{Name: "listpack-single-attempt-after-forget-error", File: "internal/repository/repository.go",
				Old: "		// retry on error\n		entries, _, err = pack.List(r.Key(), backend.ReaderAt(ctx, r.be, h), size)\n", New: "		// retry on error\n		if size > 0 && r.cache != nil {\n			entries, _, err = pack.List(r.Key(), backend.ReaderAt(ctx, r.be, h), size)\n		}\n", Rule: "listpack-retries"},
			{Name: "full-index-kept-when-it-names-one-excluded-pack", File: "internal/repository/index/master_index.go",
				Old: "			if len(task.idx.Packs().Intersect(excludePacks)) == 0 && Full(task.idx) && !Oversized(task.idx) {", New: "			if len(task.idx.Packs().Intersect(excludePacks)) <= 1 && Full(task.idx) && !Oversized(task.idx) {", Rule: "kept-index-has-no-excluded-pack"},
			{Name: "size-mismatch-keeps-stale-entries", File: "internal/repository/repair_index.go",
				Old: "			packSizeFromList[id] = packSize\n			removePacks.Insert(id)\n		}\n		if !ok {", New: "			packSizeFromList[id] = packSize\n		}\n		if !ok {\n			removePacks.Insert(id)", Rule: "reread-implies-removed"},
			{Name: "repair-index-removes-mismatched-packs", File: "internal/repository/repair_index.go",
				Old: "	// drop outdated in-memory index\n	repo.clearIndex()\n	return nil\n}\n\nfunc rewriteIndexFiles(", New: "	_ = restic.ParallelRemove(ctx, &internalRepository{repo}, removePacks, restic.PackFile, nil, restic.NoopCounter)\n	// drop outdated in-memory index\n	repo.clearIndex()\n	return nil\n}\n\nfunc rewriteIndexFiles(", Rule: "no-pack-removal"},
			{Name: "index-unreadable-packs-anyway", File: "internal/repository/repository.go",
				Old: "			} else if err := r.idx.StorePack(wgCtx, fi.ID, entries, &internalRepository{r}); err != nil {\n				return err\n			}", New: "			}\n			if err := r.idx.StorePack(wgCtx, fi.ID, entries, &internalRepository{r}); err != nil {\n				return err\n			}", Rule: "repair-order"},
			{Name: "rewrite-after-failed-pack-read", File: "internal/repository/repair_index.go",
				Old: "		bar.Done()\n		if err != nil {\n			return err\n		}\n\n		for _, id := range invalidFiles {", New: "		bar.Done()\n		if err != nil {\n			printer.E(\"%v\", err)\n		}\n\n		for _, id := range invalidFiles {", Rule: "repair-order"},
		},
	})
	register(&Property{
		ID: "C34",
		Explanation: "Decides ordering and effects of the repair commands: (salvage-order) RepairPacks removes exactly the user-named packs, only behind the success edges of the re-upload session (WithBlobUploader) and of rewriteIndexFiles, and the index rewrite only after the re-upload succeeded; reuploadBlobsFromPack stores with storeDuplicate=true, returns the save error and compares the uploaded id with the expected blob id; (second-salvage-pass) after the pass over the index entries of a pack the header-based pass is left out only if the header could not be read or slices.Equal finds both sorted lists equal in every field of every entry (added after a seeded change that compared only the blob handles, so that a wrong length in the index cost an intact blob); (repair-node-effects) the node rewriter of repair snapshots stores only to Node.Content and Node.Size and only behind node.Type == NodeTypeFile, so files whose data is fully available keep every other field; (replace-order, see C26) the repaired snapshot is saved before the original is removed; (repaired-content-fresh) the blob list repair snapshots writes into a file node starts from a fresh, non-nil allocation (followed through append and the loop's phi), never from the node's own list, so a legacy node with a null blob list — which check rejects — comes out with an empty list (added after a seeded change that filtered in place). Not decided: that every readable blob is actually found in a damaged pack (depends on the damage), and that the repaired snapshots pass check.",
		Assumptions: commonAssumptions,
		Technique:   "static analysis: CFG edge-cut ordering + field-store effect enumeration in the rewrite callback (go/ssa)",
		Run: func(c *eng.Ctx) {
			ruleSalvageOrder(c)
			ruleSecondSalvagePass(c)
			ruleRepairSnapshotsEffects(c)
			ruleRepairedContentFresh(c)
			rulePackRemovers(c)
		},
		Controls: []Control{
			{Name: "content-filtered-in-place", File: "cmd/restic/cmd_repair_snapshots.go",
				Old: "			var newContent = restic.IDs{}\n", New: "			newContent := node.Content[:0:0]\n", Rule: "repaired-content-fresh"},
			{Name: "header-pass-only-when-entry-count-differs", File: "internal/repository/repair_pack.go",
				Old: "			if packBlobs != nil && !slices.Equal(indexBlobs, packBlobs) {", New: "			if packBlobs != nil && len(indexBlobs) != len(packBlobs) && !slices.Equal(indexBlobs, packBlobs) {", Rule: "second-salvage-pass"},
			{Name: "remove-damaged-packs-before-reupload", File: "internal/repository/repair_pack.go",
				Old: "	if err != nil {\n		return err\n	}\n	bar.Done()\n\n	// remove salvaged packs from index", New: "	if err != nil {\n		printer.E(\"salvaging failed: %v\", err)\n	}\n	bar.Done()\n\n	// remove salvaged packs from index", Rule: "salvage-order"},
			{Name: "salvage-skips-known-blobs", File: "internal/repository/repair_pack.go",
				Old: "uploader.SaveBlob(ctx, blob.Type, buf, restic.ID{}, true)", New: "uploader.SaveBlob(ctx, blob.Type, buf, restic.ID{}, false)", Rule: "salvage-order"},
			{Name: "repair-rewrites-mtime", File: "cmd/restic/cmd_repair_snapshots.go",
				Old: "			node.Content = newContent\n			node.Size = newSize\n", New: "			node.Content = newContent\n			node.Size = newSize\n			node.ModTime = node.ChangeTime\n", Rule: "repair-node-effects"},
		},
	})
	register(&Property{
		ID: "C10",
		Explanation: "Decides three shapes behind 'the reported counts and sizes agree with the repository', not the arithmetic and not the state of the index after prune: (prune-stats-pairing) while packInfoFromIndex and decidePackAction classify blobs and packs, every update of a blob counter stats.Blobs.X (Used, Unused, Duplicate, Remove, Repack, Repackrm) sits in one basic block with an update of the byte counter stats.Size.X in the same direction, and a term read from a pack's ...Blobs field on the count side is the ...Size field of the same kind (used/unused) on the size side; a pack is inserted into the remove or ignore set only in a block that raises Blobs.Remove and Size.Remove, into the repack set only where Blobs.Repack, Size.Repack, Blobs.Repackrm and Size.Repackrm are raised; the reported numbers of unreferenced packs, packs to repack and packs to remove are len() of the very sets the returned PrunePlan carries and Execute acts on; (keep-only-behind-a-limit) in the loop over the repack candidates — the packs with unused blobs — a pack is kept (Packs.Keep++) only behind the true edge of a comparison with opts.MaxRepackBytes or with the result of opts.MaxUnusedBytes, so without limits every candidate is repacked. Not decided: that after prune the index holds no unreachable blob, no duplicate, no pack without entry and no entry for a missing pack (C09 decides the orderings of that sequence), the totals derived by arithmetic (Total, Remain, RemoveTotal, RemainUnused), sizes reported by the backend listing, and the statistics printed by cmd_prune. Planned as not applicable in DESIGN section 4; claimed at level 'other' for exactly these clauses.",
		Assumptions: commonAssumptions,
		Technique:   "static analysis: block-local pairing of field updates, term-kind comparison, provenance of reported set sizes (go/ssa)",
		Run:         func(c *eng.Ctx) { rulePruneStatsPairing(c); ruleKeepOnlyBehindLimit(c) },
		Controls: []Control{
			{Name: "large-candidates-always-kept", File: "internal/repository/prune.go",
				Old: "		case reachedUnusedSizeAfter && packIsLargeEnough:", New: "		case (reachedUnusedSizeAfter || p.unusedSize < p.usedSize) && packIsLargeEnough:", Rule: "keep-only-behind-a-limit"},
			{Name: "unused-pack-size-counted-as-used", File: "internal/repository/prune.go",
				Old: "			removePacks.Insert(id)\n			stats.Blobs.Remove += p.unusedBlobs\n			stats.Size.Remove += p.unusedSize\n", New: "			removePacks.Insert(id)\n			stats.Blobs.Remove += p.unusedBlobs\n			stats.Size.Remove += p.usedSize\n", Rule: "prune-stats-pairing"},
			{Name: "ignored-pack-not-counted", File: "internal/repository/prune.go",
				Old: "			ignorePacks.Insert(id)\n			stats.Blobs.Remove += p.unusedBlobs\n			stats.Size.Remove += p.unusedSize\n", New: "			ignorePacks.Insert(id)\n", Rule: "prune-stats-pairing"},
			{Name: "duplicate-size-not-moved-back", File: "internal/repository/prune.go",
				Old: "				stats.Size.Duplicate -= size\n				stats.Blobs.Duplicate--\n", New: "				stats.Blobs.Duplicate--\n", Rule: "prune-stats-pairing"},
			{Name: "repack-count-from-candidates", File: "internal/repository/prune.go",
				Old: "	stats.Packs.Repack = uint(len(repackPacks))\n", New: "	stats.Packs.Repack = uint(len(repackCandidates))\n", Rule: "prune-stats-pairing"},
		},
	})
	register(&Property{
		ID: "C09",
		Explanation: "Decides strong necessary conditions that hold for every crash prefix and option combination of prune: (execute-order) in PrunePlan.Execute the repacked packs enter removePacks only through Merge(repackPacks) behind the success edge of WithBlobUploader(CopyBlobs…), removePacks is deleted only on paths that crossed rewriteIndexFiles' success edge, the unsafe-recovery index deletion's success edge, or the zero-length test of ignorePacks taken after ignorePacks ⊇ removePacks was established (the infeasible-path trap of plain dominance), and only after keepBlobs.Len()==0 following a repack; the rewrite excludes exactly ignorePacks; (ignore-set-covers-deletions) whatever Execute adds to removePacks (the repacked packs) is carried into ignorePacks — by the aliasing assignment or by Merge — on every path from that addition to rewriteIndexFiles/SaveFallback, so no pack is deleted while the new index still names it (added after a seeded change that computed ignorePacks before the repack: with a missing unneeded pack in the index the repacked packs stayed in the index and were deleted); (rewrite-order) MasterIndex.Rewrite removes obsolete index files only after wg.Wait()==nil for the savers, SaveFallback returns the save error; (used-blobs-errors) snapshot/tree load errors and item.Error abort getUsedBlobs/FindUsedBlobs and propagate to PlanPrune; (missing-abort) packInfoFromIndex succeeds only if no used blob is missing from the index and decidePackAction runs only after both succeeded; (ignored-errors-allowlist) the only discarded errors in Execute are the two pack deletions; (pack-removers) all removal call sites of the program are enumerated: PackFile is removed only by Execute and RepairPacks, other sites forward a parameter, no direct backend removal of a pack exists, and compile-fail witnesses show that code outside package repository cannot pass PackFile/IndexFile/KeyFile/LockFile/ConfigFile to Save/RemoveUnpacked. (kept-pack-predicate) PlanPrune drops a blob from keepBlobs ('another copy is in a kept pack') only for a pack that is in none of PrunePlan's pack-ID sets — removePacks, repackPacks, ignorePacks, enumerated from the struct — because members of every one of them do not survive the prune; this rule was written for the genuine defect found in this place (packs missing from the repository counted as kept, so the last surviving copy of a duplicated blob was neither carried over nor kept), now fixed. Not decided: correctness of duplicate selection and of the remaining keepBlobs arithmetic; bit-identical restorability itself.",
		Assumptions: append([]string{"errgroup.Wait returns the first error of its goroutines"}, commonAssumptions...),
		Technique:   "static analysis: disjunctive CFG edge cuts with side obligations, call-site enumeration, error-propagation discipline, compile-fail type witnesses (go/ssa, go/types)",
		AllConfigs:  true,
		Run: func(c *eng.Ctx) {
			ruleExecuteOrder(c)
			ruleIgnoreSetCoversDeletions(c)
			ruleRewriteOrder(c)
			ruleRewriteDedupSet(c)
			ruleKeptIndexHasNoExcludedPack(c)
			ruleUsedBlobsErrors(c, false)
			ruleMissingAbort(c)
			ruleIgnoredErrors(c)
			rulePackRemovers(c)
			ruleKeptPackPredicate(c)
		},
		Controls: []Control{
			{Name: "repacked-packs-not-merged-into-ignore-set", File: "internal/repository/prune.go",
				Old: "	if len(plan.ignorePacks) == 0 {\n		plan.ignorePacks = plan.removePacks\n	} else {\n		plan.ignorePacks.Merge(plan.removePacks)\n	}\n", New: "	if len(plan.ignorePacks) == 0 {\n		plan.ignorePacks = plan.removePacks\n	}\n", Rule: "ignore-set-covers-deletions"},
			{Name: "repacked-packs-count-as-kept", File: "internal/repository/prune.go",
				Old: "			if plan.removePacks.Has(packID) || plan.repackPacks.Has(packID) || plan.ignorePacks.Has(packID) {", New: "			if plan.removePacks.Has(packID) || plan.ignorePacks.Has(packID) {", Rule: "kept-pack-predicate"},
			{Name: "missing-packs-count-as-kept", File: "internal/repository/prune.go",
				Old: "			if plan.removePacks.Has(packID) || plan.repackPacks.Has(packID) || plan.ignorePacks.Has(packID) {", New: "			if plan.removePacks.Has(packID) || plan.repackPacks.Has(packID) {", Rule: "kept-pack-predicate"},
			{Name: "delete-packs-before-index-rewrite", File: "internal/repository/prune.go",
				Old: "	} else if len(plan.ignorePacks) != 0 {\n		err := rewriteIndexFiles(ctx, repo, plan.ignorePacks, nil, nil, printer)\n		if err != nil {\n			return errors.Fatalf(\"%s\", err)\n		}\n	}\n",
				New: "	} else if len(plan.ignorePacks) != 0 && plan.opts.MaxRepackBytes > 0 {\n		err := rewriteIndexFiles(ctx, repo, plan.ignorePacks, nil, nil, printer)\n		if err != nil {\n			return errors.Fatalf(\"%s\", err)\n		}\n	}\n", Rule: "execute-order"},
			{Name: "remove-repacked-packs-despite-copy-error", File: "internal/repository/prune.go",
				Old: "		if err != nil {\n			return errors.Fatalf(\"%s\", err)\n		}\n\n		// Also remove repacked packs", New: "		if err != nil {\n			printer.E(\"%s\", err)\n		}\n\n		// Also remove repacked packs", Rule: "execute-order"},
			{Name: "skip-unreadable-snapshot-in-getUsedBlobs", File: "cmd/restic/cmd_prune.go",
				Old: "				debug.Log(\"failed to load snapshot %v (error %v)\", id, err)\n				return err", New: "				debug.Log(\"failed to load snapshot %v (error %v)\", id, err)\n				return nil", Rule: "used-blobs-errors"},
			{Name: "rewrite-ignores-save-errors", File: "internal/repository/index/master_index.go",
				Old: "	if err != nil {\n		return fmt.Errorf(\"failed to rewrite indexes: %w\", err)\n	}\n", New: "	if err != nil {\n		debug.Log(\"failed to rewrite indexes: %v\", err)\n	}\n", Rule: "rewrite-order"},
			{Name: "plan-despite-missing-blobs", File: "internal/repository/prune.go",
				Old: "		return nil, nil, ErrIndexIncomplete\n", New: "", Rule: "missing-abort"},
			{Name: "forget-removes-pack-directly", File: "internal/repository/repair_index.go",
				Old: "func RepairIndex(", New: "func verifMutantRemovePack(ctx context.Context, repo *Repository, id restic.ID) error {\n	return repo.removeUnpacked(ctx, restic.PackFile, id)\n}\n\nfunc RepairIndex(", Rule: "pack-removers"},
		},
	})
}
