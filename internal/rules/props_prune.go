package rules

import "verif/internal/eng"

func init() {
	register(&Property{
		ID: "C09",
		Explanation: "Decides strong necessary conditions that hold for every crash prefix and option combination of prune: (execute-order) in PrunePlan.Execute the repacked packs enter removePacks only through Merge(repackPacks) behind the success edge of WithBlobUploader(CopyBlobs…), removePacks is deleted only on paths that crossed rewriteIndexFiles' success edge, the unsafe-recovery index deletion's success edge, or the zero-length test of ignorePacks taken after ignorePacks ⊇ removePacks was established (the infeasible-path trap of plain dominance), and only after keepBlobs.Len()==0 following a repack; the rewrite excludes exactly ignorePacks; (rewrite-order) MasterIndex.Rewrite removes obsolete index files only after wg.Wait()==nil for the savers, SaveFallback returns the save error; (used-blobs-errors) snapshot/tree load errors and item.Error abort getUsedBlobs/FindUsedBlobs and propagate to PlanPrune; (missing-abort) packInfoFromIndex succeeds only if no used blob is missing from the index and decidePackAction runs only after both succeeded; (ignored-errors-allowlist) the only discarded errors in Execute are the two pack deletions; (pack-removers) all removal call sites of the program are enumerated: PackFile is removed only by Execute and RepairPacks, other sites forward a parameter, no direct backend removal of a pack exists, and compile-fail witnesses show that code outside package repository cannot pass PackFile/IndexFile/KeyFile/LockFile/ConfigFile to Save/RemoveUnpacked. Not decided: correctness of duplicate selection and of the keepBlobs arithmetic; bit-identical restorability itself.",
		Assumptions: append([]string{"errgroup.Wait returns the first error of its goroutines"}, commonAssumptions...),
		Technique:   "static analysis: disjunctive CFG edge cuts with side obligations, call-site enumeration, error-propagation discipline, compile-fail type witnesses (go/ssa, go/types)",
		AllConfigs:  true,
		Run: func(c *eng.Ctx) {
			ruleExecuteOrder(c)
			ruleRewriteOrder(c)
			ruleUsedBlobsErrors(c, false)
			ruleMissingAbort(c)
			ruleIgnoredErrors(c)
			rulePackRemovers(c)
		},
		Controls: []Control{
			{Name: "delete-packs-before-index-rewrite", File: "internal/repository/prune.go",
				Old: "	} else if len(plan.ignorePacks) != 0 {\n		err := rewriteIndexFiles(ctx, repo, plan.ignorePacks, nil, nil, printer)\n		if err != nil {\n			return errors.Fatalf(\"%s\", err)\n		}\n	}\n",
				New: "	} else if len(plan.ignorePacks) != 0 && plan.opts.MaxRepackBytes > 0 {\n		err := rewriteIndexFiles(ctx, repo, plan.ignorePacks, nil, nil, printer)\n		if err != nil {\n			return errors.Fatalf(\"%s\", err)\n		}\n	}\n", Rule: "execute-order"},
			{Name: "remove-repacked-packs-despite-copy-error", File: "internal/repository/prune.go",
				Old: "		if err != nil {\n			return errors.Fatalf(\"%s\", err)\n		}\n\n		// Also remove repacked packs", New: "		if err != nil {\n			printer.E(\"%s\", err)\n		}\n\n		// Also remove repacked packs", Rule: "execute-order"},
			{Name: "skip-unreadable-snapshot-in-getUsedBlobs", File: "cmd/restic/cmd_prune.go",
				Old: "				debug.Log(\"failed to load snapshot %v (error %v)\", id, err)\n				return err", New: "				debug.Log(\"failed to load snapshot %v (error %v)\", id, err)\n				return nil", Rule: "used-blobs-errors"},
			{Name: "rewrite-ignores-save-errors", File: "internal/repository/index/master_index.go",
				Old: "	if err != nil {\n		return fmt.Errorf(\"failed to rewrite indexes: %w\", err)\n	}\n", New: "	if err != nil {\n		debug.Log(\"failed to rewrite indexes: %v\", err)\n	}\n", Rule: "rewrite-order"},
			{Name: "plan-despite-missing-blobs", File: "internal/repository/prune.go",
				Old: "		return nil, nil, ErrIndexIncomplete\n", New: "", Rule: "missing-abort"},
			{Name: "forget-removes-pack-directly", File: "internal/repository/repair_index.go",
				Old: "func RepairIndex(", New: "func verifMutantRemovePack(ctx context.Context, repo *Repository, id restic.ID) error {\n	return repo.removeUnpacked(ctx, restic.PackFile, id)\n}\n\nfunc RepairIndex(", Rule: "pack-removers"},
		},
	})
}
