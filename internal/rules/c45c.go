package rules

import (
	"go/token"

	"golang.org/x/tools/go/ssa"

	"verif/internal/eng"
)

// nodeTypeNotEdges: edges on which Node.Type of the base value is known to differ from `name`.
func nodeTypeNotEdges(c *eng.Ctx, fn *ssa.Function, isBase func(ssa.Value) bool, name string) []eng.EdgeKey {
	typeF := c.P.Field("internal/data.Node", "Type")
	return eng.CmpEdges(fn, func(op token.Token, x, y ssa.Value) (bool, bool) {
		if op != token.EQL && op != token.NEQ {
			return false, false
		}
		if nodeTypeName(c, y) == "" {
			x, y = y, x
		}
		if nodeTypeName(c, y) != name {
			return false, false
		}
		ld, ok := eng.Strip(x).(*ssa.UnOp)
		if !ok || ld.Op != token.MUL {
			return false, false
		}
		fa, ok := ld.X.(*ssa.FieldAddr)
		if !ok || typeF == nil || eng.FieldVar(fa.X.Type(), fa.Field) != typeF {
			return false, false
		}
		if isBase != nil && !isBase(fa.X) {
			return false, false
		}
		return true, op == token.NEQ
	})
}

// ruleEveryDumpableSent (C45, "exactly one entry for each file, directory and symlink"):
// the walk callback of sendNodes
//   - returns nothing but nil, the error it was handed, or the context's error — in particular
//     never walker.ErrSkipNode, which for a non-directory means "skip the rest of this
//     directory" and silently drops every later sibling;
//   - returns nil for a node only after it was offered to the archive writer (the select that
//     sends it), unless there is no node or its type is none of file/dir/symlink: for each of
//     the three types T, a nil return that by-passes the send lies behind Type != T.
func ruleEveryDumpableSent(c *eng.Ctx) {
	const rule = "every-dumpable-sent"
	root := c.NeedFn(rule, pkgDump+".sendNodes")
	if root == nil {
		return
	}
	var cb *ssa.Function
	for _, l := range c.P.Lits(root) {
		if ins, _ := nodeSends(c, l); len(ins) > 0 && len(l.Params) == 4 {
			cb = l
		}
	}
	if cb == nil {
		c.Unk(rule, "anchor:ProcessNode-callback", root.Pos(), "the walk callback of sendNodes that sends nodes was not found")
		return
	}
	c.Touch(cb)
	nodeP, errP := cb.Params[2], cb.Params[3]
	sends, _ := nodeSends(c, cb)
	nodeNil := eng.NilEdges(cb, eng.SameAs(nodeP), true)
	n := 0
	for _, r := range eng.Returns(cb) {
		v := eng.RetVal(r, 0)
		for _, o := range eng.Origins(v, nil) {
			n++
			switch {
			case eng.IsNilConst(o):
				for _, t := range dumpable {
					cut := eng.NewCut().AddInstrs(sends...).AddEdges(nodeNil...).AddEdges(nodeTypeNotEdges(c, cb, eng.SameAs(nodeP), t)...)
					c.MustPass(rule, "sendNodes:return-nil→sent-or-not-"+t, eng.Entry(cb), r, cut, "the node was offered to the writer, is nil, or its Type is not "+t)
				}
			case eng.SameAs(errP)(o):
				c.Ok(rule, "sendNodes:callback-returns-walk-error", r.Pos(), "the callback passes on the error it was handed")
			default:
				call := eng.RootCall(o)
				if call != nil {
					// the result of a plain send helper: nil after the send, or the context's error
					if h := call.Call.StaticCallee(); h != nil && sendHelperParam(c, h) >= 0 {
						okHelper := true
						for _, hr := range eng.Returns(h) {
							for _, ho := range eng.Origins(eng.RetVal(hr, 0), nil) {
								hc := eng.RootCall(ho)
								if !eng.IsNilConst(ho) && !(hc != nil && hc.Call.IsInvoke() && hc.Call.Method.Name() == "Err") {
									okHelper = false
								}
							}
						}
						c.Check(okHelper, rule, "sendNodes:callback-returns-send-helper-result", r.Pos(), "the callback returns the result of %s, which is nil after the send or ctx.Err()", c.P.FnName(h))
						continue
					}
				}
				isCtxErr := call != nil && call.Call.IsInvoke() && call.Call.Method.Name() == "Err"
				c.Check(isCtxErr, rule, "sendNodes:callback-result", r.Pos(), "the callback returns only nil, the walk error or ctx.Err() — never a skip sentinel (%s)", c.P.Describe(o))
			}
		}
	}
	c.Check(n >= 3 && len(sends) >= 1, rule, "sendNodes:callback-returns", cb.Pos(), "%d return values classified, %d sends", n, len(sends))
}
