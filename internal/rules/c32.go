package rules

import (
	"go/types"
	"reflect"
	"strings"

	"golang.org/x/tools/go/ssa"

	"verif/internal/eng"
)

// ruleCopyOrder (C32): copy saves a snapshot in the destination only after the upload
// session that copied its trees and blobs ended successfully, keeps a persistent Original ID,
// and skips a source snapshot only for a destination snapshot that agrees in every field.
func ruleCopyOrder(c *eng.Ctx) {
	const rule = "copy-order"
	fn := c.NeedFn(rule, "cmd/restic.copyTreeBatched")
	if fn == nil {
		return
	}
	var uploads []ssa.CallInstruction
	for _, call := range eng.Calls(fn) {
		if eng.MethodName(call) == "WithBlobUploader" {
			uploads = append(uploads, call)
		}
	}
	saves := c.P.CallsTo(fn, "cmd/restic.copySaveSnapshot")
	// copySaveSnapshot has no other call site (in particular none inside the upload callback)
	for _, s := range c.P.AllCallsTo("cmd/restic.copySaveSnapshot") {
		c.Check(s.Fn == fn, rule, "copySaveSnapshot:called-from:"+c.P.FnName(s.Fn), s.Call.Pos(), "copySaveSnapshot is called only from the body of copyTreeBatched, after the upload session (a call inside the upload callback would save a snapshot before its data is flushed)")
	}
	if len(uploads) != 1 || len(saves) != 1 {
		c.Unk(rule, "copyTreeBatched:shape", fn.Pos(), "expected one WithBlobUploader and one copySaveSnapshot call, found %d/%d", len(uploads), len(saves))
		return
	}
	// every path from an upload session to the save passes that session's success edge (per batch)
	c.MustPass(rule, "copyTreeBatched:upload-session-ok→save-snapshots", eng.After(uploads[0].(ssa.Instruction)), saves[0].(ssa.Instruction), eng.SuccessCut(uploads[0]), "WithBlobUploader returned nil (all packs and the index are flushed)")
	c.MustPass(rule, "copyTreeBatched:save-only-after-an-upload-session", eng.Entry(fn), saves[0].(ssa.Instruction), eng.CallCut(uploads...), "an upload session ran")
	// the snapshots saved are those whose trees were copied in this batch
	up := closureArg(uploads[0], 1)
	if up == nil {
		c.Unk(rule, "copyTreeBatched:upload-closure", uploads[0].Pos(), "the upload callback is not a literal")
	} else {
		trees := c.P.CallsTo(up, "cmd/restic.copyTree")
		c.Check(len(trees) == 1, rule, "copyTreeBatched:copies-tree", up.Pos(), "the upload callback copies each snapshot's tree (%d copyTree calls)", len(trees))
		for _, t := range trees {
			// an error of copyTree ends the session with an error
			ev := eng.ErrResult(t)
			bad := false
			for _, e := range eng.FailureEdges(t) {
				from, ecut := eng.EdgeOrigin(up, e, nil)
				if res := c.P.FindPathSeeded(from, func(in ssa.Instruction) bool { _, ok := in.(*ssa.Return); return ok }, ecut,
					func(env *eng.PSEnv, target ssa.Instruction) bool {
						return env.MayBeNil(eng.RetVal(target.(*ssa.Return), 0))
					}, func(env *eng.PSEnv) { env.AssumeNil(ev, false) }); res != nil {
					bad = true
				}
			}
			c.Check(!bad && len(eng.FailureEdges(t)) > 0, rule, "copyTreeBatched:copy-error→session-error", t.Pos(), "an error of copyTree makes the upload callback return an error (so nothing of this batch is saved)")
			// the tree copied is the snapshot's tree, and that snapshot is in the batch
			treeF := c.P.Field(pkgData+".Snapshot", "Tree")
			c.Check(mentionsFieldDeepArgs(eng.Arg(t, 4), treeF), rule, "copyTreeBatched:copies-snapshot-tree", t.Pos(), "copyTree is given *sn.Tree")
		}
	}
	// copyTree: errors of the traversal and of CopyBlobs are returned
	if ct := c.NeedFn(rule, "cmd/restic.copyTree"); ct != nil {
		for _, name := range []string{fnStreamTrees, pkgRepo + ".CopyBlobs"} {
			for _, call := range c.P.CallsTo(ct, name) {
				ev := eng.ErrResult(call)
				bad := false
				for _, e := range eng.FailureEdges(call) {
					from, ecut := eng.EdgeOrigin(ct, e, nil)
					if res := c.P.FindPathSeeded(from, func(in ssa.Instruction) bool { _, ok := in.(*ssa.Return); return ok }, ecut,
						func(env *eng.PSEnv, target ssa.Instruction) bool {
							return env.MayBeNil(eng.RetVal(target.(*ssa.Return), 1))
						}, func(env *eng.PSEnv) { env.AssumeNil(ev, false) }); res != nil {
						bad = true
					}
				}
				c.Check(!bad && len(eng.FailureEdges(call)) > 0, rule, "copyTree:"+name[strings.LastIndex(name, ".")+1:]+"-error-returned", call.Pos(), "an error of %s ends copyTree with an error", name)
			}
		}
		// the blobs handed to CopyBlobs are those collected during the traversal
		for _, cb := range c.P.CallsTo(ct, pkgRepo+".CopyBlobs") {
			for _, st := range c.P.CallsTo(ct, fnStreamTrees) {
				c.MustPass(rule, "copyTree:traverse→copy", eng.Entry(ct), cb.(ssa.Instruction), eng.SuccessCut(st), "StreamTrees finished without error")
			}
		}
	}
	// copySaveSnapshot
	if cs := c.NeedFn(rule, "cmd/restic.copySaveSnapshot"); cs != nil {
		origF := c.P.Field(pkgData+".Snapshot", "Original")
		sv := c.P.CallsTo(cs, fnSaveSnapshot)
		for _, s := range sv {
			// Original is non-nil when saved: either it was set before or it is set to the source ID
			cut := eng.NewCut()
			for _, st := range c.P.FieldStoresIn(cs, origF) {
				cut.AddInstrs(st)
			}
			cut.AddEdges(eng.NilEdges(cs, func(v ssa.Value) bool { return eng.LoadsField(v, origF) }, false)...)
			c.MustPass(rule, "copySaveSnapshot:original-set→save", eng.Entry(cs), s.(ssa.Instruction), cut, "sn.Original is set (kept, or set to the source snapshot's ID)")
			c.Check(eng.IsParam(cs, "sn")(eng.Arg(s, 2)) && eng.IsParam(cs, "dstRepo")(eng.Strip(eng.Arg(s, 1))), rule, "copySaveSnapshot:saves-into-destination", s.Pos(), "the snapshot is saved into the destination repository")
		}
		// an existing Original is never overwritten
		for _, st := range c.P.FieldStoresIn(cs, origF) {
			c.MustPass(rule, "copySaveSnapshot:original-kept-if-present", eng.Entry(cs), st, eng.NewCut().AddEdges(eng.NilEdges(cs, func(v ssa.Value) bool { return eng.LoadsField(v, origF) }, true)...), "sn.Original == nil")
		}
	}
	c.Floor(rule, 9, 10)
}

// ruleSimilarSnapshots (C32): the 'already copied' test compares every persistent field of
// the two snapshots except Parent and Original.
func ruleSimilarSnapshots(c *eng.Ctx) {
	const rule = "similar-snapshots"
	fn := c.NeedFn(rule, "cmd/restic.similarSnapshots")
	st := c.P.NamedType(pkgData + ".Snapshot")
	if fn == nil || st == nil {
		return
	}
	s := st.Underlying().(*types.Struct)
	read := map[*types.Var]bool{}
	for _, b := range fn.Blocks {
		for _, in := range b.Instrs {
			switch x := in.(type) {
			case *ssa.FieldAddr:
				read[eng.FieldVar(x.X.Type(), x.Field)] = true
			case *ssa.Field:
				read[eng.FieldVar(x.X.Type(), x.Field)] = true
			}
		}
	}
	exceptions := map[string]string{
		"Parent":         "has no meaning in the destination repository (cleared on copy)",
		"Original":       "is the key under which candidates were looked up",
		"ProgramVersion": "informational, copied verbatim",
		"Summary":        "statistics, copied verbatim",
		"id":             "storage ID, differs by construction",
	}
	for i := 0; i < s.NumFields(); i++ {
		f := s.Field(i)
		if why, ok := exceptions[f.Name()]; ok {
			c.Ok(rule, "Snapshot."+f.Name()+":exception", f.Pos(), "not compared: %s", why)
			continue
		}
		tag := reflect.StructTag(s.Tag(i)).Get("json")
		c.Check(read[f] || tag == "-", rule, "Snapshot."+f.Name()+":compared", f.Pos(), "similarSnapshots compares the field %s", f.Name())
	}
	// a source snapshot is skipped only behind similarSnapshots == true
	if ca := c.NeedFn(rule, "cmd/restic.collectAllSnapshots"); ca != nil {
		n := 0
		for _, lit := range c.P.Lits(ca) {
			sims := c.P.CallsTo(lit, "cmd/restic.similarSnapshots")
			// … or of a private bool helper that says true only behind similarSnapshots == true
			for _, call := range eng.Calls(lit) {
				h := call.Common().StaticCallee()
				if h == nil || len(h.Blocks) == 0 || h.Signature.Results().Len() != 1 || !isBool(h.Signature.Results().At(0).Type()) {
					continue
				}
				inner := c.P.CallsTo(h, "cmd/restic.similarSnapshots")
				if len(inner) == 0 {
					continue
				}
				okH := true
				for _, r := range eng.Returns(h) {
					if k, isK := eng.RetVal(r, 0).(*ssa.Const); isK && k.Value != nil && k.Value.String() == "false" {
						continue
					}
					if eng.FindPath(eng.Entry(h), r, eng.ResultCut(true, 0, inner...)) != nil {
						okH = false
					}
				}
				if okH {
					c.Touch(h)
					sims = append(sims, call)
				}
			}
			if len(sims) == 0 {
				continue
			}
			n++
			var yields []ssa.Instruction
			for _, call := range eng.Calls(lit) {
				if nm := c.P.CalleeName(call); strings.HasPrefix(nm, "free:yield") && !eng.IsNilConst(eng.Arg(call, 0)) {
					yields = append(yields, call.(ssa.Instruction))
				}
			}
			c.Check(len(yields) == 1, rule, "collectAllSnapshots:yield-site", lit.Pos(), "one site hands a snapshot on for copying (%d)", len(yields))
			// a nil-error return that does not pass the yield = skipped snapshot: only behind similar==true (or the load-error branch)
			errP := eng.IsParam(lit, "err")
			for _, r := range eng.Returns(lit) {
				if !eng.IsNilConst(eng.RetVal(r, 0)) {
					continue
				}
				cut := eng.NewCut().AddInstrs(yields...)
				cut = eng.Union(cut, eng.ResultCut(true, 0, sims...))
				cut.AddEdges(eng.NilEdges(lit, errP, false)...)
				c.MustPass(rule, "collectAllSnapshots:skipped-only-if-similar-copy-exists", eng.Entry(lit), r, cut, "the snapshot was yielded, or a destination snapshot is similar, or loading it failed (error yielded)")
			}
		}
		c.Check(n == 1, rule, "collectAllSnapshots:filter-callback", ca.Pos(), "the callback deciding what is copied was found (%d)", n)
	}
	c.Floor(rule, 12, 14)
}
