package rules

import (
	"go/token"

	"golang.org/x/tools/go/ssa"

	"verif/internal/eng"
)

// ruleNoOrphanPacker (C44): a packer that is not registered in packerManager.packers (the
// private packer of an oversized blob) is always queued by the SaveBlob call that obtained it.
// pickPacker hands out an unregistered packer only for ciphertextLen >= packSize; SaveBlob
// leaves a packer unqueued only for packer.Size() < packSize; the two agree because the
// length given to pickPacker is the length of the very bytes added to the packer.
func ruleNoOrphanPacker(c *eng.Ctx) {
	const rule = "no-orphan-packer"
	sb := c.NeedFn(rule, pkgRepo+".(*packerManager).SaveBlob")
	pp := c.NeedFn(rule, pkgRepo+".(*packerManager).pickPacker")
	if sb == nil || pp == nil {
		return
	}
	packSizeF := c.P.Field(pkgRepo+".packerManager", "packSize")
	packersF := c.P.Field(pkgRepo+".packerManager", "packers")
	picks := c.P.CallsTo(sb, pkgRepo+".(*packerManager).pickPacker")
	var adds []ssa.CallInstruction
	for _, call := range eng.Calls(sb) {
		if eng.MethodName(call) == "Add" {
			adds = append(adds, call)
		}
	}
	if len(picks) != 1 || len(adds) != 1 {
		c.Unk(rule, "SaveBlob:shape", sb.Pos(), "expected one pickPacker and one Add call, found %d/%d", len(picks), len(adds))
		return
	}
	// 1. the measure given to pickPacker is len(bytes added)
	data := eng.Arg(adds[0], 2)
	okLen := eng.IsLenOf(eng.Arg(picks[0], 0), eng.SameAs(data))
	c.Check(okLen, rule, "SaveBlob:pickPacker(len(added bytes))", picks[0].Pos(), "pickPacker decides 'oversized' on the length of exactly the bytes that packer.Add stores (any other measure, e.g. the uncompressed length, lets an unregistered packer stay below the pack size and never be queued: the blob is lost silently)")
	// the packer type embeds *pack.Packer: look through the field of the picked packer
	ofPicked := func(v ssa.Value) bool {
		for i := 0; i < 4; i++ {
			if resultOf(v, picks[0], 0) {
				return true
			}
			ld, ok := v.(*ssa.UnOp)
			if !ok || ld.Op != token.MUL {
				return false
			}
			fa, ok := ld.X.(*ssa.FieldAddr)
			if !ok {
				return false
			}
			v = fa.X
		}
		return false
	}
	c.Check(ofPicked(eng.Recv(adds[0])), rule, "SaveBlob:adds-to-picked-packer", adds[0].Pos(), "the blob is added to the packer pickPacker returned")
	// 2. pickPacker: a packer that is not stored into r.packers is returned only for len >= packSize
	isLen := eng.IsParam(pp, pp.Params[len(pp.Params)-1].Name())
	big := eng.CmpEdges(pp, func(op token.Token, x, y ssa.Value) (bool, bool) {
		if !isLen(x) || !mentionsFieldDeepArgs(y, packSizeF) {
			return false, false
		}
		switch op {
		case token.GEQ:
			return true, true
		case token.LSS:
			return true, false
		}
		return false, false
	})
	news := c.P.CallsTo(pp, pkgRepo+".(*packerManager).newPacker")
	var registers []ssa.Instruction
	for _, b := range pp.Blocks {
		for _, in := range b.Instrs {
			if st, ok := in.(*ssa.Store); ok {
				if ia, isIA := st.Addr.(*ssa.IndexAddr); isIA && mentionsField(ia.X, packersF) {
					registers = append(registers, st)
				}
			}
		}
	}
	nUnreg := 0
	for _, r := range eng.Returns(pp) {
		v := eng.RetVal(r, 0)
		if eng.IsNilConst(v) {
			continue
		}
		// a fresh packer that reaches this return without having been stored into r.packers
		unregistered := false
		for _, n := range news {
			if resultOf(v, n, 0) && eng.FindPath(eng.After(n.(ssa.Instruction)), r, eng.NewCut().AddInstrs(registers...)) != nil {
				unregistered = true
			}
		}
		if !unregistered {
			continue // loaded from r.packers, or registered before it is returned
		}
		nUnreg++
		c.MustPass(rule, "pickPacker:unregistered-packer-only-for-oversized", eng.Entry(pp), r, eng.NewCut().AddEdges(big...), "ciphertextLen >= r.packSize")
	}
	c.Check(nUnreg == 1, rule, "pickPacker:one-unregistered-return", pp.Pos(), "pickPacker has exactly one return handing out a packer that is not in r.packers (%d)", nUnreg)
	// 3. SaveBlob: unqueued return only with packer.Size() < packSize of that packer
	queue := eng.NewCut()
	for _, call := range eng.Calls(sb) {
		if c.P.CalleeName(call) == "field:"+pkgRepo+".packerManager.queueFn" {
			queue.AddInstrs(call.(ssa.Instruction))
		}
	}
	var sizes []ssa.CallInstruction
	for _, call := range eng.Calls(sb) {
		if eng.MethodName(call) == "Size" && ofPicked(eng.Recv(call)) {
			sizes = append(sizes, call)
		}
	}
	small := eng.CmpEdges(sb, func(op token.Token, x, y ssa.Value) (bool, bool) {
		isSize := false
		for _, s := range sizes {
			if eng.SameAs(s.Value())(x) {
				isSize = true
			}
		}
		if !isSize || !mentionsFieldDeepArgs(y, packSizeF) {
			return false, false
		}
		switch op {
		case token.LSS:
			return true, true
		case token.GEQ:
			return true, false
		}
		return false, false
	})
	n := 0
	for _, r := range eng.Returns(sb) {
		if !eng.IsNilConst(eng.RetVal(r, 1)) {
			continue // not a success return
		}
		if eng.FindPath(eng.After(adds[0].(ssa.Instruction)), r, queue) == nil {
			continue // queued on the way
		}
		n++
		c.MustPass(rule, "SaveBlob:unqueued-only-below-pack-size", eng.After(adds[0].(ssa.Instruction)), r, eng.NewCut().AddEdges(small...), "packer.Size() < r.packSize")
	}
	c.Check(n >= 1 && queue.Size() == 1, rule, "SaveBlob:queue-site", sb.Pos(), "SaveBlob has one queue call and a success return that skips it (%d/%d)", queue.Size(), n)
	c.Floor(rule, 6, 6)
}
