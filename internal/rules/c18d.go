package rules

import (
	"strings"

	"golang.org/x/tools/go/ssa"

	"verif/internal/eng"
)

// ruleAncestorsEnsured (C18): that no path component below the target is a pre-existing
// symlink is established by induction over the depth. ensureDir(p) turns the last component
// of p into a real directory, given that the components above are real directories:
//
//	(base)   RestoreTo creates the target itself;
//	(step 1) the first pass calls ensureDir(Dir(target)) before it registers a node
//	         (every return of its visitNode callback passes that call or its error), and its
//	         enterDir callback returns ensureDir(target);
//	(step 2) the tree walk descends into a directory only after the pass's enterDir
//	         callback ran for it (or the pass has none: the second pass creates nothing in
//	         directories the first one did not go through).
//
// Step 2 fails on the pinned tree: enterDir is invoked only for directories the filter
// selects, so with --include /a/b/f the unselected ancestors /a and /a/b are never checked
// and ensureDir(target/a/b) resolves a pre-existing symlink target/a (known finding).
func ruleAncestorsEnsured(c *eng.Ctx) {
	const rule = "ancestors-ensured"
	root := c.NeedFn(rule, pkgRestorer+".(*Restorer).traverseTreeInner")
	rt := c.NeedFn(rule, pkgRestorer+".(*Restorer).RestoreTo")
	if root == nil || rt == nil {
		return
	}
	const ensure = pkgRestorer + ".(*Restorer).ensureDir"
	// step 2
	n := 0
	for _, fn := range c.P.WithLits(root) {
		var rec, enter []ssa.CallInstruction
		for _, call := range eng.Calls(fn) {
			switch c.P.CalleeName(call) {
			case pkgRestorer + ".(*Restorer).traverseTreeInner":
				rec = append(rec, call)
			case "field:" + pkgRestorer + ".treeVisitor.enterDir":
				enter = append(enter, call)
			}
		}
		if len(rec) == 0 {
			continue
		}
		c.Touch(fn)
		// edges on which the pass has no enterDir callback
		noHook := nilEdgesDeep(fn, func(v ssa.Value) bool {
			return fieldLoadNamed(v, "treeVisitor", "enterDir") || fieldValueNamed(v, "treeVisitor", "enterDir")
		}, true)
		for _, r := range rec {
			n++
			c.MustPass(rule, "traverseTree:enterDir→descend", eng.Entry(fn), r.(ssa.Instruction), eng.Union(eng.CallCut(enter...), eng.NewCut().AddEdges(noHook...)), "the pass's enterDir callback ran for the directory (or the pass has none)")
		}
	}
	if n == 0 {
		c.Unk(rule, "anchor:recursion", root.Pos(), "the recursive descent of traverseTreeInner was not found")
	}
	// step 1: the first pass's callbacks
	nEnter, nVisit := 0, 0
	for _, l := range c.P.Lits(rt) {
		calls := c.P.CallsTo(l, ensure)
		if len(calls) == 0 {
			continue
		}
		c.Touch(l)
		params := l.Params
		for _, call := range calls {
			arg := eng.Arg(call, 0)
			isTarget := len(params) >= 2 && eng.SameAs(params[len(params)-2])(arg)
			var isParent bool
			if d := eng.RootCall(arg); d != nil && c.P.CalleeName(d) == "path/filepath.Dir" && len(params) >= 2 {
				isParent = eng.SameAs(params[len(params)-2])(d.Call.Args[0])
			}
			switch {
			case isTarget:
				nEnter++
				for _, r := range eng.Returns(l) {
					c.MustPass(rule, "RestoreTo:enterDir→ensureDir(target)", eng.Entry(l), r, eng.CallCut(call), "ensureDir(target)")
				}
			case isParent:
				nVisit++
				// nothing is registered for restoring before the parent was ensured
				for _, other := range eng.Calls(l) {
					on := c.P.CalleeName(other)
					if other == call || strings.HasPrefix(on, "internal/debug.") || on == "path/filepath.Dir" {
						continue
					}
					if eng.FindPath(eng.Entry(l), other.(ssa.Instruction), nil) == nil {
						continue
					}
					c.MustPass(rule, "RestoreTo:visitNode:ensureDir(parent)→"+on[strings.LastIndex(on, ".")+1:], eng.Entry(l), other.(ssa.Instruction), eng.SuccessCut(call), "ensureDir(filepath.Dir(target)) succeeded")
				}
			default:
				c.Bad(rule, "RestoreTo:ensureDir-argument", call.Pos(), "ensureDir is applied to something other than the callback's target or its parent: %s", c.P.Describe(arg))
			}
		}
	}
	c.Check(nEnter >= 1 && nVisit >= 1, rule, "RestoreTo:first-pass-callbacks", rt.Pos(), "first pass: %d enterDir-style and %d visitNode-style uses of ensureDir", nEnter, nVisit)
}

// fieldValueNamed: v is the value of a struct field read with ssa.Field (struct passed by value).
func fieldValueNamed(v ssa.Value, typePrefix, field string) bool {
	f, ok := eng.Strip(v).(*ssa.Field)
	if !ok {
		return false
	}
	fv := eng.FieldVar(f.X.Type(), f.Field)
	return fv != nil && fv.Name() == field && strings.Contains(f.X.Type().String(), typePrefix)
}
