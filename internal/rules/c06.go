package rules

import (
	"fmt"
	"go/token"
	"go/types"
	"sort"

	"golang.org/x/tools/go/ssa"

	"verif/internal/eng"
)

// seedCompare specialises fn for "the operand selected by isOperand has integer value val":
// every ==/!= comparison of such an operand with a constant gets its outcome fixed.
func seedCompare(env *eng.PSEnv, fn *ssa.Function, isOperand func(ssa.Value) bool, val int64) {
	for _, b := range fn.Blocks {
		for _, in := range b.Instrs {
			bo, ok := in.(*ssa.BinOp)
			if !ok || (bo.Op != token.EQL && bo.Op != token.NEQ) {
				continue
			}
			x, y := bo.X, bo.Y
			if !isOperand(x) {
				x, y = y, x
			}
			if !isOperand(x) {
				continue
			}
			k, isK := eng.ConstInt(y)
			if !isK {
				continue
			}
			env.Assume(bo, (bo.Op == token.EQL) == (k == val))
		}
	}
}

// comparedConsts lists the constants an operand is compared with (==, !=) in fn.
func comparedConsts(fn *ssa.Function, isOperand func(ssa.Value) bool) []int64 {
	set := map[int64]bool{}
	for _, b := range fn.Blocks {
		for _, in := range b.Instrs {
			bo, ok := in.(*ssa.BinOp)
			if !ok || (bo.Op != token.EQL && bo.Op != token.NEQ) {
				continue
			}
			x, y := bo.X, bo.Y
			if !isOperand(x) {
				x, y = y, x
			}
			if !isOperand(x) {
				continue
			}
			if k, isK := eng.ConstInt(y); isK {
				set[k] = true
			}
		}
	}
	var out []int64
	for k := range set {
		out = append(out, k)
	}
	sort.Slice(out, func(i, j int) bool { return out[i] < out[j] })
	return out
}

// backEdges returns the loop back edges of fn (target dominates source).
func backEdges(fn *ssa.Function) []eng.EdgeKey {
	var out []eng.EdgeKey
	for _, b := range fn.Blocks {
		for _, s := range b.Succs {
			if s.Dominates(b) {
				out = append(out, eng.EdgeKey{b.Index, s.Index})
			}
		}
	}
	return out
}

// reachableUnder reports whether target is reachable from fn's entry under the seed.
func reachableUnder(c *eng.Ctx, fn *ssa.Function, target ssa.Instruction, cut *eng.Cut, seed func(*eng.PSEnv)) bool {
	return c.P.FindPathSeeded(eng.Entry(fn), func(in ssa.Instruction) bool { return in == target }, cut, nil, seed) != nil
}

// appendedLen gives the static number of bytes an append(buf, x...) adds when x is a
// slice of a fixed-size array (0 = unknown).
func appendedLen(call *ssa.Call) int64 {
	if len(call.Call.Args) != 2 {
		return 0
	}
	sl, ok := call.Call.Args[1].(*ssa.Slice)
	if !ok || sl.Low != nil || sl.High != nil {
		return 0
	}
	if pt, ok := sl.X.Type().Underlying().(*types.Pointer); ok {
		if at, ok := pt.Elem().Underlying().(*types.Array); ok {
			return at.Len()
		}
	}
	return 0
}

type hdrWriter struct {
	typeByte map[[2]int64]int64 // (blob type, compressed 0/1) → byte
	bytes    map[[2]int64]int64 // → entry bytes
}

// ruleHeaderFormat (C06): the pack header writer and reader agree on type bytes, entry
// sizes and limits.
func ruleHeaderFormat(c *eng.Ctx) {
	const rule = "type-byte-table"
	wfn := c.NeedFn(rule, pkgPack+".makeHeader")
	rfn := c.NeedFn(rule, pkgPack+".parseHeaderEntry")
	if wfn == nil || rfn == nil {
		return
	}
	dataT, ok1 := constIntVal(c, rule, pkgRestic+".DataBlob")
	treeT, ok2 := constIntVal(c, rule, pkgRestic+".TreeBlob")
	typeF := c.P.Field(pkgRestic+".BlobHandle", "Type")
	ulenF := c.P.Field(pkgPack+".Blob", "UncompressedLength")
	if !ok1 || !ok2 || typeF == nil || ulenF == nil {
		c.Unk(rule, "anchor:Blob-fields", wfn.Pos(), "blob type constants or fields do not resolve")
		return
	}
	entrySize, err1 := c.P.EvalInt(pkgPack + ".entrySize")
	plainSize, err2 := c.P.EvalInt(pkgPack + ".plainEntrySize")
	if err1 != nil || err2 != nil {
		c.Unk("entry-size", "anchor:entrySize", wfn.Pos(), "cannot evaluate entrySize/plainEntrySize: %v %v", err1, err2)
		return
	}
	isType := func(v ssa.Value) bool { return eng.LoadsField(v, typeF) }
	isULen := func(v ssa.Value) bool { return eng.LoadsField(v, ulenF) }

	// ---- writer: evaluate makeHeader for each abstract blob (type, compressed?) ----
	loopCut := eng.NewCut().AddEdges(backEdges(wfn)...)
	type kstore struct {
		st *ssa.Store
		k  int64
	}
	var kstores []kstore
	var appends []*ssa.Call
	for _, b := range wfn.Blocks {
		for _, in := range b.Instrs {
			switch x := in.(type) {
			case *ssa.Store:
				if k, isK := eng.ConstInt(x.Val); isK {
					if ia, isIA := x.Addr.(*ssa.IndexAddr); isIA {
						if bt, isB := x.Val.Type().Underlying().(*types.Basic); isB && bt.Kind() == types.Uint8 {
							_ = ia
							kstores = append(kstores, kstore{x, k})
						}
					}
				}
			case *ssa.Call:
				if bi, isB := x.Call.Value.(*ssa.Builtin); isB && bi.Name() == "append" {
					appends = append(appends, x)
				}
			}
		}
	}
	w := hdrWriter{typeByte: map[[2]int64]int64{}, bytes: map[[2]int64]int64{}}
	const otherType, nonzero = 77, 5
	for _, bt := range []int64{dataT, treeT, otherType} {
		for comp := int64(0); comp <= 1; comp++ {
			ulen := int64(0)
			if comp == 1 {
				ulen = nonzero
			}
			seed := func(env *eng.PSEnv) {
				seedCompare(env, wfn, isType, bt)
				seedCompare(env, wfn, isULen, ulen)
			}
			var ks []int64
			for _, ks1 := range kstores {
				if reachableUnder(c, wfn, ks1.st, loopCut, seed) {
					ks = append(ks, ks1.k)
				}
			}
			key := fmt.Sprintf("makeHeader(type=%d,compressed=%d)", bt, comp)
			if bt == otherType {
				c.Check(len(ks) == 0, rule, "makeHeader:invalid-type-rejected", wfn.Pos(), "%s writes no type byte (bytes reachable: %v)", key, ks)
				continue
			}
			if len(ks) != 1 {
				c.Bad(rule, key, wfn.Pos(), "%s writes %d different type bytes %v, expected exactly one", key, len(ks), ks)
				continue
			}
			w.typeByte[[2]int64{bt, comp}] = ks[0]
			var total int64
			for _, a := range appends {
				if reachableUnder(c, wfn, a, loopCut, seed) {
					n := appendedLen(a)
					if n == 0 {
						c.Unk("entry-size", key+":append-length", a.Pos(), "cannot determine the static length of an append in makeHeader")
					}
					total += n
				}
			}
			w.bytes[[2]int64{bt, comp}] = total
			want := plainSize
			if comp == 1 {
				want = entrySize
			}
			c.Check(total == want, "entry-size", key+":bytes-written", wfn.Pos(), "%s appends %d bytes per entry; the reader advances by %d", key, total, want)
		}
	}
	// distinct bytes
	seenByte := map[int64]string{}
	for k, b := range w.typeByte {
		name := fmt.Sprintf("type=%d,compressed=%d", k[0], k[1])
		if prev, dup := seenByte[b]; dup {
			c.Bad(rule, "makeHeader:type-bytes-distinct", wfn.Pos(), "type byte %d is written for both %s and %s", b, prev, name)
		}
		seenByte[b] = name
	}

	// ---- reader: evaluate parseHeaderEntry for each first byte ----
	var tpe ssa.Value
	for _, b := range rfn.Blocks {
		for _, in := range b.Instrs {
			ld, ok := in.(*ssa.UnOp)
			if !ok || ld.Op != token.MUL {
				continue
			}
			if ia, ok := ld.X.(*ssa.IndexAddr); ok && eng.IsParam(rfn, "p")(ia.X) {
				if k, isK := eng.ConstInt(ia.Index); isK && k == 0 && tpe == nil {
					tpe = ld
				}
			}
		}
	}
	if tpe == nil {
		c.Unk(rule, "parseHeaderEntry:type-byte", rfn.Pos(), "cannot find the load of p[0]")
		return
	}
	isTpe := func(v ssa.Value) bool { return v == tpe }
	typeStores := c.P.FieldStoresIn(rfn, typeF)
	ulenStores := c.P.FieldStoresIn(rfn, ulenF)
	entryG, plainG := c.P.Obj(pkgPack+".entrySize"), c.P.Obj(pkgPack+".plainEntrySize")
	bytesToTry := comparedConsts(rfn, isTpe)
	other := int64(200)
	bytesToTry = append(bytesToTry, other)
	type rres struct {
		types   []int64
		hasULen bool
		valid   bool
		size    string
	}
	reader := map[int64]rres{}
	for _, k := range bytesToTry {
		seed := func(env *eng.PSEnv) { seedCompare(env, rfn, isTpe, k) }
		var rr rres
		for _, st := range typeStores {
			if tv, isK := eng.ConstInt(st.Val); isK && reachableUnder(c, rfn, st, nil, seed) {
				rr.types = append(rr.types, tv)
			}
		}
		for _, st := range ulenStores {
			if reachableUnder(c, rfn, st, nil, seed) {
				rr.hasULen = true
			}
		}
		for _, r := range eng.Returns(rfn) {
			if !c.P.MayBeNil(eng.RetVal(r, 2)) {
				continue
			}
			ps := c.P.FindPathSeeded(eng.Entry(rfn), func(in ssa.Instruction) bool { return in == ssa.Instruction(r) }, nil, nil, seed)
			if ps == nil {
				continue
			}
			rr.valid = true
			sz := ps.Env.Resolve(eng.RetVal(r, 1))
			if ld, ok := sz.(*ssa.UnOp); ok {
				if g, ok := ld.X.(*ssa.Global); ok {
					switch g.Object() {
					case entryG:
						rr.size = "entrySize"
					case plainG:
						rr.size = "plainEntrySize"
					}
				}
			}
		}
		reader[k] = rr
	}
	// agreement
	for key, b := range w.typeByte {
		rr, tried := reader[b]
		name := fmt.Sprintf("type-byte-%d(type=%d,compressed=%d)", b, key[0], key[1])
		if !tried {
			rr = reader[other]
		}
		wantSize := "plainEntrySize"
		if key[1] == 1 {
			wantSize = "entrySize"
		}
		ok := rr.valid && len(rr.types) == 1 && rr.types[0] == key[0] && rr.hasULen == (key[1] == 1) && rr.size == wantSize
		c.Check(ok, rule, name, rfn.Pos(), "parseHeaderEntry maps byte %d to type %v, uncompressed-length=%v, advance=%s, accepted=%v; the writer uses it for type %d, compressed=%v",
			b, rr.types, rr.hasULen, rr.size, rr.valid, key[0], key[1] == 1)
	}
	for _, k := range bytesToTry {
		if _, used := seenByte[k]; used {
			continue
		}
		c.Check(!reader[k].valid, rule, fmt.Sprintf("parseHeaderEntry:unknown-byte-%d-rejected", k), rfn.Pos(),
			"a type byte the writer never produces (%d) is rejected with an error", k)
	}
	c.Floor(rule, 7, 7)

	// ---- limits ----
	const lrule = "header-limits"
	ev := func(n string) (int64, bool) {
		v, err := c.P.EvalInt(pkgPack + "." + n)
		if err != nil {
			c.Unk(lrule, "anchor:"+n, token.NoPos, "cannot evaluate %s: %v", n, err)
			return 0, false
		}
		return v, true
	}
	maxHdr, o1 := ev("MaxHeaderSize")
	hdrSize, o2 := ev("headerSize")
	maxEnt, o3 := ev("MaxHeaderEntries")
	hls, o4 := ev("headerLengthSize")
	minFile, o5 := ev("minFileSize")
	ext, o6 := constIntVal(c, lrule, pkgCrypto+".Extension")
	if o1 && o2 && o3 && o4 && o5 && o6 {
		pos := c.P.Obj(pkgPack + ".MaxHeaderEntries").Pos()
		c.Check(maxEnt*entrySize+hdrSize <= maxHdr, lrule, "MaxHeaderEntries*entrySize+headerSize<=MaxHeaderSize", pos, "%d*%d+%d <= %d", maxEnt, entrySize, hdrSize, maxHdr)
		c.Check((maxEnt+1)*entrySize+hdrSize > maxHdr, lrule, "MaxHeaderEntries-is-tight", pos, "one more entry would exceed MaxHeaderSize")
		c.Check(hdrSize == hls+ext, lrule, "headerSize==headerLengthSize+crypto.Extension", pos, "%d == %d+%d", hdrSize, hls, ext)
		c.Check(minFile == plainSize+ext+hls, lrule, "minFileSize==plainEntrySize+Extension+headerLengthSize", pos, "%d == %d+%d+%d", minFile, plainSize, ext, hls)
		c.Check(hls == 4, lrule, "headerLengthSize==4(uint32)", pos, "the length field is written with AppendUint32 / read with Uint32")
	}
}

// ruleParseGuards (C06): malformed input is bounds-guarded before it is sliced.
func ruleParseGuards(c *eng.Ctx) {
	const rule = "parse-guards"
	if fn := c.NeedFn(rule, pkgPack+".parseHeaderEntry"); fn != nil {
		isLen := func(v ssa.Value) bool {
			v = eng.Strip(v)
			if cv, ok := v.(*ssa.Convert); ok {
				v = cv.X
			}
			return eng.IsLenOf(v, eng.IsParam(fn, "p"))
		}
		guard := func(global string) *eng.Cut {
			g := c.P.Obj(pkgPack + "." + global)
			return eng.NewCut().AddEdges(eng.CmpEdges(fn, func(op token.Token, x, y ssa.Value) (bool, bool) {
				ld, ok := y.(*ssa.UnOp)
				if !ok || !isLen(x) {
					return false, false
				}
				gl, ok := ld.X.(*ssa.Global)
				if !ok || gl.Object() != g {
					return false, false
				}
				switch op {
				case token.LSS:
					return true, false
				case token.GEQ:
					return true, true
				}
				return false, false
			})...)
		}
		plainCut, entryCut := guard("plainEntrySize"), guard("entrySize")
		n := 0
		for _, b := range fn.Blocks {
			for _, in := range b.Instrs {
				switch x := in.(type) {
				case *ssa.Slice:
					if isParamDerived(fn, "p", x.X) {
						n++
						c.MustPass(rule, "parseHeaderEntry:len>=plainEntrySize→slice", eng.Entry(fn), x, plainCut, "len(p) >= plainEntrySize")
					}
				case *ssa.IndexAddr:
					if isParamDerived(fn, "p", x.X) {
						n++
						c.MustPass(rule, "parseHeaderEntry:len>=plainEntrySize→index", eng.Entry(fn), x, plainCut, "len(p) >= plainEntrySize")
					}
				}
			}
		}
		if ulenF := c.P.Field(pkgPack+".Blob", "UncompressedLength"); ulenF != nil {
			for _, st := range c.P.FieldStoresIn(fn, ulenF) {
				n++
				c.MustPass(rule, "parseHeaderEntry:len>=entrySize→read-uncompressed-length", eng.Entry(fn), st, entryCut, "len(p) >= entrySize")
			}
		}
		if n < 4 {
			c.Unk(rule, "parseHeaderEntry:sites", fn.Pos(), "expected at least 4 guarded accesses, found %d", n)
		}
	}
	if fn := c.NeedFn(rule, pkgPack+".readHeader"); fn != nil {
		minG := c.P.Obj(pkgPack + ".minFileSize")
		cut := eng.NewCut().AddEdges(eng.CmpEdges(fn, func(op token.Token, x, y ssa.Value) (bool, bool) {
			if !eng.IsParam(fn, "size")(x) {
				return false, false
			}
			isMin := false
			for _, r := range eng.Origins(y, nil) {
				if ld, ok := r.(*ssa.UnOp); ok {
					if g, ok := ld.X.(*ssa.Global); ok && g.Object() == minG {
						isMin = true
					}
				}
			}
			if !isMin {
				return false, false
			}
			switch op {
			case token.LSS:
				return true, false
			case token.GEQ:
				return true, true
			}
			return false, false
		})...)
		for _, call := range c.SomeCalls(rule, fn, pkgPack+".readRecords") {
			c.MustPass(rule, "readHeader:size>=minFileSize→readRecords", eng.Entry(fn), call.(ssa.Instruction), cut, "size >= minFileSize")
		}
	}
	if fn := c.NeedFn(rule, pkgPack+".readRecords"); fn != nil {
		// hlen = Uint32(...): the slice b[len(b)-int(hlen):] and the success return are reachable
		// only when none of the range checks fired (the error variable stayed nil)
		var hlen ssa.Value
		for _, call := range c.P.CallsTo(fn, "encoding/binary.littleEndian.Uint32") {
			hlen = call.Value()
		}
		if hlen == nil {
			c.Unk(rule, "readRecords:hlen", fn.Pos(), "cannot find the header-length read")
		} else {
			isH := func(v ssa.Value) bool {
				v = eng.Strip(v)
				if cv, ok := v.(*ssa.Convert); ok {
					v = cv.X
				}
				return v == hlen
			}
			// each range check: the edge on which the check is FALSE (in range)
			type chk struct {
				name string
				m    func(op token.Token, x, y ssa.Value) (bool, bool)
			}
			ext, _ := constIntVal(c, rule, pkgCrypto+".Extension")
			checks := []chk{
				{"hlen!=0", func(op token.Token, x, y ssa.Value) (bool, bool) {
					if k, isK := eng.ConstInt(y); isK && k == 0 && isH(x) && (op == token.EQL || op == token.NEQ) {
						return true, op == token.NEQ
					}
					return false, false
				}},
				{"hlen>=crypto.Extension", func(op token.Token, x, y ssa.Value) (bool, bool) {
					if k, isK := eng.ConstInt(y); isK && k == ext && isH(x) {
						switch op {
						case token.LSS:
							return true, false
						case token.GEQ:
							return true, true
						}
					}
					return false, false
				}},
				{"hlen<=size-headerLengthSize", func(op token.Token, x, y ssa.Value) (bool, bool) {
					if !isH(x) || op != token.GTR {
						return false, false
					}
					for _, r := range eng.Origins(y, nil) {
						if bo, ok := r.(*ssa.BinOp); ok && bo.Op == token.SUB && eng.IsParam(fn, "size")(bo.X) {
							return true, false
						}
					}
					return false, false
				}},
				{"hlen<=MaxHeaderSize-headerLengthSize", func(op token.Token, x, y ssa.Value) (bool, bool) {
					if !isH(x) || op != token.GTR {
						return false, false
					}
					if _, isK := eng.ConstInt(y); isK {
						return true, false
					}
					return false, false
				}},
			}
			var targets []ssa.Instruction
			for _, b := range fn.Blocks {
				for _, in := range b.Instrs {
					if sl, ok := in.(*ssa.Slice); ok && sl.Low != nil {
						uses := false
						for _, r := range eng.Origins(sl.Low, nil) {
							_ = r
						}
						// Low = len(b) - int(hlen)
						if bo, ok := sl.Low.(*ssa.BinOp); ok && bo.Op == token.SUB && isH(bo.Y) {
							uses = true
						}
						if uses {
							targets = append(targets, sl)
						}
					}
				}
			}
			if len(targets) < 1 {
				c.Unk(rule, "readRecords:targets", fn.Pos(), "expected the header slice b[len(b)-int(hlen):], found none")
			}
			for _, ck := range checks {
				edges := eng.CmpEdges(fn, ck.m)
				for _, t := range targets {
					c.MustPass(rule, "readRecords:"+ck.name+"→slice", eng.Entry(fn), t, eng.NewCut().AddEdges(edges...), ck.name)
				}
				for _, r := range eng.Returns(fn) {
					if c.P.MayBeNil(eng.RetVal(r, 2)) {
						c.NilOnlyVia(rule, "readRecords:"+ck.name+"→success", eng.RetVal(r, 2), r, eng.NewCut().AddEdges(edges...), ck.name)
					}
				}
			}
		}
	}
	c.Floor(rule, 12, 14)
}

func isParamDerived(fn *ssa.Function, name string, v ssa.Value) bool {
	for _, r := range eng.Origins(v, nil) {
		if eng.IsParam(fn, name)(r) {
			return true
		}
	}
	return false
}

// ruleErrorsPropagate: at every call of the named callees the error is examined and no
// nil-error return is reachable from a failed call.
func ruleErrorsPropagate(c *eng.Ctx, rule string, exempt map[string]string, callees ...string) {
	for _, s := range c.P.AllCallsTo(callees...) {
		c.Touch(s.Fn)
		fname := c.P.FnName(s.Fn)
		short := callees[0]
		key := fname + "→" + short
		if why, ok := exempt[c.P.FnName(eng.Root(s.Fn))]; ok {
			c.Ok(rule, key, s.Call.Pos(), "exempt: %s", why)
			continue
		}
		ev := eng.ErrResult(s.Call)
		if ev == nil {
			c.Bad(rule, key, s.Call.Pos(), "the error result is discarded")
			continue
		}
		sig := s.Fn.Signature
		errIdx := -1
		for i := 0; i < sig.Results().Len(); i++ {
			if eng.IsErrorType(sig.Results().At(i).Type()) {
				errIdx = i
			}
		}
		if errIdx < 0 {
			succ, fail := eng.SuccessEdges(s.Call), eng.FailureEdges(s.Call)
			c.Check(len(succ)+len(fail) > 0, rule, key, s.Call.Pos(), "the error is tested (enclosing function has no error result)")
			continue
		}
		cut := eng.SuccessCut(s.Call)
		ok := true
		var bad *ssa.Return
		for _, r := range eng.Returns(s.Fn) {
			rv := eng.RetVal(r, errIdx)
			if !c.P.MayBeNil(rv) {
				continue
			}
			direct := false
			for _, o := range eng.Origins(rv, nil) {
				if o == ev {
					direct = true
				}
			}
			if direct && cut.Size() == 0 {
				continue
			}
			if eng.FindPath(eng.After(s.Call.(ssa.Instruction)), r, nil) == nil {
				continue
			}
			if ps := c.P.FindPathPS(eng.After(s.Call.(ssa.Instruction)), func(in ssa.Instruction) bool { return in == ssa.Instruction(r) }, cut,
				func(env *eng.PSEnv, _ ssa.Instruction) bool {
					// retry idiom: the returned error is the result of another call of the same callee
					if rc := eng.RootCall(env.Resolve(rv)); rc != nil && ssa.CallInstruction(rc) != s.Call {
						for _, n := range callees {
							if c.P.CalleeName(rc) == n {
								return false
							}
						}
					}
					return env.MayBeNil(rv)
				}); ps != nil {
				ok, bad = false, r
			}
		}
		pos := s.Call.Pos()
		if bad != nil {
			pos = bad.Pos()
		}
		c.Check(ok, rule, key, pos, "no nil-error return is reachable after a failed %s (a retry's own result may be returned)", short)
	}
}
