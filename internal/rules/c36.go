package rules

import (
	"go/token"
	"go/types"
	"strings"

	"golang.org/x/tools/go/ssa"

	"verif/internal/eng"
)

// valuesDerivedFrom reports whether v originates (through slices, conversions, string
// concatenation and the listed pass-through calls) from root.
func derivedFromValue(c *eng.Ctx, v ssa.Value, root ssa.Value, through map[string][]int) bool {
	seen := map[ssa.Value]bool{}
	var rec func(v ssa.Value, d int) bool
	rec = func(v ssa.Value, d int) bool {
		if v == nil || seen[v] || d > 12 {
			return false
		}
		seen[v] = true
		for _, r := range eng.Origins(v, &eng.OriginOpts{P: c.P, Through: through}) {
			if r == root {
				return true
			}
			if bo, ok := r.(*ssa.BinOp); ok && bo.Op == token.ADD {
				if rec(bo.X, d+1) || rec(bo.Y, d+1) {
					return true
				}
			}
		}
		return false
	}
	return rec(v, 0)
}

type atomicSpec struct {
	rule       string
	fn         string   // function that saves
	nameCall   string   // callee computing the final name
	tempCalls  []string // callees creating the temporary file
	allowFinal map[string]string
	syncCall   string // "" if no fsync is expected (cache)
	dirSync    string
}

// ruleAtomicSave (C36, C38): the final name appears only by renaming a completely written
// (synced) and closed temporary file created in the same directory.
func ruleAtomicSave(c *eng.Ctx, s atomicSpec) {
	rule := s.rule
	fn := c.NeedFn(rule, s.fn)
	if fn == nil {
		return
	}
	short := c.P.FnName(fn)
	short = short[strings.LastIndex(short, "/")+1:]
	finalCalls := c.P.CallsTo(fn, strings.Split(s.nameCall, "|")...)
	if len(finalCalls) != 1 {
		c.Unk(rule, short+":final-name", fn.Pos(), "expected exactly one computation of the final name (%s), found %d", s.nameCall, len(finalCalls))
		return
	}
	final := finalCalls[0].Value()
	renames := c.P.CallsTo(fn, "os.Rename")
	if len(renames) != 1 {
		c.Unk(rule, short+":rename", fn.Pos(), "expected exactly one os.Rename, found %d", len(renames))
		return
	}
	ren := renames[0]
	ri := ren.(ssa.Instruction)
	copies := c.P.CallsTo(fn, "io.Copy")
	closes := c.P.CallsTo(fn, "os.(*File).Close")
	temps := c.P.CallsTo(fn, s.tempCalls...)
	through := map[string][]int{"path/filepath.Dir": {0}, "path/filepath.Base": {0}, "path/filepath.Join": {0, 1}, "os.(*File).Name": {-1}}

	c.Check(derivedFromValue(c, eng.Arg(ren, 1), final, nil), rule, short+":rename-target-is-final-name", ren.Pos(), "os.Rename's destination is the final name")
	// source of the rename is the temporary file
	srcOK := false
	for _, r := range eng.Origins(eng.Arg(ren, 0), &eng.OriginOpts{P: c.P, Through: through}) {
		for _, t := range temps {
			if rc := eng.RootCall(r); rc != nil && ssa.CallInstruction(rc) == t {
				srcOK = true
			}
		}
	}
	c.Check(srcOK, rule, short+":rename-source-is-temp-file", ren.Pos(), "os.Rename's source is the Name() of the file created by %v", s.tempCalls)
	c.MustPass(rule, short+":copy-ok→rename", eng.Entry(fn), ri, eng.SuccessCut(copies...), "io.Copy returned nil (content completely written)")
	// the Close that matters is the one on the success path (others are cleanup)
	c.MustPass(rule, short+":close-ok→rename", eng.Entry(fn), ri, eng.SuccessCut(closes...), "f.Close() returned nil")
	for _, cp := range copies {
		dstOK := false
		for _, r := range eng.Origins(eng.Arg(cp, 0), nil) {
			for _, t := range temps {
				if rc := eng.RootCall(r); rc != nil && ssa.CallInstruction(rc) == t {
					dstOK = true
				}
			}
		}
		c.Check(dstOK, rule, short+":copy-writes-temp-file", cp.Pos(), "io.Copy writes into the temporary file")
	}
	// temporary lives in the directory of the final name
	for _, t := range temps {
		c.Check(derivedFromValue(c, eng.Arg(t, 0), final, through), rule, short+":temp-in-same-directory", t.Pos(), "the temporary file is created in filepath.Dir(finalname) (same file system: rename is atomic)")
	}
	if len(temps) == 0 {
		c.Unk(rule, short+":temp-file", fn.Pos(), "creation of the temporary file not found (%v)", s.tempCalls)
	}
	// who else touches the final name
	for _, f := range c.P.WithLits(fn) {
		for _, call := range eng.Calls(f) {
			name := c.P.CalleeName(call)
			for i, a := range call.Common().Args {
				if !derivedFromValue(c, a, final, nil) {
					continue
				}
				_, ok := s.allowFinal[name]
				if name == "os.Rename" {
					ok = i == 1
				}
				c.Check(ok, rule, short+":final-name-used-by:"+name, call.Pos(), "the final name is handed only to Rename (as destination) and to non-writing helpers (found: %s arg %d)", name, i)
			}
		}
	}
	if s.syncCall != "" {
		syncs := c.P.CallsTo(fn, s.syncCall)
		c.MustPass(rule, short+":sync-called→rename", eng.Entry(fn), ri, eng.CallCut(syncs...), "f.Sync() executed before the rename")
		// tolerant form: a Sync error is returned unless classified as "not supported"
		var tolerated []ssa.CallInstruction
		for _, call := range eng.Calls(fn) {
			n := c.P.CalleeName(call)
			if n == "internal/errors.Is" || n == "errors.Is" || strings.HasSuffix(n, ".isMacENOTTY") {
				tolerated = append(tolerated, call)
			}
		}
		// the classification usually ends up in a boolean (syncNotSup) computed with && / ||:
		// the true edge of any test of a phi that derives from these calls counts as well
		tolCut := eng.ResultCut(true, 0, tolerated...)
		for _, b := range fn.Blocks {
			ifi, ok := b.Instrs[len(b.Instrs)-1].(*ssa.If)
			if !ok {
				continue
			}
			cond, neg := eng.Unnot(ifi.Cond)
			phi, ok := cond.(*ssa.Phi)
			if !ok {
				continue
			}
			for _, t := range tolerated {
				if derivesFrom(phi, t.Value(), 0, map[ssa.Value]bool{}) {
					tolCut.AddEdges(eng.IfEdge(b, neg, true))
				}
			}
		}
		for _, sy := range syncs {
			cut := eng.Union(eng.SuccessCut(sy), tolCut)
			c.MustPass(rule, short+":sync-ok-or-unsupported→rename", eng.After(sy.(ssa.Instruction)), ri, cut, "f.Sync() returned nil, or its error was classified as 'sync not supported'")
		}
		if s.dirSync != "" {
			ds := c.P.CallsTo(fn, s.dirSync)
			cut := eng.Union(eng.SuccessCut(ds...), tolCut)
			for _, r := range eng.Returns(fn) {
				rv := eng.RetVal(r, 0)
				if !c.P.MayBeNil(rv) {
					continue
				}
				if eng.FindPath(eng.After(ri), r, nil) == nil {
					continue
				}
				ps := c.P.FindPathPS(eng.After(ri), func(in ssa.Instruction) bool { return in == ssa.Instruction(r) }, cut,
					func(env *eng.PSEnv, _ ssa.Instruction) bool { return env.MayBeNil(rv) })
				c.Check(ps == nil, rule, short+":dir-synced→success", r.Pos(), "after the rename, success is reported only after fsyncDir succeeded (unless sync is unsupported)")
			}
		}
	}
	// the error path removes the temporary
	rm := 0
	for _, f := range c.P.WithLits(fn) {
		rm += len(c.P.CallsTo(f, "os.Remove"))
	}
	c.Check(rm > 0, rule, short+":temp-removed-on-error", fn.Pos(), "the temporary file is removed on the error paths (%d os.Remove sites)", rm)
}

// ruleTempNotListed (C36): temporary files are never reported as repository files.
func ruleTempNotListed(c *eng.Ctx) {
	const rule = "temp-not-listed"
	// (1) the temporary suffix contains a character that cannot occur in a hex ID
	if fn := c.NeedFn(rule, "internal/backend/local.(*Local).Save"); fn != nil {
		ok := false
		for _, t := range c.P.CallsTo(fn, "global:internal/backend/local.tempFile", "os.CreateTemp") {
			for _, r := range eng.Origins(eng.Arg(t, 1), nil) {
				if bo, isBO := r.(*ssa.BinOp); isBO && bo.Op == token.ADD {
					if k, isK := bo.Y.(*ssa.Const); isK && k.Value != nil {
						s := strings.Trim(k.Value.ExactString(), "\"")
						if strings.Trim(s, "0123456789abcdef") != "" {
							ok = true
						}
					}
				}
			}
		}
		c.Check(ok, rule, "local.Save:temp-suffix-not-hex", fn.Pos(), "the temporary name is Base(finalname) plus a constant containing a non-hex character, so it never parses as an ID")
	}
	// (2) Repository.List hands only parsable names to the callback
	if fn := c.NeedFn(rule, pkgRepo+".(*Repository).List"); fn != nil {
		n := 0
		for _, l := range c.P.Lits(fn) {
			parse := c.P.CallsTo(l, pkgRestic+".ParseID")
			for _, cb := range c.P.CallsTo(l, "free:fn") {
				n++
				c.MustPass(rule, "Repository.List:ParseID-ok→fn", eng.Entry(l), cb.(ssa.Instruction), eng.SuccessCut(parse...), "restic.ParseID(fi.Name) returned nil")
			}
		}
		if n == 0 {
			c.Unk(rule, "Repository.List:callback", fn.Pos(), "callback invocation not found")
		}
	}
	// (3) tempFile is os.CreateTemp and nothing reassigns it
	if g := c.P.Obj("internal/backend/local.tempFile"); g != nil {
		stores := 0
		for _, fn := range c.P.Funcs {
			if fn.Name() == "init" {
				continue
			}
			for _, b := range fn.Blocks {
				for _, in := range b.Instrs {
					if st, ok := in.(*ssa.Store); ok {
						if gl, ok := st.Addr.(*ssa.Global); ok && gl.Object() == g {
							stores++
						}
					}
				}
			}
		}
		c.Check(stores == 0, rule, "local.tempFile:not-reassigned", g.Pos(), "the tempFile hook is not reassigned by non-test code (%d stores)", stores)
	}
	c.Floor(rule, 3, 3)
}

// ruleTempRemovedOnFailure (C36, "temporary files never appear in listings as repository
// files"): the local backend lists whatever lies in a repository directory, so a temporary file
// must not outlive a failed save. The deferred clean-up of Local.Save removes it on every path
// on which the save's error is non-nil — whichever step failed, also the close and the rename,
// after which the file is no longer open.
func ruleTempRemovedOnFailure(c *eng.Ctx) {
	const rule = "temp-removed-on-failure"
	fn := c.NeedFn(rule, "internal/backend/local.(*Local).Save")
	if fn == nil {
		return
	}
	n := 0
	for _, lit := range c.P.Lits(fn) {
		removes := c.P.CallsTo(lit, "os.Remove")
		if len(removes) == 0 {
			continue
		}
		// it must be the deferred clean-up
		deferred := false
		for _, b := range fn.Blocks {
			for _, in := range b.Instrs {
				if d, ok := in.(*ssa.Defer); ok {
					for _, o := range eng.Origins(d.Call.Value, nil) {
						if mc, isMC := o.(*ssa.MakeClosure); isMC && mc.Fn == ssa.Value(lit) {
							deferred = true
						}
					}
				}
			}
		}
		if !deferred {
			continue
		}
		n++
		c.Touch(lit)
		isErr := func(v ssa.Value) bool {
			ld, ok := v.(*ssa.UnOp)
			if !ok || ld.Op != token.MUL {
				return false
			}
			fv, ok := ld.X.(*ssa.FreeVar)
			return ok && eng.IsErrorType(fv.Type().(*types.Pointer).Elem())
		}
		okEdges := eng.NilEdges(lit, isErr, true)
		cut := eng.Union(eng.CallCut(removes...), eng.NewCut().AddEdges(okEdges...))
		for _, r := range eng.Returns(lit) {
			c.MustPass(rule, "Save:failed→temporary-file-removed", eng.Entry(lit), r, cut, "the save succeeded (err == nil), or os.Remove(temporary file) was called")
		}
		for _, rm := range removes {
			okName := false
			if call := eng.RootCall(eng.Arg(rm, 0)); call != nil && eng.MethodName(call) == "Name" {
				okName = true
			}
			c.Check(okName, rule, "Save:removes-the-temporary-name", rm.Pos(), "what is removed is f.Name(), the temporary file")
		}
	}
	c.Check(n == 1, rule, "Save:deferred-cleanup", fn.Pos(), "%d deferred clean-up closures that remove a file", n)
}
