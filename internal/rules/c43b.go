package rules

import (
	"golang.org/x/tools/go/ssa"

	"verif/internal/eng"
)

// ruleFallbackVisitsEveryBlob (C43, "every requested blob is passed to the callback exactly
// once"): when the download of a pack part fails, streamPackPart fetches each requested blob
// through loadBlobFn and hands the result — data or error — to the callback. That loop goes
// on to the next blob whatever loadBlobFn returned; it is left early only when the callback
// itself returned an error. (A callback that tolerates lost blobs, like the restorer's, would
// otherwise never hear of the blobs behind the first lost one.)
func ruleFallbackVisitsEveryBlob(c *eng.Ctx) {
	const rule = "fallback-visits-every-blob"
	fn := c.NeedFn(rule, pkgRepo+".streamPackPart")
	if fn == nil {
		return
	}
	var loads, handles []ssa.CallInstruction
	for _, call := range eng.Calls(fn) {
		if p, ok := call.Common().Value.(*ssa.Parameter); ok {
			switch p.Name() {
			case "loadBlobFn":
				loads = append(loads, call)
			case "handleBlobFn":
				handles = append(handles, call)
			}
		}
	}
	n := 0
	for _, ld := range loads {
		// the handle call that receives this load's result
		var h ssa.CallInstruction
		for _, hc := range handles {
			if eng.FindPath(eng.After(ld.(ssa.Instruction)), hc.(ssa.Instruction), nil) == nil {
				continue
			}
			res := eng.Results(ld)
			for _, a := range hc.Common().Args {
				if len(res) > 1 && res[1] != nil && eng.SameAs(res[1])(a) {
					h = hc
				}
			}
		}
		if h == nil {
			continue // not the fallback loop (the per-blob retry of the normal path substitutes the data)
		}
		// innermost loop around the load
		var header *ssa.BasicBlock
		for _, b := range fn.Blocks {
			if !b.Dominates(ld.Block()) {
				continue
			}
			for _, p := range b.Preds {
				if b.Dominates(p) && (header == nil || header.Dominates(b)) {
					header = b
				}
			}
		}
		if header == nil {
			c.Unk(rule, "streamPackPart:fallback-loop", ld.Pos(), "the fallback load is not inside a loop over the requested blobs")
			continue
		}
		n++
		inLoop := func(b *ssa.BasicBlock) bool {
			return header.Dominates(b) && (b == header || eng.FindPath(eng.Loc{B: b, I: 0}, header.Instrs[0], nil) != nil)
		}
		fail := eng.NewCut().AddEdges(eng.FailureEdges(h)...)
		ok := true
		where := ""
		for _, b := range fn.Blocks {
			if !inLoop(b) || b == header {
				continue
			}
			for _, s := range b.Succs {
				if inLoop(s) || len(s.Instrs) == 0 {
					continue
				}
				// an early exit: only behind the callback's own error
				cut := eng.Union(fail, eng.NewCut().AddInstrs(header.Instrs[0]))
				if eng.FindPath(eng.Loc{B: ld.Block(), I: 0}, s.Instrs[0], cut) != nil && pathUsesEdge(ld.Block(), b, s, cut) {
					ok = false
					where = c.P.Pos(b.Instrs[len(b.Instrs)-1].Pos())
				}
			}
		}
		detail := "the loop over the requested blobs is left early only behind a non-nil result of handleBlobFn"
		if !ok {
			detail += "; early exit not caused by the callback at " + where
		}
		c.Check(ok, rule, "streamPackPart:fallback-goes-on-after-a-lost-blob", h.Pos(), "%s", detail)
		// the callback gets the handle of the blob that was looked up
		c.Check(eng.SameAs(eng.Arg(ld, 1))(eng.Arg(h, 0)) || sameRead(eng.Arg(ld, 1), eng.Arg(h, 0)), rule, "streamPackPart:fallback-reports-the-blob-looked-up", h.Pos(), "handleBlobFn is told about the blob loadBlobFn was asked for")
	}
	if n == 0 {
		c.Unk(rule, "anchor:fallback-loop", fn.Pos(), "no loop that fetches the requested blobs one by one after a failed download was found")
	}
}

// pathUsesEdge: some path from the start of `from` reaches block b without crossing the cut,
// so the exit edge b→s is usable without it.
func pathUsesEdge(from, b, s *ssa.BasicBlock, cut *eng.Cut) bool {
	if cut.Edges[eng.EdgeKey{b.Index, s.Index}] {
		return false
	}
	if from == b {
		return true
	}
	return len(b.Instrs) > 0 && eng.FindPath(eng.Loc{B: from, I: 0}, b.Instrs[0], cut) != nil
}
