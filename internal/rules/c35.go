package rules

import (
	"go/token"
	"go/types"

	"golang.org/x/tools/go/ssa"

	"verif/internal/eng"
)

const pkgRetry = "internal/backend/retry"

// litWithBackendCall returns the literals of fn that call `method` on a backend.
func litWithBackendCall(c *eng.Ctx, fn *ssa.Function, method string) []*ssa.Function {
	be := c.P.NamedType(pkgBackend + ".Backend")
	var out []*ssa.Function
	for _, l := range c.P.Lits(fn) {
		for _, call := range eng.Calls(l) {
			if eng.IsMethodOf(call, be, method) {
				out = append(out, l)
				break
			}
		}
	}
	return out
}

// ruleRetrySave (C35): each attempt starts from the beginning of the data, and a failed
// attempt on a backend without atomic replace removes the partial file before it is retried
// or reported.
func ruleRetrySave(c *eng.Ctx) {
	const rule = "retry-save"
	fn := c.NeedFn(rule, pkgRetry+".(*Backend).Save")
	if fn == nil {
		return
	}
	be := c.P.NamedType(pkgBackend + ".Backend")
	lits := litWithBackendCall(c, fn, "Save")
	if len(lits) != 1 {
		c.Unk(rule, "retry.Save:attempt-literal", fn.Pos(), "expected one literal performing the attempt, found %d", len(lits))
		return
	}
	l := lits[0]
	c.Touch(l)
	var saves, removes []ssa.CallInstruction
	for _, call := range eng.Calls(l) {
		if eng.IsMethodOf(call, be, "Save") {
			saves = append(saves, call)
		}
		if eng.IsMethodOf(call, be, "Remove") {
			removes = append(removes, call)
		}
	}
	rewinds := c.P.CallsTo(l, pkgBackend+".RewindReader.Rewind")
	atomicF := c.P.Field(pkgBackend+".Properties", "HasAtomicReplace")
	for _, s := range saves {
		si := s.(ssa.Instruction)
		c.MustPass(rule, "retry.Save:rewind-ok→attempt", eng.Entry(l), si, eng.SuccessCut(rewinds...), "rd.Rewind() returned nil before every attempt")
		// after a failed attempt: atomic-replace backend, or the partial file is removed
		cut := eng.Union(eng.SuccessCut(s), eng.CallCut(removes...))
		if atomicF != nil {
			cut.AddEdges(eng.BoolEdges(l, func(v ssa.Value) bool {
				// Properties().HasAtomicReplace: a field of a call result
				if f, ok := v.(*ssa.Field); ok {
					return eng.FieldVar(f.X.Type(), f.Field) == atomicF
				}
				return eng.LoadsField(v, atomicF)
			}, true)...)
		}
		for _, r := range eng.Returns(l) {
			if eng.FindPath(eng.After(si), r, nil) == nil {
				continue
			}
			c.MustPass(rule, "retry.Save:failed-attempt→partial-file-removed", eng.After(si), r, cut, "the attempt succeeded, the backend replaces atomically, or Remove(h) was called")
			rv := eng.RetVal(r, 0)
			if c.P.MayBeNil(rv) {
				c.NilOnlyVia(rule, "retry.Save:failed-attempt-reported", rv, r, eng.SuccessCut(s), "nil is returned only if the backend's Save returned nil")
			}
		}
		// same handle for the save and the clean-up
		for _, rm := range removes {
			c.Check(sameRoots(eng.Origins(eng.Arg(rm, 1), nil), eng.Origins(eng.Arg(s, 1), nil)), rule, "retry.Save:cleanup-same-handle", rm.Pos(), "the handle removed is the handle that was being saved")
		}
	}
	c.Check(len(removes) > 0, rule, "retry.Save:cleanup-present", l.Pos(), "a failed Save is followed by a Remove on backends without atomic replace")
	c.Floor(rule, 5, 6)
}

// ruleRetryListDedup (C35): a retried listing reports each file at most once.
func ruleRetryListDedup(c *eng.Ctx) {
	const rule = "list-dedup"
	fn := c.NeedFn(rule, pkgRetry+".(*Backend).List")
	if fn == nil {
		return
	}
	n := 0
	for _, l := range c.P.Lits(fn) {
		cbs := c.P.CallsTo(l, "free:fn")
		if len(cbs) == 0 {
			continue
		}
		c.Touch(l)
		// the "already listed" lookup
		var notListed []eng.EdgeKey
		var updates []ssa.Instruction
		var mapBase ssa.Value
		for _, b := range l.Blocks {
			for _, in := range b.Instrs {
				switch x := in.(type) {
				case *ssa.Lookup:
					if x.CommaOk {
						for _, r := range *x.Referrers() {
							if e, ok := r.(*ssa.Extract); ok && e.Index == 1 {
								notListed = append(notListed, eng.BoolEdges(l, eng.SameAs(e), false)...)
								mapBase, _ = containerBase(x.X)
							}
						}
					}
				case *ssa.MapUpdate:
					updates = append(updates, x)
				}
			}
		}
		for _, cb := range cbs {
			n++
			ci := cb.(ssa.Instruction)
			c.MustPass(rule, "retry.List:not-yet-listed→fn", eng.Entry(l), ci, eng.NewCut().AddEdges(notListed...), "the file name was not found in the set of already reported names")
			// the name is recorded: before the callback, or on every path after it
			recordedBefore := eng.FindPath(eng.Entry(l), ci, eng.NewCut().AddInstrs(updates...)) == nil && len(updates) > 0
			recordedAfter := len(updates) > 0
			for _, r := range eng.Returns(l) {
				if eng.FindPath(eng.After(ci), r, eng.NewCut().AddInstrs(updates...)) != nil {
					recordedAfter = false
				}
			}
			c.Check(recordedBefore || recordedAfter, rule, "retry.List:name-recorded", cb.Pos(), "the reported name is inserted into the set on every path through the callback invocation")
			// lookup key and insert key are the same value, and the same value is what fn sees
			okKey := false
			for _, u := range updates {
				mu := u.(*ssa.MapUpdate)
				if b, _ := containerBase(mu.Map); b == mapBase && mapBase != nil {
					okKey = true
				}
			}
			c.Check(okKey, rule, "retry.List:same-set", cb.Pos(), "lookup and insertion use the same set")
			// a file is identified by its name: a key that includes the size (or anything else a
			// retried listing may report differently) lets the same file through twice
			nameF := c.P.Field("internal/backend.FileInfo", "Name")
			okName := nameF != nil && len(updates) > 0
			for _, u := range updates {
				if !eng.LoadsField(u.(*ssa.MapUpdate).Key, nameF) {
					okName = false
				}
			}
			for _, b := range l.Blocks {
				for _, in := range b.Instrs {
					if lk, ok := in.(*ssa.Lookup); ok && lk.CommaOk && !eng.LoadsField(lk.Index, nameF) {
						okName = false
					}
				}
			}
			c.Check(okName, rule, "retry.List:set-keyed-by-file-name", cb.Pos(), "the set of reported files is keyed by FileInfo.Name alone")
		}
	}
	if n == 0 {
		c.Unk(rule, "retry.List:callback", fn.Pos(), "invocation of the caller's callback not found")
	}
	// the set lives outside the retried closure (it survives retries)
	okOuter := false
	for _, b := range fn.Blocks {
		for _, in := range b.Instrs {
			if mm, ok := in.(*ssa.MakeMap); ok && mm.Parent() == fn {
				okOuter = true
			}
		}
	}
	// … and is never re-created or reassigned inside the retried operation
	for _, l := range c.P.Lits(fn) {
		for _, b := range l.Blocks {
			for _, in := range b.Instrs {
				switch x := in.(type) {
				case *ssa.MakeMap:
					okOuter = false
				case *ssa.Store:
					if _, isFV := x.Addr.(*ssa.FreeVar); isFV {
						if _, isMap := x.Val.Type().Underlying().(*types.Map); isMap {
							okOuter = false
						}
					}
				}
			}
		}
	}
	c.Check(okOuter, rule, "retry.List:set-survives-retries", fn.Pos(), "the set of reported names is created once per List call, outside the retried operation, and never reset inside it")
}

// ruleRetryPermanent (C35): permanent errors stop the retry loop, and all five operations
// go through it.
func ruleRetryPermanent(c *eng.Ctx) {
	const rule = "permanent"
	fn := c.NeedFn(rule, pkgRetry+".(*Backend).retry")
	if fn == nil {
		return
	}
	const permanent = "github.com/cenkalti/backoff/v4.Permanent"
	n := 0
	for _, l := range c.P.Lits(fn) {
		fcalls := c.P.CallsTo(l, "free:f")
		if len(fcalls) == 0 {
			continue
		}
		c.Touch(l)
		perms := c.P.CallsTo(l, permanent)
		isPerm := c.P.CallsTo(l, pkgBackend+".Backend.IsPermanentError")
		n++
		c.Check(len(perms) > 0, rule, "retry:permanent-error→backoff.Permanent", l.Pos(), "the operation wrapper converts an error into backoff.Permanent (stops retrying)")
		for _, p := range perms {
			okArg := false
			for _, f := range fcalls {
				if ev := eng.ErrResult(f); ev != nil && eng.SameAs(ev)(eng.Arg(p, 0)) {
					okArg = true
				}
			}
			c.Check(okArg, rule, "retry:Permanent-wraps-operation-error", p.Pos(), "backoff.Permanent wraps the error returned by the operation")
		}
		c.Check(len(isPerm) > 0, rule, "retry:consults-IsPermanentError", l.Pos(), "the wrapper asks the backend whether the error is permanent")
		// the attempts counter is decremented only for permanent errors and Permanent is
		// returned once it is used up
		for _, p := range perms {
			cut := eng.CmpEdges(l, func(op token.Token, x, y ssa.Value) (bool, bool) {
				if k, isK := eng.ConstInt(y); isK && k == 0 {
					switch op {
					case token.LEQ:
						return true, true
					case token.GTR:
						return true, false
					}
				}
				return false, false
			})
			c.MustPass(rule, "retry:attempts-exhausted→Permanent", eng.Entry(l), p.(ssa.Instruction), eng.NewCut().AddEdges(cut...), "permanentErrorAttempts <= 0")
		}
	}
	if n == 0 {
		c.Unk(rule, "retry:operation-wrapper", fn.Pos(), "wrapper literal calling f() not found")
	}
	// Stat: not-exist is permanent
	if st := c.NeedFn(rule, pkgRetry+".(*Backend).Stat"); st != nil {
		ok := false
		for _, l := range c.P.Lits(st) {
			ne := c.P.CallsTo(l, pkgBackend+".Backend.IsNotExist")
			for _, p := range c.P.CallsTo(l, permanent) {
				if eng.FindPath(eng.Entry(l), p.(ssa.Instruction), eng.ResultCut(true, 0, ne...)) == nil && len(ne) > 0 {
					ok = true
				}
			}
		}
		c.Check(ok, rule, "retry.Stat:not-exist-is-permanent", st.Pos(), "a not-exist error from Stat is wrapped in backoff.Permanent")
	}
	// K5: the five operations are overridden and all go through retry
	for _, m := range []string{"Save", "Load", "Stat", "Remove", "List"} {
		mf := c.NeedFn(rule, pkgRetry+".(*Backend)."+m)
		if mf == nil {
			continue
		}
		calls := 0
		for _, f := range c.P.WithLits(mf) {
			calls += len(c.P.CallsTo(f, pkgRetry+".(*Backend).retry"))
		}
		c.Check(calls == 1, rule, "retry.Backend."+m+":goes-through-retry", mf.Pos(), "%s is overridden by the retry wrapper and performs its backend call inside be.retry (%d retry calls)", m, calls)
		// the wrapped call happens only inside the retried literal
		be := c.P.NamedType(pkgBackend + ".Backend")
		direct := 0
		for _, call := range eng.Calls(mf) {
			if eng.IsMethodOf(call, be, m) {
				direct++
			}
		}
		c.Check(direct == 0, rule, "retry.Backend."+m+":no-unretried-call", mf.Pos(), "%s does not call the wrapped backend outside the retried operation", m)
	}
	c.Floor(rule, 14, 15)
}
