package rules

import (
	"go/types"
	"reflect"
	"sort"
	"strings"

	"golang.org/x/tools/go/ssa"

	"verif/internal/eng"
)

// returnedNodeTypes lists the NodeType variables a function returns.
func returnedNodeTypes(c *eng.Ctx, fn *ssa.Function) map[string]bool {
	out := map[string]bool{}
	for _, r := range eng.Returns(fn) {
		for _, o := range originsThroughPhi(eng.RetVal(r, 0)) {
			if n := nodeTypeName(c, o); n != "" {
				out[n] = true
			}
		}
	}
	return out
}

// ruleNodeTypeExhaustive (C01): every node type the backup side can record has its own
// branch on the restore side and in the metadata filler; the two odd types end in an error.
func ruleNodeTypeExhaustive(c *eng.Ctx) {
	const rule = "nodetype-exhaustive"
	src := c.NeedFn(rule, pkgFS+".nodeTypeFromFileInfo")
	if src == nil {
		return
	}
	produced := returnedNodeTypes(c, src)
	restorable := []string{"NodeTypeFile", "NodeTypeDir", "NodeTypeSymlink", "NodeTypeDev", "NodeTypeCharDev", "NodeTypeFifo", "NodeTypeSocket"}
	for _, t := range restorable {
		c.Check(produced[t], rule, "nodeTypeFromFileInfo:produces-"+t, src.Pos(), "the file-mode classification can yield %s", t)
	}
	var extra []string
	for t := range produced {
		known := t == "NodeTypeIrregular" || t == "NodeTypeInvalid"
		for _, r := range restorable {
			if r == t {
				known = true
			}
		}
		if !known {
			extra = append(extra, t)
		}
	}
	sort.Strings(extra)
	c.Check(len(extra) == 0, rule, "nodeTypeFromFileInfo:no-unknown-type", src.Pos(), "every type the classification yields is known to this check (unknown: %v)", extra)
	for _, consumer := range []string{pkgFS + ".NodeCreateAt", pkgFS + ".nodeFillExtendedStat"} {
		fn := c.NeedFn(rule, consumer)
		if fn == nil {
			continue
		}
		short := consumer[strings.LastIndex(consumer, ".")+1:]
		handled := nodeTypesCompared(c, fn)
		for _, t := range restorable {
			if !produced[t] {
				continue
			}
			c.Check(handled[t], rule, short+":case-"+t, fn.Pos(), "%s has its own case for %s", short, t)
		}
		// any other type ends in an error: with every comparison false the result is non-nil
		seed := func(env *eng.PSEnv) {
			for _, b := range fn.Blocks {
				for _, in := range b.Instrs {
					if bo, ok := in.(*ssa.BinOp); ok && (nodeTypeName(c, bo.X) != "" || nodeTypeName(c, bo.Y) != "") {
						env.Assume(bo, bo.Op.String() == "!=")
					}
				}
			}
		}
		bad := false
		for _, r := range eng.Returns(fn) {
			r := r
			res := c.P.FindPathSeeded(eng.Entry(fn), func(in ssa.Instruction) bool { return in == ssa.Instruction(r) }, nil,
				func(env *eng.PSEnv, _ ssa.Instruction) bool { return env.MayBeNil(eng.RetVal(r, 0)) }, seed)
			if res != nil {
				bad = true
			}
		}
		c.Check(!bad, rule, short+":other-types-are-errors", fn.Pos(), "for a node type matching none of the cases %s returns an error", short)
	}
	c.Floor(rule, 20, 24)
}

// fieldAccessIn collects, over a set of functions, which fields of data.Node are stored and
// which are loaded.
func nodeFieldAccess(c *eng.Ctx, fns map[*ssa.Function]bool) (stored, loaded map[string]bool) {
	stored, loaded = map[string]bool{}, map[string]bool{}
	nt := c.P.NamedType(pkgData + ".Node")
	if nt == nil {
		return
	}
	st := nt.Underlying().(*types.Struct)
	isNodeField := map[*types.Var]string{}
	for i := 0; i < st.NumFields(); i++ {
		isNodeField[st.Field(i)] = st.Field(i).Name()
	}
	for fn := range fns {
		for _, b := range fn.Blocks {
			for _, in := range b.Instrs {
				switch x := in.(type) {
				case *ssa.FieldAddr:
					name, ok := isNodeField[eng.FieldVar(x.X.Type(), x.Field)]
					if !ok {
						continue
					}
					for _, r := range *x.Referrers() {
						switch y := r.(type) {
						case *ssa.Store:
							if y.Addr == ssa.Value(x) {
								stored[name] = true
							}
						case *ssa.UnOp:
							loaded[name] = true
						default:
							loaded[name] = true // address taken: assume read
						}
					}
				case *ssa.Field:
					if name, ok := isNodeField[eng.FieldVar(x.X.Type(), x.Field)]; ok {
						loaded[name] = true
					}
				}
			}
		}
	}
	return
}

// ruleNodeFieldFlow (C01): every restorable attribute recorded in a node is set by the
// backup side and consumed by the restore side.
func ruleNodeFieldFlow(c *eng.Ctx) {
	const rule = "node-field-flow"
	// backup side: everything fs.nodeFromFileInfo reaches inside package fs, plus the archiver
	back := map[*ssa.Function]bool{}
	if root := c.NeedFn(rule, pkgFS+".nodeFromFileInfo"); root != nil {
		cl := c.P.CallClosure(root, nil)
		for f := range cl.Funcs {
			if p := eng.PkgOf(f); p == pkgFS {
				back[f] = true
			}
		}
	}
	for _, f := range c.P.Funcs {
		if eng.PkgOf(f) == pkgArch {
			back[f] = true
		}
	}
	// restore side: NodeCreateAt, NodeRestoreMetadata closures in fs, and package restorer
	rest := map[*ssa.Function]bool{}
	for _, name := range []string{pkgFS + ".NodeCreateAt", pkgFS + ".NodeRestoreMetadata"} {
		if root := c.NeedFn(rule, name); root != nil {
			cl := c.P.CallClosure(root, nil)
			for f := range cl.Funcs {
				if eng.PkgOf(f) == pkgFS {
					rest[f] = true
				}
			}
		}
	}
	for _, f := range c.P.Funcs {
		if eng.PkgOf(f) == pkgRestorer {
			rest[f] = true
		}
	}
	bs, _ := nodeFieldAccess(c, back)
	_, rl := nodeFieldAccess(c, rest)
	nt := c.P.NamedType(pkgData + ".Node")
	if nt == nil {
		c.Unk(rule, "anchor:data.Node", 0, "type does not resolve")
		return
	}
	st := nt.Underlying().(*types.Struct)
	// fields that are not restored to the file system as such, with the reason
	notRestored := map[string]string{
		"ChangeTime":    "ctime cannot be set on any supported system (kept for change detection)",
		"Error":         "diagnostic text",
		"Path":          "not serialised",
		"LinkTargetRaw": "encoder-internal",
		"Subtree":       "consumed by the tree traversal (package restorer reads it)",
	}
	for i := 0; i < st.NumFields(); i++ {
		f := st.Field(i)
		tag := reflect.StructTag(st.Tag(i)).Get("json")
		if why, ok := notRestored[f.Name()]; ok && f.Name() != "Subtree" {
			c.Ok(rule, "Node."+f.Name()+":not-restored", f.Pos(), "%s", why)
			if f.Name() != "LinkTargetRaw" && f.Name() != "Path" && f.Name() != "Error" {
				c.Check(bs[f.Name()], rule, "Node."+f.Name()+":recorded", f.Pos(), "the backup side records %s", f.Name())
			}
			continue
		}
		if tag == "-" {
			continue
		}
		if f.Name() == "GenericAttributes" && c.P.Cfg.GOOS != "windows" {
			// generic attributes carry Windows-only metadata; on other systems the filler is a
			// documented no-op (the windows configuration of the thorough tier checks the flow)
			c.Check(rl[f.Name()], rule, "Node."+f.Name()+":consumed", f.Pos(), "the restore side reads Node.%s (to warn about attributes it cannot apply)", f.Name())
			continue
		}
		c.Check(bs[f.Name()], rule, "Node."+f.Name()+":recorded", f.Pos(), "the backup side (fs.nodeFromFileInfo and callees, package archiver) stores Node.%s", f.Name())
		if c.P.Cfg.GOOS == "windows" {
			switch f.Name() {
			case "UID", "GID", "User", "Group":
				// POSIX ownership has no counterpart on Windows (lchown is a no-op there; the
				// security descriptor travels in GenericAttributes)
				c.Ok(rule, "Node."+f.Name()+":consumed", f.Pos(), "POSIX ownership is not applied on Windows by design")
				continue
			}
		}
		c.Check(rl[f.Name()], rule, "Node."+f.Name()+":consumed", f.Pos(), "the restore side (fs.NodeCreateAt, fs.NodeRestoreMetadata and callees, package restorer) reads Node.%s", f.Name())
	}
	c.Floor(rule, 30, 40)
}

// ruleRestorePasses (C01): content is written before metadata: the second traversal (which
// restores special nodes, hard links and all metadata) starts only after the file restorer
// finished successfully, and the first one only creates directories and schedules files.
func ruleRestorePasses(c *eng.Ctx) {
	const rule = "restore-passes"
	fn := c.NeedFn(rule, pkgRestorer+".(*Restorer).RestoreTo")
	if fn == nil {
		return
	}
	trav := c.P.CallsTo(fn, pkgRestorer+".(*Restorer).traverseTree")
	files := c.P.CallsTo(fn, pkgRestorer+".(*fileRestorer).restoreFiles")
	if len(trav) != 2 || len(files) != 1 {
		c.Unk(rule, "RestoreTo:shape", fn.Pos(), "expected two traverseTree calls and one restoreFiles call, found %d/%d", len(trav), len(files))
		return
	}
	first, second := trav[0], trav[1]
	if eng.FindPath(eng.After(second.(ssa.Instruction)), first.(ssa.Instruction), nil) != nil && eng.FindPath(eng.After(first.(ssa.Instruction)), second.(ssa.Instruction), nil) == nil {
		first, second = second, first
	}
	c.MustPass(rule, "RestoreTo:first-pass-ok→write-content", eng.Entry(fn), files[0].(ssa.Instruction), eng.SuccessCut(first), "the first traversal (directories, file scheduling) succeeded")
	dryF := c.P.Field(pkgRestorer+".Options", "DryRun")
	written := eng.SuccessCut(files[0])
	written.AddEdges(eng.FieldEdges(fn, dryF, true)...)
	c.MustPass(rule, "RestoreTo:content-written→second-pass", eng.Entry(fn), second.(ssa.Instruction), written, "restoreFiles returned nil (or dry run)")
	// which pass does what: metadata only in the second pass, file scheduling only in the first
	metaFn := pkgRestorer + ".(*Restorer).restoreNodeMetadataTo"
	inPass := func(call ssa.CallInstruction, name string) int {
		n := 0
		for i := range call.Common().Args {
			a := eng.Arg(call, i)
			if a == nil {
				continue
			}
			// the visitor struct literal: its closures
			for _, lit := range c.P.Lits(fn) {
				uses := false
				for _, cl := range c.P.WithLits(lit) {
					if len(c.P.CallsTo(cl, name)) > 0 || len(c.P.CallsWhere(cl, func(x ssa.CallInstruction) bool { return eng.MethodName(x) == name })) > 0 {
						uses = true
					}
				}
				if uses && visitorOf(c, call, lit) {
					n++
				}
			}
			break
		}
		return n
	}
	c.Check(inPass(first, metaFn) == 0 && inPass(second, metaFn) > 0, rule, "RestoreTo:metadata-in-second-pass-only", fn.Pos(), "restoreNodeMetadataTo is called by the second traversal's visitors only (timestamps and modes are final because no content is written afterwards)")
	c.Check(inPass(first, "addFile") > 0 && inPass(second, "addFile") == 0, rule, "RestoreTo:files-scheduled-in-first-pass-only", fn.Pos(), "regular files are handed to the file restorer by the first traversal only")
	c.Floor(rule, 4, 4)
}

// ruleMetadataOrder (C01): the order in which metadata is applied matters: changing the owner
// clears setuid/setgid bits and drops the security.capability extended attribute on Linux, and
// a read-only mode blocks later changes on Windows. So ownership comes first, the mode last.
func ruleMetadataOrder(c *eng.Ctx) {
	const rule = "metadata-order"
	fn := c.NeedFn(rule, pkgFS+".nodeRestoreMetadata")
	if fn == nil {
		return
	}
	one := func(name string) ssa.CallInstruction {
		cs := c.P.CallsTo(fn, pkgFS+"."+name)
		if len(cs) != 1 {
			c.Unk(rule, "nodeRestoreMetadata:"+name, fn.Pos(), "expected one call of %s, found %d", name, len(cs))
			return nil
		}
		return cs[0]
	}
	chown, xattr, times, chmod := one("lchown"), one("nodeRestoreExtendedAttributes"), one("nodeRestoreTimestamps"), one("chmod")
	if chown == nil || xattr == nil || times == nil || chmod == nil {
		return
	}
	c.MustPass(rule, "nodeRestoreMetadata:owner-before-xattrs", eng.Entry(fn), xattr.(ssa.Instruction), eng.CallCut(chown), "lchown ran before the extended attributes are written (a later chown would drop security.capability)")
	c.MustPass(rule, "nodeRestoreMetadata:owner-before-mode", eng.Entry(fn), chmod.(ssa.Instruction), eng.CallCut(chown), "lchown ran before chmod (a later chown would clear setuid/setgid)")
	c.MustPass(rule, "nodeRestoreMetadata:xattrs-before-mode", eng.Entry(fn), chmod.(ssa.Instruction), eng.CallCut(xattr), "extended attributes are written before a possibly read-only mode is set")
	c.MustPass(rule, "nodeRestoreMetadata:times-before-mode", eng.Entry(fn), chmod.(ssa.Instruction), eng.CallCut(times), "timestamps are set before a possibly read-only mode is set")
	// every step runs even if an earlier one failed: each is reachable from the failure edge of its predecessor
	for _, pair := range [][2]ssa.CallInstruction{{chown, xattr}, {xattr, times}, {times, chmod}} {
		okRun := true
		for _, e := range eng.FailureEdges(pair[0]) {
			if eng.FindPath(eng.EdgeStart(fn, e), pair[1].(ssa.Instruction), nil) == nil {
				okRun = false
			}
		}
		a, b := c.P.CalleeName(pair[0]), c.P.CalleeName(pair[1])
		c.Check(okRun, rule, "nodeRestoreMetadata:"+b[strings.LastIndex(b, ".")+1:]+"-runs-after-failed-"+a[strings.LastIndex(a, ".")+1:], pair[1].Pos(), "a failure of %s does not skip %s (as much metadata as possible is restored)", a[strings.LastIndex(a, ".")+1:], b[strings.LastIndex(b, ".")+1:])
	}
	// the first error is what is reported
	c.Floor(rule, 7, 7)
}

// visitorOf reports whether lit is one of the closures stored in the treeVisitor literal
// passed to the traverseTree call.
func visitorOf(c *eng.Ctx, call ssa.CallInstruction, lit *ssa.Function) bool {
	for _, a := range call.Common().Args {
		ld, ok := eng.Strip(a).(*ssa.UnOp)
		if !ok {
			continue
		}
		al, ok := ld.X.(*ssa.Alloc)
		if !ok {
			continue
		}
		for _, r := range *al.Referrers() {
			if fa, isFA := r.(*ssa.FieldAddr); isFA {
				for _, r2 := range *fa.Referrers() {
					if st, isSt := r2.(*ssa.Store); isSt {
						if mc, isMC := eng.Strip(st.Val).(*ssa.MakeClosure); isMC && mc.Fn == ssa.Value(lit) {
							return true
						}
						if f, isF := eng.Strip(st.Val).(*ssa.Function); isF && f == lit {
							return true
						}
					}
				}
			}
		}
	}
	return false
}
