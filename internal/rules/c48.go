package rules

import (
	"strings"

	"golang.org/x/tools/go/ssa"

	"verif/internal/eng"
)

// multiValuedIterators: iterators of the index that yield one element per stored copy of a
// blob (frozen list, confirmed by reading).
var multiValuedIterators = map[string]bool{
	pkgIndex + ".(*MasterIndex).Values": true,
	pkgIndex + ".(*Index).Values":       true,
	pkgIndex + ".(*indexMap).values":    true,
}

// containerBase returns the base object of an element access (slice/array/map element),
// and whether the path to it goes through a struct field (then it is not a local set).
func containerBase(v ssa.Value) (ssa.Value, bool) {
	throughField := false
	for i := 0; i < 16; i++ {
		switch x := v.(type) {
		case *ssa.IndexAddr:
			v = x.X
		case *ssa.Index:
			v = x.X
		case *ssa.Lookup:
			v = x.X
		case *ssa.UnOp:
			v = x.X
		case *ssa.Slice:
			v = x.X
		case *ssa.FieldAddr:
			throughField = true
			v = x.X
		case *ssa.Field:
			throughField = true
			v = x.X
		case *ssa.Extract:
			// comma-ok map lookups; a result of a call is a base of its own
			if _, isCall := x.Tuple.(*ssa.Call); isCall {
				return v, throughField
			}
			v = x.Tuple
		default:
			return v, throughField
		}
	}
	return v, throughField
}

// ruleSetOverMultimap (C48): a set method that enumerates members by walking a per-entry
// iterator of the index yields a handle only after a first-occurrence test.
func ruleSetOverMultimap(c *eng.Ctx) {
	const rule = "set-over-multimap"
	n := 0
	for _, fn := range c.P.Funcs {
		root := eng.Root(fn)
		if root.Signature.Recv() == nil || !strings.Contains(c.P.FnName(root), pkgIndex+".(*AssociatedSet).") {
			continue
		}
		// fn ranges over a multi-valued iterator: it calls the iterator's result with a body literal
		var bodies []*ssa.Function
		for _, call := range eng.Calls(fn) {
			cv, ok := call.(*ssa.Call)
			if !ok || cv.Call.IsInvoke() {
				continue
			}
			isIter := false
			for _, r := range eng.Origins(cv.Call.Value, nil) {
				if rc := eng.RootCall(r); rc != nil && multiValuedIterators[c.P.CalleeName(rc)] {
					isIter = true
				}
			}
			if !isIter {
				continue
			}
			for _, a := range cv.Call.Args {
				if mc, ok := a.(*ssa.MakeClosure); ok {
					if lit, ok := mc.Fn.(*ssa.Function); ok {
						bodies = append(bodies, lit)
					}
				}
			}
		}
		for _, body := range bodies {
			c.Touch(body)
			for _, call := range eng.Calls(body) {
				name := c.P.CalleeName(call)
				if !strings.HasPrefix(name, "free:yield") && !strings.HasPrefix(name, "param:yield") {
					continue
				}
				n++
				key := c.P.FnName(root) + ":yield-once-per-member"
				// guards: false edge of a boolean read from a local (non-field) container …
				type guard struct {
					edge eng.EdgeKey
					base ssa.Value
				}
				var guards []guard
				for _, b := range body.Blocks {
					ifi, ok := b.Instrs[len(b.Instrs)-1].(*ssa.If)
					if !ok {
						continue
					}
					cond, neg := eng.Unnot(ifi.Cond)
					var elem ssa.Value
					switch x := cond.(type) {
					case *ssa.UnOp:
						elem = x
					case *ssa.Extract:
						elem = x // comma-ok map lookup: `_, seen := m[k]`
					case *ssa.Lookup:
						elem = x
					}
					if elem == nil {
						continue
					}
					base, throughField := containerBase(elem)
					if throughField || base == nil {
						continue
					}
					switch base.(type) {
					case *ssa.FreeVar, *ssa.Alloc, *ssa.MakeSlice, *ssa.MakeMap:
					default:
						continue
					}
					guards = append(guards, guard{eng.IfEdge(b, neg, false), base})
				}
				ok := false
				why := "no test against a local seen-set guards the yield"
				for _, g := range guards {
					cut := eng.NewCut().AddEdges(g.edge)
					if eng.FindPath(eng.Entry(body), call.(ssa.Instruction), cut) != nil {
						continue // not a guard of this yield
					}
					// … that is updated on every path from the test to the yield
					var updates []ssa.Instruction
					for _, b := range body.Blocks {
						for _, in := range b.Instrs {
							switch x := in.(type) {
							case *ssa.Store:
								if bb, tf := containerBase(x.Addr); !tf && bb == g.base {
									if _, isIA := x.Addr.(*ssa.IndexAddr); isIA {
										updates = append(updates, x)
									}
								}
							case *ssa.MapUpdate:
								if bb, tf := containerBase(x.Map); !tf && bb == g.base {
									updates = append(updates, x)
								}
							}
						}
					}
					from := eng.Loc{B: body.Blocks[g.edge[1]], I: 0}
					if len(updates) > 0 && eng.FindPath(from, call.(ssa.Instruction), eng.NewCut().AddInstrs(updates...)) == nil {
						ok = true
					} else {
						why = "the seen-set is tested but not updated before the yield"
					}
					// the seen-set must outlive one element: it is a variable of the enclosing
					// function, and inside the walk it is (re)allocated only while still nil
					if _, captured := g.base.(*ssa.FreeVar); !captured && ok {
						ok = false
						why = "the seen-set is created inside the per-element body, so it never remembers an earlier element"
					}
					for _, rs := range seenSetResets(body, g.base) {
						nilEdges := eng.NilEdges(body, func(v ssa.Value) bool {
							ld, isLd := v.(*ssa.UnOp)
							return isLd && sameSlot(ld.X, rs.Addr)
						}, true)
						if eng.FindPath(eng.Entry(body), rs, eng.NewCut().AddEdges(nilEdges...)) != nil && ok {
							ok = false
							why = "the seen-set is re-allocated during the walk (at " + c.P.Pos(rs.Pos()) + ") on a path where it may already hold marks, so earlier elements are forgotten"
						}
					}
				}
				c.Check(ok, rule, key, call.Pos(), "in %s the yield inside the walk over the per-entry index iterator is guarded by a first-occurrence test against a local seen-set that is updated before yielding%s",
					c.P.FnName(body), ifs(ok, "", ": "+why+" — a blob stored in several packs is reported several times (Len() > number of members)"))
			}
		}
	}
	if n == 0 {
		c.Unk(rule, "AssociatedSet:enumeration", 0, "no AssociatedSet method walking a per-entry index iterator found (anchors changed)")
	}
	// Len and Keys are derived from All (so they inherit the guarantee)
	for _, m := range []string{"Len", "Keys"} {
		fn := c.NeedFn(rule, pkgIndex+".(*AssociatedSet)."+m)
		if fn == nil {
			continue
		}
		uses := false
		for _, f := range c.P.WithLits(fn) {
			if len(c.P.CallsTo(f, pkgIndex+".(*AssociatedSet).All")) > 0 {
				uses = true
			}
		}
		c.Check(uses, rule, "AssociatedSet."+m+":derived-from-All", fn.Pos(), "%s enumerates through All()", m)
	}
}
