package rules

import (
	"go/types"
	"sort"
	"strings"

	"golang.org/x/tools/go/ssa"

	"verif/internal/eng"
)

const pkgDry = "internal/backend/dryrun"

var backendMutators = map[string]bool{"Save": true, "Remove": true, "Delete": true, "Warmup": true, "WarmupWait": true}

// ruleDryrunTotal (C39): the dry-run backend cannot forward a mutation.
func ruleDryrunTotal(c *eng.Ctx) {
	const rule = "dryrun-total"
	named := c.P.NamedType(pkgDry + ".Backend")
	be := c.P.NamedType(pkgBackend + ".Backend")
	if named == nil || be == nil {
		c.Unk(rule, "anchor:dryrun.Backend", 0, "types do not resolve")
		return
	}
	st, _ := named.Underlying().(*types.Struct)
	embeds := false
	for i := 0; st != nil && i < st.NumFields(); i++ {
		if st.Field(i).Embedded() {
			embeds = true
		}
	}
	c.Check(!embeds, rule, "dryrun.Backend:no-embedding", named.Obj().Pos(), "dryrun.Backend holds the wrapped backend in a named field: no method is inherited silently")
	it := be.Underlying().(*types.Interface)
	ms := c.P.SSA.MethodSets.MethodSet(types.NewPointer(named))
	for i := 0; i < it.NumMethods(); i++ {
		m := it.Method(i)
		sel := ms.Lookup(m.Pkg(), m.Name())
		own := sel != nil && len(sel.Index()) == 1
		c.Check(own, rule, "dryrun.Backend."+m.Name()+":declared", named.Obj().Pos(), "dryrun.Backend declares %s itself", m.Name())
	}
	// no function of the package calls a mutating method of a backend
	n := 0
	for _, fn := range c.P.Funcs {
		if eng.PkgOf(fn) != pkgDry {
			continue
		}
		c.Touch(fn)
		for _, call := range eng.Calls(fn) {
			m := eng.MethodName(call)
			t := eng.RecvType(call)
			if t == nil {
				continue
			}
			isBackend := false
			if types.Implements(t, it) {
				isBackend = true
			}
			if !isBackend {
				continue
			}
			n++
			c.Check(!backendMutators[m], rule, c.P.FnName(fn)+"→Backend."+m, call.Pos(), "package dryrun forwards only non-mutating backend methods (found %s)", m)
		}
	}
	if n < 5 {
		c.Unk(rule, "dryrun:forwarded-calls", named.Obj().Pos(), "expected the read-only forwards (List, Load, Stat, …), found %d backend calls", n)
	}
	// Repository has exactly one backend-typed field and SetDryRun replaces it
	repoT := c.P.NamedType(pkgRepo + ".Repository")
	if repoT != nil {
		rs := repoT.Underlying().(*types.Struct)
		var beFields []string
		for i := 0; i < rs.NumFields(); i++ {
			ft := rs.Field(i).Type()
			if types.Implements(ft, it) || types.Implements(types.NewPointer(ft), it) {
				beFields = append(beFields, rs.Field(i).Name())
			}
		}
		c.Check(len(beFields) == 1, rule, "Repository:single-backend-field", repoT.Obj().Pos(), "Repository reaches its backend through exactly one field %v, so SetDryRun cannot be bypassed", beFields)
		if sd := c.NeedFn(rule, pkgRepo+".(*Repository).SetDryRun"); sd != nil && len(beFields) == 1 {
			f := c.P.Field(pkgRepo+".Repository", beFields[0])
			ok := false
			for _, s := range c.P.FieldStoresIn(sd, f) {
				for _, r := range eng.Origins(s.Val, nil) {
					if c.P.IsCallOf(r, pkgDry+".New") {
						ok = true
					}
				}
			}
			c.Check(ok, rule, "Repository.SetDryRun:wraps-backend", sd.Pos(), "SetDryRun replaces r.%s by dryrun.New(r.%s)", beFields[0], beFields[0])
			// nothing else assigns the backend field after construction
			for _, s := range c.P.AllFieldStores(f) {
				root := c.P.FnName(eng.Root(s.Parent()))
				okSite := root == pkgRepo+".(*Repository).SetDryRun" || root == pkgRepo+".New" || root == pkgRepo+".(*Repository).UseCache"
				c.Check(okSite, rule, root+":assigns-Repository."+beFields[0], s.Pos(), "the backend field is assigned only by New, UseCache (cache wrapper) and SetDryRun")
			}
		}
	}
}

// ruleLockXorDry (C39): a repository is handed to a command either locked or in dry-run mode.
func ruleLockXorDry(c *eng.Ctx) {
	const rule = "lock-xor-dry"
	fn := c.NeedFn(rule, "cmd/restic.internalOpenWithLocked")
	if fn == nil {
		return
	}
	lock := c.P.CallsTo(fn, pkgRepo+".LockRepo")
	dry := c.P.CallsTo(fn, pkgRepo+".(*Repository).SetDryRun")
	isDry := eng.IsParam(fn, "dryRun")
	for _, r := range eng.Returns(fn) {
		rv := eng.RetVal(r, 3)
		if !c.P.MayBeNil(rv) {
			continue
		}
		c.NilOnlyVia(rule, "internalOpenWithLocked:locked-or-dry→success", rv, r, eng.Union(eng.SuccessCut(lock...), eng.CallCut(dry...)), "LockRepo succeeded or SetDryRun was called")
	}
	for _, d := range dry {
		c.MustPass(rule, "internalOpenWithLocked:dryRun→SetDryRun", eng.Entry(fn), d.(ssa.Instruction), eng.NewCut().AddEdges(eng.BoolEdges(fn, isDry, true)...), "dryRun is true")
	}
	// without a lock the repository must be in dry-run mode: every path that skips LockRepo passes SetDryRun
	for _, r := range eng.Returns(fn) {
		rv := eng.RetVal(r, 3)
		if !c.P.MayBeNil(rv) {
			continue
		}
		ps := c.P.FindPathPS(eng.Entry(fn), func(in ssa.Instruction) bool { return in == ssa.Instruction(r) }, eng.Union(eng.CallCut(lock...), eng.CallCut(dry...)),
			func(env *eng.PSEnv, _ ssa.Instruction) bool { return env.MayBeNil(rv) })
		c.Check(ps == nil, rule, "internalOpenWithLocked:unlocked-implies-dry", r.Pos(), "no success return skips both LockRepo and SetDryRun")
	}
	// the three open helpers hand their dry-run / no-lock argument on unchanged
	for _, w := range []string{"openWithReadLock", "openWithAppendLock", "openWithExclusiveLock"} {
		wf := c.NeedFn(rule, "cmd/restic."+w)
		if wf == nil {
			continue
		}
		calls := c.P.CallsTo(wf, "cmd/restic.internalOpenWithLocked")
		if len(calls) != 1 {
			c.Unk(rule, w+":forwards", wf.Pos(), "expected one call of internalOpenWithLocked, found %d", len(calls))
			continue
		}
		arg := eng.Arg(calls[0], 2)
		var own *ssa.Parameter
		for _, p := range wf.Params {
			if bt, ok := p.Type().Underlying().(*types.Basic); ok && bt.Kind() == types.Bool {
				own = p
			}
		}
		c.Check(own != nil && eng.Strip(arg) == ssa.Value(own), rule, w+":forwards-dry-run-unchanged", calls[0].Pos(),
			"%s passes its own boolean parameter (dry-run / no-lock) to internalOpenWithLocked unchanged: what the commands decide (dry-flag-forwarded) is what takes effect", w)
	}
	c.Floor(rule, 6, 6)
}

// ruleDryFlagForwarded (C39): the dry-run flag of each write command reaches the open call.
func ruleDryFlagForwarded(c *eng.Ctx) {
	const rule = "dry-flag-forwarded"
	// struct fields bound to a flag named "dry-run"
	dryFields := map[*types.Var]string{}
	for _, fn := range c.P.Funcs {
		if eng.PkgOf(fn) != "cmd/restic" {
			continue
		}
		for _, call := range eng.Calls(fn) {
			m := eng.MethodName(call)
			if m != "BoolVar" && m != "BoolVarP" {
				continue
			}
			nameArg, ok := eng.Arg(call, 1).(*ssa.Const)
			if !ok || nameArg.Value == nil || strings.Trim(nameArg.Value.ExactString(), "\"") != "dry-run" {
				continue
			}
			if fa, ok := eng.Arg(call, 0).(*ssa.FieldAddr); ok {
				if fv := eng.FieldVar(fa.X.Type(), fa.Field); fv != nil {
					dryFields[fv] = eng.FieldName(fa.X.Type(), fa.Field)
				}
			}
		}
	}
	if len(dryFields) < 5 {
		c.Unk(rule, "flags:dry-run", 0, "expected at least 5 commands registering a --dry-run flag, found %d", len(dryFields))
	}
	noLock := c.P.Field("internal/global.Options", "NoLock")
	covered := map[*types.Var]bool{}
	mentions := func(v ssa.Value, f *types.Var) bool {
		seen := map[ssa.Value]bool{}
		var rec func(v ssa.Value, d int) bool
		rec = func(v ssa.Value, d int) bool {
			if v == nil || seen[v] || d > 8 {
				return false
			}
			seen[v] = true
			if eng.LoadsField(v, f) {
				return true
			}
			if phi, ok := v.(*ssa.Phi); ok {
				for _, e := range phi.Edges {
					if rec(e, d+1) {
						return true
					}
				}
				// an && phi: the condition of the predecessor's branch
				for _, p := range phi.Block().Preds {
					if ifi, ok := p.Instrs[len(p.Instrs)-1].(*ssa.If); ok && rec(ifi.Cond, d+1) {
						return true
					}
				}
			}
			for _, r := range eng.Origins(v, nil) {
				if r != v && rec(r, d+1) {
					return true
				}
			}
			return false
		}
		return rec(v, 0)
	}
	type lockedSite struct {
		root, key string
		call      ssa.CallInstruction
	}
	var alwaysLocked []lockedSite
	rootsWithDry := map[string]string{}
	defer func() {
		// a command whose dry-run flag reaches one open call must forward it at all of them
		for _, s := range alwaysLocked {
			if f, ok := rootsWithDry[s.root]; ok {
				c.Bad(rule, s.key+":dry-run-not-forwarded-here", s.call.Pos(), "%s forwards its --dry-run flag (%s) at another open call but opens the repository with a constant here: with --dry-run this path would write to the repository", s.root, f)
			}
		}
	}()
	n := 0
	for _, fn := range c.P.Funcs {
		if eng.PkgOf(fn) != "cmd/restic" {
			continue
		}
		for _, call := range eng.Calls(fn) {
			name := c.P.CalleeName(call)
			if name != "cmd/restic.openWithAppendLock" && name != "cmd/restic.openWithExclusiveLock" && name != "cmd/restic.openWithReadLock" {
				continue
			}
			root := c.P.FnName(eng.Root(fn))
			if strings.HasPrefix(root, "cmd/restic.openWith") {
				continue
			}
			n++
			c.Touch(fn)
			arg := eng.Arg(call, 2)
			key := c.P.FnName(fn) + "→" + strings.TrimPrefix(name, "cmd/restic.")
			var dryF *types.Var
			for f := range dryFields {
				if mentions(arg, f) {
					dryF = f
				}
			}
			usesNoLock := noLock != nil && mentions(arg, noLock)
			isFalse := false
			if k, ok := arg.(*ssa.Const); ok && k.Value != nil && k.Value.String() == "false" {
				isFalse = true
			}
			if dryF != nil {
				rootsWithDry[root] = dryFields[dryF]
			}
			switch {
			case name == "cmd/restic.openWithReadLock":
				c.Check(usesNoLock || isFalse, rule, key+":no-lock", call.Pos(), "a read command skips the lock only for --no-lock (the repository is then put into dry-run mode)")
			case dryF != nil && usesNoLock:
				covered[dryF] = true
				c.Ok(rule, key+":dry-run-keeps-lock", call.Pos(), "%s: dry-run keeps the lock unless --no-lock; its mutations are guarded separately (dry-mutation-guard)", dryFields[dryF])
			case dryF != nil:
				covered[dryF] = true
				c.Ok(rule, key+":dry-run-forwarded", call.Pos(), "the --dry-run flag (%s) decides whether the repository is opened in dry-run mode", dryFields[dryF])
			case isFalse || usesNoLock:
				alwaysLocked = append(alwaysLocked, lockedSite{root, key, call})
				c.Ok(rule, key+":always-locked", call.Pos(), "no dry-run flag: the repository is locked (or --no-lock ⇒ dry-run)")
			default:
				c.Bad(rule, key+":unknown-dry-run-argument", call.Pos(), "the dryRun argument of the open call is neither a --dry-run flag field, --no-lock nor false")
			}
		}
	}
	if n < 15 {
		c.Unk(rule, "floor:open-sites", 0, "expected at least 15 repository open sites in cmd/restic, found %d", n)
	}
	// every command with a --dry-run flag that writes to the repository forwards it
	var names []string
	for f, nm := range dryFields {
		if strings.HasSuffix(nm, "RestoreOptions.DryRun") {
			continue // restore's dry-run concerns the target directory; restore only reads the repository
		}
		names = append(names, nm)
		c.Check(covered[f], rule, "flag:"+nm+":reaches-open", f.Pos(), "the field bound to --dry-run (%s) reaches the dryRun argument of the command's repository open call", nm)
	}
	sort.Strings(names)
}

// ruleDryMutationGuard (C39): forget and prune keep the lock in dry-run mode; with DryRun
// set they perform no repository mutation.
func ruleDryMutationGuard(c *eng.Ctx) {
	const rule = "dry-mutation-guard"
	// prune: Execute returns before any mutation when opts.DryRun
	if fn := c.NeedFn(rule, fnExecute); fn != nil {
		dryF := c.P.Field(pkgRepo+".PruneOptions", "DryRun")
		notDry := eng.NewCut().AddEdges(eng.FieldEdges(fn, dryF, false)...)
		n := 0
		for _, f := range c.P.WithLits(fn) {
			for _, call := range eng.Calls(f) {
				name := c.P.CalleeName(call)
				mut := name == pkgRepo+".deleteFiles" || name == pkgRepo+".rewriteIndexFiles" || isWithUploader(c, call) ||
					name == pkgIndex+".(*MasterIndex).SaveFallback" || name == pkgRestic+".ParallelRemove"
				if !mut || f != fn {
					continue
				}
				n++
				c.MustPass(rule, "PrunePlan.Execute:not-dry-run→"+name[strings.LastIndex(name, ".")+1:], eng.Entry(fn), call.(ssa.Instruction), notDry, "plan.opts.DryRun is false")
			}
		}
		if n < 4 {
			c.Unk(rule, "PrunePlan.Execute:mutations", fn.Pos(), "expected at least 4 mutating calls in Execute, found %d", n)
		}
	}
	// prune options literal forwards the flag
	if fn := c.NeedFn(rule, "cmd/restic.runPruneWithRepo"); fn != nil {
		dst := c.P.Field(pkgRepo+".PruneOptions", "DryRun")
		src := c.P.Field("cmd/restic.PruneOptions", "DryRun")
		ok := false
		for _, s := range c.P.FieldStoresIn(fn, dst) {
			if src != nil && eng.LoadsField(s.Val, src) {
				ok = true
			}
			for _, r := range eng.Origins(s.Val, nil) {
				if src != nil && eng.LoadsField(r, src) {
					ok = true
				}
				if f, isF := r.(*ssa.Field); isF && eng.FieldVar(f.X.Type(), f.Field) == src {
					ok = true
				}
			}
		}
		c.Check(ok, rule, "runPruneWithRepo:PruneOptions.DryRun-forwarded", fn.Pos(), "repository.PruneOptions.DryRun is set from the command's --dry-run flag")
	}
	// forget: snapshot removal and the follow-up prune only without --dry-run
	if fn := c.NeedFn(rule, "cmd/restic.runForget"); fn != nil {
		dryF := c.P.Field("cmd/restic.ForgetOptions", "DryRun")
		notDry := eng.NewCut().AddEdges(eng.FieldEdges(fn, dryF, false)...)
		n := 0
		for _, f := range c.P.WithLits(fn) {
			for _, call := range eng.Calls(f) {
				name := c.P.CalleeName(call)
				if f == fn && name == pkgRestic+".ParallelRemove" {
					n++
					c.MustPass(rule, "runForget:not-dry-run→ParallelRemove", eng.Entry(fn), call.(ssa.Instruction), notDry, "opts.DryRun is false")
				}
			}
		}
		if n == 0 {
			c.Unk(rule, "runForget:ParallelRemove", fn.Pos(), "snapshot removal not found")
		}
		// the prune started by forget --prune inherits the flag
		for _, call := range c.P.CallsTo(fn, "cmd/restic.runPruneWithRepo") {
			ok := false
			pdry := c.P.Field("cmd/restic.PruneOptions", "DryRun")
			for _, s := range c.P.FieldStoresIn(fn, pdry) {
				if eng.LoadsField(s.Val, dryF) {
					ok = true
				}
				for _, r := range eng.Origins(s.Val, nil) {
					if eng.LoadsField(r, dryF) {
						ok = true
					}
					if f, isF := r.(*ssa.Field); isF && eng.FieldVar(f.X.Type(), f.Field) == dryF {
						ok = true
					}
				}
			}
			c.Check(ok, rule, "runForget:prune-inherits-dry-run", call.Pos(), "forget --prune passes its --dry-run flag on to the prune options")
		}
	}
}

// ruleBackendMutationCallers (C39): mutating backend methods are called only from package
// repository and from backend wrappers inside the same method.
func ruleBackendMutationCallers(c *eng.Ctx) {
	const rule = "backend-mutation-callers"
	be := c.P.NamedType(pkgBackend + ".Backend")
	repoSites := map[string]string{
		pkgRepo + ".(*Repository).removeUnpacked": "the removal wrapper (file types enumerated by pack-removers)",
		pkgRepo + ".RemoveKey":                    "key removal (C29)",
		pkgRepo + ".upgradeRepository":            "v2 upgrade: config replacement (C31)",
		pkgRepo + ".UpgradeRepo":                  "v2 upgrade: restore of the old config on failure (C31)",
		pkgRepo + ".(*Repository).Delete":         "test helper deleting a whole test repository",
	}
	n := 0
	for _, m := range []string{"Remove", "Delete"} {
		for _, s := range c.P.AllCallsWhere(func(fn *ssa.Function, call ssa.CallInstruction) bool { return eng.IsMethodOf(call, be, m) }) {
			n++
			c.Touch(s.Fn)
			root := eng.Root(s.Fn)
			pkg := eng.PkgOf(s.Fn)
			key := c.P.FnName(s.Fn) + "→Backend." + m
			switch {
			case pkg == pkgRepo:
				why, ok := classifiedSite(c, root, repoSites)
				c.Check(ok, rule, key, s.Call.Pos(), "backend %s in package repository at a classified site: %s", m, why)
			case strings.HasPrefix(pkg, pkgBackend+"/mock") || strings.HasPrefix(pkg, pkgBackend+"/test"):
				c.Ok(rule, key, s.Call.Pos(), "backend test-suite helper package")
			case pkg == pkgBackend+"/util":
				c.Ok(rule, key, s.Call.Pos(), "DefaultDelete: implements Backend.Delete for backends (reached only through Backend.Delete)")
			case strings.HasPrefix(pkg, pkgBackend+"/"):
				okW := root.Signature.Recv() != nil && (root.Name() == m || (m == "Remove" && root.Name() == "Save" && pkg == pkgRetry))
				c.Check(okW, rule, key, s.Call.Pos(), "backend wrapper forwards %s inside its own %s method (retry.Save removes the partial file of the same handle)", m, root.Name())
			default:
				c.Bad(rule, key, s.Call.Pos(), "backend.Backend.%s called from %s, outside package repository and the backend wrappers", m, c.P.FnName(root))
			}
		}
	}
	if n < 8 {
		c.Unk(rule, "floor", 0, "expected at least 8 Remove/Delete call sites, found %d", n)
	}
}
