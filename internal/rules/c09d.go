package rules

import (
	"strings"

	"golang.org/x/tools/go/ssa"

	"verif/internal/eng"
)

// ruleIgnoreSetCoversDeletions (C09): prune deletes the packs of plan.removePacks after it has
// rewritten the index without the packs of plan.ignorePacks. A pack that is deleted while the
// new index still names it leaves index entries that point at nothing — for the blobs of a
// repacked pack that is every kept blob of that pack. So whatever is added to removePacks in
// Execute (the repacked packs are merged into it after the repack) is carried over to
// ignorePacks before the index is rewritten: on every path from an addition to removePacks to
// rewriteIndexFiles / SaveFallback, ignorePacks is afterwards set to removePacks or merged with it.
func ruleIgnoreSetCoversDeletions(c *eng.Ctx) {
	const rule = "ignore-set-covers-deletions"
	fn := c.NeedFn(rule, pkgRepo+".(*PrunePlan).Execute")
	if fn == nil {
		return
	}
	rmF := c.P.Field(pkgRepo+".PrunePlan", "removePacks")
	igF := c.P.Field(pkgRepo+".PrunePlan", "ignorePacks")
	if rmF == nil || igF == nil {
		c.Unk(rule, "anchor:PrunePlan-fields", fn.Pos(), "removePacks/ignorePacks do not resolve")
		return
	}
	isSetOp := func(call ssa.CallInstruction) bool {
		n := c.P.CalleeName(call)
		return strings.HasSuffix(n, "restic.IDSet.Merge") || strings.HasSuffix(n, "restic.IDSet.Insert")
	}
	var grows []ssa.CallInstruction
	syncs := eng.NewCut()
	nSync := 0
	for _, f := range c.P.WithLits(fn) {
		for _, call := range eng.Calls(f) {
			if !isSetOp(call) {
				continue
			}
			recv := eng.Recv(call)
			switch {
			case eng.LoadsField(recv, rmF):
				if f == fn {
					grows = append(grows, call)
				} else {
					c.Unk(rule, "Execute:removePacks-grows-in-a-closure", call.Pos(), "an addition to removePacks inside a function literal is not ordered by this rule")
				}
			case eng.LoadsField(recv, igF) && f == fn && eng.LoadsField(eng.Arg(call, 0), rmF):
				syncs.AddInstrs(call.(ssa.Instruction))
				nSync++
			}
		}
	}
	for _, st := range c.P.FieldStoresIn(fn, igF) {
		if st.Parent() == fn && eng.LoadsField(st.Val, rmF) {
			syncs.AddInstrs(st)
			nSync++
		}
	}
	var users []ssa.CallInstruction
	for _, call := range eng.Calls(fn) {
		n := c.P.CalleeName(call)
		if n == pkgRepo+".rewriteIndexFiles" || strings.HasSuffix(n, "MasterIndex).SaveFallback") {
			for _, a := range call.Common().Args {
				if eng.LoadsField(a, igF) {
					users = append(users, call)
				}
			}
		}
	}
	if len(grows) == 0 || nSync == 0 || len(users) == 0 {
		c.Unk(rule, "Execute:shape", fn.Pos(), "expected additions to removePacks (%d), a transfer into ignorePacks (%d) and index rewrites that use ignorePacks (%d)", len(grows), nSync, len(users))
		return
	}
	for _, g := range grows {
		for _, u := range users {
			if eng.FindPath(eng.After(g.(ssa.Instruction)), u.(ssa.Instruction), nil) == nil {
				continue
			}
			name := c.P.CalleeName(u)
			c.MustPass(rule, "Execute:removePacks-grown→ignorePacks-updated→"+name[strings.LastIndex(name, ".")+1:], eng.After(g.(ssa.Instruction)), u.(ssa.Instruction), syncs, "ignorePacks was set to, or merged with, removePacks after the addition")
		}
	}
}
