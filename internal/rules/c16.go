package rules

import (
	"go/types"
	"golang.org/x/tools/go/ssa"

	"verif/internal/eng"
)

const pkgIndex = pkgRepo + "/index"

var masterIndexGuard = guardSpec{
	rule:      "index-locks",
	typeName:  pkgIndex + ".MasterIndex",
	lockField: "idxMutex",
	fields:    []string{"idx", "pendingBlobs"},
	exempt: map[string]string{
		pkgIndex + ".(*MasterIndex).clear":              "called from the constructor and from Load on its restart path before any index is visible",
		pkgIndex + ".(*MasterIndex).clearPendingBlobs":  "called from the constructor / single-threaded reset",
		pkgIndex + ".(*MasterIndex).Rewrite":            "documented 'must not be called concurrently'; callers hold the exclusive repository lock",
		pkgIndex + ".TestMergeIndex":                    "test helper compiled into the package (takes testing.TB); single-threaded",
	},
	callerHolds: map[string]int{
		// the goroutine started by SaveFallback runs while SaveFallback holds the write lock and is joined before it returns
		pkgIndex + ".(*MasterIndex).SaveFallback$1": eng.LockWrite,
	},
	minObl: 30,
}

var indexGuard = guardSpec{
	rule:      "index-locks",
	typeName:  pkgIndex + ".Index",
	lockField: "m",
	fields:    []string{"byType", "packs", "final", "ids"},
	callerHolds: map[string]int{
		pkgIndex + ".(*Index).addToPacks":       eng.LockWrite,
		pkgIndex + ".(*Index).store":            eng.LockWrite,
		pkgIndex + ".(*Index).toPackedBlob":     eng.LockRead,
		pkgIndex + ".(*Index).generatePackList": eng.LockRead,
		pkgIndex + ".(*Index).EachByPack$1":     eng.LockRead,
	},
	exempt: map[string]string{
		pkgIndex + ".DecodeIndex": "builds a fresh index that is returned to the caller",
		pkgIndex + ".(*MasterIndex).Rewrite": "rewrite pipeline: indexes built and finalized inside Rewrite are local to its goroutines until saved, never members of MasterIndex.idx",
		// Index.final of a member of MasterIndex.idx is only ever set through Index.Finalize called with
		// MasterIndex.idxMutex write-locked (rule finalize-sites below), so reading it under the master
		// read lock is race-free although Index.m is not taken.
		pkgIndex + ".(*MasterIndex).Packs": "reads Index.final under MasterIndex.idxMutex (read); every Finalize of a member index holds that mutex for writing (finalize-sites)",
	},
	minObl: 30,
}

// ruleFinalizeSites backs the exemption of MasterIndex.Packs: every call of Index.Finalize
// is classified; those on members of MasterIndex.idx hold MasterIndex.idxMutex for writing.
func ruleFinalizeSites(c *eng.Ctx) {
	const rule = "finalize-sites"
	class := map[string]string{
		pkgIndex + ".(*MasterIndex).clear":                   "fresh index created on the line before",
		pkgIndex + ".(*MasterIndex).finalizeNotFinalIndexes": "LOCKED",
		pkgIndex + ".(*MasterIndex).finalizeFullIndexes":     "LOCKED",
		pkgIndex + ".(*MasterIndex).Rewrite":                 "index local to the rewrite pipeline, never a member of MasterIndex.idx",
		pkgIndex + ".(*MasterIndex).SaveFallback":            "new index local to SaveFallback, not a member of MasterIndex.idx",
		pkgIndex + ".(*Index).SaveIndex?":                    "",
	}
	n := 0
	for _, s := range c.P.AllCallsTo(pkgIndex + ".(*Index).Finalize") {
		n++
		root := c.P.FnName(eng.Root(s.Fn))
		key := c.P.FnName(s.Fn) + "→Index.Finalize"
		why, ok := class[root]
		switch {
		case !ok && eng.PkgOf(s.Fn) != pkgIndex:
			// outside the package a MasterIndex member cannot be reached (field idx is unexported)
			c.Ok(rule, key, s.Call.Pos(), "outside package index: members of MasterIndex.idx are not reachable from here")
		case !ok:
			c.Bad(rule, key, s.Call.Pos(), "unclassified call of Index.Finalize in package index: cannot tell whether it races with MasterIndex.Packs")
		case why == "LOCKED":
			ls := c.P.Locksets(s.Fn, nil)
			held := 0
			for p, m := range ls[s.Call.(ssa.Instruction)] {
				if len(p) > 9 && p[len(p)-9:] == ".idxMutex" && m > held {
					held = m
				}
			}
			c.Check(held == eng.LockWrite, rule, key, s.Call.Pos(), "Finalize of a member index runs with MasterIndex.idxMutex write-locked (%s)", modeName(held))
		default:
			c.Ok(rule, key, s.Call.Pos(), "%s", why)
		}
	}
	if n < 4 {
		c.Unk(rule, "floor", 0, "only %d Finalize call sites found", n)
	}
}

// ruleAddPendingAtomic (C16): the "already known?" test and the reservation are one
// critical section of the write lock, so two savers cannot both see "unknown".
func ruleAddPendingAtomic(c *eng.Ctx) {
	const rule = "addpending-atomic"
	for _, spec := range []struct{ fn, what string }{
		{pkgIndex + ".(*MasterIndex).AddPending", "pending lookup, index lookups and pending insert"},
		{pkgIndex + ".(*MasterIndex).storePack", "pending delete and index insert"},
	} {
		fn := c.NeedFn(rule, spec.fn)
		if fn == nil {
			continue
		}
		short := c.P.FnName(fn)
		idxF := c.P.Field(pkgIndex+".MasterIndex", "idx")
		pendF := c.P.Field(pkgIndex+".MasterIndex", "pendingBlobs")
		isField := func(x ssa.Value, i int) bool {
			fv := eng.FieldVar(x.Type(), i)
			return fv != nil && (fv == idxF || fv == pendF)
		}
		accs := eng.FieldAccesses(fn, isField)
		if len(accs) < 2 {
			c.Unk(rule, short+":accesses", fn.Pos(), "expected accesses to idx and pendingBlobs, found %d", len(accs))
			continue
		}
		ls := c.P.Locksets(fn, nil)
		allW := true
		var bad ssa.Instruction
		sawPendingWrite := false
		for _, a := range accs {
			if a.Base == "" || ls[a.Instr][a.Base+".idxMutex"] < eng.LockWrite {
				allW = false
				bad = a.Instr
			}
			if fa, ok := a.Instr.(*ssa.FieldAddr); ok && eng.FieldVar(fa.X.Type(), fa.Field) == pendF && a.Write {
				sawPendingWrite = true
			}
		}
		pos := fn.Pos()
		if bad != nil {
			pos = bad.Pos()
		}
		c.Check(allW, rule, short+":write-lock-held", pos, "%s: every access (%d) holds the WRITE lock idxMutex (a read lock would let two savers pass the test together)", spec.what, len(accs))
		c.Check(sawPendingWrite, rule, short+":updates-pending", fn.Pos(), "%s updates pendingBlobs", short)
		// one critical section: no release between any two accesses
		one := true
		for i := range accs {
			for j := range accs {
				if i != j && releasedBetween(c, fn, accs[i].Instr, accs[j].Instr, accs[i].Base+".idxMutex") {
					one = false
				}
			}
		}
		c.Check(one, rule, short+":single-critical-section", fn.Pos(), "%s lie in one critical section (the lock is not released in between)", spec.what)
	}
	// AddPending consults both the pending set and every index before reserving
	if fn := c.NeedFn(rule, pkgIndex+".(*MasterIndex).AddPending"); fn != nil {
		has := c.P.CallsTo(fn, pkgIndex+".(*Index).Has")
		c.Check(len(has) > 0, rule, "AddPending:consults-indexes", fn.Pos(), "AddPending asks the loaded indexes (Index.Has) before reserving")
		// a true result is returned only after the map insert
		var inserts []ssa.Instruction
		for _, b := range fn.Blocks {
			for _, in := range b.Instrs {
				if mu, ok := in.(*ssa.MapUpdate); ok {
					inserts = append(inserts, mu)
				}
			}
		}
		for _, r := range eng.Returns(fn) {
			rv := eng.RetVal(r, 0)
			if k, ok := rv.(*ssa.Const); ok && k.Value != nil && k.Value.String() == "false" {
				continue
			}
			c.MustPass(rule, "AddPending:true-only-after-insert", eng.Entry(fn), r, eng.NewCut().AddInstrs(inserts...), "pendingBlobs[bh] = size executed before returning true")
			for _, h := range has {
				c.MustPass(rule, "AddPending:true-only-if-no-index-has-it", eng.Entry(fn), r, eng.Union(eng.ResultCut(false, 0, h), loopNotEntered(fn, h)), "Index.Has(bh) returned false for every index")
			}
		}
	}
	c.Floor(rule, 8, 9)
}

// loopNotEntered: edges that skip the loop containing call h entirely (empty index list).
func loopNotEntered(fn *ssa.Function, h ssa.CallInstruction) *eng.Cut {
	cut := eng.NewCut()
	// any edge from a block that dominates h's block to a block from which h is unreachable
	hb := h.Block()
	for _, b := range fn.Blocks {
		if !b.Dominates(hb) || b == hb {
			continue
		}
		for _, s := range b.Succs {
			if eng.FindPath(eng.Loc{B: s, I: 0}, h.(ssa.Instruction), nil) == nil {
				cut.AddEdges(eng.EdgeKey{b.Index, s.Index})
			}
		}
	}
	return cut
}

// ruleSaveOnlyIfNew (C16): a blob is encrypted and stored only if AddPending reserved it
// (or the caller explicitly asked for a duplicate).
func ruleSaveOnlyIfNew(c *eng.Ctx) {
	const rule = "save-only-if-new"
	fn := c.NeedFn(rule, pkgRepo+".(*Repository).saveBlob")
	if fn == nil {
		return
	}
	add := c.P.CallsTo(fn, pkgIndex+".(*MasterIndex).AddPending")
	if len(add) != 1 {
		c.Unk(rule, "saveBlob:AddPending", fn.Pos(), "expected exactly one AddPending call, found %d", len(add))
		return
	}
	isDup := eng.IsParam(fn, "storeDuplicate")
	cut := eng.Union(eng.ResultCut(true, 0, add...), eng.NewCut().AddEdges(eng.BoolEdges(fn, isDup, true)...))
	for _, s := range c.SomeCalls(rule, fn, pkgRepo+".(*Repository).saveAndEncrypt") {
		c.MustPass(rule, "saveBlob:new-or-duplicate-requested→saveAndEncrypt", eng.Entry(fn), s.(ssa.Instruction), cut, "AddPending returned true (blob was unknown) or storeDuplicate")
		// the id reserved is the id stored
		bh := eng.Arg(add[0], 0)
		idStores := structFieldStores(bh, "ID")
		ok := len(idStores) == 1 && sameRoots(eng.Origins(idStores[0], nil), eng.Origins(eng.Arg(s, 3), nil))
		c.Check(ok, rule, "saveBlob:reserved-id-is-stored-id", s.Pos(), "the blob handle given to AddPending carries the id under which the blob is saved")
	}
	// the only callers of saveAndEncrypt
	for _, s := range c.P.AllCallsTo(pkgRepo + ".(*Repository).saveAndEncrypt") {
		c.Check(c.P.FnName(s.Fn) == pkgRepo+".(*Repository).saveBlob", rule, c.P.FnName(s.Fn)+"→saveAndEncrypt", s.Call.Pos(), "saveAndEncrypt is only reached through saveBlob's known-blob test")
	}
	c.Floor(rule, 3, 3)
}

// ruleStoreDuplicateSites (C16): storeDuplicate=true is passed only by repack and by the
// pack-repair re-upload.
func ruleStoreDuplicateSites(c *eng.Ctx) {
	const rule = "store-duplicate-sites"
	allowed := map[string]string{
		pkgRepo + ".repack":                "prune/copy repack: the blob must be written again into a new pack",
		pkgRepo + ".copyBlobs":             "prune/copy repack: the blob must be written again into a new pack",
		pkgRepo + ".CopyBlobs":             "prune/copy repack: the blob must be written again into a new pack",
		pkgRepo + ".reuploadBlobsFromPack": "repair packs: salvage blobs of a damaged pack",
		pkgRepo + ".RepairPacks":           "repair packs: salvage blobs of a damaged pack",
	}
	n := 0
	for _, fn := range c.P.Funcs {
		for _, call := range eng.Calls(fn) {
			m := eng.MethodName(call)
			if m != "SaveBlob" && m != "SaveBlobAsync" && m != "saveBlob" && m != "saveBlobAsync" {
				continue
			}
			sig := call.Common().Signature()
			idx := -1
			for i := 0; i < sig.Params().Len(); i++ {
				// the one bool parameter of SaveBlob/SaveBlobAsync (named storeDuplicate)
				if b, isB := sig.Params().At(i).Type().Underlying().(*types.Basic); isB && b.Kind() == types.Bool {
					idx = i
				}
			}
			if idx < 0 {
				continue
			}
			n++
			c.Touch(fn)
			arg := eng.Arg(call, idx)
			root := c.P.FnName(eng.Root(fn))
			key := c.P.FnName(fn) + "→" + m + ":storeDuplicate"
			if k, isK := arg.(*ssa.Const); isK && k.Value != nil {
				if k.Value.String() == "false" {
					c.Ok(rule, key, call.Pos(), "constant false")
					continue
				}
				why, ok := allowed[root]
				c.Check(ok, rule, key, call.Pos(), "constant true for storeDuplicate only in repack / pack repair: %s", why)
				continue
			}
			// forwarded parameter of a wrapper
			fwd := false
			for _, r := range eng.Origins(arg, nil) {
				if prm, isP := r.(*ssa.Parameter); isP && eng.LogicalName(prm) == "storeDuplicate" {
					fwd = true
				}
				if fv, isFV := r.(*ssa.FreeVar); isFV && eng.LogicalName(fv) == "storeDuplicate" {
					fwd = true
				}
			}
			c.Check(fwd, rule, key, call.Pos(), "storeDuplicate is a forwarded parameter of a SaveBlob wrapper")
		}
	}
	if n < 8 {
		c.Unk(rule, "floor", 0, "only %d SaveBlob call sites found", n)
	}
}
