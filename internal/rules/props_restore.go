package rules

import "verif/internal/eng"

func init() {
	register(&Property{
		ID: "C01",
		Explanation: "Decides the structural core of the round trip, not equality of restored bytes and attributes: (nodetype-exhaustive) fs.nodeTypeFromFileInfo yields file, dir, symlink, dev, chardev, fifo and socket (plus irregular/invalid, no type unknown to this check), and both fs.NodeCreateAt (restore) and fs.nodeFillExtendedStat (backup) have their own case for each of the seven and return an error when no case matches (specialised evaluation with every type comparison false); (node-field-flow) every serialised field of data.Node (enumerated from the struct; reasons recorded for ChangeTime, Error, Path, LinkTargetRaw) is stored by the backup side (fs.nodeFromFileInfo and its callees in package fs, package archiver) and read by the restore side (fs.NodeCreateAt, fs.NodeRestoreMetadata and their callees in package fs, package restorer) — a recorded attribute nobody restores, or a restored attribute nobody records, is a violation; (restore-passes) Restorer.RestoreTo writes file content only after the first traversal succeeded and starts the second traversal only after restoreFiles returned nil; restoreNodeMetadataTo is called by the second traversal's visitors only and files are scheduled by the first only, so no content is written after metadata was applied; (metadata-order) fs.nodeRestoreMetadata changes the owner before it writes extended attributes and before chmod (a later chown would drop security.capability and clear setuid/setgid), writes extended attributes and timestamps before chmod (a read-only mode would block them), and no step is skipped because an earlier one failed — added after a seeded change that moved lchown behind the xattrs; (xattrs-exact) where attributes are restored by name, every successful return of nodeRestoreExtendedAttributes lies behind the listing of the target's attributes, and an attribute is removed only if it is not among those recorded — also for nodes that record none (added after a seeded change that returned early for them, keeping inherited ACL attributes); (content-order, C17) chunk IDs are recorded in read order; (marshal-siblings, C41) names and link targets survive encoding. (sparse-write-offset, shared with C19) the sparse writer puts p[k:] at offset+k for the same k. Not decided: equality of content, modes, times, ownership, xattrs and hard-link grouping after a real round trip on every platform, concurrency settings and pack sizes.",
		Assumptions: commonAssumptions,
		Technique:   "static analysis: case coverage of the node-type switches + producer/consumer field coverage over call closures + CFG ordering cuts (go/ssa, go/types)",
		AllConfigs:  true,
		Run: func(c *eng.Ctx) {
			// file content with --sparse: shared with C19
			ruleSparseWriteOffset(c)
			ruleNodeTypeExhaustive(c)
			ruleNodeFieldFlow(c)
			ruleRestorePasses(c)
			ruleMetadataOrder(c)
			ruleContentOrder(c)
			ruleMarshalSiblings(c)
			ruleXattrsExact(c)
			ruleTimestampRange(c)
			ruleSpecialHardlinks(c)
		},
		Controls: []Control{
			{Name: "foreign-xattrs-kept-on-error-free-set", File: "internal/fs/node_xattr.go",
				Old: "	// remove unexpected xattrs\n	xattrs, err := listxattr(path)\n	if err != nil {\n		return err\n	}", New: "	if len(expectedAttrs) == len(node.ExtendedAttributes) && len(expectedAttrs) > 0 {\n		return nil\n	}\n	// remove unexpected xattrs\n	xattrs, err := listxattr(path)\n	if err != nil {\n		return err\n	}", Rule: "xattrs-exact"},
			{Name: "mode-set-before-ownership", File: "internal/fs/node.go",
				Old: "	if err := lchown(path, node, ownershipByName); err != nil {\n		firsterr = errors.WithStack(err)\n	}\n\n	if err := nodeRestoreExtendedAttributes", New: "	if node.Type != data.NodeTypeSymlink {\n		_ = chmod(path, node.Mode)\n	}\n	if err := lchown(path, node, ownershipByName); err != nil {\n		firsterr = errors.WithStack(err)\n	}\n\n	if err := nodeRestoreExtendedAttributes", Rule: "metadata-order"},
			{Name: "fifo-not-recreated", File: "internal/fs/node.go",
				Old: "	case data.NodeTypeFifo:\n		err = nodeCreateFifoAt(path)\n", New: "", Rule: "nodetype-exhaustive"},
			{Name: "unknown-type-silently-accepted-on-restore", File: "internal/fs/node.go",
				Old: "	default:\n		err = errors.Errorf(\"filetype %q not implemented\", node.Type)\n	}\n\n	return err", New: "	}\n\n	return err", Rule: "nodetype-exhaustive"},
			{Name: "device-number-not-recorded", File: "internal/fs/node.go",
				Old: "	case data.NodeTypeDev:\n		node.Device = stat.Device\n		node.Links = stat.Links\n	case data.NodeTypeCharDev:\n		node.Device = stat.Device\n		node.Links = stat.Links", New: "	case data.NodeTypeDev:\n		node.Links = stat.Links\n	case data.NodeTypeCharDev:\n		node.Links = stat.Links", Rule: "node-field-flow"},
			{Name: "metadata-before-content", File: "internal/restorer/restorer.go",
				Old: "						filerestorer.addFile(location, node.Content, int64(node.Size), matches)", New: "						filerestorer.addFile(location, node.Content, int64(node.Size), matches)\n						_ = res.restoreNodeMetadataTo(node, target, location)", Rule: "restore-passes"},
		},
	})
	register(&Property{
		ID: "C18",
		Explanation: "Decides the guards that confine restore to the target for every snapshot content and every pre-existing state: (name-guards) in the tree walk, every call that receives the child path (enterDir, the recursion, leaveDir, visitNode) is reachable only on the edges Base(Join(sep, node.Name)) == node.Name (the name is a single, rooted-and-cleaned component), target != nodeTarget and fs.HasPathPrefix(target, nodeTarget); (dir-not-symlink) ensureDir — the only creator of directories below the target — reaches MkdirAll from its Lstat only on 'does not exist', 'IsDir() is true' or after removing the foreign object, so a pre-existing symlink to an outside directory is never descended into; (nofollow) every fs.OpenFile of package restorer carries O_NOFOLLOW and a file re-created after removing an obstacle is opened with O_EXCL; (delete-guard) --delete calls RemoveAll only for Join(target, entry) that passed the same prefix tests, is not in the snapshot's directory listing, is selected by the filter, not in dry-run, with the directory listed under O_NOFOLLOW; (unique-names; the remembered name is taken only from accepted nodes — added after a seeded change that let a rejected node in between reset the comparison) a node reaches the visitor callbacks or the recursion only if its name sorts strictly after the last accepted name of the directory, which is updated on the same path — two nodes with one name let a symlink replace the directory restored for the other and its children were restored through the link (genuine defect, demonstrated, fixed); (ancestors-ensured) the induction that no component below the target is a foreign symlink: the first pass ensures the parent before it registers a node and ensures a directory when it enters it, and the walk descends only after the pass's enterDir ran — the last step fails on the pinned tree for directories the filter does not select (restore --include /a/b/f writes through a pre-existing symlink target/a; demonstrated) and is reported as KNOWN-FINDING. Not decided: races with a concurrent process that modifies the target during the restore.",
		Assumptions: append([]string{"filepath.Join/Base/Clean and fs.HasPathPrefix behave as documented", "O_NOFOLLOW/O_EXCL are honoured by the operating system"}, commonAssumptions...),
		Technique:   "static analysis: CFG edge cuts on every use of the child path, flag-constant checks at all open sites (go/ssa)",
		AllConfigs:  true,
		Run: func(c *eng.Ctx) {
			ruleNameGuards(c)
			ruleDirNotSymlink(c)
			ruleNoFollow(c)
			ruleDeleteGuard(c)
			ruleUniqueNames(c)
			ruleAncestorsEnsured(c)
		},
		Controls: []Control{
			{Name: "last-name-remembers-rejected-nodes", File: "internal/restorer/restorer.go",
				Old: "			// force disable deletion to prevent unexpected behavior\n			res.opts.Delete = false\n			continue\n		}\n		lastName = node.Name\n", New: "			// force disable deletion to prevent unexpected behavior\n			res.opts.Delete = false\n			lastName = node.Name\n			continue\n		}\n		lastName = node.Name\n", Rule: "unique-names"},
			{Name: "accept-equal-names", File: "internal/restorer/restorer.go",
				Old: "		if node.Name <= lastName {", New: "		if node.Name < lastName {", Rule: "unique-names"},
			{Name: "forget-last-name", File: "internal/restorer/restorer.go",
				Old: "		lastName = node.Name\n", New: "", Rule: "unique-names"},
			{Name: "register-node-before-parent-is-ensured", File: "internal/restorer/restorer.go",
				Old: "			if err := res.ensureDir(filepath.Dir(target)); err != nil {\n				return err\n			}\n\n			if node.Type != data.NodeTypeFile {", New: "			if err := res.ensureDir(filepath.Dir(target)); err != nil && node.Type != data.NodeTypeFile {\n				return err\n			}\n\n			if node.Type != data.NodeTypeFile {", Rule: "ancestors-ensured"},
			{Name: "accept-dotdot-names", File: "internal/restorer/restorer.go",
				Old: "		nodeName := filepath.Base(filepath.Join(string(filepath.Separator), node.Name))\n		if nodeName != node.Name {", New: "		nodeName := node.Name\n		if filepath.Base(nodeName) == \"\" {", Rule: "name-guards"},
			{Name: "drop-prefix-check", File: "internal/restorer/restorer.go",
				Old: "		if target == nodeTarget || !fs.HasPathPrefix(target, nodeTarget) {\n			debug.Log(\"target: %v %v\", target, nodeTarget)", New: "		if target == nodeTarget {\n			debug.Log(\"target: %v %v\", target, nodeTarget)", Rule: "name-guards"},
			{Name: "follow-symlink-on-write", File: "internal/restorer/fileswriter.go",
				Old: "	f, err := fs.OpenFile(path, fs.O_WRONLY|fs.O_NOFOLLOW, 0600)", New: "	f, err := fs.OpenFile(path, fs.O_WRONLY, 0600)", Rule: "nofollow"},
			{Name: "delete-unselected-entries", File: "internal/restorer/restorer.go",
				Old: "		// only delete files that were selected for restore\n		if selectedForRestore {", New: "		// only delete files that were selected for restore\n		if selectedForRestore || !res.opts.DryRun {", Rule: "delete-guard"},
			{Name: "keep-symlinked-directories", File: "internal/restorer/restorer.go",
				Old: "	if err == nil && !fi.IsDir() {\n		// try to cleanup unexpected file", New: "	if err == nil && fi.Mode().IsRegular() {\n		// try to cleanup unexpected file", Rule: "dir-not-symlink"},
		},
	})
	register(&Property{
		ID: "C19",
		Explanation: "Decides the guards around existing files: (create-file) createFile reports success only through ensureSize (size is made right: truncate / sparse truncate), and an existing object is reused only on the IsRegular()==true and Links<=1 edges — otherwise it is removed and re-created with O_EXCL; (sparse-off-for-existing) in restoreFiles every path on which sparse writing may have been enabled for a file that already existed (file.state != nil) passes `file.sparse = false` before the iteration ends, and that store happens only for existing files; (overwrite-exhaustive) shouldOverwrite, evaluated for each OverwriteBehavior constant: always/if-changed never look at the existing file and never reach the 'unknown overwrite behavior' panic, if-newer/never examine it and are handled, never yields true only for ErrNotExist; the restore callback of withOverwriteCheck runs only on shouldOverwrite==true without error; (reuse-only-if-file-survives) verifyFile hands out a file state (the list of blobs already present, which the restorer then skips) only for regular files, and a state that still needs a restore only for targets with a single hard link — createFile replaces a target with several links by a new empty file, so reusing matches there leaves zeros where the skipped blobs belong; this is the genuine defect found with the seeded-change probe for this property, now fixed; (verify-reads-whole-blob) in verifyFile the hash is taken of the buffer ReadAt filled and only behind ReadAt's nil-error edge (the scratch buffer is reused between blobs and files, a short read leaves stale bytes in it), and the per-blob verdict stored is id.Equal(that hash) (added after a seeded change that hashed before the short-read test); (examined-or-nothing-reused) after a verifyFile error other than 'does not exist' the restore callback gets a non-nil state, which switches sparse writing off — an unreadable existing target was treated as missing and kept its old bytes in the zero runs (genuine defect, demonstrated, fixed); (link-target-only-when-restored) a name enters the hard-link index only inside the callback of withOverwriteCheck, i.e. when it is really restored — with --overwrite never/if-newer the other names were linked to an existing file that had been left untouched (genuine defect, demonstrated, fixed); (restore-errors-propagate) at each call site of the functions that carry file content to the target (restoreFiles, downloadPack, downloadBlobs, writeToFile, createFile, ensureSize, the tree walk, RestoreTo, VerifyFiles …) the error is bound and, from its non-nil edge, no return is reached unless it was returned or handed to the error callback — a restore in which a write failed is not a successful one (added after the mutant sweep). (existing-file-cut-to-size) ensureSize — the only place where a reused target file loses bytes beyond the wanted size, and the only thing that happens to a zero-length file — reports success only after truncateSparse or Truncate succeeded or the file was found to be no longer than createSize (added after a seeded change that returned early for createSize == 0). (failed-files-not-dressed-up) the error hook handed to the file restorer records the location of every file whose content failed, and the second pass applies the snapshot's metadata to a restored file only on the edge on which that record has no entry — an incomplete file had received the snapshot's mtime and size, and a repeated restore with --overwrite if-changed, which trusts the two, skipped it (genuine defect, demonstrated, fixed). (if-changed-reads-content) verifyFile answers 'needs no restore' on equal size and modification time alone when asked to trust the mtime, which --overwrite if-changed does: a target file of the same length and mtime with other content survives a successful restore — documented behaviour, a counterexample to the statement's 'different content', listed as a known finding. (sparse-write-offset) partialFile.WriteAt, which leaves out the all-zero prefix of a blob when writing sparse, hands the underlying WriteAt p[k:] together with offset+k for the same k (added after a seeded change that dropped the offset adjustment: the payload was written on top of the hole, sizes and metadata stayed right). Not decided: equality of content and size after restore (runtime values).",
		Assumptions: commonAssumptions,
		Technique:   "static analysis: CFG edge cuts + specialised path evaluation per overwrite mode (go/ssa)",
		Run: func(c *eng.Ctx) {
			ruleCreateFile(c)
			ruleExistingFileCutToSize(c)
			ruleFailedFilesNotDressedUp(c)
			ruleIfChangedReadsContent(c)
			ruleSparseWriteOffset(c)
			ruleSparseOff(c)
			ruleOverwriteModes(c)
			ruleReuseOnlyIfFileSurvives(c)
			ruleVerifyReadsWholeBlob(c)
			ruleExaminedOrNothingReused(c)
			ruleLinkTargetOnlyWhenRestored(c)
			ruleRestoreErrorsPropagate(c)
		},
		Controls: []Control{
			{Name: "sparse-write-at-the-unadvanced-offset", File: "internal/restorer/sparsewrite.go",
				Old: "		n2, err = f.File.WriteAt(p, offset)", New: "		n2, err = f.File.WriteAt(p, offset-int64(skipped)+int64(n-len(p)-skipped))", Rule: "sparse-write-offset"},
			{Name: "failed-files-get-snapshot-metadata", File: "internal/restorer/restorer.go",
				Old: "				if _, failed := failedFiles[location]; failed {", New: "				if _, failed := failedFiles[target]; failed && node.Size == 0 {", Rule: "failed-files-not-dressed-up"},
			{Name: "longer-file-not-truncated-when-small", File: "internal/restorer/fileswriter.go",
				Old: "	} else if fi.Size() > createSize {\n		// file is too long must shorten it", New: "	} else if fi.Size() > createSize && createSize > 4096 {\n		// file is too long must shorten it", Rule: "existing-file-cut-to-size"},
			{Name: "failed-pack-download-ignored", File: "internal/restorer/filerestorer.go",
				Old: "			if err := r.downloadPack(ctx, pack); err != nil {\n				return err\n			}\n", New: "			if err := r.downloadPack(ctx, pack); err != nil {\n				debug.Log(\"download failed: %v\", err)\n			}\n", Rule: "restore-errors-propagate"},
			{Name: "unexaminable-target-treated-as-missing", File: "internal/restorer/restorer.go",
				Old: "		if err != nil && !errors.Is(err, os.ErrNotExist) {\n			// the target exists but cannot be examined.", New: "		if err != nil && errors.Is(err, os.ErrNotExist) {\n			// the target exists but cannot be examined.", Rule: "examined-or-nothing-reused"},
			{Name: "link-target-registered-before-overwrite-check", File: "internal/restorer/restorer.go",
				Old: "			buf, err = res.withOverwriteCheck(ctx, node, target, location, false, buf, func(updateMetadataOnly bool, matches *fileState) error {\n				if node.Links > 1 {", New: "			if node.Links > 1 {\n				idx.Add(node.Inode, node.DeviceID, location)\n			}\n			buf, err = res.withOverwriteCheck(ctx, node, target, location, false, buf, func(updateMetadataOnly bool, matches *fileState) error {\n				if node.Links > 99 {", Rule: "link-target-only-when-restored"},
			{Name: "short-read-treated-as-complete", File: "internal/restorer/restorer.go",
				Old: "		if err == io.EOF && !failFast {\n			sizeMatches = false\n			break\n		}\n		if err != nil {\n			return nil, buf, err\n		}\n		matches[i]", New: "		if err != nil && err != io.EOF {\n			return nil, buf, err\n		}\n		matches[i]", Rule: "verify-reads-whole-blob"},
			{Name: "matches-kept-for-hard-linked-target", File: "internal/restorer/restorer.go",
				Old: "	if !failFast && state.NeedsRestore() && fs.ExtendedStat(fi).Links > 1 {", New: "	if !failFast && state.NeedsRestore() && fs.ExtendedStat(fi).Links > 1 && trustMtime {", Rule: "reuse-only-if-file-survives"},
			{Name: "reuse-hardlinked-file", File: "internal/restorer/fileswriter.go",
				Old: "		if ex.Links > 1 {\n", New: "		if ex.Links > 1 && sparse {\n", Rule: "create-file"},
			{Name: "sparse-for-existing-files", File: "internal/restorer/filerestorer.go",
				Old: "		if file.state != nil {\n			// The restorer currently cannot punch new holes into an existing files.", New: "		if file.state != nil && largeFile {\n			// The restorer currently cannot punch new holes into an existing files.", Rule: "sparse-off-for-existing"},
			{Name: "never-mode-overwrites-on-stat-error", File: "internal/restorer/restorer.go",
				Old: "		if errors.Is(err, os.ErrNotExist) {\n			return true, nil\n		}\n		return false, err", New: "		return true, nil", Rule: "overwrite-exhaustive"},
		},
	})
	register(&Property{
		ID: "C20",
		Explanation: "Decides the wiring only: (select-wiring) runRestore assigns the exclude filter (the literal ranging over the exclude pattern list) to Restorer.SelectFilter only when exclude patterns exist and the include filter only when include patterns exist, never with patterns of the other kind; in the tree walk visitNode and enterDir run only on selectedForRestore==true and the recursion only on childMayBeSelected==true; (delete-guard) --delete removes an entry only if it is selected, not in the snapshot and below the directory; (include-filter-accumulates) the include filter asks every include function about the item, each result is (old value || this function's answer), and the loop over the functions is left early only on the edges where both accumulated answers are already true — otherwise a later function (the case-sensitive one after the case-insensitive one) would never be asked; added after a seeded change that turned that && into ||; (delete-keep-list-complete) the list of names traverseTreeInner returns — the keep list --delete compares the directory with — receives node.Name on every way into the next node of the tree, unless --delete is off or was switched off on that path: also the names of nodes that are not restored (sockets, unselected nodes) are part of the snapshot; added after a seeded change that recorded the name only behind the socket skip. Not decided: which paths the patterns match (C28), and that leaveDir runs for directories in which nothing was selected (observation in DESIGN §8.3).",
		Assumptions: commonAssumptions,
		Technique:   "static analysis: CFG edge cuts + closure-capture resolution + loop-exit edge analysis over the accumulator phis (go/ssa)",
		Run: func(c *eng.Ctx) {
			ruleSelectWiring(c)
			ruleDeleteGuard(c)
			ruleIncludeLoopExit(c)
			ruleDeleteKeepListComplete(c)
		},
		Controls: []Control{
			{Name: "socket-names-not-in-keep-list", File: "internal/restorer/restorer.go",
				Old: "			filenames = append(filenames, node.Name)\n", New: "			if node.Type != data.NodeTypeSocket {\n				filenames = append(filenames, node.Name)\n			}\n", Rule: "delete-keep-list-complete"},
			{Name: "include-loop-stops-at-first-match", File: "cmd/restic/cmd_restore.go",
				Old: "			if selectedForRestore && childMayBeSelected {\n				break\n			}", New: "			if selectedForRestore {\n				break\n			}", Rule: "include-filter-accumulates"},
			{Name: "restore-unselected-nodes", File: "internal/restorer/restorer.go",
				Old: "		if selectedForRestore {\n			err = res.sanitizeError(nodeLocation, visitor.visitNode(node, nodeTarget, nodeLocation))", New: "		if selectedForRestore || childMayBeSelected {\n			err = res.sanitizeError(nodeLocation, visitor.visitNode(node, nodeTarget, nodeLocation))", Rule: "select-wiring"},
			{Name: "swap-filters", File: "cmd/restic/cmd_restore.go",
				Old: "	if hasExcludes {\n		res.SelectFilter = selectExcludeFilter\n	} else if hasIncludes {\n		res.SelectFilter = selectIncludeFilter\n	}", New: "	if hasExcludes {\n		res.SelectFilter = selectIncludeFilter\n	} else if hasIncludes {\n		res.SelectFilter = selectExcludeFilter\n	}", Rule: "select-wiring"},
		},
	})
	register(&Property{
		ID: "C21",
		Explanation: "Decides the 'if' direction structurally: VerifyFiles calls verifyFile with failFast=true and trustMtime=false; with these arguments fixed (specialised path evaluation) verifyFile returns a nil error only on the node.Size == fi.Size() edge and, from every ReadAt, only on the read's success edge and the Equal(restic.Hash(buf)) edge — also before reading the next blob — and the hashed buffer is the one ReadAt filled; no nil error is returned before the loop over node.Content was entered (added after a seeded change that returned early for hard-linked files), the hash is taken only of a completely read buffer (verify-reads-whole-blob); --verify checks the name registered in the hard-link index on behalf of all names of a file, so a name is registered only when it is really restored (link-target-only-when-restored; genuine defect, fixed: the other names were linked to a skipped existing file and --verify did not look at them); the error goes to the restorer's error handler, which counts it, and runRestore exits 0 after --verify only if VerifyFiles returned nil and the error counter is zero. Not decided: which files are selected for verification, and the converse direction (no false reports).",
		Assumptions: commonAssumptions,
		Technique:   "static analysis: specialised (constant-argument) path-sensitive reachability on verifyFile + error flow to the exit status (go/ssa)",
		Run: func(c *eng.Ctx) {
			ruleVerifyStrict(c)
			ruleVerifyReadsWholeBlob(c)
			ruleLinkTargetOnlyWhenRestored(c)
			ruleRestoreErrorsPropagate(c)
		},
		Controls: []Control{
			{Name: "verify-skips-hard-linked-files", File: "internal/restorer/restorer.go",
				Old: "	matches := make([]bool, len(node.Content))\n	var offset int64", New: "	if fs.ExtendedStat(fi).Links > 1 {\n		return nil, buf, nil\n	}\n	matches := make([]bool, len(node.Content))\n	var offset int64", Rule: "verify-strict"},
			{Name: "verify-ignores-size", File: "internal/restorer/restorer.go",
				Old: "		if failFast {\n			return nil, buf, errors.Errorf(\"Invalid file size for %s: expected %d, got %d\",", New: "		if failFast && trustMtime {\n			return nil, buf, errors.Errorf(\"Invalid file size for %s: expected %d, got %d\",", Rule: "verify-strict"},
			{Name: "verify-tolerates-mismatch", File: "internal/restorer/restorer.go",
				Old: "		if failFast && !matches[i] {", New: "		if failFast && !matches[i] && i == 0 {", Rule: "verify-strict"},
			{Name: "verify-uses-mtime-shortcut", File: "internal/restorer/restorer.go",
				Old: "				_, buf, err = res.verifyFile(ctx, job.path, job.node, true, false, buf)", New: "				_, buf, err = res.verifyFile(ctx, job.path, job.node, true, true, buf)", Rule: "verify-strict"},
		},
	})
}
