package rules

import (
	"go/token"
	"strings"

	"golang.org/x/tools/go/ssa"

	"verif/internal/eng"
)

// ruleRemoveReport (C23, "the deleted snapshot files are exactly those reported as removed"):
// restic.ParallelRemove tells its caller about each file through the report callback, which
// it invokes from its worker goroutines.
//   - every report callback in the module examines the error it is handed (a nil test of its
//     own error parameter): a callback that tests some other variable reports every failed
//     removal as done;
//   - in runForget the failed ids are recorded on the non-nil edge (failedSnIDs.Insert(id) with
//     the callback's id) and prune — which is told that removeSnIDs are gone — runs only
//     behind len(failedSnIDs) == 0;
//   - since the callback runs concurrently, every update of a captured set/map/slice in a
//     report callback is made with a mutex held (genuine defect in runForget, fixed).
func ruleRemoveReport(c *eng.Ctx) {
	const rule = "remove-report"
	n := 0
	for _, fn := range c.P.Funcs {
		for _, call := range c.P.CallsTo(fn, pkgRestic+".ParallelRemove") {
			args := call.Common().Args
			if len(args) < 5 {
				continue
			}
			mc, ok := eng.Strip(args[4]).(*ssa.MakeClosure)
			var cb *ssa.Function
			if ok {
				cb, _ = mc.Fn.(*ssa.Function)
			} else if f, isF := eng.Strip(args[4]).(*ssa.Function); isF {
				cb = f
			}
			name := c.P.FnName(fn) + "→ParallelRemove"
			if cb == nil {
				if eng.IsNilConst(args[4]) {
					continue // no report wanted: ParallelRemove returns the first error itself
				}
				c.Unk(rule, name+":report-callback", call.Pos(), "the report callback is not a function literal")
				continue
			}
			n++
			c.Touch(cb)
			if len(cb.Params) != 2 {
				c.Unk(rule, name+":report-callback", call.Pos(), "unexpected callback signature")
				continue
			}
			idP, errP := cb.Params[0], cb.Params[1]
			isErr := eng.SameAs(errP)
			nonNil := eng.NilEdges(cb, isErr, false)
			isNil := eng.NilEdges(cb, isErr, true)
			// forwarding the error (return err / passing it on to another callback) is examining it too
			forwards := false
			for _, r := range eng.Returns(cb) {
				if isErr(eng.RetVal(r, 0)) {
					forwards = true
				}
			}
			c.Check(len(nonNil)+len(isNil) > 0 || forwards, rule, name+":report-examines-its-error", cb.Pos(), "the report callback tests (or returns) the error it is handed for the removed file")
			// concurrent updates of captured containers need a lock
			var ls map[ssa.Instruction]eng.Lockset
			for _, b := range cb.Blocks {
				for _, in := range b.Instrs {
					mut := ""
					switch x := in.(type) {
					case *ssa.MapUpdate:
						mut = "map update"
					case *ssa.Call:
						if m := eng.MethodName(x); (m == "Insert" || m == "Delete" || m == "Merge") && strings.Contains(c.P.CalleeName(x), "IDSet") {
							mut = "IDSet." + m
						}
					case *ssa.Store:
						if _, isFV := x.Addr.(*ssa.FreeVar); isFV {
							mut = "assignment to a captured variable"
						}
					}
					if mut == "" {
						continue
					}
					if ls == nil {
						ls = c.P.Locksets(cb, nil)
					}
					held := false
					for _, m := range ls[in] {
						if m == eng.LockWrite {
							held = true
						}
					}
					c.Check(held, rule, name+":shared-state-updated-under-lock", in.Pos(), "the report callback runs on ParallelRemove's worker goroutines; its %s is made with a mutex held", mut)
				}
			}
			if c.P.FnName(eng.Root(fn)) != "cmd/restic.runForget" {
				continue
			}
			// runForget: failures are recorded and stop prune
			var inserts []ssa.CallInstruction
			for _, ic := range eng.Calls(cb) {
				if eng.MethodName(ic) == "Insert" && strings.Contains(c.P.CalleeName(ic), "IDSet") && eng.SameAs(idP)(eng.Arg(ic, 0)) {
					inserts = append(inserts, ic)
				}
			}
			if !c.Check(len(inserts) >= 1, rule, "runForget:failed-id-recorded", cb.Pos(), "the callback records the id of a file that could not be removed (%d)", len(inserts)) {
				continue
			}
			for _, r := range eng.Returns(cb) {
				c.MustPass(rule, "runForget:removal-failed→recorded", eng.Entry(cb), r, eng.Union(eng.CallCut(inserts...), eng.NewCut().AddEdges(isNil...)), "err == nil, or the id was inserted into the set of failed removals")
			}
			// the set tested before prune is the set the callback fills
			var setCell ssa.Value
			if ld, isLd := eng.Strip(eng.Recv(inserts[0])).(*ssa.UnOp); isLd && ld.Op == token.MUL && ok {
				if fv, isFV := ld.X.(*ssa.FreeVar); isFV {
					for i, f := range cb.FreeVars {
						if f == fv && i < len(mc.Bindings) {
							setCell = mc.Bindings[i]
						}
					}
				}
			}
			root := eng.Root(fn)
			prunes := c.P.CallsTo(root, "cmd/restic.runPruneWithRepo")
			empty := eng.CmpEdges(root, func(op token.Token, x, y ssa.Value) (bool, bool) {
				k, isK := eng.ConstInt(y)
				if !isK || k != 0 || setCell == nil {
					return false, false
				}
				if !eng.IsLenOf(x, func(v ssa.Value) bool {
					ld, isLd := v.(*ssa.UnOp)
					return isLd && ld.Op == token.MUL && ld.X == setCell
				}) {
					return false, false
				}
				switch op {
				case token.GTR, token.NEQ:
					return true, false
				case token.EQL, token.LEQ:
					return true, true
				}
				return false, false
			})
			for _, p := range prunes {
				c.MustPass(rule, "runForget:no-failed-removal→prune", eng.After(call.(ssa.Instruction)), p.(ssa.Instruction), eng.NewCut().AddEdges(empty...), "len(failedSnIDs) == 0")
			}
			c.Check(len(prunes) >= 1, rule, "runForget:prune-call", root.Pos(), "runForget hands the removed snapshots to prune (%d call sites)", len(prunes))
		}
	}
	if n < 4 {
		c.Unk(rule, "floor", 0, "expected at least 4 ParallelRemove calls with a report callback, found %d", n)
	}
}
