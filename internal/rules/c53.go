package rules

import (
	"go/constant"
	"go/token"
	"strings"

	"golang.org/x/tools/go/ssa"

	"verif/internal/eng"
)

// constString returns the value of a string constant.
func constString(v ssa.Value) (string, bool) {
	k, ok := v.(*ssa.Const)
	if !ok || k.Value == nil || k.Value.Kind() != constant.String {
		return "", false
	}
	return constant.StringVal(k.Value), true
}

// ruleDualMerge (C53): DualTreeIterator pairs the entries of two sorted trees by name: both
// sides are handed out together only for equal names, otherwise only the side with the
// smaller name, and exactly the sides handed out are advanced.
func ruleDualMerge(c *eng.Ctx) {
	const rule = "dual-merge"
	fn := c.NeedFn(rule, pkgData+".DualTreeIterator")
	if fn == nil {
		return
	}
	var body *ssa.Function
	for _, l := range c.P.Lits(fn) {
		if l.Parent() == fn {
			body = l
		}
	}
	if body == nil {
		c.Unk(rule, "DualTreeIterator:body", fn.Pos(), "iterator body not found")
		return
	}
	c.Touch(body)
	nameF := c.P.Field(pkgData+".Node", "Name")
	t1F := c.P.Field(pkgData+".DualTree", "Tree1")
	t2F := c.P.Field(pkgData+".DualTree", "Tree2")
	peeks := c.P.CallsTo(body, pkgData+".(*peekableNodeIterator).Peek")
	nexts := c.P.CallsTo(body, pkgData+".(*peekableNodeIterator).Next")
	if len(peeks) != 2 || len(nexts) != 2 {
		c.Unk(rule, "DualTreeIterator:shape", body.Pos(), "expected two Peek and two Next calls, found %d/%d", len(peeks), len(nexts))
		return
	}
	// the yield inside the loop: the one whose Tree1 is not the nil constant
	var yieldCall ssa.CallInstruction
	var v1, v2 ssa.Value
	for _, call := range eng.Calls(body) {
		if !strings.HasPrefix(c.P.CalleeName(call), "param:yield") || !inCycle(call.Block()) {
			continue
		}
		ld, ok := eng.Arg(call, 0).(*ssa.UnOp)
		if !ok {
			continue
		}
		al, ok := ld.X.(*ssa.Alloc)
		if !ok {
			continue
		}
		for _, r := range *al.Referrers() {
			if fa, isFA := r.(*ssa.FieldAddr); isFA {
				for _, r2 := range *fa.Referrers() {
					if st, isSt := r2.(*ssa.Store); isSt {
						switch eng.FieldVar(fa.X.Type(), fa.Field) {
						case t1F:
							v1 = st.Val
						case t2F:
							v2 = st.Val
						}
					}
				}
			}
		}
		yieldCall = call
	}
	if yieldCall == nil || v1 == nil || v2 == nil {
		c.Unk(rule, "DualTreeIterator:yield", body.Pos(), "the yield of a node pair was not found")
		return
	}
	// name comparisons between the two peeked nodes
	side := func(v ssa.Value) int {
		// which peek does the Name load belong to
		ld, ok := v.(*ssa.UnOp)
		if !ok {
			return 0
		}
		fa, ok := ld.X.(*ssa.FieldAddr)
		if !ok || eng.FieldVar(fa.X.Type(), fa.Field) != nameF {
			return 0
		}
		for i, p := range peeks {
			if fa.X == p.Value() {
				return i + 1
			}
		}
		return 0
	}
	var cmps []*ssa.BinOp
	for _, b := range body.Blocks {
		for _, in := range b.Instrs {
			if bo, ok := in.(*ssa.BinOp); ok && (bo.Op == token.LSS || bo.Op == token.GTR || bo.Op == token.LEQ || bo.Op == token.GEQ || bo.Op == token.EQL || bo.Op == token.NEQ) {
				if side(bo.X) != 0 && side(bo.Y) != 0 && side(bo.X) != side(bo.Y) {
					cmps = append(cmps, bo)
				}
			}
		}
	}
	c.Check(len(cmps) >= 2, rule, "DualTreeIterator:name-comparisons", body.Pos(), "the two peeked nodes are compared by name (%d comparisons)", len(cmps))
	// scenario evaluation: order ∈ {1<2, 1>2, equal}; which sides reach the yield non-nil
	eval := func(order int) (t1nil, t2nil, reach bool) {
		seed := func(env *eng.PSEnv) {
			env.AssumeNilAlways(peeks[0].Value(), false)
			env.AssumeNilAlways(peeks[1].Value(), false)
			for _, bo := range cmps {
				a, b := side(bo.X), side(bo.Y)
				// value of (name_a OP name_b) given order of (name1 ? name2)
				rel := order // -1: n1<n2, 0 equal, 1: n1>n2
				if a == 2 && b == 1 {
					rel = -order
				}
				var val bool
				switch bo.Op {
				case token.LSS:
					val = rel < 0
				case token.GTR:
					val = rel > 0
				case token.LEQ:
					val = rel <= 0
				case token.GEQ:
					val = rel >= 0
				case token.EQL:
					val = rel == 0
				case token.NEQ:
					val = rel != 0
				}
				env.Assume(bo, val)
			}
		}
		t1nil, t2nil = true, true
		res := c.P.FindPathSeeded(eng.After(peeks[1].(ssa.Instruction)), func(in ssa.Instruction) bool { return in == yieldCall.(ssa.Instruction) }, nil,
			func(env *eng.PSEnv, _ ssa.Instruction) bool {
				reach = true
				if n, known := env.Nil(v1); !(known && n) {
					t1nil = false
				}
				if n, known := env.Nil(v2); !(known && n) {
					t2nil = false
				}
				return false // explore every path
			}, seed)
		_ = res
		return
	}
	a1, a2, r := eval(-1)
	c.Check(r && !a1 && a2, rule, "DualTreeIterator:smaller-name-first(1<2)", yieldCall.Pos(), "when tree 1's next name is smaller, only tree 1's node is handed out (Tree2 is nil on every path)")
	b1, b2, r2 := eval(1)
	c.Check(r2 && b1 && !b2, rule, "DualTreeIterator:smaller-name-first(1>2)", yieldCall.Pos(), "when tree 2's next name is smaller, only tree 2's node is handed out (Tree1 is nil on every path)")
	e1, e2, r3 := eval(0)
	c.Check(r3 && !e1 && !e2, rule, "DualTreeIterator:equal-names-paired", yieldCall.Pos(), "for equal names both nodes are handed out together")
	// exactly the sides handed out are advanced
	for i, v := range []ssa.Value{v1, v2} {
		var next ssa.CallInstruction
		for _, n := range nexts {
			if eng.Recv(n) == eng.Recv(peeks[i]) || eng.SameAs(eng.Recv(peeks[i]))(eng.Recv(n)) {
				next = n
			}
		}
		if next == nil {
			c.Unk(rule, "DualTreeIterator:advance-side", body.Pos(), "Next on iterator %d not found", i+1)
			continue
		}
		nonNil := eng.NilEdges(body, eng.SameAs(v), false)
		isNil := eng.NilEdges(body, eng.SameAs(v), true)
		c.MustPass(rule, "DualTreeIterator:advance-only-what-is-handed-out:"+[]string{"1", "2"}[i], eng.After(peeks[1].(ssa.Instruction)), next.(ssa.Instruction), eng.NewCut().AddEdges(nonNil...), "the node of this side is handed out (non-nil)")
		c.MustPass(rule, "DualTreeIterator:handed-out-is-advanced:"+[]string{"1", "2"}[i], eng.After(peeks[1].(ssa.Instruction)), yieldCall.(ssa.Instruction), eng.Union(eng.CallCut(next), eng.NewCut().AddEdges(isNil...)), "this side's iterator was advanced, or its node is not handed out")
	}
	c.Floor(rule, 8, 8)
}

// ruleDiffMarkers (C53): diffTree prints '-' / '+' only for entries present on one side, 'T'
// only for differing types, 'M' only for two files with different content lists, nothing for
// an unmodified pair, and does not descend into identical subtrees.
func ruleDiffMarkers(c *eng.Ctx) {
	const rule = "diff-markers"
	fn := c.NeedFn(rule, "cmd/restic.(*Comparer).diffTree")
	if fn == nil {
		return
	}
	t1F := c.P.Field(pkgData+".DualTree", "Tree1")
	t2F := c.P.Field(pkgData+".DualTree", "Tree2")
	typeF := c.P.Field(pkgData+".Node", "Type")
	contentF := c.P.Field(pkgData+".Node", "Content")
	subF := c.P.Field(pkgData+".Node", "Subtree")
	// with range-over-func the loop body is a literal
	var body *ssa.Function
	for _, f := range c.P.WithLits(fn) {
		if len(c.P.CallsTo(f, "cmd/restic.NewChange")) > 0 {
			body = f
		}
	}
	if body == nil {
		c.Unk(rule, "diffTree:body", fn.Pos(), "the loop body printing changes was not found")
		return
	}
	c.Touch(body)
	is1 := func(v ssa.Value) bool { return mentionsFieldDeepArgs(v, t1F) }
	is2 := func(v ssa.Value) bool { return mentionsFieldDeepArgs(v, t2F) }
	n1nil := nilEdgesDeep(body, is1, true)
	n1set := nilEdgesDeep(body, is1, false)
	n2nil := nilEdgesDeep(body, is2, true)
	n2set := nilEdgesDeep(body, is2, false)
	seen := map[string]int{}
	for _, call := range c.P.CallsTo(body, "cmd/restic.NewChange") {
		mod, isConst := constString(eng.Arg(call, 1))
		in := call.(ssa.Instruction)
		switch {
		case isConst && mod == "-":
			seen["-"]++
			c.MustPass(rule, "diffTree:minus→only-in-first", eng.Entry(body), in, eng.NewCut().AddEdges(n2nil...), "node2 == nil")
			c.MustPass(rule, "diffTree:minus→present-in-first", eng.Entry(body), in, eng.NewCut().AddEdges(n1set...), "node1 != nil")
		case isConst && mod == "+":
			seen["+"]++
			c.MustPass(rule, "diffTree:plus→only-in-second", eng.Entry(body), in, eng.NewCut().AddEdges(n1nil...), "node1 == nil")
			c.MustPass(rule, "diffTree:plus→present-in-second", eng.Entry(body), in, eng.NewCut().AddEdges(n2set...), "node2 != nil")
		case !isConst:
			seen["pair"]++
			c.MustPass(rule, "diffTree:pair-change→both-present", eng.Entry(body), in, eng.NewCut().AddEdges(n1set...), "node1 != nil")
			c.MustPass(rule, "diffTree:pair-change→both-present-2", eng.Entry(body), in, eng.NewCut().AddEdges(n2set...), "node2 != nil")
			// printed only if some modifier was added
			nonEmpty := eng.CmpEdges(body, func(op token.Token, x, y ssa.Value) (bool, bool) {
				if s, ok := constString(y); !ok || s != "" {
					return false, false
				}
				if op == token.NEQ {
					return true, true
				}
				if op == token.EQL {
					return true, false
				}
				return false, false
			})
			c.MustPass(rule, "diffTree:unmodified-pair-silent", eng.Entry(body), in, eng.NewCut().AddEdges(nonEmpty...), "mod != \"\"")
		default:
			c.Bad(rule, "diffTree:unknown-marker:"+mod, call.Pos(), "a change with the constant marker %q is printed; this check knows '-', '+' and computed markers", mod)
		}
	}
	c.Check(seen["-"] == 1 && seen["+"] == 1 && seen["pair"] == 1, rule, "diffTree:change-sites", body.Pos(), "diffTree reports removed, added and modified entries at one site each (%v)", seen)
	// modifier letters
	typeDiff := eng.CmpEdges(body, func(op token.Token, x, y ssa.Value) (bool, bool) {
		if !(mentionsFieldDeepArgs(x, typeF) && mentionsFieldDeepArgs(y, typeF)) {
			return false, false
		}
		switch op {
		case token.NEQ:
			return true, true
		case token.EQL:
			return true, false
		}
		return false, false
	})
	var deepEq []ssa.CallInstruction
	for _, call := range c.P.CallsTo(body, "reflect.DeepEqual") {
		if mentionsFieldDeepArgs(eng.Arg(call, 0), contentF) && mentionsFieldDeepArgs(eng.Arg(call, 1), contentF) {
			deepEq = append(deepEq, call)
		}
	}
	fileEdges := nodeTypeEdges(c, body, nil, "NodeTypeFile")
	letters := map[string]int{}
	for _, b := range body.Blocks {
		for _, in := range b.Instrs {
			bo, ok := in.(*ssa.BinOp)
			if !ok || bo.Op != token.ADD {
				continue
			}
			s, isS := constString(bo.Y)
			if !isS {
				continue
			}
			switch s {
			case "T":
				letters["T"]++
				c.MustPass(rule, "diffTree:T→types-differ", eng.Entry(body), bo, eng.NewCut().AddEdges(typeDiff...), "node1.Type != node2.Type")
			case "M":
				letters["M"]++
				c.MustPass(rule, "diffTree:M→content-differs", eng.Entry(body), bo, eng.ResultCut(false, 0, deepEq...), "!reflect.DeepEqual(node1.Content, node2.Content)")
				c.MustPass(rule, "diffTree:M→both-files", eng.Entry(body), bo, eng.NewCut().AddEdges(fileEdges...), "the nodes are files")
			}
		}
	}
	c.Check(letters["T"] == 1 && letters["M"] == 1, rule, "diffTree:modifier-letters", body.Pos(), "the letters T and M are appended at one site each (%v)", letters)
	// every differing type / content gets its letter: with the comparison true, the printChange of the pair is reached with the letter appended
	// (necessary direction only; the converse is the MustPass above)
	// identical subtrees are not descended into
	rec := c.P.CallsTo(body, "cmd/restic.(*Comparer).diffTree")
	var subEq []ssa.CallInstruction
	for _, call := range c.P.CallsTo(body, fnIDEqual) {
		if mentionsFieldDeepArgs(eng.Recv(call), subF) || mentionsFieldDeepArgs(eng.Arg(call, 0), subF) {
			subEq = append(subEq, call)
		}
	}
	c.Check(len(rec) == 1 && len(subEq) == 1, rule, "diffTree:recursion-site", body.Pos(), "one recursive call, guarded by a comparison of the two subtree IDs (%d/%d)", len(rec), len(subEq))
	for _, r := range rec {
		c.MustPass(rule, "diffTree:identical-subtrees-not-descended", eng.Entry(body), r.(ssa.Instruction), eng.ResultCut(false, 0, subEq...), "the subtree IDs differ")
		c.Check(mentionsFieldDeepArgs(eng.Arg(r, 3), subF) && mentionsFieldDeepArgs(eng.Arg(r, 4), subF), rule, "diffTree:descends-into-both-subtrees", r.Pos(), "the recursion compares node1.Subtree with node2.Subtree")
	}
	// what handles identical subtrees prints nothing
	if cd := c.NeedFn(rule, "cmd/restic.(*Comparer).collectDir"); cd != nil {
		cl := c.P.CallClosure(cd, nil)
		prints := false
		for f := range cl.Funcs {
			if len(c.P.CallsTo(f, "cmd/restic.NewChange")) > 0 {
				prints = true
			}
		}
		c.Check(!prints, rule, "collectDir:prints-nothing", cd.Pos(), "collectDir (used for identical subtrees) reports no change")
	}
	c.Floor(rule, 14, 16)
}
