package rules

import (
	"go/constant"
	"go/token"
	"strings"

	"golang.org/x/tools/go/ssa"

	"verif/internal/eng"
)

// ruleUniquePrefixMatch (C57): restic.Find hands out an ID only if exactly one listed ID has
// the prefix; a second match is an error, no match is an error.
func ruleUniquePrefixMatch(c *eng.Ctx) {
	const rule = "unique-prefix-match"
	fn := c.NeedFn(rule, pkgRestic+".Find")
	if fn == nil {
		return
	}
	var cb *ssa.Function
	var list ssa.CallInstruction
	for _, call := range eng.Calls(fn) {
		if eng.MethodName(call) == "List" {
			list = call
			cb = closureArg(call, 2)
		}
	}
	if cb == nil {
		c.Unk(rule, "Find:listing-callback", fn.Pos(), "the listing callback was not found")
		return
	}
	// the variable holding the match: a captured cell assigned the callback's id
	var matchFV *ssa.FreeVar
	var assigns []*ssa.Store
	isID := eng.IsParam(cb, cb.Params[0].Name())
	for _, b := range cb.Blocks {
		for _, in := range b.Instrs {
			if st, ok := in.(*ssa.Store); ok {
				if fv, isFV := st.Addr.(*ssa.FreeVar); isFV && isID(st.Val) {
					matchFV = fv
					assigns = append(assigns, st)
				}
			}
		}
	}
	if matchFV == nil || len(assigns) != 1 {
		c.Unk(rule, "Find:match-assignment", cb.Pos(), "expected one assignment of the listed id to the captured match variable, found %d", len(assigns))
		return
	}
	// prefix test: strings comparison of the prefix with a slice of id.String()
	isPrefix := func(v ssa.Value) bool {
		for _, o := range eng.Origins(v, nil) {
			if fv, ok := o.(*ssa.FreeVar); ok && eng.LogicalName(fv) == "prefix" {
				return true
			}
			if ld, ok := o.(*ssa.UnOp); ok {
				if fv, isFV := ld.X.(*ssa.FreeVar); isFV && eng.LogicalName(fv) == "prefix" {
					return true
				}
			}
		}
		if ld, ok := v.(*ssa.UnOp); ok {
			if fv, isFV := ld.X.(*ssa.FreeVar); isFV && eng.LogicalName(fv) == "prefix" {
				return true
			}
		}
		return false
	}
	prefixEq := eng.CmpEdgesEq(cb, func(x, y ssa.Value) bool {
		if !(isPrefix(x) || isPrefix(y)) {
			return false
		}
		other := x
		if isPrefix(x) {
			other = y
		}
		// name[:len(prefix)] of id.String()
		sl, ok := other.(*ssa.Slice)
		if !ok {
			return false
		}
		call := eng.RootCall(sl.X)
		return call != nil && eng.MethodName(call) == "String" && isID(eng.Recv(call))
	})
	c.MustPass(rule, "Find:recorded-id-has-the-prefix", eng.Entry(cb), assigns[0], eng.NewCut().AddEdges(prefixEq...), "prefix == id.String()[:len(prefix)]")
	// first match only: behind match.IsNull() == true
	var isNull []ssa.CallInstruction
	for _, call := range eng.Calls(cb) {
		if eng.MethodName(call) == "IsNull" {
			isNull = append(isNull, call)
		}
	}
	c.MustPass(rule, "Find:only-first-match-recorded", eng.Entry(cb), assigns[0], eng.ResultCut(true, 0, isNull...), "no match was recorded yet (match.IsNull())")
	// a further match is an error: from the prefix-match edge with a match already present, no nil return
	for _, e := range eng.ResultCut(false, 0, isNull...).EdgeList() {
		if eng.FindPath(eng.Entry(cb), cb.Blocks[e[0]].Instrs[len(cb.Blocks[e[0]].Instrs)-1], eng.NewCut().AddEdges(prefixEq...)) != nil {
			continue // this IsNull test is not behind the prefix match
		}
		bad := false
		for _, r := range eng.Returns(cb) {
			if eng.FindPath(eng.EdgeStart(cb, e), r, nil) != nil && c.P.MayBeNil(eng.RetVal(r, 0)) {
				bad = true
			}
		}
		c.Check(!bad, rule, "Find:second-match-is-an-error", cb.Pos(), "a second ID with the prefix makes the callback return an error (which ends the listing)")
	}
	// Find: listing error returned; success only with a recorded match; otherwise NoIDByPrefixError
	cell, _ := boundCell(c.P, cb, matchFV)
	for _, r := range eng.Returns(fn) {
		if !eng.IsNilConst(eng.RetVal(r, 1)) {
			continue
		}
		c.MustPass(rule, "Find:success→listing-ok", eng.Entry(fn), r, eng.SuccessCut(list), "List returned nil")
		okVal := cell != nil && loadOfCell(eng.RetVal(r, 0), cell)
		c.Check(okVal, rule, "Find:success-returns-the-match", r.Pos(), "the ID returned is the recorded match")
		var outerNull []ssa.CallInstruction
		for _, call := range eng.Calls(fn) {
			if eng.MethodName(call) == "IsNull" {
				outerNull = append(outerNull, call)
			}
		}
		c.MustPass(rule, "Find:success→a-match-exists", eng.Entry(fn), r, eng.ResultCut(false, 0, outerNull...), "!match.IsNull()")
	}
	c.Floor(rule, 6, 6)
}

// ruleHardlinkOnce (C54): in restore-size mode every node is counted as an entry, sizes of
// nodes with several links are added once per (device, inode) and snapshot.
func ruleHardlinkOnce(c *eng.Ctx) {
	const rule = "restore-size-accounting"
	fn := c.NeedFn(rule, "cmd/restic.statsWalkTree")
	if fn == nil {
		return
	}
	var lit *ssa.Function
	for _, l := range c.P.Lits(fn) {
		if l.Parent() == fn {
			lit = l
		}
	}
	if lit == nil {
		c.Unk(rule, "statsWalkTree:callback", fn.Pos(), "walk callback not found")
		return
	}
	modeV, ok := constVal(c, rule, "cmd/restic.countModeRestoreSize")
	if !ok {
		return
	}
	sizeF := c.P.Field("cmd/restic.statsContainer", "TotalSize")
	cntF := c.P.Field("cmd/restic.statsContainer", "TotalFileCount")
	linksF := c.P.Field(pkgData+".Node", "Links")
	inodeF := c.P.Field(pkgData+".Node", "Inode")
	modeEdges := eng.CmpEdgesEq(lit, func(x, y ssa.Value) bool {
		k, isK := y.(*ssa.Const)
		return isK && k.Value != nil && k.Value.Kind() == modeV.Kind() && constant.Compare(k.Value, token.EQL, modeV)
	})
	if len(modeEdges) == 0 {
		c.Unk(rule, "restore-size:mode-test", lit.Pos(), "the comparison of the counting mode with countModeRestoreSize was not found")
		return
	}
	// stores to TotalSize / TotalFileCount behind the restore-size edge
	var sizeStores, cntStores []*ssa.Store
	for _, st := range c.P.FieldStoresIn(lit, sizeF) {
		if eng.FindPath(eng.Entry(lit), st, eng.NewCut().AddEdges(modeEdges...)) == nil {
			sizeStores = append(sizeStores, st)
		}
	}
	for _, st := range c.P.FieldStoresIn(lit, cntF) {
		if eng.FindPath(eng.Entry(lit), st, eng.NewCut().AddEdges(modeEdges...)) == nil {
			cntStores = append(cntStores, st)
		}
	}
	c.Check(len(sizeStores) == 2 && len(cntStores) == 1, rule, "restore-size:accounting-sites", lit.Pos(), "restore-size mode has one entry counter update and two size updates (single link / first of several links) (%d/%d)", len(cntStores), len(sizeStores))
	// every node counts as an entry: from the mode edge, every return passes the counter store
	for _, e := range modeEdges {
		for _, cs := range cntStores {
			lost := eng.FindPathF(eng.EdgeStart(lit, e), func(in ssa.Instruction) bool { _, isRet := in.(*ssa.Return); return isRet }, eng.NewCut().AddInstrs(cs))
			c.Check(lost == nil, rule, "restore-size:every-node-counted", cs.Pos(), "in restore-size mode every node increments TotalFileCount %s", c.P.PathString(lost))
		}
	}
	// hard links: Has / Add on the index
	var has, add []ssa.CallInstruction
	for _, call := range eng.Calls(lit) {
		switch eng.MethodName(call) {
		case "Has":
			has = append(has, call)
		case "Add":
			add = append(add, call)
		}
	}
	c.Check(len(has) == 1 && len(add) == 1, rule, "restore-size:hardlink-index-used", lit.Pos(), "the hard link index is consulted and updated (%d/%d)", len(has), len(add))
	if len(has) == 1 && len(add) == 1 {
		for _, call := range []ssa.CallInstruction{has[0], add[0]} {
			c.Check(mentionsFieldDeepArgs(eng.Arg(call, 0), inodeF), rule, "restore-size:hardlink-key:"+eng.MethodName(call), call.Pos(), "%s is keyed by the node's inode (and device)", eng.MethodName(call))
		}
		single := eng.CmpEdgesEq(lit, func(x, y ssa.Value) bool {
			k, isK := eng.ConstInt(y)
			return isK && k == 1 && mentionsFieldDeepArgs(x, linksF)
		})
		dirEdges := nodeTypeEdges(c, lit, nil, "NodeTypeDir")
		inodeZero := eng.CmpEdgesEq(lit, func(x, y ssa.Value) bool {
			k, isK := eng.ConstInt(y)
			return isK && k == 0 && mentionsFieldDeepArgs(x, inodeF)
		})
		for _, st := range sizeStores {
			// a size is added only for: single link / directory, or first sight of the inode, or unknown inode
			cut := eng.NewCut().AddEdges(single...).AddEdges(dirEdges...).AddEdges(inodeZero...)
			cut = eng.Union(cut, eng.ResultCut(false, 0, has...))
			c.MustPass(rule, "restore-size:size-added-once-per-inode", eng.Entry(lit), st, cut, "Links == 1, a directory, an inode not seen before in this snapshot, or inode 0")
		}
		// first sight is recorded: from Has==false the size update passes Add
		for _, e := range eng.ResultCut(false, 0, has...).EdgeList() {
			for _, st := range sizeStores {
				if eng.FindPath(eng.EdgeStart(lit, e), st, nil) == nil {
					continue
				}
				c.MustPass(rule, "restore-size:first-sight-recorded", eng.EdgeStart(lit, e), st, eng.CallCut(add...), "hardLinkIndex.Add(inode, device)")
			}
		}
	}
	// a fresh index per snapshot
	if ws := c.P.Fn("cmd/restic.statsWalkSnapshot"); ws != nil {
		news := c.P.CallsWhere(ws, func(call ssa.CallInstruction) bool { return strings.Contains(c.P.CalleeName(call), "NewHardlinkIndex") })
		walks := c.P.CallsTo(ws, "cmd/restic.statsWalkTree")
		okFresh := len(news) == 1 && len(walks) == 1
		if okFresh {
			okFresh = resultOf(eng.Arg(walks[0], 3), news[0], 0)
		}
		c.Check(okFresh, rule, "statsWalkSnapshot:fresh-hardlink-index", ws.Pos(), "each snapshot is walked with a hard link index created for it ('once per snapshot')")
	} else {
		c.Unk(rule, "anchor:statsWalkSnapshot", 0, "function does not resolve")
	}
	_ = token.ADD
	c.Floor(rule, 8, 9)
}

// ruleBucketSelection (C52): the n/t subset is selected by residue of the first ID byte, the
// accepted n and t make the residues 0..t-1 correspond to n = 1..t, and percentage/size
// subsets read at least one pack of a non-empty repository.
func ruleBucketSelection(c *eng.Ctx) {
	const rule = "bucket-selection"
	sel := c.NeedFn(rule, "cmd/restic.selectPacksByBucket")
	if sel != nil {
		isB := eng.IsParam(sel, "bucket")
		isT := eng.IsParam(sel, "totalBuckets")
		okPred := false
		for _, b := range sel.Blocks {
			for _, in := range b.Instrs {
				bo, ok := in.(*ssa.BinOp)
				if !ok || bo.Op != token.EQL {
					continue
				}
				l, r := bo.X, bo.Y
				rem, isRem := l.(*ssa.BinOp)
				sub, isSub := r.(*ssa.BinOp)
				if !isRem || !isSub {
					rem, isRem = r.(*ssa.BinOp)
					sub, isSub = l.(*ssa.BinOp)
				}
				if !isRem || !isSub || rem.Op != token.REM || sub.Op != token.SUB {
					continue
				}
				k, isK := eng.ConstInt(sub.Y)
				// the dividend is byte 0 of the pack ID
				byte0 := false
				v := rem.X
				if cv, isCv := v.(*ssa.Convert); isCv {
					v = cv.X
				}
				switch x := v.(type) {
				case *ssa.UnOp:
					if ia, isIA := x.X.(*ssa.IndexAddr); isIA {
						if kk, isKK := eng.ConstInt(ia.Index); isKK && kk == 0 {
							byte0 = true
						}
					}
				case *ssa.Index:
					if kk, isKK := eng.ConstInt(x.Index); isKK && kk == 0 {
						byte0 = true
					}
				}
				if isT(rem.Y) && isB(sub.X) && isK && k == 1 && byte0 {
					okPred = true
				}
			}
		}
		c.Check(okPred, rule, "selectPacksByBucket:residue-predicate", sel.Pos(), "a pack is selected iff pack[0] %% totalBuckets == bucket-1 (each pack has exactly one residue, so the buckets n = 1..t are disjoint and cover all packs when 1 <= n <= t)")
	}
	maxB, okMax := constIntVal(c, rule, "cmd/restic.totalBucketsMax")
	c.Check(okMax && maxB == 256, rule, "totalBucketsMax==256", 0, "t is limited to 256, the number of values of the one ID byte the residue is taken of (a larger t would leave buckets permanently empty)")
	if cf := c.NeedFn(rule, "cmd/restic.checkFlags"); cf != nil {
		conv := c.P.CallsTo(cf, "cmd/restic.stringToIntSlice")
		if len(conv) != 1 {
			c.Unk(rule, "checkFlags:n/t-parse", cf.Pos(), "stringToIntSlice call not found")
		} else {
			// specialised: for each bad combination the nil return is unreachable on the n/t branch
			elem := func(i int64) []ssa.Value {
				var out []ssa.Value
				for _, b := range cf.Blocks {
					for _, in := range b.Instrs {
						if ld, ok := in.(*ssa.UnOp); ok && ld.Op == token.MUL {
							if ia, isIA := ld.X.(*ssa.IndexAddr); isIA && resultOf(ia.X, conv[0], 0) {
								if k, isK := eng.ConstInt(ia.Index); isK && k == i {
									out = append(out, ld)
								}
							}
						}
					}
				}
				return out
			}
			nLoads, tLoads := elem(0), elem(1)
			isN := func(v ssa.Value) bool {
				for _, l := range nLoads {
					if l == v {
						return true
					}
				}
				return false
			}
			isTt := func(v ssa.Value) bool {
				for _, l := range tLoads {
					if l == v {
						return true
					}
				}
				return false
			}
			type scen struct {
				name string
				pick func(bo *ssa.BinOp) (bool, bool) // (seed?, value)
			}
			scens := []scen{
				{"n==0", func(bo *ssa.BinOp) (bool, bool) {
					if k, isK := eng.ConstInt(bo.Y); isK && k == 0 && isN(bo.X) && bo.Op == token.EQL {
						return true, true
					}
					return false, false
				}},
				{"t==0", func(bo *ssa.BinOp) (bool, bool) {
					if k, isK := eng.ConstInt(bo.Y); isK && k == 0 && isTt(bo.X) && bo.Op == token.EQL {
						return true, true
					}
					return false, false
				}},
				{"n>t", func(bo *ssa.BinOp) (bool, bool) {
					if isN(bo.X) && isTt(bo.Y) && bo.Op == token.GTR {
						return true, true
					}
					return false, false
				}},
				{"t>256", func(bo *ssa.BinOp) (bool, bool) {
					if k, isK := eng.ConstInt(bo.Y); isK && k == maxB && isTt(bo.X) && bo.Op == token.GTR {
						return true, true
					}
					return false, false
				}},
			}
			for _, sc := range scens {
				seeded := 0
				seed := func(env *eng.PSEnv) {
					env.AssumeNilAlways(eng.ErrResult(conv[0]), true)
					for _, b := range cf.Blocks {
						for _, in := range b.Instrs {
							if bo, ok := in.(*ssa.BinOp); ok {
								if do, val := sc.pick(bo); do {
									env.Assume(bo, val)
									seeded++
								}
							}
						}
					}
				}
				var hit *eng.PSResult
				for _, r := range eng.Returns(cf) {
					if !eng.IsNilConst(eng.RetVal(r, 0)) {
						continue
					}
					r := r
					if res := c.P.FindPathSeeded(eng.After(conv[0].(ssa.Instruction)), func(in ssa.Instruction) bool { return in == ssa.Instruction(r) }, nil, nil, seed); res != nil {
						hit = res
					}
				}
				c.Check(seeded > 0 && hit == nil, rule, "checkFlags:rejects:"+sc.name, cf.Pos(), "--read-data-subset=n/t with %s is rejected (comparison found: %v)", sc.name, seeded > 0)
			}
		}
	}
	if pp := c.NeedFn(rule, "cmd/restic.selectRandomPacksByPercentage"); pp != nil {
		// packsToCheck is raised to 1 when there are packs and the share rounds to 0
		okMin := false
		for _, b := range pp.Blocks {
			for _, in := range b.Instrs {
				if phi, ok := in.(*ssa.Phi); ok {
					for _, e := range phi.Edges {
						if k, isK := eng.ConstInt(e); isK && k == 1 {
							okMin = true
						}
					}
				}
			}
		}
		c.Check(okMin, rule, "selectRandomPacksByPercentage:at-least-one-pack", pp.Pos(), "the number of packs to read is raised to 1 for a non-empty repository")
	}
	c.Floor(rule, 7, 8)
}
