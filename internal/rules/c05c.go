package rules

import (
	"golang.org/x/tools/go/ssa"

	"verif/internal/eng"
)

// isGlobalLoadAddr: v is the address of (or a load from) the named package-level variable.
func isGlobalLoadAddr(v ssa.Value, name string) bool {
	for i := 0; i < 4; i++ {
		switch x := v.(type) {
		case *ssa.Global:
			return eng.GlobalName(x) == name
		case *ssa.UnOp:
			v = x.X
		case *ssa.FieldAddr:
			v = x.X
		default:
			return false
		}
	}
	return false
}
