package rules

import (
	"go/token"
	"go/types"

	"golang.org/x/tools/go/ssa"

	"verif/internal/eng"
)

const pkgArch = "internal/archiver"

// mentionsField reports whether v is (derived through conversions / method receivers from)
// a load of field `f`.
func mentionsField(v ssa.Value, f *types.Var) bool {
	if f == nil || v == nil {
		return false
	}
	if eng.LoadsField(v, f) {
		return true
	}
	for _, r := range eng.Origins(v, nil) {
		if eng.LoadsField(r, f) {
			return true
		}
	}
	return false
}

// ruleChangeDetection (C40): a file counts as unchanged only if type, size, mtime and —
// unless switched off — ctime and inode all match the parent snapshot's node. Decided by
// specialised evaluation: with the comparison of one attribute fixed to "differs" (and the
// respective ignore flag off) no `return false` of fileChanged may be reachable.
func ruleChangeDetection(c *eng.Ctx) {
	const rule = "change-detection-fields"
	fn := c.NeedFn(rule, pkgArch+".fileChanged")
	if fn == nil {
		return
	}
	nf := func(n string) *types.Var { return c.P.Field("internal/data.Node", n) }
	isNode := eng.IsParam(fn, "node")
	var unchanged []*ssa.Return
	for _, r := range eng.Returns(fn) {
		if k, ok := eng.RetVal(r, 0).(*ssa.Const); ok && k.Value != nil && k.Value.String() == "true" {
			continue
		}
		// every return that is not the constant `true` may say "unchanged"
		unchanged = append(unchanged, r)
	}
	if len(unchanged) == 0 {
		c.Unk(rule, "fileChanged:unchanged-return", fn.Pos(), "no return that can yield false found")
		return
	}
	ignCtime, _ := constIntVal(c, rule, pkgArch+".ChangeIgnoreCtime")
	ignInode, _ := constIntVal(c, rule, pkgArch+".ChangeIgnoreInode")
	// a comparison and the outcome that means "this attribute differs"
	type cmp struct {
		v       ssa.Value
		differs bool
	}
	comparators := func(field *types.Var, viaEqual bool) []cmp {
		var out []cmp
		if viaEqual {
			for _, call := range c.P.CallsTo(fn, "time.Time.Equal") {
				if mentionsField(eng.Arg(call, 0), field) || mentionsField(eng.Recv(call), field) {
					out = append(out, cmp{call.Value(), false})
				}
			}
			return out
		}
		for _, b := range fn.Blocks {
			for _, in := range b.Instrs {
				bo, ok := in.(*ssa.BinOp)
				if !ok || (bo.Op != token.EQL && bo.Op != token.NEQ) {
					continue
				}
				if mentionsField(bo.X, field) || mentionsField(bo.Y, field) {
					out = append(out, cmp{bo, bo.Op == token.NEQ})
				}
			}
		}
		return out
	}
	flagChecks := func(flag int64) []cmp {
		var out []cmp
		for _, b := range fn.Blocks {
			for _, in := range b.Instrs {
				bo, ok := in.(*ssa.BinOp)
				if !ok || (bo.Op != token.EQL && bo.Op != token.NEQ) {
					continue
				}
				and, ok := bo.X.(*ssa.BinOp)
				if !ok || and.Op != token.AND {
					continue
				}
				k, isK := eng.ConstInt(and.Y)
				z, isZ := eng.ConstInt(bo.Y)
				if !isK || k != flag || !isZ || z != 0 {
					continue
				}
				// flags&F == 0 is "the attribute is checked"
				out = append(out, cmp{bo, bo.Op == token.EQL})
			}
		}
		return out
	}
	attrs := []struct {
		key, what string
		cmps      []cmp
		flag      int64
	}{
		{"type-is-file", "node.Type == NodeTypeFile", nil, 0},
		{"size-equal", "uint64(fi.Size) == node.Size", comparators(nf("Size"), false), 0},
		{"mtime-equal", "fi.ModTime.Equal(node.ModTime)", comparators(nf("ModTime"), true), 0},
		{"ctime-equal-unless-ignored", "fi.ChangeTime.Equal(node.ChangeTime) unless --ignore-ctime", comparators(nf("ChangeTime"), true), ignCtime},
		{"inode-equal-unless-ignored", "node.Inode == fi.Inode unless --ignore-inode", comparators(nf("Inode"), false), ignInode},
	}
	// the type test compares with the NodeTypeFile variable
	for _, b := range fn.Blocks {
		for _, in := range b.Instrs {
			bo, ok := in.(*ssa.BinOp)
			if !ok || (bo.Op != token.EQL && bo.Op != token.NEQ) {
				continue
			}
			x, y := bo.X, bo.Y
			if nodeTypeName(c, y) == "" {
				x, y = y, x
			}
			if nodeTypeName(c, y) == "NodeTypeFile" && mentionsField(x, nf("Type")) {
				attrs[0].cmps = append(attrs[0].cmps, cmp{bo, bo.Op == token.NEQ})
			}
		}
	}
	c.MustPass(rule, "fileChanged:node-present→unchanged", eng.Entry(fn), unchanged[0], eng.NewCut().AddEdges(eng.NilEdges(fn, isNode, false)...), "node != nil")
	for _, a := range attrs {
		key := "fileChanged:" + a.key + "→unchanged"
		if len(a.cmps) == 0 {
			c.Bad(rule, key, fn.Pos(), "fileChanged has no equality comparison of this attribute (%s)", a.what)
			continue
		}
		var fl []cmp
		if a.flag != 0 {
			fl = flagChecks(a.flag)
			if len(fl) == 0 {
				c.Bad(rule, key, fn.Pos(), "the ignore flag %d is never tested in fileChanged", a.flag)
				continue
			}
		}
		seedOK := true
		seed := func(env *eng.PSEnv) {
			for _, m := range a.cmps {
				if !env.Assume(m.v, m.differs) {
					seedOK = false
				}
			}
			for _, m := range fl {
				if !env.Assume(m.v, m.differs) {
					seedOK = false
				}
			}
		}
		var hit *eng.PSResult
		for _, r := range unchanged {
			r := r
			if res := c.P.FindPathSeeded(eng.Entry(fn), func(in ssa.Instruction) bool { return in == ssa.Instruction(r) }, nil, nil, seed); res != nil {
				hit = res
				break
			}
		}
		switch {
		case !seedOK:
			c.Unk(rule, key, fn.Pos(), "could not specialise the comparison (%s)", a.what)
		case hit != nil && hit.Exhausted:
			c.Unk(rule, key, fn.Pos(), "path search exhausted")
		case hit != nil:
			c.Bad(rule, key, fn.Pos(), "with the attribute differing (%s false) fileChanged can still report 'unchanged' via %s", a.what, c.P.PathString(hit.Path))
		default:
			c.Ok(rule, key, fn.Pos(), "with %s false (%d comparison(s) specialised%s) no return of fileChanged other than `true` is reachable", a.what, len(a.cmps), map[bool]string{true: ", ignore flag off", false: ""}[a.flag != 0])
		}
	}
	c.Floor(rule, 6, 6)
}

// ruleReuseGuard (C40): the parent's blob list is reused only for an unchanged file whose
// blobs are all still in the index.
func ruleReuseGuard(c *eng.Ctx) {
	const rule = "reuse-guard"
	fn := c.NeedFn(rule, pkgArch+".(*Archiver).save")
	if fn == nil {
		return
	}
	contentF := c.P.Field("internal/data.Node", "Content")
	changed := c.P.CallsTo(fn, pkgArch+".fileChanged")
	present := c.P.CallsTo(fn, pkgArch+".(*Archiver).allBlobsPresent")
	isPrev := eng.IsParam(fn, "previous")
	n := 0
	for _, st := range c.P.FieldStoresIn(fn, contentF) {
		if st.Parent() != fn {
			continue
		}
		// value is previous.Content
		fromPrev := false
		if ld, ok := st.Val.(*ssa.UnOp); ok {
			if fa, ok := ld.X.(*ssa.FieldAddr); ok && eng.FieldVar(fa.X.Type(), fa.Field) == contentF && isPrev(fa.X) {
				fromPrev = true
			}
		}
		if !fromPrev {
			continue
		}
		n++
		c.MustPass(rule, "Archiver.save:unchanged→reuse-content", eng.Entry(fn), st, eng.ResultCut(false, 0, changed...), "fileChanged(fi, previous, flags) is false")
		c.MustPass(rule, "Archiver.save:blobs-present→reuse-content", eng.Entry(fn), st, eng.ResultCut(true, 0, present...), "allBlobsPresent(previous)")
		c.MustPass(rule, "Archiver.save:parent-node-exists→reuse-content", eng.Entry(fn), st, eng.NewCut().AddEdges(eng.NilEdges(fn, isPrev, false)...), "previous != nil")
	}
	if n == 0 {
		c.Unk(rule, "Archiver.save:reuse-site", fn.Pos(), "`node.Content = previous.Content` not found")
	}
	// fileChanged is asked about the same previous node and the file's own info
	for _, ch := range changed {
		c.Check(isPrev(eng.Arg(ch, 1)), rule, "Archiver.save:compares-with-parent-node", ch.Pos(), "fileChanged is given the parent's node for this path")
	}
	// allBlobsPresent looks every blob up
	if ab := c.NeedFn(rule, pkgArch+".(*Archiver).allBlobsPresent"); ab != nil {
		var lookups []ssa.CallInstruction
		for _, call := range eng.Calls(ab) {
			if eng.MethodName(call) == "LookupBlobSize" {
				lookups = append(lookups, call)
			}
		}
		ok := len(lookups) > 0
		for _, r := range eng.Returns(ab) {
			if k, isK := eng.RetVal(r, 0).(*ssa.Const); isK && k.Value != nil && k.Value.String() == "false" {
				// false only after a failed lookup: fine
				continue
			}
		}
		c.Check(ok, rule, "allBlobsPresent:looks-up-every-blob", ab.Pos(), "allBlobsPresent consults the index for the blobs of the parent's content list")
		for _, l := range lookups {
			for _, r := range eng.Returns(ab) {
				if k, isK := eng.RetVal(r, 0).(*ssa.Const); isK && k.Value != nil && k.Value.String() == "true" {
					// true is returned only via the loop exit; a failed lookup returns false
					c.MustPass(rule, "allBlobsPresent:missing-blob→false", eng.After(l.(ssa.Instruction)), r, eng.ResultCut(true, 1, l), "the blob was found in the index")
				}
			}
		}
	}
	c.Floor(rule, 5, 6)
}

// ruleSkipIfUnchanged (C40): the snapshot is omitted exactly on parent-exists ∧ flag ∧ equal tree.
func ruleSkipIfUnchanged(c *eng.Ctx) {
	const rule = "skip-if-unchanged"
	fn := c.NeedFn(rule, pkgArch+".(*Archiver).Snapshot")
	if fn == nil {
		return
	}
	parentF := c.P.Field(pkgArch+".SnapshotOptions", "ParentSnapshot")
	skipF := c.P.Field(pkgArch+".SnapshotOptions", "SkipIfUnchanged")
	saves := c.P.CallsTo(fn, fnSaveSnapshot)
	eq := c.P.CallsTo(fn, fnIDEqual)
	n := 0
	for _, r := range eng.Returns(fn) {
		// the "skipped" return: nil snapshot, nil error
		if len(r.Results) != 4 {
			continue
		}
		sn, isK := eng.RetVal(r, 0).(*ssa.Const)
		er, isK2 := eng.RetVal(r, 3).(*ssa.Const)
		if !isK || !isK2 || !sn.IsNil() || !er.IsNil() {
			continue
		}
		n++
		c.MustPass(rule, "Snapshot:skip-needs-parent", eng.Entry(fn), r, eng.NewCut().AddEdges(eng.NilEdges(fn, func(v ssa.Value) bool { return mentionsField(v, parentF) || eng.LoadsField(v, parentF) }, false)...), "opts.ParentSnapshot != nil")
		c.MustPass(rule, "Snapshot:skip-needs-flag", eng.Entry(fn), r, eng.NewCut().AddEdges(eng.FieldEdges(fn, skipF, true)...), "opts.SkipIfUnchanged")
		c.MustPass(rule, "Snapshot:skip-needs-equal-tree", eng.Entry(fn), r, eng.ResultCut(true, 0, eq...), "rootTreeID.Equal(*parent.Tree)")
		for _, s := range saves {
			c.Check(eng.FindPath(eng.After(s.(ssa.Instruction)), r, nil) == nil, rule, "Snapshot:skip-before-save", r.Pos(), "the skip return is not reachable after the snapshot was saved")
		}
	}
	c.Check(n >= 1, rule, "Snapshot:skip-return-present", fn.Pos(), "a return yielding (nil snapshot, nil error) exists (%d found; each is checked)", n)
	// and with an equal tree and the flag the snapshot is not saved: SaveSnapshot passes the negation
	for _, s := range saves {
		cut := eng.Union(eng.NewCut().AddEdges(eng.FieldEdges(fn, skipF, false)...),
			eng.NewCut().AddEdges(eng.NilEdges(fn, func(v ssa.Value) bool { return eng.LoadsField(v, parentF) }, true)...),
			eng.ResultCut(false, 0, eq...))
		treeF := c.P.Field("internal/data.Snapshot", "Tree")
		cut.AddEdges(eng.NilEdges(fn, func(v ssa.Value) bool { return eng.LoadsField(v, treeF) }, true)...)
		c.MustPass(rule, "Snapshot:changed-or-no-flag→save", eng.Entry(fn), s.(ssa.Instruction), cut, "no parent, flag off, parent without tree, or the trees differ")
	}
	c.Floor(rule, 5, 6)
}
