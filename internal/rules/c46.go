package rules

import (
	"go/token"
	"strings"

	"golang.org/x/tools/go/ssa"

	"verif/internal/eng"
)

const pkgFuse = "internal/fuse"

// ruleFuseRead (C46): structural necessary conditions of "a read returns exactly the requested
// range", not the range arithmetic itself:
//   - Open fills cumsize with running sums: what is stored at position i+1 is the accumulator
//     after adding the size looked up for Content[i] in the same iteration, and a blob whose
//     size is unknown fails the open;
//   - getBlobAt uses Content[i] both as the cache key and as the ID it loads (a mismatch hands
//     out another blob's bytes under this blob's key);
//   - Read asks for the blobs startContent, startContent+1, … — the index handed to getBlobAt
//     is the loop variable, which starts at the position found by the search and goes up by one;
//   - every byte of the response is copied from such a blob into resp.Data, and the response is
//     cut to the number of bytes that copy reported;
//   - Read and getBlobAt write to nothing that is shared between concurrent readers of one
//     open file: no store goes through the receiver.
func ruleFuseRead(c *eng.Ctx) {
	const rule = "fuse-read"
	if open := c.NeedFn(rule, pkgFuse+".(*file).Open"); open != nil {
		var lookups []ssa.CallInstruction
		for _, call := range eng.Calls(open) {
			if eng.MethodName(call) == "LookupBlobSize" {
				lookups = append(lookups, call)
			}
		}
		okSum := false
		for _, b := range open.Blocks {
			for _, in := range b.Instrs {
				st, ok := in.(*ssa.Store)
				if !ok {
					continue
				}
				ia, ok := st.Addr.(*ssa.IndexAddr)
				if !ok || !strings.HasSuffix(ia.X.Type().String(), "[]uint64") {
					continue
				}
				// index i+1 …
				idx, isAdd := ia.Index.(*ssa.BinOp)
				if !isAdd || idx.Op != token.ADD {
					continue
				}
				if k, isK := eng.ConstInt(idx.Y); !isK || k != 1 {
					continue
				}
				// … receives acc + size, where acc is the phi that carries this very sum around the loop
				sum, isSum := st.Val.(*ssa.BinOp)
				if !isSum || sum.Op != token.ADD {
					continue
				}
				acc, size := sum.X, sum.Y
				if _, isPhi := acc.(*ssa.Phi); !isPhi {
					acc, size = size, acc
				}
				phi, isPhi := acc.(*ssa.Phi)
				if !isPhi {
					continue
				}
				carries := false
				for _, e := range phi.Edges {
					if e == ssa.Value(sum) {
						carries = true
					}
				}
				fromLookup := false
				for _, o := range eng.Origins(size, nil) {
					for _, l := range lookups {
						if r := eng.Results(l); len(r) > 0 && o == r[0] {
							fromLookup = true
						}
					}
				}
				if carries && fromLookup {
					okSum = true
				}
			}
		}
		c.Check(okSum, rule, "Open:cumsize-holds-running-sums", open.Pos(), "cumsize[i+1] = (sum so far) + size of Content[i]")
		for _, l := range lookups {
			// not found → error
			bad := false
			for _, e := range eng.ResultCut(false, 1, l).EdgeList() {
				for _, r := range eng.Returns(open) {
					if eng.FindPath(eng.EdgeStart(open, e), r, nil) != nil && c.P.MayBeNil(eng.RetVal(r, 1)) {
						bad = true
					}
				}
			}
			c.Check(!bad, rule, "Open:unknown-blob-size-fails", l.Pos(), "a blob whose size the index does not know fails the open")
		}
		c.Check(len(lookups) == 1, rule, "Open:looks-sizes-up", open.Pos(), "%d LookupBlobSize calls", len(lookups))
	}
	contentF := c.P.Field("internal/data.Node", "Content")
	contentAt := func(v ssa.Value, isIdx func(ssa.Value) bool) bool {
		ld, ok := eng.Strip(v).(*ssa.UnOp)
		if !ok || ld.Op != token.MUL {
			return false
		}
		ia, ok := ld.X.(*ssa.IndexAddr)
		return ok && contentF != nil && mentionsFieldDeepArgs(ia.X, contentF) && isIdx(ia.Index)
	}
	if gb := c.NeedFn(rule, pkgFuse+".(*openFile).getBlobAt"); gb != nil && len(gb.Params) >= 3 {
		idxP := gb.Params[2]
		var goc []ssa.CallInstruction
		for _, call := range eng.Calls(gb) {
			if strings.HasSuffix(c.P.CalleeName(call), ".GetOrCompute") || eng.MethodName(call) == "GetOrCompute" {
				goc = append(goc, call)
			}
		}
		c.Check(len(goc) == 1, rule, "getBlobAt:goes-through-the-blob-cache", gb.Pos(), "%d GetOrCompute calls", len(goc))
		for _, g := range goc {
			key := eng.Arg(g, 0)
			if g.Common().IsInvoke() {
				key = g.Common().Args[0]
			}
			c.Check(contentAt(key, eng.SameAs(idxP)), rule, "getBlobAt:cache-key-is-Content[i]", g.Pos(), "the cache key is f.node.Content[i]")
		}
		okLoad := false
		for _, lit := range c.P.Lits(gb) {
			for _, call := range eng.Calls(lit) {
				if eng.MethodName(call) != "LoadBlob" {
					continue
				}
				for _, idSt := range structFieldStores(call.Common().Args[1], "ID") {
					if contentAt(idSt, func(v ssa.Value) bool {
						for _, o := range capturedOrigins(c, lit, v) {
							if o == ssa.Value(idxP) {
								return true
							}
						}
						return false
					}) {
						okLoad = true
					}
				}
			}
		}
		c.Check(okLoad, rule, "getBlobAt:loads-Content[i]", gb.Pos(), "on a cache miss the blob loaded is f.node.Content[i] — the key's own blob")
		noReceiverStores(c, rule, "getBlobAt", gb)
	}
	if rd := c.NeedFn(rule, pkgFuse+".(*openFile).Read"); rd != nil && len(rd.Params) >= 4 {
		respP := rd.Params[3]
		gets := c.P.CallsTo(rd, pkgFuse+".(*openFile).getBlobAt")
		c.Check(len(gets) == 1, rule, "Read:loads-blobs", rd.Pos(), "%d getBlobAt calls", len(gets))
		for _, g := range gets {
			phi, isPhi := eng.Arg(g, 1).(*ssa.Phi)
			okSeq := isPhi && len(phi.Edges) == 2
			fromSearch := false
			if okSeq {
				step := 0
				for _, e := range phi.Edges {
					if bo, ok := e.(*ssa.BinOp); ok && bo.Op == token.ADD && bo.X == ssa.Value(phi) {
						if k, isK := eng.ConstInt(bo.Y); isK && k == 1 {
							step++
							continue
						}
					}
					// the start: derived from sort.Search
					var walk func(v ssa.Value, d int) bool
					walk = func(v ssa.Value, d int) bool {
						if d > 4 {
							return false
						}
						if call, ok := v.(*ssa.Call); ok && c.P.CalleeName(call) == "sort.Search" {
							return true
						}
						if bo, ok := v.(*ssa.BinOp); ok {
							return walk(bo.X, d+1) || walk(bo.Y, d+1)
						}
						return false
					}
					fromSearch = walk(e, 0)
				}
				okSeq = step == 1
			}
			c.Check(okSeq && fromSearch, rule, "Read:blobs-taken-in-sequence", g.Pos(), "getBlobAt receives the loop variable: the position found by the search, then +1 per round")
		}
		// copies
		nCopy := 0
		var copies []ssa.Value
		for _, call := range eng.Calls(rd) {
			bi, ok := call.Common().Value.(*ssa.Builtin)
			if !ok || bi.Name() != "copy" {
				continue
			}
			nCopy++
			copies = append(copies, call.Value())
			srcOK := false
			for _, o := range eng.Origins(call.Common().Args[1], nil) {
				for _, g := range gets {
					if r := eng.Results(g); len(r) > 0 && o == r[0] {
						srcOK = true
					}
				}
			}
			dstOK := false
			for _, o := range eng.Origins(call.Common().Args[0], nil) {
				if ld, ok := o.(*ssa.UnOp); ok && ld.Op == token.MUL {
					if fa, isFA := ld.X.(*ssa.FieldAddr); isFA && eng.SameAs(respP)(fa.X) {
						dstOK = true
					}
				}
			}
			c.Check(srcOK && dstOK, rule, "Read:bytes-copied-from-the-loaded-blob-into-the-response", call.Pos(), "copy(dst ⊂ resp.Data, blob from getBlobAt)")
		}
		c.Check(nCopy == 1, rule, "Read:one-copy-site", rd.Pos(), "%d copy calls", nCopy)
		// the response is cut to the bytes copied
		okLen := false
		for _, b := range rd.Blocks {
			for _, in := range b.Instrs {
				st, ok := in.(*ssa.Store)
				if !ok {
					continue
				}
				fa, isFA := st.Addr.(*ssa.FieldAddr)
				if !isFA || !eng.SameAs(respP)(fa.X) {
					continue
				}
				sl, isSl := st.Val.(*ssa.Slice)
				if !isSl || sl.High == nil {
					continue
				}
				if k, isK := eng.ConstInt(sl.High); isK && k == 0 {
					continue // the empty file
				}
				// High is an accumulator of copy results
				if phi, isPhi := sl.High.(*ssa.Phi); isPhi {
					for _, e := range phi.Edges {
						if bo, ok := e.(*ssa.BinOp); ok && bo.Op == token.ADD {
							for _, cp := range copies {
								if (bo.X == ssa.Value(phi) && bo.Y == cp) || (bo.Y == ssa.Value(phi) && bo.X == cp) {
									okLen = true
								}
							}
						}
					}
				}
			}
		}
		c.Check(okLen, rule, "Read:response-cut-to-bytes-copied", rd.Pos(), "resp.Data = resp.Data[:readBytes], readBytes being the sum of what copy reported")
		noReceiverStores(c, rule, "Read", rd)
	}
}

// noReceiverStores: fn (and its literals) store through nothing that is reachable from the
// receiver — the state shared by concurrent callers.
func noReceiverStores(c *eng.Ctx, rule, name string, fn *ssa.Function) {
	recv := fn.Params[0]
	rooted := func(v ssa.Value) bool {
		for d := 0; d < 12; d++ {
			switch x := v.(type) {
			case *ssa.FieldAddr:
				v = x.X
			case *ssa.IndexAddr:
				v = x.X
			case *ssa.UnOp:
				if x.Op != token.MUL {
					return false
				}
				// a load: of the spilled receiver itself, or of a pointer field reached from it
				if a, isA := x.X.(*ssa.Alloc); isA {
					if p := eng.SpilledParam(a); p != nil {
						return p == recv
					}
					return false
				}
				v = x.X
			case *ssa.Parameter:
				return x == recv
			case *ssa.FreeVar:
				if bound, _ := boundCell(c.P, x.Parent(), x); bound != nil {
					v = bound
					continue
				}
				return false
			case *ssa.Alloc:
				if p := eng.SpilledParam(x); p != nil {
					return false // storing to the cell of a parameter is local
				}
				return false
			default:
				return false
			}
		}
		return false
	}
	n := 0
	ok := true
	for _, f := range c.P.WithLits(fn) {
		for _, b := range f.Blocks {
			for _, in := range b.Instrs {
				var addr ssa.Value
				switch x := in.(type) {
				case *ssa.Store:
					addr = x.Addr
				case *ssa.MapUpdate:
					addr = x.Map
				default:
					continue
				}
				n++
				if rooted(addr) {
					ok = false
					c.Bad(rule, name+":no-write-to-shared-state", in.Pos(), "%s writes through its receiver (%s): concurrent readers of one open file share it", name, c.P.Describe(addr))
				}
			}
		}
	}
	if ok {
		c.Ok(rule, name+":no-write-to-shared-state", fn.Pos(), "%d stores examined, none through the receiver", n)
	}
}
