package rules

import (
	"go/token"
	"go/types"
	"strings"

	"golang.org/x/tools/go/ssa"

	"verif/internal/eng"
)

const (
	fnRunBackup     = "cmd/restic.runBackup"
	fnArchError     = pkgArch + ".(*Archiver).error"
	fnArchSnapshot  = pkgArch + ".(*Archiver).Snapshot"
	globInvalidData = "cmd/restic.ErrInvalidSourceData"
)

// isGlobalLoad reports whether v is a load of the named package-level variable.
func isGlobalLoad(c *eng.Ctx, v ssa.Value, name string) bool {
	ld, ok := eng.Strip(v).(*ssa.UnOp)
	if !ok || ld.Op != token.MUL {
		return false
	}
	g, ok := ld.X.(*ssa.Global)
	if !ok {
		return false
	}
	return eng.GlobalName(g) == name
}

// successCell finds the `success` flag of runBackup: the captured bool cell the closure
// stored in Archiver.Error sets to false. Returns the closure too.
func successCell(c *eng.Ctx, rule string, fn *ssa.Function) (*ssa.Alloc, *ssa.Function, *ssa.MakeClosure) {
	errF := c.P.Field(pkgArch+".Archiver", "Error")
	for _, st := range c.P.FieldStoresIn(fn, errF) {
		mc, ok := eng.Strip(st.Val).(*ssa.MakeClosure)
		if !ok {
			continue
		}
		lit := mc.Fn.(*ssa.Function)
		for _, b := range lit.Blocks {
			for _, in := range b.Instrs {
				s, ok := in.(*ssa.Store)
				if !ok {
					continue
				}
				fv, isFV := s.Addr.(*ssa.FreeVar)
				k, isK := s.Val.(*ssa.Const)
				if !isFV || !isK || k.Value == nil || k.Value.String() != "false" {
					continue
				}
				bound, _ := boundCell(c.P, lit, fv)
				if cell, isA := bound.(*ssa.Alloc); isA {
					return cell, lit, mc
				}
			}
		}
	}
	c.Unk(rule, "runBackup:error-hook", fn.Pos(), "no closure assigned to Archiver.Error that clears a captured flag found")
	return nil, nil, nil
}

// ruleErrorHook (C55): every error the archiver reports marks the run as incomplete, and an
// incomplete run cannot end with a nil error once the snapshot was written.
func ruleErrorHook(c *eng.Ctx) {
	const rule = "incomplete-status"
	fn := c.NeedFn(rule, fnRunBackup)
	if fn == nil {
		return
	}
	cell, lit, mc := successCell(c, rule, fn)
	if cell == nil {
		return
	}
	// 1. the hook clears the flag on every path
	cut := eng.NewCut()
	for _, b := range lit.Blocks {
		for _, in := range b.Instrs {
			if s, ok := in.(*ssa.Store); ok {
				if _, isFV := s.Addr.(*ssa.FreeVar); isFV {
					if k, isK := s.Val.(*ssa.Const); isK && k.Value != nil && k.Value.String() == "false" {
						if bd, _ := boundCell(c.P, lit, s.Addr.(*ssa.FreeVar)); bd == ssa.Value(cell) {
							cut.AddInstrs(s)
						}
					}
				}
			}
		}
	}
	for _, r := range eng.Returns(lit) {
		c.MustPass(rule, "runBackup:Archiver.Error→success=false", eng.Entry(lit), r, cut, "success = false")
	}
	// 2. nothing sets the flag back: `true` is stored only before the hook is installed
	for _, st := range cellStores(cell) {
		k, isK := st.Val.(*ssa.Const)
		if isK && k.Value != nil && k.Value.String() == "false" {
			continue
		}
		c.Check(eng.FindPath(eng.After(mc), st, nil) == nil && eng.FindPath(eng.After(st), st, nil) == nil, rule, "runBackup:success-never-reset", st.Pos(), "the flag is initialised before the hook exists and never set back to true")
	}
	for _, l := range c.P.Lits(fn) {
		for _, b := range l.Blocks {
			for _, in := range b.Instrs {
				s, ok := in.(*ssa.Store)
				if !ok {
					continue
				}
				fv, isFV := s.Addr.(*ssa.FreeVar)
				if !isFV {
					continue
				}
				if bd, _ := boundCell(c.P, l, fv); bd != ssa.Value(cell) {
					continue
				}
				k, isK := s.Val.(*ssa.Const)
				c.Check(isK && k.Value != nil && k.Value.String() == "false", rule, "runBackup:success-never-reset-in-closures", s.Pos(), "closures only ever clear the flag")
			}
		}
	}
	// 3. after Snapshot returned, a possibly-nil error is returned only with success == true
	snaps := c.P.CallsTo(fn, fnArchSnapshot)
	if len(snaps) == 0 {
		c.Unk(rule, "runBackup:Snapshot-call", fn.Pos(), "call of Archiver.Snapshot not found")
		return
	}
	isFlag := func(v ssa.Value) bool { return loadOfCell(v, cell) }
	okEdges := eng.NewCut().AddEdges(eng.BoolEdges(fn, isFlag, true)...)
	n := 0
	for _, s := range snaps {
		for _, r := range eng.Returns(fn) {
			if eng.FindPath(eng.After(s.(ssa.Instruction)), r, nil) == nil {
				continue
			}
			v := eng.RetVal(r, 0)
			if !c.P.MayBeNil(v) {
				continue
			}
			n++
			c.MustPass(rule, "runBackup:nil-result-needs-success", eng.After(s.(ssa.Instruction)), r, okEdges, "success is still true (no item was reported as unreadable)")
		}
		// the incomplete status is ErrInvalidSourceData itself
		found := false
		for _, r := range eng.Returns(fn) {
			if isGlobalLoad(c, eng.RetVal(r, 0), globInvalidData) && eng.FindPath(eng.After(s.(ssa.Instruction)), r, nil) != nil {
				found = true
				// … and is returned only when the snapshot was saved: Snapshot's error was nil
				c.MustPass(rule, "runBackup:incomplete-only-after-saved-snapshot", eng.Entry(fn), r, eng.SuccessCut(s), "Archiver.Snapshot returned no error")
			}
		}
		c.Check(found, rule, "runBackup:returns-ErrInvalidSourceData", s.Pos(), "after the snapshot runBackup can return ErrInvalidSourceData")
	}
	if n == 0 {
		c.Unk(rule, "runBackup:nil-result", fn.Pos(), "no possibly-nil return after Snapshot found")
	}
	// 4. targets that could not be accessed clear the flag but do not abort the run
	for _, call := range c.P.CallsTo(fn, "cmd/restic.collectTargets") {
		var isInv []ssa.CallInstruction
		for _, is := range eng.Calls(fn) {
			if n := c.P.CalleeName(is); (n == "internal/errors.Is" || n == "errors.Is") && isGlobalLoad(c, eng.Arg(is, 1), globInvalidData) {
				isInv = append(isInv, is)
			}
		}
		reach := false
		for _, e := range eng.ResultCut(true, 0, isInv...).EdgeList() {
			for _, s := range snaps {
				if eng.FindPath(eng.EdgeStart(fn, e), s.(ssa.Instruction), nil) != nil {
					reach = true
				}
			}
			// and on that edge the flag is cleared before the snapshot
			falseStores := eng.NewCut()
			for _, st := range cellStores(cell) {
				if k, isK := st.Val.(*ssa.Const); isK && k.Value != nil && k.Value.String() == "false" {
					falseStores.AddInstrs(st)
				}
			}
			for _, s := range snaps {
				c.MustPass(rule, "runBackup:skipped-target→success=false", eng.EdgeStart(fn, e), s.(ssa.Instruction), falseStores, "success = false")
			}
		}
		c.Check(reach, rule, "runBackup:skipped-target-still-backs-up-the-rest", call.Pos(), "with some targets inaccessible (ErrInvalidSourceData from collectTargets) the snapshot is still taken")
	}
	c.Floor(rule, 6, 7)
}

// ruleExitTable (C55): main maps ErrInvalidSourceData to exit status 3, nil to 0 and nothing
// else to 0; the error travels unchanged from runBackup to that switch.
func ruleExitTable(c *eng.Ctx) {
	const rule = "exit-table"
	fn := c.NeedFn(rule, "cmd/restic.main")
	if fn == nil {
		return
	}
	// the final Exit(exitCode): the Exit call with a non-constant argument
	var exit ssa.CallInstruction
	for _, call := range c.P.CallsTo(fn, "cmd/restic.Exit") {
		if _, isK := eng.Arg(call, 0).(*ssa.Const); !isK {
			if exit != nil {
				c.Unk(rule, "main:final-exit", call.Pos(), "more than one Exit with a computed status")
				return
			}
			exit = call
		}
	}
	if exit == nil {
		c.Unk(rule, "main:final-exit", fn.Pos(), "Exit(exitCode) not found")
		return
	}
	// the error cell: the variable loaded for `== ErrInvalidSourceData`
	var cell ssa.Value
	type cmpSite struct {
		v    *ssa.BinOp
		kind string // nil | invalid
	}
	var cmps []cmpSite
	for _, b := range fn.Blocks {
		for _, in := range b.Instrs {
			bo, ok := in.(*ssa.BinOp)
			if !ok || (bo.Op != token.EQL && bo.Op != token.NEQ) || !eng.IsErrorType(bo.X.Type()) {
				continue
			}
			x, y := bo.X, bo.Y
			if isGlobalLoad(c, x, globInvalidData) {
				x, y = y, x
			}
			ld, isLd := x.(*ssa.UnOp)
			if !isLd || ld.Op != token.MUL {
				continue
			}
			switch {
			case isGlobalLoad(c, y, globInvalidData):
				cell = ld.X
				cmps = append(cmps, cmpSite{bo, "invalid"})
			case eng.IsNilConst(y):
				cmps = append(cmps, cmpSite{bo, "nil"})
			}
		}
	}
	if cell == nil {
		c.Bad(rule, "main:ErrInvalidSourceData→3", exit.Pos(), "main never compares the command's error with ErrInvalidSourceData")
		return
	}
	// only comparisons of that cell made after the command ran (dominated by the last store site)
	var preds []ssa.CallInstruction // boolean predicates applied to the error
	for _, call := range eng.Calls(fn) {
		sig := call.Common().Signature()
		if sig.Results().Len() != 1 {
			continue
		}
		if b, isB := sig.Results().At(0).Type().Underlying().(*types.Basic); !isB || b.Kind() != types.Bool {
			continue
		}
		for _, a := range call.Common().Args {
			if loadOfCell(a, cell) {
				preds = append(preds, call)
			}
		}
	}
	scenario := func(key, what string, seedNil bool, seedInvalid bool, bad func(code int64, known bool) bool) {
		seedOK := true
		seed := func(env *eng.PSEnv) {
			for _, m := range cmps {
				if ld := m.v.X; !loadOfCell(ld, cell) && !loadOfCell(m.v.Y, cell) {
					continue
				}
				var val bool
				switch m.kind {
				case "nil":
					val = seedNil
				case "invalid":
					val = seedInvalid
				}
				if m.v.Op == token.NEQ {
					val = !val
				}
				if !env.Assume(m.v, val) {
					seedOK = false
				}
			}
			for _, p := range preds {
				// a nil error and the plain errors.New value ErrInvalidSourceData satisfy no
				// kind/sentinel predicate other than a comparison with ErrInvalidSourceData itself
				val := false
				if seedInvalid && len(p.Common().Args) == 2 && isGlobalLoad(c, p.Common().Args[1], globInvalidData) {
					val = true
				}
				if seedNil || seedInvalid {
					if !env.Assume(p.Value(), val) {
						seedOK = false
					}
				}
			}
		}
		var hitCode string
		res := c.P.FindPathSeeded(eng.Entry(fn), func(in ssa.Instruction) bool { return in == exit.(ssa.Instruction) }, nil, func(env *eng.PSEnv, _ ssa.Instruction) bool {
			v := env.Resolve(eng.Arg(exit, 0))
			k, isK := eng.ConstInt(v)
			if bad(k, isK) {
				hitCode = v.String()
				return true
			}
			return false
		}, seed)
		switch {
		case !seedOK:
			c.Unk(rule, key, exit.Pos(), "cannot specialise main's error tests")
		case res != nil && res.Exhausted:
			c.Unk(rule, key, exit.Pos(), "path search exhausted")
		case res != nil:
			c.Bad(rule, key, exit.Pos(), "%s: Exit can be reached with status %s via %s", what, hitCode, c.P.PathString(res.Path))
		default:
			c.Ok(rule, key, exit.Pos(), "%s (%d comparisons and %d predicates on the error specialised; every path to Exit(exitCode) explored)", what, len(cmps), len(preds))
		}
	}
	scenario("main:ErrInvalidSourceData→3", "with err == ErrInvalidSourceData the status is 3", false, true, func(k int64, known bool) bool { return !known || k != 3 })
	scenario("main:nil→0", "with err == nil the status is 0", true, false, func(k int64, known bool) bool { return !known || k != 0 })
	scenario("main:non-nil→non-zero", "with err != nil the status is never 0", false, false, func(k int64, known bool) bool { return !known || k == 0 })
	// ErrInvalidSourceData is a plain error value
	if g := c.P.Global(globInvalidData); g != nil {
		plain := false
		for _, st := range c.P.GlobalStores(g) {
			if call := eng.RootCall(st.Val); call != nil {
				n := c.P.CalleeName(call)
				plain = n == "internal/errors.New" || n == "errors.New" || n == "global:internal/errors.New"
			}
		}
		c.Check(plain, rule, "ErrInvalidSourceData:plain-error", g.Pos(), "ErrInvalidSourceData is created by errors.New: not fatal, not a lock/key/repository error")
	} else {
		c.Unk(rule, "anchor:"+globInvalidData, 0, "variable does not resolve")
	}
	// pass-through 1: the closure that runs the command overwrites err only for nil and ErrOK
	for _, lit := range c.P.Lits(fn) {
		execs := c.P.CallsWhere(lit, func(call ssa.CallInstruction) bool { return strings.HasSuffix(c.P.CalleeName(call), ".ExecuteContext") })
		if len(execs) == 0 {
			continue
		}
		var fv *ssa.FreeVar
		for _, f := range lit.FreeVars {
			if b, _ := boundCell(c.P, lit, f); b == cell {
				fv = f
			}
		}
		if fv == nil {
			c.Unk(rule, "main:command-error-cell", lit.Pos(), "the closure executing the command does not assign main's err")
			continue
		}
		isErr := func(v ssa.Value) bool { return loadOfCell(v, fv) }
		allowed := eng.NewCut().AddEdges(eng.NilEdges(lit, isErr, true)...)
		allowed.AddEdges(eng.CmpEdges(lit, func(op token.Token, x, y ssa.Value) (bool, bool) {
			if op != token.EQL && op != token.NEQ {
				return false, false
			}
			if isGlobalLoad(c, x, "cmd/restic.ErrOK") {
				x, y = y, x
			}
			if !isErr(x) || !isGlobalLoad(c, y, "cmd/restic.ErrOK") {
				return false, false
			}
			return true, op == token.EQL
		})...)
		var first *ssa.Store
		for _, b := range lit.Blocks {
			for _, in := range b.Instrs {
				st, ok := in.(*ssa.Store)
				if !ok || st.Addr != ssa.Value(fv) {
					continue
				}
				if call := eng.RootCall(st.Val); call != nil && strings.HasSuffix(c.P.CalleeName(call), ".ExecuteContext") {
					first = st
				}
			}
		}
		if first == nil {
			c.Unk(rule, "main:command-error-stored", lit.Pos(), "the result of ExecuteContext is not stored in err")
			continue
		}
		for _, b := range lit.Blocks {
			for _, in := range b.Instrs {
				st, ok := in.(*ssa.Store)
				if !ok || st.Addr != ssa.Value(fv) || st == first {
					continue
				}
				c.MustPass(rule, "main:error-kept-unless-nil-or-ErrOK", eng.After(first), st, allowed, "err is nil or ErrOK")
			}
		}
		c.Ok(rule, "main:command-error-stored", first.Pos(), "the command's error is stored in the variable main's exit switch reads")
	}
	// pass-through 2: the backup command returns runBackup's error itself
	n := 0
	for _, s := range c.P.AllCallsTo(fnRunBackup) {
		if !strings.HasPrefix(c.P.FnName(s.Fn), "cmd/restic.newBackupCommand") {
			continue
		}
		n++
		direct := false
		for _, r := range eng.Returns(s.Fn) {
			if eng.RootCall(eng.RetVal(r, 0)) == s.Call.Value() && s.Call.Value() != nil {
				direct = true
			}
		}
		c.Check(direct, rule, "backup.RunE:returns-runBackup-error", s.Call.Pos(), "the backup command's RunE returns runBackup's error unchanged")
	}
	if n == 0 {
		c.Unk(rule, "backup.RunE", 0, "call of runBackup from the backup command not found")
	}
	c.Floor(rule, 7, 7)
}

// sourceCall reports whether call reads the backup source or is one of the archiver's own
// item-level functions whose error means "this item could not be saved".
func sourceCall(c *eng.Ctx, call ssa.CallInstruction) bool {
	if call.Common().IsInvoke() {
		t := eng.RecvType(call)
		if n, ok := t.(*types.Named); ok && n.Obj().Pkg() != nil {
			p := eng.Short(n.Obj().Pkg().Path())
			if p == "internal/fs" && (n.Obj().Name() == "FS" || n.Obj().Name() == "File") {
				return call.Common().Method.Name() != "Close"
			}
			if p == pkgArch && n.Obj().Name() == "toNoder" {
				return true
			}
		}
		return false
	}
	switch c.P.CalleeName(call) {
	case pkgArch + ".(*Archiver).save", pkgArch + ".(*Archiver).saveDir", pkgArch + ".(*Archiver).saveTree",
		pkgArch + ".(*Archiver).nodeFromFileInfo", pkgArch + ".(*Archiver).dirPathToNode", pkgArch + ".(*Archiver).dirToNodeAndEntries":
		return true
	}
	return false
}

// ruleSkipImpliesHook (C55): in the archiver an error of a source operation either reaches
// the caller as a non-nil error or has been handed to Archiver.error (and so to the Error
// hook) before the item is dropped.
func ruleSkipImpliesHook(c *eng.Ctx) {
	const rule = "skip-implies-hook"
	hookFns := map[*ssa.Function]bool{}
	// closures that always call Archiver.error (save's filterError)
	for _, fn := range c.P.Funcs {
		if eng.PkgOf(fn) != pkgArch || fn.Parent() == nil {
			continue
		}
		calls := c.P.CallsTo(fn, fnArchError)
		if len(calls) == 0 {
			continue
		}
		all := true
		for _, r := range eng.Returns(fn) {
			if eng.FindPath(eng.Entry(fn), r, eng.CallCut(calls...)) != nil {
				all = false
			}
		}
		if all {
			hookFns[fn] = true
		}
	}
	isHook := func(fn *ssa.Function, call ssa.CallInstruction) bool {
		if c.P.CalleeName(call) == fnArchError {
			return true
		}
		if f := eng.CalleeFunc(call); f != nil && hookFns[f] {
			return true
		}
		// a call through a local variable holding such a closure
		if call.Common().IsInvoke() {
			return false
		}
		for _, org := range eng.Origins(call.Common().Value, nil) {
			if mc, ok := org.(*ssa.MakeClosure); ok && hookFns[mc.Fn.(*ssa.Function)] {
				return true
			}
			if f, ok := org.(*ssa.Function); ok && hookFns[f] {
				return true
			}
		}
		return false
	}
	n := 0
	for _, fn := range c.P.Funcs {
		if eng.PkgOf(fn) != pkgArch {
			continue
		}
		root := eng.Root(fn)
		if root.Signature.Recv() == nil || !strings.Contains(root.Signature.Recv().Type().String(), "archiver.Archiver") {
			continue
		}
		errIdx := -1
		res := fn.Signature.Results()
		for i := 0; i < res.Len(); i++ {
			if eng.IsErrorType(res.At(i).Type()) {
				errIdx = i
			}
		}
		if errIdx < 0 {
			continue
		}
		hooks := eng.NewCut()
		for _, call := range eng.Calls(fn) {
			if isHook(fn, call) {
				hooks.AddInstrs(call.(ssa.Instruction))
			}
		}
		// an item may also be dropped on the edge on which save's not-exist filter (an
		// error→error closure whose shape is checked below: nil only for os.ErrNotExist) says nil
		for _, call := range eng.Calls(fn) {
			if call.Common().IsInvoke() || call.Value() == nil {
				continue
			}
			for _, org := range eng.Origins(call.Common().Value, nil) {
				var lit *ssa.Function
				if mc, ok := org.(*ssa.MakeClosure); ok {
					lit, _ = mc.Fn.(*ssa.Function)
				} else if f, ok := org.(*ssa.Function); ok {
					lit = f
				}
				if lit == nil || lit.Parent() == nil || !isNotExistFilter(c, lit) {
					continue
				}
				hooks.AddEdges(eng.NilEdges(fn, eng.SameAs(call.Value()), true)...)
			}
		}
		for _, call := range eng.Calls(fn) {
			if !sourceCall(c, call) || isHook(fn, call) {
				continue
			}
			ev := eng.ErrResult(call)
			if ev == nil {
				continue
			}
			edges := eng.FailureEdges(call)
			name := c.P.CalleeName(call)
			key := c.P.FnName(fn) + ":" + name[strings.LastIndex(name, ".")+1:] + "-error→reported-or-returned"
			if len(edges) == 0 {
				// the error is not tested here; it must flow to the caller: checked as "returned"
				// below by treating the call's own position as the start
				edges = nil
			}
			n++
			c.Touch(fn)
			var bad *eng.PSResult
			starts := []eng.Loc{}
			for _, e := range edges {
				starts = append(starts, eng.EdgeStart(fn, e))
			}
			if len(starts) == 0 {
				starts = append(starts, eng.After(call.(ssa.Instruction)))
			}
			for _, from := range starts {
				r := c.P.FindPathSeeded(from, func(in ssa.Instruction) bool { _, ok := in.(*ssa.Return); return ok }, hooks,
					func(env *eng.PSEnv, target ssa.Instruction) bool {
						return env.MayBeNil(eng.RetVal(target.(*ssa.Return), errIdx))
					}, func(env *eng.PSEnv) { env.AssumeNil(ev, false) })
				if r != nil {
					bad = r
					break
				}
			}
			switch {
			case bad != nil && bad.Exhausted:
				c.Unk(rule, key, call.Pos(), "path search exhausted")
			case bad != nil:
				c.Bad(rule, key, call.Pos(), "after this source operation failed the function can return a nil error without having called Archiver.error: the item is dropped silently and the backup still exits 0 (path %s)", c.P.PathString(bad.Path))
			default:
				c.Ok(rule, key, call.Pos(), "a failure of %s is passed to Archiver.error or returned as a non-nil error on every path", name)
			}
		}
	}
	if n < 8 {
		c.Unk(rule, "floor", 0, "expected at least 8 source operations with an error result in the archiver, found %d", n)
	}
	// the only error class dropped without the hook is "does not exist any more"
	if save := c.NeedFn(rule, pkgArch+".(*Archiver).save"); save != nil {
		k := 0
		for _, lit := range c.P.Lits(save) {
			sig := lit.Signature
			if sig.Params().Len() != 1 || sig.Results().Len() != 1 || !eng.IsErrorType(sig.Params().At(0).Type()) || !eng.IsErrorType(sig.Results().At(0).Type()) {
				continue
			}
			k++
			var notExist []ssa.CallInstruction
			for _, call := range eng.Calls(lit) {
				if nm := c.P.CalleeName(call); (nm == "internal/errors.Is" || nm == "errors.Is") && isGlobalLoad(c, eng.Arg(call, 1), "os.ErrNotExist") {
					notExist = append(notExist, call)
				}
			}
			// the other direction: a vanished file (any error wrapping os.ErrNotExist, which is
			// what the file system layer returns: *PathError) is not an unreadable source item
			vanishedOK := len(notExist) > 0
			for _, ne := range notExist {
				if !eng.IsParam(lit, lit.Params[0].Name())(eng.Arg(ne, 0)) {
					vanishedOK = false
				}
				for _, e := range eng.ResultCut(true, 0, ne).EdgeList() {
					for _, r := range eng.Returns(lit) {
						if k, isK := eng.RetVal(r, 0).(*ssa.Const); isK && k.IsNil() {
							continue
						}
						if eng.FindPath(eng.EdgeStart(lit, e), r, nil) != nil {
							vanishedOK = false
						}
					}
				}
			}
			// opening the item goes through the filter before the error hook
			var filterCalls, hookCalls []ssa.CallInstruction
			for _, call := range eng.Calls(save) {
				if call.Common().IsInvoke() {
					continue
				}
				for _, org := range eng.Origins(call.Common().Value, nil) {
					if mc, ok := org.(*ssa.MakeClosure); ok && mc.Fn == ssa.Value(lit) {
						filterCalls = append(filterCalls, call)
					}
					// a literal without free variables is a plain function value
					if f, ok := org.(*ssa.Function); ok && f == lit {
						filterCalls = append(filterCalls, call)
					}
				}
				if isHook(save, call) {
					hookCalls = append(hookCalls, call)
				}
			}
			for _, call := range eng.Calls(save) {
				if !call.Common().IsInvoke() || call.Common().Method.Name() != "OpenFile" {
					continue
				}
				for _, e := range eng.FailureEdges(call) {
					for _, h := range hookCalls {
						if eng.FindPath(eng.EdgeStart(save, e), h.(ssa.Instruction), nil) == nil {
							continue
						}
						c.MustPass(rule, "Archiver.save:open-error→not-exist-filter→hook", eng.EdgeStart(save, e), h.(ssa.Instruction), eng.CallCut(filterCalls...), "the error went through the not-exist filter")
					}
				}
			}
			// the same holds for the open that follows the lstat (genuine defect, fixed: a file
			// or directory that vanished in that window was reported and the backup exited 3)
			for _, call := range eng.Calls(save) {
				if !call.Common().IsInvoke() || call.Common().Method.Name() != "MakeReadable" {
					continue
				}
				for _, e := range eng.FailureEdges(call) {
					for _, h := range hookCalls {
						if eng.FindPath(eng.EdgeStart(save, e), h.(ssa.Instruction), nil) == nil {
							continue
						}
						c.MustPass(rule, "Archiver.save:reopen-error→not-exist-filter→hook", eng.EdgeStart(save, e), h.(ssa.Instruction), eng.CallCut(filterCalls...), "the error went through the not-exist filter")
					}
				}
			}
			for _, call := range c.P.CallsTo(save, pkgArch+".(*Archiver).saveDir") {
				for _, e := range eng.FailureEdges(call) {
					for _, r := range eng.Returns(save) {
						if eng.FindPath(eng.EdgeStart(save, e), r, nil) == nil {
							continue
						}
						c.MustPass(rule, "Archiver.save:directory-open-error→not-exist-filter", eng.EdgeStart(save, e), r, eng.CallCut(filterCalls...), "the error went through the not-exist filter")
					}
				}
			}
			c.Check(vanishedOK, rule, "Archiver.save:vanished-files-are-not-errors", lit.Pos(), "the filter tests its argument with errors.Is(err, os.ErrNotExist) (identity comparison never matches the *PathError the file system returns) and yields nil whenever that holds")
			for _, r := range eng.Returns(lit) {
				v := eng.RetVal(r, 0)
				if eng.IsParam(lit, lit.Params[0].Name())(v) {
					continue
				}
				c.MustPass(rule, "Archiver.save:only-vanished-files-are-dropped-silently", eng.Entry(lit), r, eng.ResultCut(true, 0, notExist...), "errors.Is(err, os.ErrNotExist)")
			}
		}
		c.Check(k >= 1, rule, "Archiver.save:error-filter-present", save.Pos(), "the not-exist filter of save was found (%d error→error closures)", k)
	}
	// the tree saver reports failed items through the same hook
	if ts := c.NeedFn(rule, pkgArch+".(*treeSaver).save"); ts != nil {
		errFld := c.P.Field(pkgArch+".futureNodeResult", "err")
		var hookCalls []ssa.CallInstruction
		for _, call := range eng.Calls(ts) {
			if c.P.CalleeName(call) == "field:"+pkgArch+".treeSaver.errFn" {
				hookCalls = append(hookCalls, call)
			}
		}
		edges := eng.NilEdges(ts, func(v ssa.Value) bool { return eng.LoadsField(v, errFld) }, false)
		c.Check(len(edges) > 0 && len(hookCalls) > 0, rule, "treeSaver.save:item-error-tested", ts.Pos(), "treeSaver.save tests the item's error and has the error hook (%d edges, %d hook calls)", len(edges), len(hookCalls))
		cutH := eng.CallCut(hookCalls...)
		silent := false
		var via string
		for _, e := range edges {
			bad := c.P.FindPathSeeded(eng.EdgeStart(ts, e), func(in ssa.Instruction) bool { _, ok := in.(*ssa.Return); return ok }, cutH,
				func(env *eng.PSEnv, target ssa.Instruction) bool {
					v := eng.RetVal(target.(*ssa.Return), 2)
					if eng.LoadsField(v, errFld) {
						// the item's error itself, just tested non-nil (it is reassigned only by the hook call)
						return false
					}
					return env.MayBeNil(v)
				}, nil)
			if bad != nil {
				silent = true
				via = c.P.PathString(bad.Path)
			}
		}
		c.Check(!silent, rule, "treeSaver.save:item-error→hook-or-returned", ts.Pos(), "an item that failed is dropped from the tree only after the error hook saw its error %s", via)
		// errFn is the user's hook
		for _, s := range c.P.AllCallsTo(pkgArch + ".newTreeSaver") {
			if eng.PkgOf(s.Fn) != pkgArch {
				continue
			}
			last := s.Call.Common().Args[len(s.Call.Common().Args)-1]
			c.Check(eng.LoadsField(last, c.P.Field(pkgArch+".Archiver", "Error")), rule, c.P.FnName(s.Fn)+":treeSaver-gets-Archiver.Error", s.Call.Pos(), "the tree saver's error function is Archiver.Error")
		}
	}
}

// isNotExistFilter: a function literal error→error that tests its argument with
// errors.Is(err, os.ErrNotExist). (That it yields nil for nothing else is the obligation
// only-vanished-files-are-dropped-silently.)
func isNotExistFilter(c *eng.Ctx, lit *ssa.Function) bool {
	sig := lit.Signature
	if sig.Params().Len() != 1 || sig.Results().Len() != 1 || !eng.IsErrorType(sig.Params().At(0).Type()) || !eng.IsErrorType(sig.Results().At(0).Type()) {
		return false
	}
	for _, call := range eng.Calls(lit) {
		if nm := c.P.CalleeName(call); (nm == "internal/errors.Is" || nm == "errors.Is") && isGlobalLoad(c, eng.Arg(call, 1), "os.ErrNotExist") {
			return true
		}
	}
	return false
}
