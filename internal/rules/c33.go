package rules

import (
	"strings"

	"golang.org/x/tools/go/ssa"

	"verif/internal/eng"
)

// removalSite classifies a call as a file removal and returns its file-type argument.
func removalTypeArg(c *eng.Ctx, call ssa.CallInstruction) (ssa.Value, bool) {
	name := c.P.CalleeName(call)
	m := eng.MethodName(call)
	switch {
	case name == pkgRestic+".ParallelRemove":
		return eng.Arg(call, 3), true
	case name == pkgRepo+".deleteFiles":
		return eng.Arg(call, 4), true
	case m == "RemoveUnpacked" || m == "removeUnpacked":
		return eng.Arg(call, 1), true
	}
	return nil, false
}

// ruleNoPackRemoval (C33): nothing reachable from RepairIndex can delete a pack file.
func ruleNoPackRemoval(c *eng.Ctx) {
	const rule = "no-pack-removal"
	root := c.NeedFn(rule, pkgRepo+".RepairIndex")
	if root == nil {
		return
	}
	packK, ok1 := constIntVal(c, rule, pkgRestic+".PackFile")
	idxK, ok2 := constIntVal(c, rule, pkgRestic+".IndexFile")
	if !ok1 || !ok2 {
		return
	}
	cl := c.P.CallClosure(root, &eng.ClosureOpts{StopIface: map[string]bool{eng.Mod + "/" + pkgBackend + ".Backend": true}})
	c.Note("closure of RepairIndex: %d functions, %d calls on the backend interface", len(cl.Funcs), len(cl.Boundary))
	if len(cl.Funcs) < 50 {
		c.Unk(rule, "RepairIndex:closure", root.Pos(), "call closure suspiciously small (%d functions)", len(cl.Funcs))
	}
	// (1) the two pack-deleting operations are not reachable
	for _, banned := range []string{fnExecute, pkgRepo + ".RepairPacks"} {
		f := c.P.Fn(banned)
		if f == nil {
			c.Unk(rule, "anchor:"+banned, 0, "function does not resolve")
			continue
		}
		reached := cl.Funcs[f]
		chain := ""
		if reached {
			chain = ": " + cl.Chain(c.P, f)
		}
		c.Check(!reached, rule, "RepairIndex↛"+banned, root.Pos(), "%s (a pack remover, see pack-removers) is not reachable from RepairIndex%s", banned, chain)
	}
	// (2) every removal with a constant type inside the closure names IndexFile
	n := 0
	for f := range cl.Funcs {
		if len(f.Blocks) == 0 {
			continue
		}
		for _, call := range eng.Calls(f) {
			ta, isRem := removalTypeArg(c, call)
			if !isRem {
				continue
			}
			n++
			c.Touch(f)
			if k, isK := eng.ConstInt(ta); isK {
				c.Check(k == idxK && k != packK, rule, c.P.FnName(f)+"→removal(const)", call.Pos(), "a removal reachable from RepairIndex has constant file type %d (IndexFile=%d); reached via %s", k, idxK, cl.Chain(c.P, f))
			}
		}
	}
	if n == 0 {
		c.Unk(rule, "RepairIndex:removals", root.Pos(), "no removal call found in the closure (the obsolete index files must be removed somewhere)")
	}
	// (3) direct backend removals in the closure happen only in the removeUnpacked wrapper
	for _, s := range cl.Boundary {
		m := eng.MethodName(s.Call)
		if m != "Remove" && m != "Delete" {
			continue
		}
		fn := c.P.FnName(eng.Root(s.Fn))
		okSite := m == "Remove" && fn == pkgRepo+".(*Repository).removeUnpacked"
		c.Check(okSite, rule, c.P.FnName(s.Fn)+"→Backend."+m, s.Call.Pos(), "backend %s reachable from RepairIndex only inside removeUnpacked (type forwarded from the enumerated removal sites); reached via %s", m, cl.Chain(c.P, s.Fn))
	}
	c.Floor(rule, 4, 5)
}

// ruleRepairIndexOrder (C33): the index is rewritten only after the packs were read, and
// unreadable packs never enter the index.
func ruleRepairIndexOrder(c *eng.Ctx) {
	const rule = "repair-order"
	if fn := c.NeedFn(rule, pkgRepo+".RepairIndex"); fn != nil {
		create := c.P.CallsTo(fn, pkgRepo+".(*Repository).createIndexFromPacks")
		var lists []ssa.CallInstruction
		for _, call := range eng.Calls(fn) {
			if c.P.CalleeName(call) == pkgRepo+".(*Repository).List" {
				lists = append(lists, call)
			}
		}
		for _, rw := range c.SomeCalls(rule, fn, pkgRepo+".rewriteIndexFiles") {
			ri := rw.(ssa.Instruction)
			for _, cr := range create {
				// from the read of the packs, the rewrite is reachable only through its success
				c.MustPass(rule, "RepairIndex:packs-read-ok→rewriteIndexFiles", eng.After(cr.(ssa.Instruction)), ri, eng.SuccessCut(cr), "createIndexFromPacks returned nil")
			}
			for _, l := range lists {
				c.MustPass(rule, "RepairIndex:listing-ok→rewriteIndexFiles", eng.After(l.(ssa.Instruction)), ri, eng.SuccessCut(l), "repo.List returned nil")
			}
		}
		c.Check(len(create) == 1, rule, "RepairIndex:reads-unindexed-packs", fn.Pos(), "RepairIndex reads the pack files that are unindexed or have a size mismatch (createIndexFromPacks)")
	}
	if fn := c.NeedFn(rule, pkgRepo+".(*Repository).createIndexFromPacks"); fn != nil {
		n := 0
		for _, l := range c.P.Lits(fn) {
			lp := c.P.CallsTo(l, pkgRepo+".(*Repository).listPack")
			for _, sp := range c.P.CallsTo(l, pkgIndex+".(*MasterIndex).StorePack") {
				n++
				c.MustPass(rule, "createIndexFromPacks:listPack-ok→StorePack", eng.Entry(l), sp.(ssa.Instruction), eng.SuccessCut(lp...), "the pack header was read successfully")
				// the entries stored are the ones just listed
				okArg := false
				for _, p := range lp {
					if res := eng.Results(p); len(res) > 0 && res[0] != nil && eng.SameAs(res[0])(eng.Arg(sp, 2)) {
						okArg = true
					}
				}
				c.Check(okArg, rule, "createIndexFromPacks:stores-listed-entries", sp.Pos(), "StorePack receives the entries returned by listPack for the same pack")
			}
		}
		if n == 0 {
			c.Unk(rule, "createIndexFromPacks:StorePack", fn.Pos(), "StorePack call not found in the workers")
		}
		waits := c.P.CallsTo(fn, "golang.org/x/sync/errgroup.(*Group).Wait")
		flush := c.P.CallsTo(fn, pkgRepo+".(*Repository).flush")
		for _, r := range eng.Returns(fn) {
			rv := eng.RetVal(r, 1)
			if !c.P.MayBeNil(rv) {
				continue
			}
			c.NilOnlyVia(rule, "createIndexFromPacks:workers-ok→success", rv, r, eng.SuccessCut(waits...), "wg.Wait() returned nil")
			c.NilOnlyVia(rule, "createIndexFromPacks:index-flushed→success", rv, r, eng.SuccessCut(flush...), "r.flush returned nil")
		}
	}
	c.Floor(rule, 6, 7)
}

// ruleSalvageOrder (C34): RepairPacks removes the damaged packs only after their readable
// blobs were uploaded again and the index no longer names them.
func ruleSalvageOrder(c *eng.Ctx) {
	const rule = "salvage-order"
	fn := c.NeedFn(rule, pkgRepo+".RepairPacks")
	if fn == nil {
		return
	}
	var ups []ssa.CallInstruction
	for _, call := range eng.Calls(fn) {
		if isWithUploader(c, call) {
			ups = append(ups, call)
		}
	}
	rw := c.P.CallsTo(fn, pkgRepo+".rewriteIndexFiles")
	rem := c.P.CallsTo(fn, pkgRestic+".ParallelRemove")
	if len(rem) == 0 {
		c.Unk(rule, "RepairPacks:ParallelRemove", fn.Pos(), "pack removal not found")
	}
	for _, r := range rem {
		ri := r.(ssa.Instruction)
		c.MustPass(rule, "RepairPacks:reupload-ok→remove-packs", eng.Entry(fn), ri, eng.SuccessCut(ups...), "WithBlobUploader (re-upload of salvaged blobs) returned nil")
		c.MustPass(rule, "RepairPacks:index-rewritten→remove-packs", eng.Entry(fn), ri, eng.SuccessCut(rw...), "rewriteIndexFiles returned nil")
		c.Check(eng.IsParam(fn, "ids")(eng.Arg(r, 2)), rule, "RepairPacks:removes-the-named-packs", r.Pos(), "the packs removed are the ids given by the user")
	}
	for _, w := range rw {
		c.MustPass(rule, "RepairPacks:reupload-ok→rewrite-index", eng.Entry(fn), w.(ssa.Instruction), eng.SuccessCut(ups...), "re-upload succeeded before the salvaged packs are dropped from the index")
		c.Check(eng.IsParam(fn, "ids")(eng.Arg(w, 2)), rule, "RepairPacks:drops-the-named-packs-from-index", w.Pos(), "the packs dropped from the index are the ids given by the user")
	}
	// re-upload stores duplicates and checks the id
	if rf := c.NeedFn(rule, pkgRepo+".reuploadBlobsFromPack"); rf != nil {
		n := 0
		for _, l := range c.P.WithLits(rf) {
			for _, call := range eng.Calls(l) {
				if eng.MethodName(call) != "SaveBlob" {
					continue
				}
				n++
				k, isK := eng.Arg(call, 4).(*ssa.Const)
				c.Check(isK && k.Value != nil && k.Value.String() == "true", rule, "reuploadBlobsFromPack:storeDuplicate=true", call.Pos(), "salvaged blobs are stored even though the (damaged) index already knows them")
				// error of SaveBlob is returned by the callback
				ev := eng.ErrResult(call)
				ret := false
				for _, r := range eng.Returns(l) {
					for _, o := range eng.Origins(eng.RetVal(r, 0), nil) {
						if o == ev {
							ret = true
						}
					}
				}
				c.Check(ret, rule, "reuploadBlobsFromPack:save-error-returned", call.Pos(), "the SaveBlob error is returned from the callback")
				eq := c.P.CallsTo(l, fnIDEqual)
				c.Check(len(eq) > 0, rule, "reuploadBlobsFromPack:id-compared", call.Pos(), "the id computed on upload is compared with the expected blob id")
			}
		}
		if n == 0 {
			c.Unk(rule, "reuploadBlobsFromPack:SaveBlob", rf.Pos(), "SaveBlob call not found")
		}
	}
	c.Floor(rule, 8, 9)
}

// ruleRepairSnapshotsEffects (C34): the node rewriter of repair snapshots changes only the
// content list and size of regular files.
func ruleRepairSnapshotsEffects(c *eng.Ctx) {
	const rule = "repair-node-effects"
	fn := c.NeedFn(rule, "cmd/restic.runRepairSnapshots")
	if fn == nil {
		return
	}
	nodeT := c.P.NamedType("internal/data.Node")
	if nodeT == nil {
		c.Unk(rule, "anchor:data.Node", fn.Pos(), "type does not resolve")
		return
	}
	allowed := map[string]bool{"Content": true, "Size": true}
	n := 0
	for _, l := range c.P.Lits(fn) {
		// literals that take a *data.Node and return a *data.Node: the RewriteNode callback
		sig := l.Signature
		if sig.Params().Len() < 1 || sig.Results().Len() != 1 {
			continue
		}
		if !strings.HasSuffix(sig.Results().At(0).Type().String(), "internal/data.Node") {
			continue
		}
		n++
		c.Touch(l)
		stores := map[string]bool{}
		for _, f := range c.P.WithLits(l) {
			for _, b := range f.Blocks {
				for _, in := range b.Instrs {
					st, ok := in.(*ssa.Store)
					if !ok {
						continue
					}
					fa, ok := st.Addr.(*ssa.FieldAddr)
					if !ok {
						continue
					}
					if fv := eng.FieldVar(fa.X.Type(), fa.Field); fv != nil && strings.HasSuffix(eng.FieldName(fa.X.Type(), fa.Field), "data.Node."+fv.Name()) {
						stores[fv.Name()] = true
					}
				}
			}
		}
		var bad []string
		for f := range stores {
			if !allowed[f] {
				bad = append(bad, f)
			}
		}
		c.Check(len(bad) == 0, rule, c.P.FnName(l)+":writes-only-Content-and-Size", l.Pos(), "the repair node rewriter stores only to Node.Content/Node.Size (fields written: %v)", keysOf(stores))
		// … and only for regular files
		{
			isFile := nodeTypeEdges(c, l, nil, "NodeTypeFile")
			nst := 0
			defer func() {
				if nst == 0 {
					c.Unk(rule, c.P.FnName(l)+":only-regular-files-modified", l.Pos(), "no store to a Node field found to check")
				}
			}()
			for _, b := range l.Blocks {
				for _, in := range b.Instrs {
					st, ok := in.(*ssa.Store)
					if !ok {
						continue
					}
					if fa, ok := st.Addr.(*ssa.FieldAddr); ok && strings.Contains(eng.FieldName(fa.X.Type(), fa.Field), "data.Node.") {
						nst++
						c.MustPass(rule, c.P.FnName(l)+":only-regular-files-modified", eng.Entry(l), st, eng.NewCut().AddEdges(isFile...), "node.Type == NodeTypeFile")
					}
				}
			}
		}
	}
	if n == 0 {
		c.Unk(rule, "runRepairSnapshots:RewriteNode", fn.Pos(), "node rewrite callback not found")
	}
}

func keysOf(m map[string]bool) []string {
	var out []string
	for k := range m {
		out = append(out, k)
	}
	for i := range out {
		for j := i + 1; j < len(out); j++ {
			if out[j] < out[i] {
				out[i], out[j] = out[j], out[i]
			}
		}
	}
	return out
}
