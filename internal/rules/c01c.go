package rules

import (
	"strings"

	"golang.org/x/tools/go/ssa"

	"verif/internal/eng"
)

// ruleTimestampRange (C01, "modification time … odd mtimes"): a time.Time covers years far
// beyond what fits into an int64 count of nanoseconds since 1970 (1678–2262). Code of package
// fs that applies the recorded times of a node to the file system must not squeeze them
// through Time.UnixNano(): the value wraps and a file dated 2300 is restored with a date in 1901.
func ruleTimestampRange(c *eng.Ctx) {
	const rule = "timestamp-range"
	n := 0
	for _, fn := range c.P.Funcs {
		if eng.PkgOf(fn) != "internal/fs" {
			continue
		}
		for _, call := range c.P.CallsTo(fn, "time.Time.UnixNano") {
			// only node times (ModTime, AccessTime, ChangeTime of data.Node)
			recv := call.Common().Args[0]
			isNodeTime := false
			for _, o := range eng.Origins(recv, nil) {
				if ld, ok := o.(*ssa.UnOp); ok {
					if fa, isFA := ld.X.(*ssa.FieldAddr); isFA && strings.HasSuffix(fa.X.Type().String(), "internal/data.Node") {
						isNodeTime = true
					}
				}
			}
			if !isNodeTime {
				continue
			}
			n++
			c.Touch(fn)
			c.Bad(rule, c.P.FnName(fn)+":node-time-as-int64-nanoseconds", call.Pos(), "a recorded node time is converted with UnixNano(), which only holds years 1678–2262; later (or earlier) times wrap")
		}
	}
	if n == 0 {
		c.Ok(rule, "fs:no-node-time-through-UnixNano", 0, "no recorded node time is converted to int64 nanoseconds in package fs")
	}
}

// ruleSpecialHardlinks (C01, "hard-link grouping"): the hard-link index of the restorer is
// consulted for regular files only. A fifo, device or symlink with several names is recreated
// once per name, so the names no longer share an inode. Obligation: in the second pass of
// RestoreTo a node is created with restoreNodeTo only after the hard-link index was asked about
// it (Has), as it is for regular files.
func ruleSpecialHardlinks(c *eng.Ctx) {
	const rule = "hardlinks-of-special-files"
	rt := c.NeedFn(rule, pkgRestorer+".(*Restorer).RestoreTo")
	if rt == nil {
		return
	}
	n := 0
	for _, l := range c.P.WithLits(rt) {
		creates := c.P.CallsTo(l, pkgRestorer+".(*Restorer).restoreNodeTo")
		if len(creates) == 0 {
			continue
		}
		// the visitNode literal that reaches restoreNodeTo (possibly through the overwrite-check callback)
		outer := l
		for outer.Parent() != nil && outer.Parent() != rt {
			outer = outer.Parent()
		}
		var has []ssa.CallInstruction
		for _, g := range c.P.WithLits(outer) {
			for _, call := range eng.Calls(g) {
				if eng.MethodName(call) == "Has" && strings.Contains(c.P.CalleeName(call), "HardlinkIndex") {
					has = append(has, call)
				}
			}
		}
		n++
		c.Touch(outer)
		// the creation is reached from the visitor's entry only after the index was consulted
		target := creates[0].(ssa.Instruction)
		start := outer
		if l != outer {
			// the closure that creates the node is made inside the visitor: judge the point where it is handed over
			for _, mc := range rootClosures(outer, l) {
				target = mc
			}
		}
		var hasHere []ssa.CallInstruction
		for _, h := range has {
			if h.Parent() == start {
				hasHere = append(hasHere, h)
			}
		}
		c.MustPass(rule, "RestoreTo:second-pass:hard-link-index-consulted→create-special-node", eng.Entry(start), target, eng.CallCut(hasHere...), "idx.Has(node.Inode, node.DeviceID)")
	}
	if n == 0 {
		c.Unk(rule, "anchor:restoreNodeTo", rt.Pos(), "no call of restoreNodeTo in RestoreTo's visitors")
	}
}
