package rules

import "verif/internal/eng"

func init() {
	register(&Property{
		ID: "C02",
		Explanation: "Decides: (save-name-is-hash) at every Backend.Save site of package repository the handle name is ID.String() of restic.Hash applied to exactly the bytes wrapped by the reader (pack files: sha256 streamed over the same temporary file that is uploaded; config: constant zero ID only on the t==ConfigFile branch); (verify-before-store) SaveBlob/be.Save/header Write are reachable only through the success edge of verifyCiphertext/verifyUnpacked/verifyHeader on the same buffer, and the verifiers return nil only after the hash/bytes comparison (or the documented NoExtraVerify opt-out); (nil-only-after-hash) packBlobIterator.Next can leave Err nil only on paths through Hash(plaintext).Equal(entry.ID), the plaintext handed out is the hashed value, and LoadRaw returns a nil error only through id == Hash(buf) (config exempt); (load-sites) every backend read in package repository is one of the classified verifying load paths; (zero-chunk-agreement) the all-zero shortcut tests len and zero-prefix against the same chunker.MinSize that zeroChunk() hashes. Not decided: that SHA-256/zstd behave; stale-but-hash-correct data.",
		Assumptions: commonAssumptions,
		Technique:   "static analysis: value-origin slices at all save sites + path-sensitive nil-flow cuts (go/ssa)",
		AllConfigs:  true,
		Run: func(c *eng.Ctx) {
			ruleSaveNameIsHash(c)
			ruleVerifyBeforeStore(c)
			ruleNilOnlyAfterHash(c)
			ruleLoadSites(c)
			ruleZeroChunk(c)
		},
		Controls: []Control{
			{Name: "name-unpacked-by-plaintext-hash", File: "internal/repository/repository.go",
				Old: "		id = restic.Hash(ciphertext)\n", New: "		id = restic.Hash(p)\n", Rule: "save-name-is-hash"},
			{Name: "drop-hash-compare-in-iterator", File: "internal/repository/repository.go",
				Old: "		if !id.Equal(entry.ID) {\n			debug.Log(\"read blob", New: "		if !id.Equal(entry.ID) && len(plaintext) == 0 {\n			debug.Log(\"read blob", Rule: "nil-only-after-hash"},
			{Name: "zero-shortcut-wrong-length", File: "internal/repository/repository.go",
				Old: "if len(buf) == chunker.MinSize && restic.ZeroPrefixLen(buf) == chunker.MinSize {", New: "if len(buf) == chunker.MaxSize && restic.ZeroPrefixLen(buf) == chunker.MaxSize {", Rule: "zero-chunk-agreement"},
			{Name: "skip-verify-on-large-blobs", File: "internal/repository/repository.go",
				Old: "	if err := r.verifyCiphertext(ciphertext, uncompressedLength, id); err != nil {", New: "	if err := r.verifyCiphertext(ciphertext, uncompressedLength, id); err != nil && len(data) < 1<<20 {", Rule: "verify-before-store"},
		},
	})
}
