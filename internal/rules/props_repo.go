package rules

import (
	"golang.org/x/tools/go/ssa"

	"verif/internal/eng"
)

// ruleCheckPackGuards (C03): checkPackInner reports success only after the download
// succeeded, the pack hash matched its name and the header decoded.
func ruleCheckPackGuards(c *eng.Ctx) {
	const rule = "checkpack-guards"
	fn := c.NeedFn(rule, pkgRepo+".checkPackInner")
	if fn == nil {
		return
	}
	be := c.P.NamedType(pkgBackend + ".Backend")
	var loads, lists, equals []ssa.CallInstruction
	for _, call := range eng.Calls(fn) {
		switch {
		case eng.IsMethodOf(call, be, "Load"):
			loads = append(loads, call)
		case c.P.CalleeName(call) == pkgPack+".List":
			lists = append(lists, call)
		case c.P.CalleeName(call) == fnIDEqual && eng.IsParam(fn, "id")(eng.Arg(call, 0)):
			equals = append(equals, call)
		}
	}
	for _, r := range eng.Returns(fn) {
		if !c.P.MayBeNil(eng.RetVal(r, 0)) {
			continue
		}
		c.MustPass(rule, "checkPackInner:download-ok→success", eng.Entry(fn), r, eng.SuccessCut(loads...), "be.Load returned nil")
		c.MustPass(rule, "checkPackInner:pack-hash-equal→success", eng.Entry(fn), r, eng.ResultCut(true, 0, equals...), "hash.Equal(id) is true")
		c.MustPass(rule, "checkPackInner:header-listed→success", eng.Entry(fn), r, eng.SuccessCut(lists...), "pack.List returned nil")
	}
	// the hash compared is the streamed sha256 of the downloaded bytes
	ok := false
	for _, f := range c.P.Lits(fn) {
		for _, idc := range c.P.CallsTo(f, fnIDFromH) {
			for _, r := range eng.Origins(eng.Arg(idc, 0), nil) {
				if call := eng.RootCall(r); call != nil && eng.MethodName(call) == "Sum" {
					for _, hr := range eng.Origins(eng.Recv(call), nil) {
						if hc := eng.RootCall(hr); hc != nil && c.P.CalleeName(hc) == pkgRepo+"/hashing.NewReader" && c.P.IsCallOf(eng.Arg(hc, 1), "crypto/sha256.New") {
							ok = true
						}
					}
				}
			}
		}
	}
	c.Check(ok, rule, "checkPackInner:hash-is-sha256-of-stream", fn.Pos(), "the compared pack hash is IDFromHash of a sha256 hashing.Reader over the download stream")
	c.Floor(rule, 4, 4)
}

func init() {
	register(&Property{
		ID: "C11",
		Explanation: "Decides the ordering that makes every crash prefix of a backup consistent: (uploader-flush) WithBlobUploader returns nil only after the callback and Repository.flush succeeded, flush runs only after the callback succeeded, and the result is Wait() of the errgroup the worker runs on; (flush-order) flush waits for all asynchronous blob savers before flushing the packers, writes the index only after flushPackUploader succeeded, and flushPackUploader succeeds only after both packer managers flushed and packerWg.Wait() returned; (pack-before-index) in savePacker MasterIndex.StorePack is reachable only through the success edge of be.Save, be.Save only after Packer.Finalize succeeded, StorePack has no other caller with fresh packs, upload workers propagate savePacker errors; (snapshot-after-upload) every data.SaveSnapshot site of the program lies outside any WithBlobUploader callback and, where an upload session precedes it (in the function or its callers), behind that session's success edge; snapshot files are written through no other path; (root-tree-provenance) in Archiver.Snapshot the root tree id is assigned only behind the success edge of saveTree and the nil-error edge of the saved root node's result, the archiving goroutine returns nil only after that assignment, the upload callback returns nil only behind wg.Wait() == nil, and sn.Tree is that variable; (steps-before-effects) inside savePacker, packerManager.SaveBlob/Flush and Index.SaveIndex an effect (queueing a pack, be.Save, StorePack, SaveUnpacked of an index) is reached from every earlier fallible step only through that step's success edge (both added after the mutant sweep showed that ignoring these errors went unnoticed). Hence no crash prefix contains a snapshot whose packs or index entries were not stored first. Not decided: that a later backup/prune on the interrupted state succeeds (C09/C15).",
		Assumptions: append([]string{"errgroup.Group.Wait returns the first non-nil error of the functions started with Go", "backend.Save returns nil only after the file is durably stored (C36 for the local backend)"}, commonAssumptions...),
		Technique:   "static analysis: CFG edge-cut ordering + enumeration of all snapshot-save sites with caller-chain propagation (go/ssa)",
		AllConfigs:  true,
		Run: func(c *eng.Ctx) {
			ruleUploaderFlush(c)
			ruleFlushOrder(c)
			rulePackBeforeIndex(c)
			ruleUploadErrorsPropagate(c)
			ruleSnapshotAfterUpload(c)
			ruleRootTreeProvenance(c)
			ruleStepsBeforeEffects(c)
		},
		Controls: []Control{
			{Name: "pack-hashed-despite-read-error", File: "internal/repository/packer_manager.go",
				Old: "	_, err = io.Copy(io.Discard, hr)\n	if err != nil {\n		return err\n	}", New: "	_, err = io.Copy(io.Discard, hr)\n	if err != nil {\n		debug.Log(\"hashing failed: %v\", err)\n	}", Rule: "steps-before-effects"},
			{Name: "failed-tree-save-ignored-by-upload-callback", File: "internal/archiver/archiver.go",
				Old: "		if err != nil {\n			debug.Log(\"error while saving tree: %v\", err)\n			return err\n		}\n		return nil", New: "		if err != nil {\n			debug.Log(\"error while saving tree: %v\", err)\n		}\n		return nil", Rule: "root-tree-provenance"},
			{Name: "root-id-taken-despite-failed-root-node", File: "internal/archiver/archiver.go",
				Old: "			fnr := fn.take(wgCtx)\n			if fnr.err != nil {\n				return fnr.err\n			}\n", New: "			fnr := fn.take(wgCtx)\n			if fnr.err != nil && fnr.node == nil {\n				return fnr.err\n			}\n", Rule: "root-tree-provenance"},
			{Name: "index-before-pack-upload", File: "internal/repository/repository.go",
				Old: "	if err := r.flushPackUploader(ctx); err != nil {\n		return err\n	}\n\n	return r.idx.Flush(ctx, &internalRepository{r})", New: "	if err := r.idx.Flush(ctx, &internalRepository{r}); err != nil {\n		return err\n	}\n\n	return r.flushPackUploader(ctx)", Rule: "flush-order"},
			{Name: "storepack-despite-save-error", File: "internal/repository/packer_manager.go",
				Old: "		debug.Log(\"Save(%v) error: %v\", h, err)\n		return err\n", New: "		debug.Log(\"Save(%v) error: %v\", h, err)\n", Rule: "pack-before-index"},
			{Name: "snapshot-inside-upload-callback", File: "cmd/restic/cmd_recover.go",
				Old: "		return nil\n	})\n	if err != nil {\n		return err\n	}\n\n	return createSnapshot(ctx, printer, \"/recover\", hostname, []string{\"recovered\"}, repo, &treeID)",
				New: "		return createSnapshot(ctx, printer, \"/recover\", hostname, []string{\"recovered\"}, repo, &treeID)\n	})\n	if err != nil {\n		return err\n	}\n\n	return nil", Rule: "snapshot-after-upload"},
			{Name: "ignore-flush-error", File: "internal/repository/repository.go",
				Old: "		if err := r.flush(ctx); err != nil {\n			return fmt.Errorf(\"error flushing repository: %w\", err)\n		}\n		return nil", New: "		_ = r.flush(ctx)\n		return nil", Rule: "uploader-flush"},
		},
	})
	register(&Property{
		ID: "C14",
		Explanation: "Decides both halves of the protocol: reader side (list-before-index) — in every function of the program that calls LoadIndex, each snapshot lookup (FindAll, FindLatest, FindSnapshot, ForAllSnapshots, or a wrapper that forwards its lister parameter to one of them; lookups inside function literals count from the literal's creation) either cannot execute after LoadIndex or takes its snapshot list from restic.MemorizeList(…, SnapshotFile) evaluated before LoadIndex; Checker.snapshots is only ever the memorized list and Checker.LoadIndex is preceded by a successful LoadSnapshots (frozen exception: prune, which holds the exclusive lock); (mount-reloads-index) the mount, which lists snapshots repeatedly, publishes a new set (makeDirs, the recorded hash) only on paths where LoadIndex returned nil after that listing — the index loaded at mount time may predate a snapshot listed now (added after a seeded change that skipped the reload on the first update); writer side — flush-order, pack-before-index and snapshot-after-upload of C11. So a listed snapshot was completely indexed before the index was read. Not decided: backends with listing delay beyond what the protocol assumes.",
		Assumptions: commonAssumptions,
		Technique:   "static analysis: per-function ordering of LoadIndex vs. snapshot lookups with value-origin of the lister argument and wrapper summaries (go/ssa)",
		AllConfigs:  true,
		Run: func(c *eng.Ctx) {
			ruleListBeforeIndex(c)
			ruleMountReloadsIndex(c)
			ruleFlushOrder(c)
			rulePackBeforeIndex(c)
			ruleUploadErrorsPropagate(c)
			ruleSnapshotAfterUpload(c)
			// the writer side of the ordering, shared with C11
			ruleUploaderFlush(c)
			ruleRootTreeProvenance(c)
			ruleStepsBeforeEffects(c)
		},
		Controls: []Control{
			{Name: "mount-publishes-when-reload-fails", File: "internal/fuse/snapshots_dirstruct.go",
				Old: "	err = d.root.repo.LoadIndex(ctx, restic.NoopTerminalCounterFactory)\n	if err != nil {\n		return err\n	}\n\n	d.lastCheck = time.Now()\n	d.hash = hash", New: "	err = d.root.repo.LoadIndex(ctx, restic.NoopTerminalCounterFactory)\n	if err != nil {\n		debug.Log(\"reload: %v\", err)\n	}\n\n	d.lastCheck = time.Now()\n	d.hash = hash", Rule: "mount-reloads-index"},
			{Name: "stats-loads-index-before-listing", File: "cmd/restic/cmd_stats.go",
				Old: "	snapshotLister, err := restic.MemorizeList(ctx, repo, restic.SnapshotFile)\n	if err != nil {\n		return err\n	}\n", New: "	if err := repo.LoadIndex(ctx, printer); err != nil {\n		return err\n	}\n	snapshotLister, err := restic.MemorizeList(ctx, repo, restic.SnapshotFile)\n	if err != nil {\n		return err\n	}\n", Rule: "list-before-index"},
			{Name: "find-uses-live-repo-as-lister", File: "cmd/restic/cmd_find.go",
				Old: "err = opts.SnapshotFilter.FindAll(ctx, snapshotLister, repo, opts.Snapshots,", New: "_ = snapshotLister\n	err = opts.SnapshotFilter.FindAll(ctx, repo, repo, opts.Snapshots,", Rule: "list-before-index"},
		},
	})
	register(&Property{
		ID: "C16",
		Explanation: "Decides the mechanism that prevents double storage under every schedule: (addpending-atomic) in MasterIndex.AddPending the pending lookup, the lookups in all loaded indexes and the pending insert — and in storePack the pending delete and the index insert — are performed with the WRITE lock idxMutex held and without releasing it in between; AddPending returns true only after the insert and only if every Index.Has returned false; (index-locks) all other accesses to MasterIndex.idx/pendingBlobs and Index.byType/packs/final/ids hold the respective lock in the required mode (frozen, named exceptions for constructors and single-threaded phases; 'caller holds lock' helpers are verified at every call site); (save-only-if-new) saveAndEncrypt is reachable only through AddPending==true or storeDuplicate, with the reserved id being the stored id, and has no other caller; (store-duplicate-sites) the constant true for storeDuplicate occurs only in repack and pack repair. (reset-before-chunk, shared with C17) the first chunk of every file is read only after the worker's chunker and read state were reset — leftover state from a file that failed half-way would cut the next file at other boundaries, and equal files would become different blobs (added after a seeded change that reset after the file instead of before). Not decided: that unchanged files are detected as unchanged (C40).",
		Assumptions: append([]string{"sync.RWMutex provides mutual exclusion"}, commonAssumptions...),
		Technique:   "static analysis: must-hold lockset dataflow + critical-section continuity + CFG edge cuts (go/ssa)",
		Run: func(c *eng.Ctx) {
			ruleAddPendingAtomic(c)
			ruleGuardedFields(c, masterIndexGuard)
			ruleGuardedFields(c, indexGuard)
			ruleFinalizeSites(c)
			ruleSaveOnlyIfNew(c)
			ruleStoreDuplicateSites(c)
			// equal content gives equal blobs only if every file starts from a fresh chunker: shared with C17
			ruleChunkerReset(c)
		},
		Controls: []Control{
			{Name: "addpending-read-lock", File: "internal/repository/index/master_index.go",
				Old: "func (mi *MasterIndex) AddPending(bh restic.BlobHandle, size uint) bool {\n\n	mi.idxMutex.Lock()\n	defer mi.idxMutex.Unlock()", New: "func (mi *MasterIndex) AddPending(bh restic.BlobHandle, size uint) bool {\n\n	mi.idxMutex.RLock()\n	defer mi.idxMutex.RUnlock()", Rule: "addpending-atomic"},
			{Name: "addpending-split-sections", File: "internal/repository/index/master_index.go",
				Old: "	// really not known -> insert\n	mi.pendingBlobs[bh] = size", New: "	// really not known -> insert\n	mi.idxMutex.Unlock()\n	mi.idxMutex.Lock()\n	mi.pendingBlobs[bh] = size", Rule: "addpending-atomic"},
			{Name: "always-store-known-blobs", File: "internal/repository/repository.go",
				Old: "	if !known || storeDuplicate {\n		size, err = r.saveAndEncrypt(ctx, t, buf, newID)\n	}", New: "	size, err = r.saveAndEncrypt(ctx, t, buf, newID)", Rule: "save-only-if-new"},
			{Name: "unlocked-lookup", File: "internal/repository/index/master_index.go",
				Old: "func (mi *MasterIndex) Lookup(bh restic.BlobHandle) []*pack.PackedBlob {\n	mi.idxMutex.RLock()\n	defer mi.idxMutex.RUnlock()\n", New: "func (mi *MasterIndex) Lookup(bh restic.BlobHandle) []*pack.PackedBlob {\n", Rule: "index-locks"},
		},
	})
	register(&Property{
		ID: "C44",
		Explanation: "Decides: (header-capacity) every site that adds entries to a pack.Packer is bounded by a header-capacity test: packerManager.SaveBlob keeps a packer open for further blobs only if HeaderFull() is false (else it is forgotten and queued), and every caller of Packer.Merge establishes merged-entry-count <= pack.MaxHeaderEntries before merging (this rule reported the genuine defect in mergePackers, now fixed); (type-separation) saveAndEncrypt, evaluated for t=TreeBlob / DataBlob / other, hands the blob to r.treePM / r.dataPM / panics, and the managers are created for the matching type; (forget-before-queue) a packer is removed from the selectable list before it is queued, is kept open only below the target pack size, mergePackers clears list entries before merging, all under the manager mutex; (pack-before-index, flush-order) every queued pack is uploaded and then indexed before the session ends; (no-orphan-packer) pickPacker returns a packer that is not registered in the manager's list only behind ciphertextLen >= packSize, SaveBlob leaves a packer unqueued only behind packer.Size() < packSize of the packer it picked, and the length handed to pickPacker is len() of exactly the bytes packer.Add stores, so the private packer of an oversized blob is always queued — added after a seeded change that measured the plaintext instead; (async-savers-tracked) the wait of flush for asynchronous blob savers is effective: saveBlobAsync adds to Repository.blobSaver before it starts the saving goroutine, that goroutine signals Done on every exit, and flushBlobSaver waits on the same field — on the pinned tree nothing was ever added to the group, so blobs saved asynchronously after the upload callback had returned reached neither a pack nor the index although their callbacks reported success (genuine defect, demonstrated, fixed). Not decided: exactly-once containment of each blob under every schedule.",
		Assumptions: commonAssumptions,
		Technique:   "static analysis: call-site enumeration with capacity-predicate edge cuts + specialised path evaluation (go/ssa)",
		Run: func(c *eng.Ctx) {
			ruleHeaderCapacity(c)
			ruleTypeSeparation(c)
			ruleForgetBeforeQueue(c)
			rulePackBeforeIndex(c)
			ruleUploadErrorsPropagate(c)
			ruleFlushOrder(c)
			ruleNoOrphanPacker(c)
			ruleAsyncSaversTracked(c)
			ruleStepsBeforeEffects(c)
		},
		Controls: []Control{
			{Name: "async-saver-not-registered", File: "internal/repository/repository.go",
				Old: "	blobSaver.Add(1)\n", New: "", Rule: "async-savers-tracked"},
			{Name: "async-saver-done-only-on-success", File: "internal/repository/repository.go",
				Old: "		defer blobSaver.Done()\n		if ctx.Err() != nil {\n			// fail fast if the context is cancelled\n			cb(restic.ID{}, false, 0, ctx.Err())\n			return ctx.Err()\n		}\n		newID, known, size, err := r.saveBlob(ctx, t, buf, id, storeDuplicate)\n", New: "		if ctx.Err() != nil {\n			// fail fast if the context is cancelled\n			cb(restic.ID{}, false, 0, ctx.Err())\n			return ctx.Err()\n		}\n		newID, known, size, err := r.saveBlob(ctx, t, buf, id, storeDuplicate)\n		blobSaver.Done()\n", Rule: "async-savers-tracked"},
			{Name: "oversize-decided-on-plaintext-length", File: "internal/repository/packer_manager.go",
				Old: "	packer, err := r.pickPacker(len(ciphertext))", New: "	packer, err := r.pickPacker(uncompressedLength)", Rule: "no-orphan-packer"},
			{Name: "oversize-threshold-halved", File: "internal/repository/packer_manager.go",
				Old: "	if ciphertextLen >= int(r.packSize) {", New: "	if ciphertextLen >= int(r.packSize)/2 {", Rule: "no-orphan-packer"},
			{Name: "merge-by-size-only", File: "internal/repository/packer_manager.go",
				Old: " && uint(p.Count()+packer.Count()) <= pack.MaxHeaderEntries {", New: " {", Rule: "header-capacity"},
			{Name: "keep-packer-with-full-header", File: "internal/repository/packer_manager.go",
				Old: "	if packer.Size() < r.packSize && !packer.HeaderFull() {", New: "	if packer.Size() < r.packSize {", Rule: "header-capacity"},
			{Name: "tree-blobs-into-data-packs", File: "internal/repository/repository.go",
				Old: "	case restic.TreeBlob:\n		pm = r.treePM", New: "	case restic.TreeBlob:\n		pm = r.dataPM", Rule: "type-separation"},
			{Name: "queue-without-forgetting", File: "internal/repository/packer_manager.go",
				Old: "	// forget full packer\n	r.forgetPacker(packer)\n", New: "", Rule: "forget-before-queue"},
		},
	})
	register(&Property{
		ID: "C03",
		Explanation: "Decides necessary conditions of corruption reporting: (mac-before-decrypt) Key.Open decrypts and returns nil only after poly1305Verify succeeded; (open-error-used) at every Key.Open call site the error is examined and no nil-error return is reachable from a failed Open; (nil-only-after-hash) blob and file load paths return success only after the hash comparison; (accumulator) errors appended to the local error lists of checkPackInner, checker.checkTree, loadSnapshotTreeIDs and Checker.LoadIndex reach the result or a len()!=0 test before any success return; (checkpack-guards) checkPackInner succeeds only after download, sha256-of-stream == pack ID and header decode; (check-exit) in runCheck every nil-error return lies on the false edge of one errors-found flag, every error received from the three checker channels sets that flag on every path (sole exception: orphaned packs) and a non-empty LoadIndex error list forces failure; (cache-result-provenance) the blob cache used by mount and dump (bloblru.GetOrCompute) returns success only on a cache hit or with the results of the caller's own computation, returns the cached blob on a hit and never inserts the result of a failed computation — a waiter for a parallel download that failed must not report success (added after a seeded change); (load-errors-propagate) at each of the ~45 call sites of the integrity-checked read primitives (LoadRaw, LoadUnpacked, LoadBlob, loadBlob, LoadBlobsFromPack, LoadJSONUnpacked, LoadTree, LoadSnapshot, directly or through the restic interfaces) the error is bound and, from the edge on which it is non-nil, no return is reached unless the error was returned, reported or handed to a callback/channel/structure — one named exception (repair packs keeps a copy of partially readable packs); the accumulator rule also requires that a captured error list is only extended, never replaced (both clauses added after the mutant sweep showed `return nil` variants surviving). Not decided: that every byte flip is detected (strength of Poly1305/SHA-256, zstd framing).",
		Assumptions: commonAssumptions,
		Technique:   "static analysis: CFG edge cuts + path-sensitive flag/nil flow + error-accumulator discipline (go/ssa)",
		AllConfigs:  true,
		Run: func(c *eng.Ctx) {
			ruleMacBeforeDecrypt(c)
			ruleOpenErrorUsed(c)
			ruleNilOnlyAfterHash(c)
			ruleAccumulator(c, "accumulator", pkgRepo+".checkPackInner")
			ruleAccumulator(c, "accumulator", "internal/checker.(*Checker).checkTree")
			ruleAccumulator(c, "accumulator", "internal/checker.loadSnapshotTreeIDs")
			ruleAccumulator(c, "accumulator", pkgRepo+".(*Checker).LoadIndex")
			ruleCheckPackGuards(c)
			ruleLoadErrorsPropagate(c)
			ruleCheckExit(c, false)
			ruleCheckFreshCache(c)
			ruleCacheResultProvenance(c)
		},
		Controls: []Control{
			{Name: "failed-raw-load-returns-success", File: "internal/repository/repository.go",
				Old: "	buf, err := r.LoadRaw(ctx, t, id)\n	if err != nil {\n		return nil, err\n	}", New: "	buf, err := r.LoadRaw(ctx, t, id)\n	if err != nil {\n		return nil, nil\n	}", Rule: "load-errors-propagate"},
			{Name: "checktree-named-result-reset", File: "internal/checker/checker.go",
				Old: "			errs = append(errs, &Error{TreeID: id, Err: errors.New(\"node with empty name\")})\n		}\n	}\n\n	return errs\n}", New: "			errs = append(errs, &Error{TreeID: id, Err: errors.New(\"node with empty name\")})\n		}\n	}\n\n	return nil\n}", Rule: "accumulator"},
			{Name: "unloadable-tree-skipped-in-walk", File: "internal/walker/walker.go",
				Old: "	tree, err := data.LoadTree(ctx, repo, root)\n	err = visitor.ProcessNode(root, \"/\", nil, err)", New: "	tree, err := data.LoadTree(ctx, repo, root)\n	if err != nil {\n		tree = nil\n	}\n	err = visitor.ProcessNode(root, \"/\", nil, nil)", Rule: "load-errors-propagate"},
			{Name: "waiter-returns-without-recheck", File: "internal/bloblru/cache.go",
				Old: "	blob, ok = c.get(id)\n	if ok {", New: "	blob, ok = c.get(id)\n	if ok || isComputing {", Rule: "cache-result-provenance"},
			{Name: "ignore-tree-errors-in-check", File: "cmd/restic/cmd_check.go",
				Old: "	for err := range errChan {\n		errorsFound = true\n		switch e := err.(type) {", New: "	for err := range errChan {\n		switch e := err.(type) {", Rule: "check-exit"},
			{Name: "drop-errs-test-in-checkPack", File: "internal/repository/checker.go",
				Old: "	if len(errs) > 0 {\n		return &ErrPackData{PackID: id, errs: errs}\n	}\n\n	return nil", New: "	if len(errs) > 1 {\n		return &ErrPackData{PackID: id, errs: errs}\n	}\n\n	return nil", Rule: "accumulator"},
			{Name: "success-after-failed-open", File: "internal/repository/repository.go",
				Old: "	plaintext, err := r.key.Open(ciphertext[:0], nonce, ciphertext, nil)\n	if err != nil {\n		return nil, err\n	}", New: "	plaintext, err := r.key.Open(ciphertext[:0], nonce, ciphertext, nil)\n	if err != nil && len(nonce) == 0 {\n		return nil, err\n	}", Rule: "open-error-used"},
			{Name: "skip-pack-hash-compare", File: "internal/repository/checker.go",
				Old: "	if !hash.Equal(id) {", New: "	if !hash.Equal(id) && size > 0 {", Rule: "checkpack-guards"},
		},
	})
	register(&Property{
		ID: "C15",
		Explanation: "Decides the classification clause only: in runCheck the arms for ErrDuplicatePacks, ErrMixedPack and orphaned packs (exactly the states an interrupted backup, prune or repair may leave: duplicate index entries, old mixed packs, unindexed packs) neither set the errors-found flag nor increment summary.NumErrors on any path, both hint types have their own type-switch arm (they do not fall into the default error arm), and the success return is guarded by that flag; plus the write/delete orderings whose violation makes check fail after an interruption: (execute-order, rewrite-order; C09) prune deletes a pack only after no index file names it and removes old index files only after the new ones were saved; (pack-before-index, flush-order, snapshot-after-upload; C11) an index entry is written only for an uploaded pack and a snapshot only after its data was flushed. Not decided: that restic never produces any other inconsistency (e.g. through the remaining commands' own sequences).",
		Assumptions: commonAssumptions,
		Technique:   "static analysis: path-sensitive flag flow over the type-switch arms of runCheck + CFG ordering cuts of the write/delete sequences (go/ssa)",
		Run: func(c *eng.Ctx) {
			ruleCheckExit(c, true)
			ruleExecuteOrder(c)
			ruleRewriteOrder(c)
			rulePackBeforeIndex(c)
			ruleFlushOrder(c)
			ruleSnapshotAfterUpload(c)
			// copy after an interrupted copy: a tree already in the destination index says nothing
			// about what lies below it (shared with C32/C42)
			ruleVisitedSet(c)
		},
		Controls: []Control{
			{Name: "mixed-pack-becomes-error", File: "cmd/restic/cmd_check.go",
				Old: "			printer.S(\"%s\", hint.Error())\n			summary.HintPrune = true\n", New: "			printer.S(\"%s\", hint.Error())\n			summary.HintPrune = true\n			errorsFound = true\n", Rule: "hint-branches"},
			{Name: "orphaned-pack-counts-as-error", File: "cmd/restic/cmd_check.go",
				Old: "				orphanedPacks++\n", New: "				orphanedPacks++\n				summary.NumErrors++\n", Rule: "hint-branches"},
		},
	})
	register(&Property{
		ID: "C02",
		Explanation: "Decides: (save-name-is-hash) at every Backend.Save site of package repository the handle name is ID.String() of restic.Hash applied to exactly the bytes wrapped by the reader (pack files: sha256 streamed over the same temporary file that is uploaded; config: constant zero ID only on the t==ConfigFile branch); (verify-before-store) SaveBlob/be.Save/header Write are reachable only through the success edge of verifyCiphertext/verifyUnpacked/verifyHeader on the same buffer, and the verifiers return nil only after the hash/bytes comparison (or the documented NoExtraVerify opt-out); (nil-only-after-hash) packBlobIterator.Next can leave Err nil only on paths through Hash(plaintext).Equal(entry.ID), the plaintext handed out is the hashed value, and LoadRaw returns a nil error only through id == Hash(buf) (config exempt); (load-sites) every backend read in package repository is one of the classified verifying load paths; (zero-chunk-agreement) the all-zero shortcut tests len and zero-prefix against the same chunker.MinSize that zeroChunk() hashes. (loadblob-returns-verified-bytes) what loadBlob returns with a nil error is the plaintext the pack-blob iterator checked against the ID — the value itself, or the caller's buffer cut to len(plaintext) after copy(buf, plaintext); its length never comes from the index entry (added after a seeded change that cut the buffer to the entry's claimed length). Not decided: that SHA-256/zstd behave; stale-but-hash-correct data.",
		Assumptions: commonAssumptions,
		Technique:   "static analysis: value-origin slices at all save sites + path-sensitive nil-flow cuts (go/ssa)",
		AllConfigs:  true,
		Run: func(c *eng.Ctx) {
			ruleLoadBlobReturnsVerified(c)
			ruleSaveNameIsHash(c)
			ruleVerifyBeforeStore(c)
			ruleNilOnlyAfterHash(c)
			ruleLoadSites(c)
			ruleZeroChunk(c)
		},
		Controls: []Control{
			{Name: "returned-buffer-not-filled", File: "internal/repository/repository.go",
				Old: "		buf = buf[:len(plaintext)]\n		copy(buf, plaintext)\n		return buf, nil", New: "		buf = buf[:len(plaintext)]\n		return buf, nil", Rule: "loadblob-returns-verified-bytes"},
			{Name: "name-unpacked-by-plaintext-hash", File: "internal/repository/repository.go",
				Old: "		id = restic.Hash(ciphertext)\n", New: "		id = restic.Hash(p)\n", Rule: "save-name-is-hash"},
			{Name: "drop-hash-compare-in-iterator", File: "internal/repository/repository.go",
				Old: "		if !id.Equal(entry.ID) {\n			debug.Log(\"read blob", New: "		if !id.Equal(entry.ID) && len(plaintext) == 0 {\n			debug.Log(\"read blob", Rule: "nil-only-after-hash"},
			{Name: "zero-shortcut-wrong-length", File: "internal/repository/repository.go",
				Old: "if len(buf) == chunker.MinSize && restic.ZeroPrefixLen(buf) == chunker.MinSize {", New: "if len(buf) == chunker.MaxSize && restic.ZeroPrefixLen(buf) == chunker.MaxSize {", Rule: "zero-chunk-agreement"},
			{Name: "skip-verify-on-large-blobs", File: "internal/repository/repository.go",
				Old: "	if err := r.verifyCiphertext(ciphertext, uncompressedLength, id); err != nil {", New: "	if err := r.verifyCiphertext(ciphertext, uncompressedLength, id); err != nil && len(data) < 1<<20 {", Rule: "verify-before-store"},
		},
	})
}
