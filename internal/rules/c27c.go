package rules

import (
	"golang.org/x/tools/go/ssa"

	"verif/internal/eng"
)

// ruleRewriteIncludeAsksAll (C27): rewrite --include keeps an entry if *some* include
// function (the case-insensitive patterns, the case-sensitive ones) selects it or — for a
// directory — may select something below it. The closures of gatherIncludeFilters loop over
// the include functions; inside that loop they may only return "yes" (the constant true, or a
// value on its own true edge). "No" is returned after the last function was asked, never from
// within the loop: otherwise the first function alone decides and a directory that only a later
// function's patterns reach is dropped with its whole subtree.
func ruleRewriteIncludeAsksAll(c *eng.Ctx) {
	const rule = "rewrite-include-asks-all"
	root := c.NeedFn(rule, "cmd/restic.gatherIncludeFilters")
	if root == nil {
		return
	}
	n := 0
	for _, l := range c.P.Lits(root) {
		// a loop that calls elements of the include-function slice
		var loopCalls []ssa.CallInstruction
		for _, call := range eng.Calls(l) {
			cc := call.Common()
			if cc.IsInvoke() || cc.StaticCallee() != nil {
				continue
			}
			if _, isB := cc.Value.(*ssa.Builtin); isB {
				continue
			}
			// called value: an element loaded from a slice (range over includeByNameFuncs)
			if ld, ok := cc.Value.(*ssa.UnOp); ok {
				if _, isIdx := ld.X.(*ssa.IndexAddr); isIdx {
					loopCalls = append(loopCalls, call)
				}
			}
		}
		if len(loopCalls) == 0 {
			continue
		}
		c.Touch(l)
		for _, lc := range loopCalls {
			var header *ssa.BasicBlock
			for _, b := range l.Blocks {
				if !b.Dominates(lc.Block()) {
					continue
				}
				for _, p := range b.Preds {
					if b.Dominates(p) && (header == nil || header.Dominates(b)) {
						header = b
					}
				}
			}
			if header == nil {
				continue
			}
			n++
			inLoop := func(b *ssa.BasicBlock) bool {
				return b != header && header.Dominates(b) && len(header.Instrs) > 0 && eng.FindPath(eng.Loc{B: b, I: 0}, header.Instrs[0], nil) != nil
			}
			// returns reachable from the loop body without going through the header again
			ok := true
			where := ""
			for _, r := range eng.Returns(l) {
				if eng.FindPath(eng.After(lc.(ssa.Instruction)), r, eng.NewCut().AddInstrs(header.Instrs[0])) == nil {
					continue // only reachable after the loop ended
				}
				v := eng.RetVal(r, 0)
				if k, isK := v.(*ssa.Const); isK && k.Value != nil && k.Value.String() == "true" {
					continue
				}
				// a variable returned on its own true edge
				yes := eng.NewCut().AddEdges(eng.BoolEdges(l, eng.SameAs(v), true)...).AddInstrs(header.Instrs[0])
				if yes.Size() > 1 && eng.FindPath(eng.After(lc.(ssa.Instruction)), r, yes) == nil {
					continue
				}
				ok = false
				where = c.P.Pos(r.Pos())
			}
			_ = inLoop
			detail := "inside the loop over the include functions only a positive answer is returned"
			if !ok {
				detail += "; " + where + " can return a negative answer before the remaining functions were asked"
			}
			c.Check(ok, rule, c.P.FnName(l)+":negative-only-after-all-include-functions", lc.Pos(), "%s", detail)
		}
	}
	if n < 2 {
		c.Unk(rule, "floor", 0, "expected at least 2 loops over the include functions in gatherIncludeFilters, found %d", n)
	}
}
