package rules

import (
	"go/token"
	"strings"

	"golang.org/x/tools/go/ssa"

	"verif/internal/eng"
)

// ruleRootTreeProvenance (C11, "no snapshot refers to data that was not fully stored"): the
// tree a backup snapshot points to is the root tree that was saved successfully.
//   - the goroutine that archives the targets assigns the root tree id only behind the
//     success edge of saveTree and the nil-error edge of the saved root node's result, and it
//     returns nil only after that assignment;
//   - the upload callback of Archiver.Snapshot returns nil only behind the nil edge of the
//     errgroup's Wait (so WithBlobUploader flushes and reports success only then — the
//     snapshot is saved behind its success edge: rule snapshot-after-upload);
//   - the id stored in the snapshot is that variable.
func ruleRootTreeProvenance(c *eng.Ctx) {
	const rule = "root-tree-provenance"
	root := c.NeedFn(rule, "internal/archiver.(*Archiver).Snapshot")
	if root == nil {
		return
	}
	var worker, upload *ssa.Function
	for _, l := range c.P.Lits(root) {
		if len(c.P.CallsTo(l, "internal/archiver.(*Archiver).saveTree")) == 1 {
			worker = l
		}
		if len(c.P.CallsTo(l, "golang.org/x/sync/errgroup.(*Group).Wait")) == 1 {
			upload = l
		}
	}
	if worker == nil || upload == nil {
		c.Unk(rule, "Snapshot:anchors", root.Pos(), "the archiving goroutine (saveTree) or the upload callback (errgroup Wait) of Snapshot was not found")
		return
	}
	c.Touch(worker)
	c.Touch(upload)
	st := c.P.CallsTo(worker, "internal/archiver.(*Archiver).saveTree")[0]
	// the captured root tree id: a free variable of ID type that is stored to in the worker
	var idStores []ssa.Instruction
	var idVar *ssa.FreeVar
	for _, b := range worker.Blocks {
		for _, in := range b.Instrs {
			s, ok := in.(*ssa.Store)
			if !ok {
				continue
			}
			fv, isFV := s.Addr.(*ssa.FreeVar)
			if !isFV || !strings.HasSuffix(s.Val.Type().String(), "internal/restic.ID") {
				continue
			}
			idVar = fv
			idStores = append(idStores, s)
		}
	}
	if idVar == nil {
		c.Bad(rule, "Snapshot:root-id-assignment", worker.Pos(), "the archiving goroutine never assigns the root tree id")
		return
	}
	// nil-error edge of the saved node's result (fnr.err)
	errF := c.P.Field("internal/archiver.futureNodeResult", "err")
	var resOK []eng.EdgeKey
	if errF != nil {
		resOK = eng.NilEdges(worker, func(v ssa.Value) bool { return eng.LoadsField(v, errF) }, true)
	}
	for _, s := range idStores {
		c.MustPass(rule, "Snapshot:saveTree-ok→root-id", eng.Entry(worker), s, eng.SuccessCut(st), "saveTree returned no error")
		c.MustPass(rule, "Snapshot:root-node-saved→root-id", eng.Entry(worker), s, eng.NewCut().AddEdges(resOK...), "the result of saving the root tree node carries no error (fnr.err == nil)")
		// the value is the subtree id of that result
		okVal := false
		for _, o := range eng.Origins(s.(*ssa.Store).Val, nil) {
			if ld, isLd := o.(*ssa.UnOp); isLd && ld.Op == token.MUL {
				okVal = true
			}
		}
		c.Check(okVal, rule, "Snapshot:root-id=saved-node.Subtree", s.Pos(), "the id assigned is read from the saved root node")
	}
	for _, r := range eng.Returns(worker) {
		if eng.IsNilConst(eng.RetVal(r, 0)) {
			c.MustPass(rule, "Snapshot:worker-success→root-id-assigned", eng.Entry(worker), r, eng.NewCut().AddInstrs(idStores...), "rootTreeID was assigned")
		}
	}
	// the upload callback
	wait := c.P.CallsTo(upload, "golang.org/x/sync/errgroup.(*Group).Wait")[0]
	n := 0
	for _, r := range eng.Returns(upload) {
		if eng.IsNilConst(eng.RetVal(r, 0)) {
			n++
			c.MustPass(rule, "Snapshot:workers-ok→upload-callback-success", eng.Entry(upload), r, eng.SuccessCut(wait), "wg.Wait() returned nil")
		}
	}
	c.Check(n >= 1, rule, "Snapshot:upload-callback-returns", upload.Pos(), "%d nil returns in the upload callback", n)
	// sn.Tree = &rootTreeID: the cell bound to the worker's free variable
	treeF := c.P.Field("internal/data.Snapshot", "Tree")
	var cell ssa.Value
	for _, l := range c.P.WithLits(root) {
		for _, mc := range rootClosures(l, worker) {
			for i, fv := range worker.FreeVars {
				if fv == idVar && i < len(mc.Bindings) {
					cell = mc.Bindings[i]
				}
			}
		}
	}
	// the binding may pass through the upload callback's own free variable
	if fv, ok := cell.(*ssa.FreeVar); ok {
		for _, mc := range rootClosures(root, upload) {
			for i, f := range upload.FreeVars {
				if f == fv && i < len(mc.Bindings) {
					cell = mc.Bindings[i]
				}
			}
		}
	}
	okTree := false
	if treeF != nil && cell != nil {
		for _, s := range c.P.FieldStoresIn(root, treeF) {
			if s.Parent() == root && s.Val == cell {
				okTree = true
			}
		}
	}
	c.Check(okTree, rule, "Snapshot:sn.Tree=&rootTreeID", root.Pos(), "the snapshot's tree is the variable the archiving goroutine assigned")
}
