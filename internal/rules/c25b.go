package rules

import (
	"go/token"

	"golang.org/x/tools/go/ssa"

	"verif/internal/eng"
)

// ruleSetAlwaysPersisted (C25): with --set the requested list is stored in the snapshot and
// the snapshot is saved; the save may only be skipped when the old list is exactly equal
// (same order, same multiplicity) to the requested one.
func ruleSetAlwaysPersisted(c *eng.Ctx) {
	const rule = "set-always-persisted"
	fn := c.NeedFn(rule, "cmd/restic.changeTags")
	if fn == nil {
		return
	}
	isSet := eng.IsParam(fn, "setTags")
	tagsF := c.P.Field(pkgData+".Snapshot", "Tags")
	setEdges := eng.CmpEdges(fn, func(op token.Token, x, y ssa.Value) (bool, bool) {
		k, isK := eng.ConstInt(y)
		if !isK || k != 0 || !eng.IsLenOf(x, isSet) {
			return false, false
		}
		switch op {
		case token.NEQ, token.GTR:
			return true, true
		case token.EQL:
			return true, false
		}
		return false, false
	})
	saves := c.P.CallsTo(fn, fnSaveSnapshot)
	if len(setEdges) == 0 || len(saves) == 0 {
		c.Unk(rule, "changeTags:shape", fn.Pos(), "the len(setTags) != 0 test or the SaveSnapshot call was not found (%d/%d)", len(setEdges), len(saves))
		return
	}
	// an exact comparison of the old and the new list may justify skipping the save
	var exact []ssa.CallInstruction
	for _, call := range eng.Calls(fn) {
		switch c.P.CalleeName(call) {
		case "slices.Equal", "reflect.DeepEqual":
			a0, a1 := eng.Arg(call, 0), eng.Arg(call, 1)
			if (mentionsFieldDeepArgs(a0, tagsF) && isSet(eng.Strip(a1))) || (mentionsFieldDeepArgs(a1, tagsF) && isSet(eng.Strip(a0))) {
				exact = append(exact, call)
			}
		}
	}
	cut := eng.Union(eng.CallCut(saves...), eng.ResultCut(true, 0, exact...))
	for _, e := range setEdges {
		from, ecut := eng.EdgeOrigin(fn, e, cut)
		res := c.P.FindPathSeeded(from, func(in ssa.Instruction) bool {
			r, ok := in.(*ssa.Return)
			return ok && eng.IsNilConst(eng.RetVal(r, 1))
		}, ecut, nil, nil)
		switch {
		case res != nil && res.Exhausted:
			c.Unk(rule, "changeTags:set→saved", fn.Pos(), "path search exhausted")
		case res != nil:
			c.Bad(rule, "changeTags:set→saved", fn.Pos(), "with --set the function can report success without saving the snapshot (path %s): the snapshot keeps its old tag list whenever the skipped case is not an exact match", c.P.PathString(res.Path))
		default:
			c.Ok(rule, "changeTags:set→saved", fn.Pos(), "with a non-empty --set list every successful return passes SaveSnapshot (or an exact-equality test of old and new list)")
		}
		// what is stored is the requested list (or nil for the single empty string)
		okStore := false
		for _, st := range c.P.FieldStoresIn(fn, tagsF) {
			if eng.FindPath(eng.EdgeStart(fn, e), st, nil) == nil {
				continue
			}
			all := true
			for _, o := range originsThroughPhi(st.Val) {
				if !(isSet(o) || eng.IsNilConst(o)) {
					all = false
				}
			}
			if all {
				okStore = true
			}
			for _, s := range saves {
				c.MustPass(rule, "changeTags:set-list-stored→save", eng.EdgeStart(fn, e), s.(ssa.Instruction), eng.NewCut().AddInstrs(st), "sn.Tags = setTags")
			}
		}
		c.Check(okStore, rule, "changeTags:stores-requested-list", fn.Pos(), "sn.Tags is assigned the --set list itself (nil for the single empty string)")
	}
	c.Floor(rule, 3, 3)
}
