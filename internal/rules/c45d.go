package rules

import (
	"go/token"

	"golang.org/x/tools/go/ssa"

	"verif/internal/eng"
)

// ruleTarModeBitsIndependent (C45, "correct … permission bits"): setuid, setgid and sticky are
// three independent bits of a node's mode, and dumpNodeTar translates each into the tar bit
// of the same meaning (04000, 02000, 01000). The three translations are independent as well:
// each tar bit is ORed into header.Mode behind a test of its own mode bit, and after one of them
// was set the other two can still be set — one run can execute all three.
func ruleTarModeBitsIndependent(c *eng.Ctx) {
	const rule = "tar-mode-bits-independent"
	fn := c.NeedFn(rule, pkgDump+".(*Dumper).dumpNodeTar")
	if fn == nil {
		return
	}
	want := map[int64]string{0o4000: "setuid", 0o2000: "setgid", 0o1000: "sticky"}
	stores := map[int64]*ssa.Store{}
	for _, b := range fn.Blocks {
		for _, in := range b.Instrs {
			st, ok := in.(*ssa.Store)
			if !ok {
				continue
			}
			fa, isFA := st.Addr.(*ssa.FieldAddr)
			if !isFA {
				continue
			}
			if f := eng.FieldVar(fa.X.Type(), fa.Field); f == nil || f.Name() != "Mode" {
				continue
			}
			bo, isBo := st.Val.(*ssa.BinOp)
			if !isBo || bo.Op != token.OR {
				continue
			}
			if k, isK := eng.ConstInt(bo.Y); isK {
				if _, w := want[k]; w {
					stores[k] = st
				}
			}
		}
	}
	if len(stores) != 3 {
		c.Bad(rule, "dumpNodeTar:three-special-bits", fn.Pos(), "expected header.Mode |= 04000, 02000 and 01000, found %d of them", len(stores))
		return
	}
	c.Ok(rule, "dumpNodeTar:three-special-bits", fn.Pos(), "setuid, setgid and sticky are translated")
	// some order exists in which all three are executed in one run
	keys := []int64{0o4000, 0o2000, 0o1000}
	perms := [][]int{{0, 1, 2}, {0, 2, 1}, {1, 0, 2}, {1, 2, 0}, {2, 0, 1}, {2, 1, 0}}
	chain := false
	for _, p := range perms {
		a, b, d := stores[keys[p[0]]], stores[keys[p[1]]], stores[keys[p[2]]]
		if eng.FindPath(eng.After(a), b, nil) != nil && eng.FindPath(eng.After(b), d, nil) != nil {
			chain = true
		}
	}
	c.Check(chain, rule, "dumpNodeTar:bits-not-mutually-exclusive", stores[0o4000].Pos(), "after one special bit was set the others can still be set (no else-if/switch between them)")
	// each behind a test of a mode bit of its own
	modeF := c.P.Field("internal/data.Node", "Mode")
	for k, st := range stores {
		guards := eng.CmpEdges(fn, func(op token.Token, x, y ssa.Value) (bool, bool) {
			if op != token.NEQ && op != token.EQL {
				return false, false
			}
			and, ok := x.(*ssa.BinOp)
			if !ok || and.Op != token.AND || modeF == nil || !mentionsFieldDeepArgs(and.X, modeF) {
				return false, false
			}
			if z, isZ := eng.ConstInt(y); !isZ || z != 0 {
				return false, false
			}
			return true, op == token.NEQ
		})
		c.MustPass(rule, "dumpNodeTar:"+want[k]+"-behind-a-mode-test", eng.Entry(fn), st, eng.NewCut().AddEdges(guards...), "node.Mode & <bit> != 0")
	}
}
