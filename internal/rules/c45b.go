package rules

import (
	"go/token"
	"go/types"
	"strings"

	"golang.org/x/tools/go/ssa"

	"verif/internal/eng"
)

// inCycle reports whether block b lies on a CFG cycle (is part of a loop body).
func inCycle(b *ssa.BasicBlock) bool {
	seen := map[*ssa.BasicBlock]bool{}
	work := append([]*ssa.BasicBlock(nil), b.Succs...)
	for len(work) > 0 {
		x := work[len(work)-1]
		work = work[:len(work)-1]
		if x == b {
			return true
		}
		if seen[x] {
			continue
		}
		seen[x] = true
		work = append(work, x.Succs...)
	}
	return false
}

// boundCell returns the value bound to free variable fv of literal lit at its (single)
// MakeClosure site, and that site.
func boundCell(p *eng.Prog, lit *ssa.Function, fv *ssa.FreeVar) (ssa.Value, *ssa.MakeClosure) {
	parent := lit.Parent()
	if parent == nil {
		return nil, nil
	}
	idx := -1
	for i, f := range lit.FreeVars {
		if f == fv {
			idx = i
		}
	}
	if idx < 0 {
		return nil, nil
	}
	var site *ssa.MakeClosure
	for _, b := range parent.Blocks {
		for _, in := range b.Instrs {
			if mc, ok := in.(*ssa.MakeClosure); ok && mc.Fn == lit {
				if site != nil {
					return nil, nil
				}
				site = mc
			}
		}
	}
	if site == nil || idx >= len(site.Bindings) {
		return nil, nil
	}
	return site.Bindings[idx], site
}

// cellStores lists the stores to a local cell.
func cellStores(cell *ssa.Alloc) []*ssa.Store {
	var out []*ssa.Store
	for _, ref := range *cell.Referrers() {
		if st, ok := ref.(*ssa.Store); ok && st.Addr == cell {
			out = append(out, st)
		}
	}
	return out
}

func isByteSlice(t types.Type) bool {
	s, ok := t.Underlying().(*types.Slice)
	if !ok {
		return false
	}
	b, ok := s.Elem().Underlying().(*types.Basic)
	return ok && b.Kind() == types.Byte
}

// loadOfCell reports whether v is a load of the given cell.
func loadOfCell(v ssa.Value, cell ssa.Value) bool {
	ld, ok := eng.Strip(v).(*ssa.UnOp)
	return ok && ld.Op == token.MUL && ld.X == cell
}

// ruleOrderedContent (C45): a dumped file's blobs are loaded concurrently but written in the
// order of node.Content. The order is carried by one fresh result channel per blob, queued on
// the FIFO channel `blobs` by the (sequential) loop over node.Content, and a single writer that
// drains `blobs` and receives from each queued channel before taking the next.
func ruleOrderedContent(c *eng.Ctx) {
	const rule = "ordered-content"
	fn := c.NeedFn(rule, pkgDump+".(*Dumper).writeNode")
	if fn == nil {
		return
	}
	contentF := c.P.Field("internal/data.Node", "Content")
	lits := c.P.Lits(fn)
	loaders, writers := 0, 0
	var queueCell ssa.Value // the cell of the channel of channels, as seen from writeNode
	for _, lit := range lits {
		if lit.Parent() != fn {
			continue
		}
		for _, b := range lit.Blocks {
			for _, in := range b.Instrs {
				snd, ok := in.(*ssa.Send)
				if !ok || !isByteSlice(snd.X.Type()) {
					continue
				}
				loaders++
				key := "writeNode:loader-sends-on-its-own-channel"
				ld, ok := snd.Chan.(*ssa.UnOp)
				var fv *ssa.FreeVar
				if ok && ld.Op == token.MUL {
					fv, _ = ld.X.(*ssa.FreeVar)
				}
				if fv == nil {
					c.Unk(rule, key, snd.Pos(), "the result channel of the loader is not a captured variable")
					continue
				}
				bound, site := boundCell(c.P, lit, fv)
				cell, _ := bound.(*ssa.Alloc)
				if cell == nil {
					c.Unk(rule, key, snd.Pos(), "cannot resolve the captured channel variable")
					continue
				}
				sts := cellStores(cell)
				fresh := len(sts) == 1
				var mk *ssa.MakeChan
				if fresh {
					mk, _ = sts[0].Val.(*ssa.MakeChan)
				}
				perIter := mk != nil && mk.Block() == site.Block() && cell.Block() == site.Block() && inCycle(site.Block())
				c.Check(perIter, rule, key, snd.Pos(), "the channel a loader goroutine sends its blob on is created in the same loop iteration that starts the goroutine (one channel per blob; a channel shared by several loaders delivers blobs in completion order)")
				if !perIter {
					continue
				}
				// the same channel is queued for the writer in that iteration, by the loop itself
				queued := false
				for _, in2 := range site.Block().Instrs {
					sel, isSel := in2.(*ssa.Select)
					if isSel {
						for _, st := range sel.States {
							if st.Dir == types.SendOnly && loadOfCell(st.Send, cell) {
								if q, isLd := st.Chan.(*ssa.UnOp); isLd && q.Op == token.MUL {
									queueCell = q.X
									queued = true
								}
							}
						}
					}
					if s2, isSend := in2.(*ssa.Send); isSend && loadOfCell(s2.X, cell) {
						if q, isLd := s2.Chan.(*ssa.UnOp); isLd && q.Op == token.MUL {
							queueCell = q.X
							queued = true
						}
					}
				}
				c.Check(queued, rule, "writeNode:channel-queued-in-content-order", site.Pos(), "the per-blob channel is handed to the writer by the loop over node.Content itself, in iteration order")
				// the goroutine loads the blob of this iteration's id, and sends what it loaded
				loadsOwn := false
				for _, org := range eng.Origins(snd.X, nil) {
					if call := eng.RootCall(org); call != nil {
						n := c.P.CalleeName(call)
						if strings.HasSuffix(n, ".GetOrCompute") || strings.HasSuffix(n, ".LoadBlob") {
							loadsOwn = true
						}
					}
				}
				c.Check(loadsOwn, rule, "writeNode:loader-sends-loaded-blob", snd.Pos(), "the value sent is the blob returned by the cache/repository for this iteration's id")
				// the iteration's id comes from node.Content
				fromContent := false
				for _, fv2 := range lit.FreeVars {
					b2, _ := boundCell(c.P, lit, fv2)
					idCell, _ := b2.(*ssa.Alloc)
					if idCell == nil || idCell.Block() != site.Block() {
						continue
					}
					for _, st := range cellStores(idCell) {
						if el, isLd := st.Val.(*ssa.UnOp); isLd && el.Op == token.MUL {
							if ia, isIA := el.X.(*ssa.IndexAddr); isIA && mentionsField(ia.X, contentF) {
								fromContent = true
							}
						}
					}
				}
				c.Check(fromContent, rule, "writeNode:ids-from-node-content", site.Pos(), "the id loaded in each iteration is the loop's element of node.Content")
			}
		}
	}
	if loaders == 0 {
		c.Unk(rule, "writeNode:loader", fn.Pos(), "no goroutine sending a []byte blob found")
	}
	// the writer: all Write calls take what was received from a channel taken from the queue
	for _, lit := range lits {
		for _, call := range eng.Calls(lit) {
			if eng.MethodName(call) != "Write" {
				continue
			}
			writers++
			key := "writeNode:writer-writes-in-queue-order"
			ok := false
			arg := eng.Arg(call, 0)
			if ex, isEx := arg.(*ssa.Extract); isEx {
				if sel, isSel := ex.Tuple.(*ssa.Select); isSel {
					for _, st := range sel.States {
						if st.Dir != types.RecvOnly || !isByteSliceChan(st.Chan.Type()) {
							continue
						}
						// the channel was received from the queue
						if ex2, isEx2 := st.Chan.(*ssa.Extract); isEx2 {
							if rcv, isRcv := ex2.Tuple.(*ssa.UnOp); isRcv && rcv.Op == token.ARROW {
								if q, isLd := rcv.X.(*ssa.UnOp); isLd && q.Op == token.MUL {
									if fv, isFV := q.X.(*ssa.FreeVar); isFV {
										b, site := boundCell(c.P, lit, fv)
										ok = queueCell != nil && b == queueCell && site != nil && !inCycle(site.Block())
									}
								}
							}
						}
					}
				}
			}
			c.Check(ok, rule, key, call.Pos(), "the writer (started once) writes exactly what it receives from the channel it took from the queue of per-blob channels")
		}
	}
	for _, call := range eng.Calls(fn) {
		if eng.MethodName(call) == "Write" {
			c.Bad(rule, "writeNode:only-the-writer-writes", call.Pos(), "a Write outside the single writer goroutine")
		}
	}
	if writers == 0 {
		c.Unk(rule, "writeNode:writer", fn.Pos(), "no Write call found in writeNode's goroutines")
	}
	// the queue is closed only after the loop, and every loader is awaited
	c.Floor(rule, 5, 5)
}

func isByteSliceChan(t types.Type) bool {
	ch, ok := t.Underlying().(*types.Chan)
	return ok && isByteSlice(ch.Elem())
}
