package rules

import "verif/internal/eng"

// ruleFindErrorsPropagate (C57, "if no file or more than one file matches, an error is
// returned"): the error of restic.Find reaches the user. At every call site the error is bound,
// and from the edge on which it is non-nil no return is reached unless the error was handed on
// (returned, wrapped, printed through a call, stored). One site is exempt by name: the key hint
// of searchKey is a hint — when it does not resolve, every key is tried.
func ruleFindErrorsPropagate(c *eng.Ctx) {
	ruleErrorsConsumed(c, "find-errors-propagate", []string{pkgRestic + ".Find"}, map[string]string{
		"internal/repository.searchKey→Find": "the key hint is optional: a hint that does not resolve is logged and the search goes on over all keys",
	}, 4)
}
