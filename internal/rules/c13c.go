package rules

import (
	"go/token"
	"go/types"
	"strings"

	"golang.org/x/tools/go/ssa"

	"verif/internal/eng"
)

// ruleMonitorOwnClock (C13): the expiry monitor must be able to stop the holder without the
// cooperation of the refresh goroutine (which may hang inside a backend request):
//
//	(a) every blocking channel operation of monitorLockRefresh has a case that receives from a
//	    clock (a <-chan time.Time), so the monitor never waits on the refresh goroutine alone;
//	(b) from the clock case of every such operation a return of monitorLockRefresh — whose
//	    deferred clean-up cancels the holder's context — is reachable without passing another
//	    blocking channel operation, i.e. the monitor can give up on a tick.
func ruleMonitorOwnClock(c *eng.Ctx) {
	const rule = "monitor-own-clock"
	fn := c.NeedFn(rule, pkgRepo+".(*locker).monitorLockRefresh")
	if fn == nil {
		return
	}
	isClock := func(v ssa.Value) bool {
		ch, ok := v.Type().Underlying().(*types.Chan)
		return ok && strings.HasSuffix(ch.Elem().String(), "time.Time")
	}
	describe := func(sel *ssa.Select) string {
		var parts []string
		for _, st := range sel.States {
			switch {
			case isClock(st.Chan):
				parts = append(parts, "<-clock")
			case st.Dir == types.SendOnly:
				parts = append(parts, "send:"+nameOfChan(st.Chan))
			default:
				parts = append(parts, "recv:"+nameOfChan(st.Chan))
			}
		}
		return "monitorLockRefresh{" + strings.Join(parts, ",") + "}"
	}
	var waits []ssa.Instruction
	var sels []*ssa.Select
	for _, b := range fn.Blocks {
		for _, in := range b.Instrs {
			switch x := in.(type) {
			case *ssa.Select:
				if x.Blocking {
					waits = append(waits, x)
					sels = append(sels, x)
				}
			case *ssa.Send:
				waits = append(waits, x)
				c.Bad(rule, "monitorLockRefresh{send:"+nameOfChan(x.Chan)+"}:has-clock-case", x.Pos(), "a plain channel send has no clock case")
			case *ssa.UnOp:
				if x.Op == token.ARROW {
					waits = append(waits, x)
					c.Check(isClock(x.X), rule, "monitorLockRefresh{recv:"+nameOfChan(x.X)+"}:has-clock-case", x.Pos(), "a plain channel receive waits for a clock")
				}
			}
		}
	}
	if len(sels) == 0 {
		c.Unk(rule, "anchor:select", fn.Pos(), "monitorLockRefresh has no blocking select")
		return
	}
	// the deferred clean-up cancels the context
	cancels := false
	for _, l := range c.P.Lits(fn) {
		for _, call := range eng.Calls(l) {
			if fieldLoadNamed(call.Common().Value, "unlocker", "cancel") {
				cancels = true
			}
		}
	}
	c.Check(cancels, rule, "monitorLockRefresh:return-cancels", fn.Pos(), "the deferred clean-up of monitorLockRefresh calls unlocker.cancel")
	cut := eng.NewCut().AddInstrs(waits...)
	for _, sel := range sels {
		d := describe(sel)
		clockIdx := -1
		for i, st := range sel.States {
			if isClock(st.Chan) && st.Dir == types.RecvOnly {
				clockIdx = i
			}
		}
		if !c.Check(clockIdx >= 0, rule, d+":has-clock-case", sel.Pos(), "the monitor does not wait on the refresh goroutine alone: one case receives from a clock") {
			continue
		}
		// the edge taken when case clockIdx fired: `index == clockIdx` true edge
		var idxV ssa.Value
		for _, ref := range *sel.Referrers() {
			if ex, ok := ref.(*ssa.Extract); ok && ex.Index == 0 {
				idxV = ex
			}
		}
		edges := eng.CmpEdges(fn, func(op token.Token, x, y ssa.Value) (bool, bool) {
			k, isK := eng.ConstInt(y)
			if op != token.EQL || x != idxV || !isK || int(k) != clockIdx {
				return false, false
			}
			return true, true
		})
		if idxV == nil || len(edges) == 0 {
			c.Unk(rule, d+":tick→can-give-up", sel.Pos(), "the clock case of the select does not resolve to a CFG edge")
			continue
		}
		can := false
		for _, e := range edges {
			for _, r := range eng.Returns(fn) {
				if eng.FindPath(eng.EdgeStart(fn, e), r, cut) != nil {
					can = true
				}
			}
		}
		c.Check(can, rule, d+":tick→can-give-up", sel.Pos(), "from the clock case a return (which cancels the holder's context) is reachable without another rendezvous with the refresh goroutine")
	}
	c.Floor(rule, 4, 4)
}

func nameOfChan(v ssa.Value) string {
	v = eng.Strip(v)
	switch x := v.(type) {
	case *ssa.Parameter:
		return x.Name()
	case *ssa.Phi:
		if x.Comment != "" {
			return x.Comment
		}
	case *ssa.Call:
		if x.Call.IsInvoke() {
			return x.Call.Method.Name() + "()"
		}
	case *ssa.UnOp:
		if fa, ok := x.X.(*ssa.FieldAddr); ok {
			if fv := eng.FieldVar(fa.X.Type(), fa.Field); fv != nil {
				return fv.Name()
			}
		}
	}
	return "chan"
}
