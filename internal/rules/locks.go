package rules

import (
	"go/types"
	"strings"

	"golang.org/x/tools/go/ssa"

	"verif/internal/eng"
)

// guardSpec describes "these fields of T are only touched with T.<lock> held".
type guardSpec struct {
	rule      string
	typeName  string
	lockField string
	fields    []string
	// callerHolds: function (or literal) name → mode its callers hold; verified at every call site.
	callerHolds map[string]int
	// exempt: function name → reason (constructors, single-threaded phases).
	exempt map[string]string
	// readOnlyAfterInit: fields that are only written by exempt functions; reads need no lock.
	minObl int
}

// freshObject reports whether v certainly refers to an object created in this function
// (composite literal, new, or a constructor of the listed names) and hence not shared yet.
func freshObject(c *eng.Ctx, v ssa.Value, constructors map[string]bool) bool {
	roots := eng.Origins(v, nil)
	if len(roots) == 0 {
		return false
	}
	for _, r := range roots {
		switch x := r.(type) {
		case *ssa.Alloc:
			continue
		default:
			if call := eng.RootCall(x); call != nil && constructors[c.P.CalleeName(call)] {
				continue
			}
			return false
		}
	}
	return true
}

func ruleGuardedFields(c *eng.Ctx, g guardSpec) {
	named := c.P.NamedType(g.typeName)
	if named == nil {
		c.Unk(g.rule, "anchor:"+g.typeName, 0, "type %s does not resolve", g.typeName)
		return
	}
	st, _ := named.Underlying().(*types.Struct)
	fieldSet := map[*types.Var]bool{}
	for _, f := range g.fields {
		fv := c.P.Field(g.typeName, f)
		if fv == nil {
			c.Unk(g.rule, "anchor:"+g.typeName+"."+f, named.Obj().Pos(), "field does not resolve")
			continue
		}
		fieldSet[fv] = true
	}
	if c.P.Field(g.typeName, g.lockField) == nil {
		c.Unk(g.rule, "anchor:"+g.typeName+"."+g.lockField, named.Obj().Pos(), "lock field does not resolve")
		return
	}
	_ = st
	isField := func(x ssa.Value, i int) bool { return fieldSet[eng.FieldVar(x.Type(), i)] }
	shortT := named.Obj().Name()
	constructors := map[string]bool{}
	for n := range g.exempt {
		constructors[n] = true
	}
	usedExempt := map[string]bool{}
	nacc := 0
	for _, fn := range c.P.Funcs {
		accs := eng.FieldAccesses(fn, isField)
		if len(accs) == 0 {
			continue
		}
		c.Touch(fn)
		fname := c.P.FnName(fn)
		rootName := c.P.FnName(eng.Root(fn))
		if why, ok := g.exempt[fname]; ok {
			usedExempt[fname] = true
			c.Ok(g.rule, fname+":exempt", fn.Pos(), "exempt (%d accesses): %s", len(accs), why)
			nacc += len(accs)
			continue
		}
		if why, ok := g.exempt[rootName]; ok && fn.Parent() != nil {
			usedExempt[rootName] = true
			c.Ok(g.rule, fname+":exempt", fn.Pos(), "exempt (%d accesses, literal of %s): %s", len(accs), rootName, why)
			nacc += len(accs)
			continue
		}
		entry := entryLockset(c, g, named, fn)
		if mode, ok := g.callerHolds[fname]; ok {
			if len(entry) == 0 {
				c.Unk(g.rule, fname+":caller-holds", fn.Pos(), "cannot find the receiver the callers lock")
			}
			checkCallersHold(c, g, named, fn, mode)
		}
		ls := c.P.Locksets(fn, entry)
		// group by (field, write) to keep the obligation keys position-free
		type key struct {
			field string
			write bool
		}
		verdict := map[key]string{}
		where := map[key]ssa.Instruction{}
		for _, a := range accs {
			nacc++
			var fv *types.Var
			switch x := a.Instr.(type) {
			case *ssa.FieldAddr:
				fv = eng.FieldVar(x.X.Type(), x.Field)
			case *ssa.Field:
				fv = eng.FieldVar(x.X.Type(), x.Field)
			}
			k := key{fv.Name(), a.Write}
			if _, seen := verdict[k]; !seen {
				verdict[k] = ""
				where[k] = a.Instr
			}
			need := eng.LockRead
			if a.Write {
				need = eng.LockWrite
			}
			if a.Base == "" {
				var base ssa.Value
				switch x := a.Instr.(type) {
				case *ssa.FieldAddr:
					base = x.X
				case *ssa.Field:
					base = x.X
				}
				if freshObject(c, base, constructors) {
					continue
				}
				verdict[k] = "access through a value whose owner cannot be resolved"
				where[k] = a.Instr
				continue
			}
			held := ls[a.Instr][a.Base+"."+g.lockField]
			if held < need {
				verdict[k] = "lock " + a.Base + "." + g.lockField + " held in mode " + modeName(held) + ", " + modeName(need) + " required (lockset " + ls[a.Instr].String() + ")"
				where[k] = a.Instr
			}
		}
		for k, v := range verdict {
			kind := "read"
			if k.write {
				kind = "write"
			}
			c.Check(v == "", g.rule, fname+":"+shortT+"."+k.field+":"+kind, where[k].Pos(), "every %s of %s.%s in %s holds %s.%s%s", kind, shortT, k.field, fname, shortT, g.lockField, ifs(v != "", ": "+v, ""))
		}
	}
	for n := range g.exempt {
		if !usedExempt[n] && !strings.HasSuffix(n, "?") {
			c.Note("rule %s: exemption for %s is unused (function gone or no longer touches the fields)", g.rule, n)
		}
	}
	if nacc < g.minObl {
		c.Unk(g.rule, "floor:"+shortT, named.Obj().Pos(), "only %d accesses to the guarded fields found, at least %d expected", nacc, g.minObl)
	}
}

func modeName(m int) string {
	switch m {
	case eng.LockRead:
		return "read"
	case eng.LockWrite:
		return "write"
	}
	return "none"
}

// checkCallersHold verifies the "caller holds the lock" annotation of fn at its call sites.
func checkCallersHold(c *eng.Ctx, g guardSpec, named *types.Named, fn *ssa.Function, mode int) {
	fname := c.P.FnName(fn)
	n := 0
	for _, caller := range c.P.Funcs {
		var ls map[ssa.Instruction]eng.Lockset
		for _, call := range eng.Calls(caller) {
			if eng.CalleeFunc(call) != fn {
				continue
			}
			n++
			if ls == nil {
				ls = c.P.Locksets(caller, entryLockset(c, g, named, caller))
			}
			cname := c.P.FnName(caller)
			if _, ok := g.exempt[c.P.FnName(eng.Root(caller))]; ok {
				c.Ok(g.rule, cname+"→"+fname+":caller-holds", call.Pos(), "caller is exempt (single-threaded phase)")
				continue
			}
			var recv ssa.Value
			if fn.Signature.Recv() != nil {
				recv = eng.Recv(call)
			}
			path := ""
			if recv != nil {
				path = eng.AccessPath(recv)
			} else if fn.Parent() != nil {
				// literal: the captured receiver has the same name in the parent
				for _, fv := range fn.FreeVars {
					if isPtrTo(fv.Type(), named) {
						path = fv.Name()
					}
				}
			}
			if path == "" {
				if recv != nil && freshObject(c, recv, map[string]bool{}) {
					c.Ok(g.rule, cname+"→"+fname+":caller-holds", call.Pos(), "receiver is a fresh, unshared object")
					continue
				}
				c.Unk(g.rule, cname+"→"+fname+":caller-holds", call.Pos(), "cannot resolve the receiver of the call")
				continue
			}
			held := ls[call.(ssa.Instruction)][path+"."+g.lockField]
			c.Check(held >= mode, g.rule, cname+"→"+fname+":caller-holds", call.Pos(), "%s is entered with %s.%s held (%s, %s required)", fname, path, g.lockField, modeName(held), modeName(mode))
		}
	}
	// a literal handed to go / errgroup.Go: the lock must be held where the literal is created
	// and the creator must wait for it before it can return (and release the lock)
	if fn.Parent() != nil {
		par := fn.Parent()
		var ls map[ssa.Instruction]eng.Lockset
		for _, b := range par.Blocks {
			for _, in := range b.Instrs {
				mc, ok := in.(*ssa.MakeClosure)
				if !ok || mc.Fn != ssa.Value(fn) {
					continue
				}
				// direct `go func(){…}()` / call sites were handled above
				direct := false
				for _, r := range *mc.Referrers() {
					if call, ok := r.(ssa.CallInstruction); ok && call.Common().Value == ssa.Value(mc) {
						direct = true
					}
				}
				if direct {
					continue
				}
				n++
				if ls == nil {
					ls = c.P.Locksets(par, entryLockset(c, g, named, par))
				}
				path := ""
				for _, fv := range fn.FreeVars {
					if isPtrTo(fv.Type(), named) {
						path = fv.Name()
					}
				}
				held := ls[mc][path+"."+g.lockField]
				key := c.P.FnName(par) + "→" + fname + ":caller-holds"
				if !c.Check(held >= mode, g.rule, key, mc.Pos(), "%s is created with %s.%s held (%s, %s required)", fname, path, g.lockField, modeName(held), modeName(mode)) {
					continue
				}
				waits := c.P.CallsTo(par, "golang.org/x/sync/errgroup.(*Group).Wait", "sync.(*WaitGroup).Wait")
				okWait := true
				for _, r := range eng.Returns(par) {
					if eng.FindPath(eng.After(mc), r, nil) != nil && eng.FindPath(eng.After(mc), r, eng.CallCut(waits...)) != nil {
						okWait = false
					}
				}
				c.Check(okWait, g.rule, key+":joined-before-release", mc.Pos(), "%s waits for the goroutine group before it returns (and its deferred unlock runs)", c.P.FnName(par))
			}
		}
	}
	if n == 0 {
		c.Note("rule %s: %s is annotated caller-holds but has no static call site", g.rule, fname)
	}
}

func isPtrTo(t types.Type, named *types.Named) bool {
	for {
		pt, ok := t.(*types.Pointer)
		if !ok {
			break
		}
		t = pt.Elem()
	}
	return types.Identical(t, named)
}

// entryLockset is the lockset a "caller holds the lock" function starts with.
func entryLockset(c *eng.Ctx, g guardSpec, named *types.Named, fn *ssa.Function) eng.Lockset {
	entry := eng.Lockset{}
	if par := fn.Parent(); par != nil && strings.Contains(fn.Synthetic, "range-over-func") {
		// the body of a range-over-func loop runs on the caller's goroutine inside the call of
		// the iterator made where the loop stands: it starts with the locks held there
		// (captured variables keep their names, so the access paths agree)
		pls := c.P.Locksets(par, entryLockset(c, g, named, par))
		for _, b := range par.Blocks {
			for _, in := range b.Instrs {
				if mc, isMC := in.(*ssa.MakeClosure); isMC && mc.Fn == ssa.Value(fn) {
					for k, v := range pls[in] {
						entry[k] = v
					}
				}
			}
		}
		return entry
	}
	mode, ok := g.callerHolds[c.P.FnName(fn)]
	if !ok {
		// a local closure that is only ever called (never stored away, passed on, deferred or
		// started as a goroutine) starts with the locks common to all its call sites
		if fn.Parent() != nil && !entryInProgress[fn] {
			if sites, local := localClosureCallSites(fn); local {
				entryInProgress[fn] = true
				first := true
				for _, s := range sites {
					f := s.Parent()
					ls := c.P.Locksets(f, entryLockset(c, g, named, f))[s.(ssa.Instruction)]
					if first {
						for k, v := range ls {
							entry[k] = v
						}
						first = false
						continue
					}
					for k, v := range entry {
						if w, held := ls[k]; !held {
							delete(entry, k)
						} else if w < v {
							entry[k] = w
						}
					}
				}
				delete(entryInProgress, fn)
			}
		}
		return entry
	}
	recv := ""
	if fn.Signature.Recv() != nil && len(fn.Params) > 0 {
		recv = fn.Params[0].Name()
	} else {
		for _, fv := range fn.FreeVars {
			if isPtrTo(fv.Type(), named) {
				recv = fv.Name()
			}
		}
	}
	if recv != "" {
		entry[recv+"."+g.lockField] = mode
	}
	return entry
}

// sameSection reports whether some path from a to b executes a release of the given lock
// path (i.e. a and b are NOT certainly in one critical section).
func releasedBetween(c *eng.Ctx, fn *ssa.Function, a, b ssa.Instruction, lockPath string) bool {
	for _, call := range eng.Calls(fn) {
		cv, ok := call.(*ssa.Call)
		if !ok {
			continue
		}
		p, mode, isLock := c.P.LockOp(cv)
		if !isLock || mode > 0 || p != lockPath {
			continue
		}
		if eng.FindPath(eng.After(a), cv, nil) != nil && eng.FindPath(eng.After(cv), b, nil) != nil {
			return true
		}
	}
	return false
}
