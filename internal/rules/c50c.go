package rules

import (
	"golang.org/x/tools/go/ssa"

	"verif/internal/eng"
)

// ruleStripParsesWhatParseAccepts (C50): rest.StripPassword returns the location unchanged —
// password included — when url.Parse fails on it. That fallback is only harmless because a
// location StripPassword cannot parse is not accepted by rest.ParseConfig either: both hand
// url.Parse the same function of the location string. Obligation: in ParseConfig and in
// StripPassword the argument of url.Parse is derived from the parameter through the same
// chain of calls (today: prepareURL(s)); a transformation applied on one side only (trimming,
// unescaping) lets ParseConfig accept a string whose password StripPassword leaves in place.
func ruleStripParsesWhatParseAccepts(c *eng.Ctx) {
	const rule = "strip-parses-what-parse-accepts"
	pc := c.NeedFn(rule, "internal/backend/rest.ParseConfig")
	sp := c.NeedFn(rule, "internal/backend/rest.StripPassword")
	if pc == nil || sp == nil {
		return
	}
	chain := func(fn *ssa.Function) ([]string, bool) {
		calls := c.P.CallsTo(fn, "net/url.Parse")
		if len(calls) != 1 {
			return nil, false
		}
		var out []string
		v := calls[0].Common().Args[0]
		for depth := 0; depth < 8; depth++ {
			roots := eng.Origins(v, nil)
			if len(roots) != 1 {
				return append(out, "?"), false
			}
			if p, ok := roots[0].(*ssa.Parameter); ok && p == fn.Params[0] {
				return out, true
			}
			call := eng.RootCall(roots[0])
			if call == nil || len(call.Call.Args) == 0 {
				return append(out, c.P.Describe(roots[0])), false
			}
			out = append(out, c.P.CalleeName(call))
			v = call.Call.Args[0]
		}
		return out, false
	}
	a, okA := chain(pc)
	b, okB := chain(sp)
	same := okA && okB && len(a) == len(b)
	if same {
		for i := range a {
			if a[i] != b[i] {
				same = false
			}
		}
	}
	c.Check(same, rule, "rest:url.Parse-argument-agrees", pc.Pos(), "ParseConfig parses %v(s), StripPassword parses %v(s): the same function of the location", a, b)
	// the fallback that returns the unparsed string exists only behind the failure of that parse
	if calls := c.P.CallsTo(sp, "net/url.Parse"); len(calls) == 1 {
		c.Check(len(eng.FailureEdges(calls[0])) > 0, rule, "StripPassword:parse-error-tested", calls[0].Pos(), "StripPassword tests the error of url.Parse")
	}
}
