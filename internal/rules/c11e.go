package rules

import (
	"strings"

	"golang.org/x/tools/go/ssa"

	"verif/internal/eng"
)

// ruleStepsBeforeEffects (C11, C44): on the way of a blob into the repository no step is
// skipped over: inside the functions of the upload chain, an effect (handing a pack to the
// uploader, storing it in the backend, entering it into the index, writing an index file) is
// reached from an earlier fallible step only through that step's success edge. Ignoring the
// error of Finalize, of the hashing pass over the temporary file or of Encode would store or
// index something that was never completely produced.
func ruleStepsBeforeEffects(c *eng.Ctx) {
	const rule = "steps-before-effects"
	type target struct {
		fn      string
		effects func(call ssa.CallInstruction) string
	}
	named := func(call ssa.CallInstruction, names ...string) string {
		n := c.P.CalleeName(call)
		for _, w := range names {
			if n == w || (strings.HasPrefix(w, "method:") && eng.MethodName(call) == w[7:]) {
				return n[strings.LastIndex(n, ".")+1:]
			}
		}
		return ""
	}
	targets := []target{
		{pkgRepo + ".(*Repository).savePacker", func(call ssa.CallInstruction) string {
			if call.Common().IsInvoke() && call.Common().Method.Name() == "Save" {
				return "be.Save"
			}
			return named(call, pkgIndex+".(*MasterIndex).StorePack")
		}},
		{pkgRepo + ".(*packerManager).SaveBlob", func(call ssa.CallInstruction) string {
			return named(call, "field:"+pkgRepo+".packerManager.queueFn", pkgPack+".(*Packer).Add")
		}},
		{pkgRepo + ".(*packerManager).Flush", func(call ssa.CallInstruction) string {
			return named(call, "field:"+pkgRepo+".packerManager.queueFn")
		}},
		{pkgIndex + ".(*Index).SaveIndex", func(call ssa.CallInstruction) string {
			if eng.MethodName(call) == "SaveUnpacked" {
				return "SaveUnpacked"
			}
			return ""
		}},
	}
	n := 0
	for _, t := range targets {
		fn := c.NeedFn(rule, t.fn)
		if fn == nil {
			continue
		}
		short := t.fn[strings.LastIndex(t.fn, ".")+1:]
		var effects []ssa.CallInstruction
		var names []string
		for _, call := range eng.Calls(fn) {
			if _, isDefer := call.(*ssa.Defer); isDefer {
				continue
			}
			if e := t.effects(call); e != "" {
				effects = append(effects, call)
				names = append(names, e)
			}
		}
		if len(effects) == 0 {
			c.Unk(rule, short+":effects", fn.Pos(), "no effect call found in %s", t.fn)
			continue
		}
		for _, step := range eng.Calls(fn) {
			if _, isDefer := step.(*ssa.Defer); isDefer || eng.ErrResult(step) == nil {
				continue
			}
			sn := c.P.CalleeName(step)
			if strings.HasPrefix(sn, "internal/debug.") {
				continue
			}
			for i, e := range effects {
				if e == step || eng.FindPath(eng.After(step.(ssa.Instruction)), e.(ssa.Instruction), nil) == nil {
					continue
				}
				n++
				c.MustPass(rule, short+":"+sn[strings.LastIndex(sn, ".")+1:]+"-ok→"+names[i], eng.After(step.(ssa.Instruction)), e.(ssa.Instruction), eng.SuccessCut(step), "the earlier step returned no error")
			}
		}
	}
	if n < 8 {
		c.Unk(rule, "floor", 0, "expected at least 8 step/effect pairs in the upload chain, found %d", n)
	}
}
