package rules

import (
	"strings"

	"golang.org/x/tools/go/ssa"

	"verif/internal/eng"
)

// callsReaching lists the calls in fn that satisfy pred directly, or that statically call a
// function of the restic module which (itself or through further helpers, up to depth
// levels) contains such a call. It makes a rule of the form "X is called between A and B"
// indifferent to the extraction of X's call into a small helper.
func callsReaching(c *eng.Ctx, fn *ssa.Function, depth int, pred func(ssa.CallInstruction) bool) []ssa.CallInstruction {
	memo := map[*ssa.Function]bool{}
	var contains func(f *ssa.Function, d int) bool
	contains = func(f *ssa.Function, d int) bool {
		if v, ok := memo[f]; ok {
			return v
		}
		memo[f] = false
		for _, g := range c.P.WithLits(f) {
			for _, call := range eng.Calls(g) {
				if pred(call) {
					memo[f] = true
					return true
				}
				if d > 0 {
					if callee := call.Common().StaticCallee(); callee != nil && len(callee.Blocks) > 0 && callee.Pkg != nil && strings.HasPrefix(callee.Pkg.Pkg.Path(), eng.Mod) && callee != f {
						if contains(callee, d-1) {
							memo[f] = true
							return true
						}
					}
				}
			}
		}
		return false
	}
	var out []ssa.CallInstruction
	for _, call := range eng.Calls(fn) {
		if pred(call) {
			out = append(out, call)
			continue
		}
		if depth > 0 {
			if callee := call.Common().StaticCallee(); callee != nil && len(callee.Blocks) > 0 && callee.Pkg != nil && strings.HasPrefix(callee.Pkg.Pkg.Path(), eng.Mod) && callee != fn {
				if contains(callee, depth-1) {
					c.Touch(callee)
					out = append(out, call)
				}
			}
		}
	}
	return out
}

// usedAsValue reports whether function f appears anywhere other than in the callee position
// of a static call (stored, passed, bound in a closure): such a function may be called from
// places the call graph of static calls does not show.
func usedAsValue(c *eng.Ctx, f *ssa.Function) bool {
	for _, g := range c.P.Funcs {
		for _, b := range g.Blocks {
			for _, in := range b.Instrs {
				var buf [10]*ssa.Value
				for _, op := range in.Operands(buf[:0]) {
					if op == nil || *op != ssa.Value(f) {
						continue
					}
					if call, ok := in.(ssa.CallInstruction); ok && call.Common().Value == ssa.Value(f) {
						// callee position, unless it is also an argument
						isArg := false
						for _, a := range call.Common().Args {
							if a == ssa.Value(f) {
								isArg = true
							}
						}
						if !isArg {
							continue
						}
					}
					return true
				}
			}
		}
	}
	return false
}

// classifiedSite looks the function up in a who-may-call table. An unexported function that
// the table does not name inherits the class of its callers when it is never used as a value
// and every static call of it comes from a function of the table (or from such a helper, two
// levels deep): a rule of the form "only these functions do X" stays indifferent to the
// extraction of X into a private helper of one of them.
func classifiedSite(c *eng.Ctx, root *ssa.Function, table map[string]string) (string, bool) {
	var rec func(f *ssa.Function, depth int) (string, bool)
	rec = func(f *ssa.Function, depth int) (string, bool) {
		name := c.P.FnName(f)
		if why, ok := table[name]; ok {
			return why, true
		}
		if depth == 0 || f.Object() == nil || f.Object().Exported() || usedAsValue(c, f) {
			return "", false
		}
		sites := c.P.AllCallsTo(name)
		if len(sites) == 0 {
			return "", false
		}
		why := ""
		for _, s := range sites {
			w, ok := rec(eng.Root(s.Fn), depth-1)
			if !ok {
				return "", false
			}
			why = "private helper of " + c.P.FnName(eng.Root(s.Fn)) + ": " + w
		}
		return why, true
	}
	return rec(root, 2)
}
