package rules

import (
	"strings"

	"golang.org/x/tools/go/ssa"

	"verif/internal/eng"
)

// callsReaching lists the calls in fn that satisfy pred directly, or that statically call a
// function of the restic module which (itself or through further helpers, up to depth
// levels) contains such a call. It makes a rule of the form "X is called between A and B"
// indifferent to the extraction of X's call into a small helper.
func callsReaching(c *eng.Ctx, fn *ssa.Function, depth int, pred func(ssa.CallInstruction) bool) []ssa.CallInstruction {
	memo := map[*ssa.Function]bool{}
	var contains func(f *ssa.Function, d int) bool
	contains = func(f *ssa.Function, d int) bool {
		if v, ok := memo[f]; ok {
			return v
		}
		memo[f] = false
		for _, g := range c.P.WithLits(f) {
			for _, call := range eng.Calls(g) {
				if pred(call) {
					memo[f] = true
					return true
				}
				if d > 0 {
					if callee := call.Common().StaticCallee(); callee != nil && len(callee.Blocks) > 0 && callee.Pkg != nil && strings.HasPrefix(callee.Pkg.Pkg.Path(), eng.Mod) && callee != f {
						if contains(callee, d-1) {
							memo[f] = true
							return true
						}
					}
				}
			}
		}
		return false
	}
	var out []ssa.CallInstruction
	for _, call := range eng.Calls(fn) {
		if pred(call) {
			out = append(out, call)
			continue
		}
		if depth > 0 {
			if callee := call.Common().StaticCallee(); callee != nil && len(callee.Blocks) > 0 && callee.Pkg != nil && strings.HasPrefix(callee.Pkg.Pkg.Path(), eng.Mod) && callee != fn {
				if contains(callee, depth-1) {
					c.Touch(callee)
					out = append(out, call)
				}
			}
		}
	}
	return out
}
