package rules

import (
	"go/token"
	"strings"

	"golang.org/x/tools/go/ssa"

	"verif/internal/eng"
)

// ruleParseBase (C49): numbers on the command line are decimal. Every strconv.ParseInt /
// ParseUint of the command layer is called with the constant base 10 — with base 0 a
// zero-padded count such as --keep-last 010 silently means 8. One named exception: the
// extended options (-o key=value), whose integer syntax is Go's.
func ruleParseBase(c *eng.Ctx) {
	const rule = "decimal-base"
	exempt := map[string]string{
		"internal/options.(*Options).Apply": "extended options (-o) take Go integer literals by design (base 0)",
		"internal/options.Options.Apply":    "extended options (-o) take Go integer literals by design (base 0)",
	}
	n := 0
	for _, s := range c.P.AllCallsTo("strconv.ParseInt", "strconv.ParseUint") {
		pkg := eng.PkgOf(s.Fn)
		if !(strings.HasPrefix(pkg, "cmd/restic") || pkg == "internal/ui" || pkg == "internal/data" || pkg == "internal/options" || pkg == "internal/global") {
			continue
		}
		n++
		c.Touch(s.Fn)
		key := c.P.FnName(s.Fn) + "→" + c.P.CalleeName(s.Call)[8:]
		if why, ok := exempt[c.P.FnName(eng.Root(s.Fn))]; ok {
			c.Ok(rule, key, s.Call.Pos(), "exempt: %s", why)
			continue
		}
		base, isK := eng.ConstInt(eng.Arg(s.Call, 1))
		c.Check(isK && base == 10, rule, key, s.Call.Pos(), "the base is the constant 10 (is: %s)", c.P.Describe(eng.Arg(s.Call, 1)))
	}
	if n < 6 {
		c.Unk(rule, "floor", 0, "expected at least 6 ParseInt/ParseUint calls in the command layer, found %d", n)
	}
}

// ruleFloatNotNaN (C49): strconv.ParseFloat accepts "NaN", and every ordered comparison with
// NaN is false, so a range check of the form `if p < lo || p > hi { reject }` lets it
// through. Every value parsed with ParseFloat in the module is used only behind an edge that
// excludes NaN: the false edge of math.IsNaN, or the true edge of an ordered comparison of
// the value.
func ruleFloatNotNaN(c *eng.Ctx) {
	const rule = "float-not-nan"
	n := 0
	for _, s := range c.P.AllCallsTo("strconv.ParseFloat") {
		fn := s.Fn
		if strings.Contains(c.P.Pos(fn.Pos()), "_test.go") {
			continue
		}
		n++
		c.Touch(fn)
		res := eng.Results(s.Call)
		if len(res) == 0 || res[0] == nil {
			continue // value unused
		}
		v := res[0]
		isV := eng.SameAs(v)
		notNaN := eng.CondEdges(fn, func(cond ssa.Value) (bool, bool) {
			if call, ok := cond.(*ssa.Call); ok && c.P.CalleeName(call) == "math.IsNaN" && len(call.Call.Args) == 1 && isV(call.Call.Args[0]) {
				return true, false
			}
			if op, x, y, ok := eng.Cmp(cond); ok && (isV(x) || isV(y)) {
				switch op {
				case token.LSS, token.LEQ, token.GTR, token.GEQ, token.EQL:
					return true, true // an ordered comparison (or ==) that holds excludes NaN
				}
			}
			return false, false
		})
		cut := eng.NewCut().AddEdges(notNaN...)
		key := c.P.FnName(fn) + "→ParseFloat"
		ok := true
		var witness []*ssa.BasicBlock
		for _, u := range eng.UsesReaching(v) {
			switch x := u.(type) {
			case *ssa.BinOp, *ssa.Phi, *ssa.Extract:
				continue // comparisons and arithmetic: judged at their own uses
			case *ssa.Call:
				if c.P.CalleeName(x) == "math.IsNaN" {
					continue
				}
			case *ssa.Store:
				// the variable itself; if a closure captures it, creating the closure is the use
				if a, isLocal := x.Addr.(*ssa.Alloc); isLocal {
					for _, ar := range *a.Referrers() {
						if mc, isMC := ar.(*ssa.MakeClosure); isMC {
							if p := eng.FindPath(eng.After(s.Call.(ssa.Instruction)), mc, cut); p != nil {
								ok, witness = false, p
							}
						}
					}
					continue
				}
			}
			if p := eng.FindPath(eng.After(s.Call.(ssa.Instruction)), u, cut); p != nil {
				ok, witness = false, p
			}
		}
		// arithmetic results derived from the value (p/(100-p)*x) carry the NaN on: follow one level
		for _, r := range *v.Referrers() {
			bo, isBo := r.(*ssa.BinOp)
			if !isBo {
				continue
			}
			if _, _, _, isCmp := eng.Cmp(bo); isCmp {
				continue
			}
			if p := eng.FindPath(eng.After(s.Call.(ssa.Instruction)), bo, cut); p != nil {
				ok, witness = false, p
			}
		}
		detail := "the parsed value is used only where NaN is excluded (math.IsNaN false, or an ordered comparison that held)"
		if !ok {
			detail += "; path on which NaN gets through: " + c.P.PathString(witness)
		}
		c.Check(ok, rule, key, s.Call.Pos(), "%s", detail)
	}
	if n < 2 {
		c.Unk(rule, "floor", 0, "expected at least 2 ParseFloat calls, found %d", n)
	}
}

// ruleDurationParse (C49): data.ParseDuration assigns each unit at most once (a repeated unit
// is an error, not "the last one wins") and accepts a number of hours only behind a range
// test against a constant bound (the hours are multiplied into a time.Duration when the
// policy is applied; an overflow put the --keep-within cutoff into the future and forget
// removed every snapshot — genuine defect, fixed).
func ruleDurationParse(c *eng.Ctx) {
	const rule = "duration-parse"
	fn := c.NeedFn(rule, "internal/data.ParseDuration")
	if fn == nil {
		return
	}
	hoursF := c.P.Field("internal/data.Duration", "Hours")
	if hoursF == nil {
		c.Unk(rule, "anchor:Duration.Hours", fn.Pos(), "field does not resolve")
		return
	}
	// range test: comparison of the number (converted) with a constant
	var numV ssa.Value
	for _, call := range c.P.CallsTo(fn, "internal/data.nextNumber") {
		if r := eng.Results(call); len(r) > 0 {
			numV = r[0]
		}
	}
	if numV == nil {
		c.Unk(rule, "anchor:nextNumber", fn.Pos(), "the number read by nextNumber does not resolve")
		return
	}
	isNum := func(v ssa.Value) bool {
		for i := 0; i < 3; i++ {
			if eng.SameAs(numV)(v) {
				return true
			}
			if cv, ok := v.(*ssa.Convert); ok {
				v = cv.X
				continue
			}
			break
		}
		return eng.SameAs(numV)(v)
	}
	var upper, lower []eng.EdgeKey
	upper = eng.CmpEdges(fn, func(op token.Token, x, y ssa.Value) (bool, bool) {
		k, isK := eng.ConstInt(y)
		if !isNum(x) || !isK || k <= 0 {
			return false, false
		}
		switch op {
		case token.GTR, token.GEQ:
			return true, false
		case token.LEQ, token.LSS:
			return true, true
		}
		return false, false
	})
	lower = eng.CmpEdges(fn, func(op token.Token, x, y ssa.Value) (bool, bool) {
		k, isK := eng.ConstInt(y)
		if !isNum(x) || !isK || k >= 0 {
			return false, false
		}
		switch op {
		case token.LSS, token.LEQ:
			return true, false
		case token.GEQ, token.GTR:
			return true, true
		}
		return false, false
	})
	nH := 0
	for _, st := range c.P.FieldStoresIn(fn, hoursF) {
		if st.Parent() != fn {
			continue
		}
		nH++
		c.MustPass(rule, "ParseDuration:hours<=max→Hours", eng.Entry(fn), st, eng.NewCut().AddEdges(upper...), "the number of hours does not exceed a constant bound")
		c.MustPass(rule, "ParseDuration:hours>=-max→Hours", eng.Entry(fn), st, eng.NewCut().AddEdges(lower...), "the number of hours is not below the negative bound")
	}
	c.Check(nH == 1, rule, "ParseDuration:hours-store", fn.Pos(), "one assignment of Duration.Hours (%d)", nH)
	// every unit assignment lies behind "unit not seen yet": a map lookup with comma-ok or plain on a set keyed by the unit byte
	var unseen []eng.EdgeKey
	for _, b := range fn.Blocks {
		for _, in := range b.Instrs {
			lk, ok := in.(*ssa.Lookup)
			if !ok {
				continue
			}
			if lk.CommaOk {
				for _, r := range *lk.Referrers() {
					if ex, isEx := r.(*ssa.Extract); isEx && ex.Index == 1 {
						unseen = append(unseen, eng.BoolEdges(fn, eng.SameAs(ex), false)...)
					}
				}
			} else if lk.Type().String() == "bool" {
				unseen = append(unseen, eng.BoolEdges(fn, eng.SameAs(lk), false)...)
			}
		}
	}
	nU := 0
	for _, name := range []string{"Years", "Months", "Days", "Hours"} {
		f := c.P.Field("internal/data.Duration", name)
		if f == nil {
			continue
		}
		for _, st := range c.P.FieldStoresIn(fn, f) {
			if st.Parent() != fn {
				continue
			}
			nU++
			c.MustPass(rule, "ParseDuration:unit-not-seen-before→"+name, eng.Entry(fn), st, eng.NewCut().AddEdges(unseen...), "the unit was not given before")
			if name != "Hours" {
				// years, months and days go to time.Time.AddDate, which wraps silently far outside
				// the range of time.Time (genuine defect, fixed: the cutoff landed in the future)
				c.MustPass(rule, "ParseDuration:count<=max→"+name, eng.Entry(fn), st, eng.NewCut().AddEdges(upper...), "the count does not exceed a constant bound")
				c.MustPass(rule, "ParseDuration:count>=-max→"+name, eng.Entry(fn), st, eng.NewCut().AddEdges(lower...), "the count is not below the negative bound")
			}
		}
	}
	c.Check(nU == 4, rule, "ParseDuration:unit-stores", fn.Pos(), "four unit assignments (%d)", nU)
}
