package rules

import (
	"go/types"

	"golang.org/x/tools/go/ssa"
)

// mentionsFieldDeep is mentionsField that also looks through string concatenation and
// arithmetic.
func mentionsFieldDeep(v ssa.Value, f *types.Var, d int) bool {
	if d > 6 {
		return false
	}
	if mentionsField(v, f) {
		return true
	}
	if bo, ok := v.(*ssa.BinOp); ok {
		return mentionsFieldDeep(bo.X, f, d+1) || mentionsFieldDeep(bo.Y, f, d+1)
	}
	return false
}
