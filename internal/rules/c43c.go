package rules

import (
	"golang.org/x/tools/go/ssa"

	"verif/internal/eng"
)

// ruleContentErrorsPerBlob (C43, "every requested blob gets exactly one callback, with its
// content or with an error, and a damaged blob does not take the others with it"): streamPackPart
// stops at a hard error of packBlobIterator.Next and tries the other copies of a blob only for
// an error delivered with the blob. Whatever goes wrong with a blob's *content* — the bytes have
// been read from the stream by then — is therefore delivered with the blob: from the point where
// Next starts to decrypt (key.Open) every return carries a nil iterator error; authentication,
// decompression and hash failures travel in packBlobValue.Err.
func ruleContentErrorsPerBlob(c *eng.Ctx) {
	const rule = "content-errors-per-blob"
	fn := c.NeedFn(rule, pkgRepo+".(*packBlobIterator).Next")
	if fn == nil {
		return
	}
	var opens []ssa.CallInstruction
	for _, call := range eng.Calls(fn) {
		if eng.MethodName(call) == "Open" {
			opens = append(opens, call)
		}
	}
	if !c.Check(len(opens) == 1, rule, "Next:decrypts", fn.Pos(), "%d key.Open calls", len(opens)) {
		return
	}
	n := 0
	for _, r := range eng.Returns(fn) {
		if eng.FindPath(eng.After(opens[0].(ssa.Instruction)), r, nil) == nil {
			continue
		}
		n++
		c.Check(eng.IsNilConst(eng.RetVal(r, 1)), rule, "Next:after-decrypt→no-hard-error", r.Pos(), "once the blob's bytes are in hand the iterator error is nil: the failure is delivered with the blob (%s)", c.P.Describe(eng.RetVal(r, 1)))
	}
	c.Check(n >= 1, rule, "Next:returns-after-decrypt", fn.Pos(), "%d returns behind the decryption", n)
	// the error of the decoder reaches the value's Err
	for _, call := range eng.Calls(fn) {
		if eng.MethodName(call) == "DecodeAll" {
			ev := eng.ErrResult(call)
			c.Check(ev != nil, rule, "Next:decode-error-bound", call.Pos(), "the error of DecodeAll is bound")
		}
	}
}
