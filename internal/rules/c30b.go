package rules

import (
	"go/types"

	"golang.org/x/tools/go/ssa"

	"verif/internal/eng"
)

// initProbe is one "does the location already hold files of kind K" test made by
// Repository.Init: a listing whose callback fails for every file. empty is the set of edges of
// Init on which the probe found nothing.
type initProbe struct {
	site  ssa.CallInstruction // the call in Init
	kind  int64               // restic.FileType listed (-1 unknown)
	empty *eng.Cut
}

// callbackAlwaysFails checks that every function literal passed to a List call returns a
// non-nil error on every path.
func callbackAlwaysFails(c *eng.Ctx, rule string, l ssa.CallInstruction) {
	for _, a := range l.Common().Args {
		for _, r := range eng.Origins(a, nil) {
			var lit *ssa.Function
			if mc, ok := r.(*ssa.MakeClosure); ok {
				lit, _ = mc.Fn.(*ssa.Function)
			}
			if f, ok := r.(*ssa.Function); ok && f.Parent() != nil {
				lit = f
			}
			if lit == nil {
				continue
			}
			always := true
			for _, ret := range eng.Returns(lit) {
				if c.P.MayBeNil(eng.RetVal(ret, 0)) {
					always = false
				}
			}
			c.Check(always, rule, c.P.FnName(lit)+":any-file-is-an-error", lit.Pos(), "the listing callback returns a non-nil error on every path")
		}
	}
}

// initProbes finds the emptiness probes of Init: direct Repository.List calls, and calls of
// helpers of package repository that wrap one. For a helper the wrapped listing's error must
// not be lost: a helper returning an error returns nil only if List did; a helper returning a
// bool returns a possibly-false value only on the edge where List returned nil.
func initProbes(c *eng.Ctx, rule string, fn *ssa.Function) []initProbe {
	const listFn = pkgRepo + ".(*Repository).List"
	var out []initProbe
	for _, call := range eng.Calls(fn) {
		name := c.P.CalleeName(call)
		if name == listFn {
			p := initProbe{site: call, kind: -1, empty: eng.SuccessCut(call)}
			if k, isK := eng.ConstInt(eng.Arg(call, 1)); isK {
				p.kind = k
			}
			callbackAlwaysFails(c, rule, call)
			out = append(out, p)
			continue
		}
		h := eng.CalleeFunc(call)
		if h == nil || eng.PkgOf(h) != pkgRepo || h == fn {
			continue
		}
		inner := c.P.CallsTo(h, listFn)
		if len(inner) == 0 {
			continue
		}
		c.Touch(h)
		p := initProbe{site: call, kind: -1}
		for _, l := range inner {
			callbackAlwaysFails(c, rule, l)
			ft := eng.Arg(l, 1)
			if k, isK := eng.ConstInt(ft); isK {
				p.kind = k
			} else if prm, isP := ft.(*ssa.Parameter); isP {
				if idx := eng.ParamIndex(prm); idx >= 0 {
					if k, isK := eng.ConstInt(eng.Arg(call, idx)); isK {
						p.kind = k
					}
				}
			}
		}
		res := h.Signature.Results()
		key := c.P.FnName(h) + ":listing-error-not-lost"
		switch {
		case res.Len() == 1 && eng.IsErrorType(res.At(0).Type()):
			for _, r := range eng.Returns(h) {
				if !c.P.MayBeNil(eng.RetVal(r, 0)) {
					continue
				}
				c.MustPass(rule, key, eng.Entry(h), r, eng.SuccessCut(inner...), "List returned nil (nothing listed, no backend error)")
			}
			p.empty = eng.SuccessCut(call)
		case res.Len() == 1 && isBool(res.At(0).Type()):
			for _, r := range eng.Returns(h) {
				if k, isK := eng.RetVal(r, 0).(*ssa.Const); isK && k.Value != nil && k.Value.String() == "true" {
					continue
				}
				c.MustPass(rule, key, eng.Entry(h), r, eng.SuccessCut(inner...), "List returned nil: 'no such files' is reported only when the listing itself worked (a failed or cancelled listing must not read as an empty location)")
			}
			p.empty = eng.ResultCut(false, 0, call)
		default:
			c.Unk(rule, key, h.Pos(), "helper wrapping the listing has an unsupported result shape")
			continue
		}
		out = append(out, p)
	}
	return out
}

func isBool(t types.Type) bool {
	b, ok := t.Underlying().(*types.Basic)
	return ok && b.Kind() == types.Bool
}
