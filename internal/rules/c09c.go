package rules

import (
	"go/types"
	"strings"

	"golang.org/x/tools/go/ssa"

	"verif/internal/eng"
)

// ruleKeptPackPredicate (C09): when packs are repacked, PlanPrune drops from the set of blobs
// to carry over (keepBlobs) every blob that "is also stored in a kept pack". A pack is kept
// only if it is in none of the plan's pack sets whose members do not survive the prune:
// removePacks (deleted), repackPacks (rewritten, then deleted) and ignorePacks (missing from
// the repository, forgotten by the index rewrite). Every pack-ID set of PrunePlan is
// enumerated from the struct, so a new one must be classified here.
func ruleKeptPackPredicate(c *eng.Ctx) {
	const rule = "kept-pack-predicate"
	fn := c.NeedFn(rule, pkgRepo+".PlanPrune")
	pt := c.P.NamedType(pkgRepo + ".PrunePlan")
	if fn == nil || pt == nil {
		return
	}
	st := pt.Underlying().(*types.Struct)
	var sets []*types.Var
	for i := 0; i < st.NumFields(); i++ {
		f := st.Field(i)
		if strings.HasSuffix(f.Type().String(), "restic.IDSet") {
			sets = append(sets, f)
		}
	}
	// sets whose members cannot occur in the index listing at all
	survives := map[string]string{}
	if da := c.P.Fn(pkgRepo + ".decidePackAction"); da != nil {
		// removePacksFirst: filled only for packs the index does not mention (lookup in the
		// index-derived map failed), so ListBlobs — which walks index entries — never names them
		for _, f := range sets {
			if f.Name() != "removePacksFirst" {
				continue
			}
			okUnindexed := false
			for _, lit := range c.P.Lits(da) {
				for _, call := range eng.Calls(lit) {
					if eng.MethodName(call) != "Insert" {
						continue
					}
					fromSet := false
					for _, o := range eng.Origins(eng.Recv(call), nil) {
						if ld, isLd := o.(*ssa.UnOp); isLd {
							if fv, isFV := ld.X.(*ssa.FreeVar); isFV && eng.LogicalName(fv) == "removePacksFirst" {
								fromSet = true
							}
						}
					}
					if ld, isLd := eng.Recv(call).(*ssa.UnOp); isLd {
						if fv, isFV := ld.X.(*ssa.FreeVar); isFV && eng.LogicalName(fv) == "removePacksFirst" {
							fromSet = true
						}
					}
					if !fromSet {
						continue
					}
					// behind the comma-ok == false edge of a map lookup
					var oks []ssa.Value
					for _, b := range lit.Blocks {
						for _, in := range b.Instrs {
							if lk, isLk := in.(*ssa.Lookup); isLk && lk.CommaOk {
								for _, r := range *lk.Referrers() {
									if ex, isEx := r.(*ssa.Extract); isEx && ex.Index == 1 {
										oks = append(oks, ex)
									}
								}
							}
						}
					}
					cut := eng.NewCut()
					for _, okv := range oks {
						cut.AddEdges(eng.BoolEdges(lit, eng.SameAs(okv), false)...)
					}
					if cut.Size() > 0 && eng.FindPath(eng.Entry(lit), call.(ssa.Instruction), cut) == nil {
						okUnindexed = true
					}
				}
			}
			if okUnindexed {
				survives["removePacksFirst"] = "removePacksFirst holds only packs the index does not mention (inserted on the failed lookup in the index-derived pack table), so the index listing never yields an entry in such a pack"
			}
		}
	}
	found := false
	for _, lit := range c.P.Lits(fn) {
		var dels []ssa.CallInstruction
		for _, call := range eng.Calls(lit) {
			if eng.MethodName(call) == "Delete" && strings.Contains(c.P.CalleeName(call), "AssociatedSet") {
				dels = append(dels, call)
			}
		}
		if len(dels) == 0 {
			continue
		}
		found = true
		c.Touch(lit)
		for _, d := range dels {
			for _, f := range sets {
				if why, ok := survives[f.Name()]; ok {
					c.Ok(rule, "PlanPrune:"+f.Name()+":packs-survive", d.Pos(), "%s", why)
					continue
				}
				var has []ssa.CallInstruction
				for _, call := range eng.Calls(lit) {
					if eng.MethodName(call) == "Has" && mentionsFieldDeepArgs(eng.Recv(call), f) {
						has = append(has, call)
					}
				}
				if len(has) == 0 {
					c.Bad(rule, "PlanPrune:not-in-"+f.Name()+"→drop-from-keepBlobs", d.Pos(), "a blob is dropped from keepBlobs because another copy exists in some pack, without testing whether that pack is in plan.%s: packs in that set do not survive the prune, so the blob's only surviving copy may be in a pack that is repacked — it is then neither carried over nor kept (data loss)", f.Name())
					continue
				}
				c.MustPass(rule, "PlanPrune:not-in-"+f.Name()+"→drop-from-keepBlobs", eng.Entry(lit), d.(ssa.Instruction), eng.ResultCut(false, 0, has...), "!plan."+f.Name()+".Has(packID)")
			}
			// the pack tested is the pack of the very index entry whose handle is dropped
			okSame := false
			if rc := eng.RootCall(eng.Arg(d, 0)); rc != nil && eng.MethodName(rc) == "Handle" {
				okSame = true
			}
			c.Check(okSame, rule, "PlanPrune:drops-handle-of-the-listed-entry", d.Pos(), "the handle dropped is blob.Handle() of the listed index entry")
		}
	}
	c.Check(found && len(sets) >= 3, rule, "PlanPrune:keepBlobs-pruning-callback", fn.Pos(), "the callback that prunes keepBlobs was found and PrunePlan has its pack sets (%d)", len(sets))
	c.Floor(rule, 5, 5)
}
