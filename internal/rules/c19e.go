package rules

import (
	"verif/internal/eng"
)

// restoreChain: the functions through which file content reaches the target. An error of any of
// them means that some byte of some file was not written.
var restoreChain = []string{
	pkgRestorer + ".(*fileRestorer).restoreFiles",
	pkgRestorer + ".(*fileRestorer).downloadPack",
	pkgRestorer + ".(*fileRestorer).downloadBlobs",
	pkgRestorer + ".(*fileRestorer).truncateFileToSize",
	pkgRestorer + ".(*filesWriter).writeToFile",
	pkgRestorer + ".createFile",
	pkgRestorer + ".ensureSize",
	pkgRestorer + ".openFile",
	pkgRestorer + ".(*Restorer).restoreNodeTo",
	pkgRestorer + ".(*Restorer).restoreHardlinkAt",
	pkgRestorer + ".(*Restorer).withOverwriteCheck",
	pkgRestorer + ".(*Restorer).traverseTree",
	pkgRestorer + ".(*Restorer).traverseTreeInner",
	pkgRestorer + ".(*Restorer).RestoreTo",
	pkgRestorer + ".(*Restorer).VerifyFiles",
}

// ruleRestoreErrorsPropagate (C19, C21): "after a successful restore every file has the
// snapshot content" needs that a restore in which some write failed is not successful: at
// every call site of the restore chain the error is bound and, from its non-nil edge, no
// return is reached unless the error was returned, handed to the error callback
// (sanitizeError/res.Error, which counts it) or otherwise passed on.
func ruleRestoreErrorsPropagate(c *eng.Ctx) {
	exempt := map[string]string{}
	ruleErrorsConsumed(c, "restore-errors-propagate", restoreChain, exempt, 20)
}
