package rules

import (
	"golang.org/x/tools/go/ssa"

	"verif/internal/eng"
)

const (
	fnWithUploader  = pkgRepo + ".(*Repository).WithBlobUploader"
	fnSaveSnapshot  = "internal/data.SaveSnapshot"
	ifaceUploaderFn = pkgRestic + ".Repository.WithBlobUploader"
)

func isWithUploader(c *eng.Ctx, call ssa.CallInstruction) bool {
	return eng.MethodName(call) == "WithBlobUploader"
}

// literalArgOf reports whether lit is passed (as a closure) to a call satisfying pred in
// its parent function.
func literalArgOf(lit *ssa.Function, pred func(ssa.CallInstruction) bool) ssa.CallInstruction {
	par := lit.Parent()
	if par == nil {
		return nil
	}
	for _, call := range eng.Calls(par) {
		if !pred(call) {
			continue
		}
		for _, a := range call.Common().Args {
			for _, r := range eng.Origins(a, nil) {
				if mc, ok := r.(*ssa.MakeClosure); ok && mc.Fn == ssa.Value(lit) {
					return call
				}
			}
		}
	}
	return nil
}

// ruleUploaderFlush (C11): WithBlobUploader reports success only after the callback and
// the flush of packs and index succeeded.
func ruleUploaderFlush(c *eng.Ctx) {
	const rule = "uploader-flush"
	fn := c.NeedFn(rule, fnWithUploader)
	if fn == nil {
		return
	}
	var worker *ssa.Function
	for _, l := range c.P.Lits(fn) {
		if len(c.P.CallsTo(l, pkgRepo+".(*Repository).flush")) > 0 {
			worker = l
		}
	}
	if worker == nil {
		c.Bad(rule, "WithBlobUploader:worker", fn.Pos(), "no function literal in WithBlobUploader calls Repository.flush")
		return
	}
	c.Touch(worker)
	cb := c.P.CallsTo(worker, "free:fn")
	fl := c.P.CallsTo(worker, pkgRepo+".(*Repository).flush")
	if len(cb) == 0 {
		c.Bad(rule, "WithBlobUploader:callback", worker.Pos(), "the worker literal does not call the fn callback")
		return
	}
	for _, r := range eng.Returns(worker) {
		rv := eng.RetVal(r, 0)
		if !c.P.MayBeNil(rv) {
			continue
		}
		c.NilOnlyVia(rule, "WithBlobUploader:callback-ok→success", rv, r, eng.SuccessCut(cb...), "fn(ctx, uploader) returned nil")
		c.NilOnlyVia(rule, "WithBlobUploader:flush-ok→success", rv, r, eng.SuccessCut(fl...), "r.flush(ctx) returned nil")
	}
	for _, f := range fl {
		c.MustPass(rule, "WithBlobUploader:callback-ok→flush", eng.Entry(worker), f.(ssa.Instruction), eng.SuccessCut(cb...), "flush only after the callback succeeded")
	}
	// the worker runs on the errgroup whose Wait() is the function result
	launched := literalArgOf(worker, func(call ssa.CallInstruction) bool { return c.P.CalleeName(call) == "golang.org/x/sync/errgroup.(*Group).Go" })
	okWait := false
	if launched != nil {
		for _, r := range eng.Returns(fn) {
			for _, o := range eng.Origins(eng.RetVal(r, 0), nil) {
				if call := eng.RootCall(o); call != nil && c.P.CalleeName(call) == "golang.org/x/sync/errgroup.(*Group).Wait" {
					if sameRoots(eng.Origins(eng.Recv(call), nil), eng.Origins(eng.Recv(launched), nil)) {
						okWait = true
					}
				}
			}
		}
	}
	c.Check(okWait, rule, "WithBlobUploader:returns-worker-error", fn.Pos(), "the result is Wait() of the errgroup the worker was started on")
	c.Floor(rule, 4, 4)
}

// ruleFlushOrder (C11, C14, C44): packs are uploaded before the index is written.
func ruleFlushOrder(c *eng.Ctx) {
	const rule = "flush-order"
	if fn := c.NeedFn(rule, pkgRepo+".(*Repository).flush"); fn != nil {
		bs := c.P.CallsTo(fn, pkgRepo+".(*Repository).flushBlobSaver")
		pu := c.P.CallsTo(fn, pkgRepo+".(*Repository).flushPackUploader")
		for _, idx := range c.SomeCalls(rule, fn, pkgRepo+"/index.(*MasterIndex).Flush") {
			ii := idx.(ssa.Instruction)
			c.MustPass(rule, "Repository.flush:blob-savers-done→index-flush", eng.Entry(fn), ii, eng.CallCut(bs...), "flushBlobSaver() (waits for all asynchronous blob savers)")
			c.MustPass(rule, "Repository.flush:packs-uploaded→index-flush", eng.Entry(fn), ii, eng.SuccessCut(pu...), "flushPackUploader returned nil")
		}
		for _, p := range pu {
			c.MustPass(rule, "Repository.flush:blob-savers-done→pack-flush", eng.Entry(fn), p.(ssa.Instruction), eng.CallCut(bs...), "flushBlobSaver() before the packers are flushed")
		}
	}
	if fn := c.NeedFn(rule, pkgRepo+".(*Repository).flushPackUploader"); fn != nil {
		pmFlush := c.P.CallsTo(fn, pkgRepo+".(*packerManager).Flush")
		wait := c.P.CallsTo(fn, "golang.org/x/sync/errgroup.(*Group).Wait")
		wgF := c.P.Field(pkgRepo+".Repository", "packerWg")
		nilWg := eng.NilEdges(fn, func(v ssa.Value) bool { return wgF != nil && eng.LoadsField(v, wgF) }, true)
		c.Check(len(pmFlush) == 2, rule, "flushPackUploader:both-packer-managers-flushed", fn.Pos(), "tree and data packer managers are flushed (%d Flush calls)", len(pmFlush))
		for _, r := range eng.Returns(fn) {
			rv := eng.RetVal(r, 0)
			if !c.P.MayBeNil(rv) {
				continue
			}
			for _, pm := range pmFlush {
				cut := eng.Union(eng.SuccessCut(pm), eng.NewCut().AddEdges(nilWg...))
				c.NilOnlyVia(rule, "flushPackUploader:packer-flush-ok→success", rv, r, cut, "packerManager.Flush returned nil (or no upload session)")
			}
			cut := eng.Union(eng.CallCut(wait...), eng.NewCut().AddEdges(nilWg...))
			c.NilOnlyVia(rule, "flushPackUploader:wait-for-uploads→success", rv, r, cut, "packerWg.Wait() (all queued packs uploaded)")
		}
		// the upload result is the function result
		okRes := false
		for _, r := range eng.Returns(fn) {
			for _, o := range eng.Origins(eng.RetVal(r, 0), nil) {
				if call := eng.RootCall(o); call != nil && c.P.CalleeName(call) == "golang.org/x/sync/errgroup.(*Group).Wait" {
					okRes = true
				}
			}
		}
		c.Check(okRes, rule, "flushPackUploader:returns-upload-error", fn.Pos(), "the error of packerWg.Wait() is returned")
	}
	c.Floor(rule, 8, 9)
}

// rulePackBeforeIndex (C11, C14, C44): a pack's blobs enter the index only after the pack
// file was stored.
func rulePackBeforeIndex(c *eng.Ctx) {
	const rule = "pack-before-index"
	fn := c.NeedFn(rule, pkgRepo+".(*Repository).savePacker")
	if fn == nil {
		return
	}
	saves := backendCalls(c, fn, "Save")
	fin := c.P.CallsTo(fn, pkgPack+".(*Packer).Finalize")
	for _, sp := range c.SomeCalls(rule, fn, pkgRepo+"/index.(*MasterIndex).StorePack") {
		c.MustPass(rule, "savePacker:be.Save-ok→StorePack", eng.Entry(fn), sp.(ssa.Instruction), eng.SuccessCut(saves...), "r.be.Save returned nil")
	}
	for _, s := range saves {
		c.MustPass(rule, "savePacker:Finalize-ok→be.Save", eng.Entry(fn), s.(ssa.Instruction), eng.SuccessCut(fin...), "Packer.Finalize returned nil")
	}
	// StorePack is called nowhere else with a freshly written pack
	for _, s := range c.P.AllCallsTo(pkgRepo + "/index.(*MasterIndex).StorePack") {
		root := c.P.FnName(eng.Root(s.Fn))
		ok := root == pkgRepo+".(*Repository).savePacker" || root == pkgRepo+".(*Repository).createIndexFromPacks"
		c.Check(ok, rule, c.P.FnName(s.Fn)+"→StorePack", s.Call.Pos(), "MasterIndex.StorePack is called only by savePacker (after upload) and createIndexFromPacks (packs listed from the backend)")
	}
	// the uploader workers report a failed savePacker
	if fn := c.NeedFn(rule, pkgRepo+".newPackerUploader"); fn != nil {
		n := 0
		for _, l := range c.P.Lits(fn) {
			for _, call := range c.P.CallsTo(l, pkgRepo+".savePacker.savePacker") {
				n++
				ok := true
				for _, r := range eng.Returns(l) {
					rv := eng.RetVal(r, 0)
					if !c.P.MayBeNil(rv) {
						continue
					}
					if ps := c.P.FindPathPS(eng.After(call.(ssa.Instruction)), func(in ssa.Instruction) bool { return in == ssa.Instruction(r) }, eng.SuccessCut(call),
						func(env *eng.PSEnv, _ ssa.Instruction) bool { return env.MayBeNil(rv) }); ps != nil {
						ok = false
					}
				}
				c.Check(ok, rule, "packerUploader:savePacker-error-propagates", call.Pos(), "an upload worker returns the savePacker error to the errgroup")
			}
		}
		if n == 0 {
			c.Unk(rule, "packerUploader:savePacker-call", fn.Pos(), "no savePacker call found in the upload workers")
		}
	}
	c.Floor(rule, 5, 5)
}

// uploaderScope finds, for a call site in function f, the WithBlobUploader calls whose
// completion must precede it; it recurses into callers (depth-limited).
func snapshotAfterUpload(c *eng.Ctx, rule string, f *ssa.Function, site ssa.Instruction, label string, depth int, seen map[*ssa.Function]bool) {
	c.Touch(f)
	// (a) not inside an upload callback
	for lit := f; lit != nil && lit.Parent() != nil; lit = lit.Parent() {
		if w := literalArgOf(lit, func(call ssa.CallInstruction) bool { return isWithUploader(c, call) }); w != nil {
			c.Bad(rule, label+":outside-upload-callback", site.Pos(), "the snapshot is saved inside the callback of WithBlobUploader at %s: its packs and index entries are not flushed yet", c.P.Pos(w.Pos()))
			return
		}
	}
	c.Ok(rule, label+":outside-upload-callback", site.Pos(), "the save is not inside a WithBlobUploader callback (enclosing function %s)", c.P.FnName(f))
	// (b) upload sessions in the same function that can reach the site must have succeeded
	n := 0
	for _, call := range eng.Calls(f) {
		if !isWithUploader(c, call) {
			continue
		}
		if eng.FindPath(eng.After(call.(ssa.Instruction)), site, nil) == nil {
			continue
		}
		n++
		if c.P.FnName(f) == "internal/data.TestCreateSnapshot" {
			// frozen exception: testing helper; the upload error goes to rtest.OK, which aborts the test
			c.Ok(rule, label+":upload-ok→save", site.Pos(), "exempt: testing helper, a failed upload aborts the test through rtest.OK(t, err)")
			continue
		}
		c.MustPass(rule, label+":upload-ok→save", eng.After(call.(ssa.Instruction)), site, eng.SuccessCut(call), "WithBlobUploader returned nil")
	}
	if n > 0 || depth <= 0 || seen[f] {
		return
	}
	seen[f] = true
	// (c) otherwise the obligation moves to the callers
	if f.Parent() != nil {
		// a literal: treat the creation point in the parent as the site
		for _, b := range f.Parent().Blocks {
			for _, in := range b.Instrs {
				if mc, ok := in.(*ssa.MakeClosure); ok && mc.Fn == ssa.Value(f) {
					snapshotAfterUpload(c, rule, f.Parent(), mc, label+"←"+c.P.FnName(f.Parent()), depth-1, seen)
				}
			}
		}
		return
	}
	for _, s := range c.P.CallersOf(f) {
		snapshotAfterUpload(c, rule, s.Fn, s.Call.(ssa.Instruction), label+"←"+c.P.FnName(s.Fn), depth-1, seen)
	}
}

// ruleSnapshotAfterUpload (C11, C14, C32): snapshots are written only after the data they
// reference was flushed.
func ruleSnapshotAfterUpload(c *eng.Ctx) {
	const rule = "snapshot-after-upload"
	sites := c.P.AllCallsTo(fnSaveSnapshot)
	for _, s := range sites {
		if eng.PkgOf(s.Fn) == "internal/data" && c.P.FnName(eng.Root(s.Fn)) == "internal/data.TestCreateSnapshot" {
			// testing helper compiled into the package: same rule applies
		}
		snapshotAfterUpload(c, rule, s.Fn, s.Call.(ssa.Instruction), c.P.FnName(s.Fn)+"→SaveSnapshot", 3, map[*ssa.Function]bool{})
	}
	// snapshots are not written through any other path
	for _, s := range c.P.AllCallsWhere(func(fn *ssa.Function, call ssa.CallInstruction) bool {
		if eng.MethodName(call) != "SaveUnpacked" && c.P.CalleeName(call) != pkgRestic+".SaveJSONUnpacked" {
			return false
		}
		for _, a := range call.Common().Args {
			if k, ok := eng.ConstInt(a); ok {
				if snapK, ok2 := constIntVal(c, rule, pkgRestic+".SnapshotFile"); ok2 && k == snapK && a.Type().String() == eng.Mod+"/"+pkgRestic+".WriteableFileType" {
					return true
				}
			}
		}
		return false
	}) {
		root := c.P.FnName(eng.Root(s.Fn))
		c.Check(root == fnSaveSnapshot, rule, c.P.FnName(s.Fn)+"→SaveUnpacked(SnapshotFile)", s.Call.Pos(), "snapshot files are written only through data.SaveSnapshot (found in %s)", root)
	}
	c.Floor(rule, 10, 14)
}
