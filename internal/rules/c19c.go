package rules

import (
	"golang.org/x/tools/go/ssa"

	"verif/internal/eng"
)

// ruleVerifyReadsWholeBlob (C19 and C21): verifyFile decides per blob whether the bytes
// already in the target can be kept (restore) or are what the snapshot holds (--verify). The
// scratch buffer is reused between blobs and files, so the hash may only be taken of a buffer
// that ReadAt filled completely: the hash of the buffer is computed only behind the nil-error
// edge of the ReadAt into that buffer, the verdict stored in matches[i] is that comparison,
// and every blob of the file gets a verdict or the size is marked as not matching (the only
// early way out of the loop).
func ruleVerifyReadsWholeBlob(c *eng.Ctx) {
	const rule = "verify-reads-whole-blob"
	fn := c.NeedFn(rule, pkgRestorer+".(*Restorer).verifyFile")
	if fn == nil {
		return
	}
	var reads, hashes []ssa.CallInstruction
	for _, call := range eng.Calls(fn) {
		switch {
		case eng.MethodName(call) == "ReadAt":
			reads = append(reads, call)
		case c.P.CalleeName(call) == pkgRestic+".Hash":
			hashes = append(hashes, call)
		}
	}
	if len(reads) != 1 || len(hashes) != 1 {
		c.Unk(rule, "verifyFile:anchors", fn.Pos(), "expected one ReadAt and one restic.Hash in verifyFile, found %d and %d", len(reads), len(hashes))
		return
	}
	rd, h := reads[0], hashes[0]
	// same buffer
	c.Check(eng.SameAs(eng.Arg(rd, 0))(eng.Arg(h, 0)), rule, "verifyFile:hash-of-the-buffer-read", h.Pos(), "restic.Hash is applied to the buffer ReadAt filled")
	c.MustPass(rule, "verifyFile:complete-read→hash", eng.After(rd.(ssa.Instruction)), h.(ssa.Instruction), eng.SuccessCut(rd), "ReadAt returned a nil error (the whole blob was read)")
	// the verdict stored per blob is the comparison with that hash
	n := 0
	for _, b := range fn.Blocks {
		for _, in := range b.Instrs {
			st, ok := in.(*ssa.Store)
			if !ok {
				continue
			}
			ia, ok := st.Addr.(*ssa.IndexAddr)
			if !ok || st.Val.Type().String() != "bool" {
				continue
			}
			if _, isSlice := ia.X.(*ssa.MakeSlice); !isSlice {
				if len(eng.Origins(ia.X, nil)) != 1 {
					continue
				}
				if _, isMk := eng.Origins(ia.X, nil)[0].(*ssa.MakeSlice); !isMk {
					continue
				}
			}
			n++
			eq := eng.RootCall(st.Val)
			okEq := eq != nil && eng.MethodName(eq) == "Equal"
			if okEq {
				okEq = false
				for _, a := range eq.Call.Args {
					if eng.SameAs(h.Value())(a) {
						okEq = true
					}
				}
			}
			c.Check(okEq, rule, "verifyFile:verdict=id.Equal(hash)", st.Pos(), "matches[i] is the comparison of the blob id with the hash of the bytes just read")
		}
	}
	c.Check(n == 1, rule, "verifyFile:verdict-store", fn.Pos(), "one store of a per-blob verdict (%d)", n)
}
