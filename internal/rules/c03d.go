package rules

import (
	"sort"
	"strings"

	"golang.org/x/tools/go/ssa"

	"verif/internal/eng"
)

// loaderCallees are the integrity-checked read primitives: each returns an error when the
// stored bytes do not authenticate, decode or hash to the expected id. Concrete methods and
// the interface methods through which the commands reach them.
var loaderCallees = []string{
	pkgRepo + ".(*Repository).LoadRaw",
	pkgRepo + ".(*Repository).LoadUnpacked",
	pkgRepo + ".(*Repository).LoadBlob",
	pkgRepo + ".(*Repository).loadBlob",
	pkgRepo + ".(*Repository).LoadBlobsFromPack",
	pkgRepo + ".(*Repository).loadBlobsFromPack",
	pkgRestic + ".LoadJSONUnpacked",
	pkgRestic + ".LoaderUnpacked.LoadUnpacked",
	pkgRestic + ".LoaderUnpacked.LoadRaw",
	pkgRestic + ".BlobLoader.LoadBlob",
	pkgRestic + ".Repository.LoadBlob",
	pkgRestic + ".Repository.LoadBlobsFromPack",
	pkgRestic + ".Repository.LoadRaw",
	pkgRestic + ".Repository.LoadUnpacked",
	"internal/data.LoadTree",
	"internal/data.LoadSnapshot",
}

// loadErrorExempt: call sites that go on with damaged data on purpose, one reason each.
var loadErrorExempt = map[string]string{
	"cmd/restic.runRepairPacks→LoadRaw": "repair packs keeps a local copy of whatever bytes of the damaged pack could still be read (LoadRaw returns the data together with the error) before RepairPacks salvages and removes the pack; a total failure is reported with printer.E",
}

// ruleLoadErrorsPropagate (C03): a read that failed its integrity checks is never silently
// turned into a success. At every call site of the load primitives the error result is
// bound, and from the edge on which it is non-nil no return is reached — in particular no
// nil-error return — unless the error value was handed on: returned, passed to a call other
// than a debug log (a callback, the error hook, a printer), sent on a channel or stored into
// a structure. (What the receiver does with it is the subject of the rules about those
// receivers: accumulator, check-exit, skip-implies-hook …)
func ruleLoadErrorsPropagate(c *eng.Ctx) {
	// 45 sites on linux; fewer where the fuse package is not built
	ruleErrorsConsumed(c, "load-errors-propagate", loaderCallees, loadErrorExempt, 30)
}

// ruleErrorsConsumed is the shared form of the rule above for a set of callees.
func ruleErrorsConsumed(c *eng.Ctx, rule string, callees []string, exempt map[string]string, minSites int) {
	n := 0
	for _, s := range c.P.AllCallsTo(callees...) {
		fn := s.Fn
		if strings.Contains(c.P.Pos(fn.Pos()), "testing.go:") {
			continue // test helpers compiled into the packages
		}
		n++
		c.Touch(fn)
		callee := c.P.CalleeName(s.Call)
		key := c.P.FnName(fn) + "→" + callee[strings.LastIndex(callee, ".")+1:]
		if why, isEx := exempt[key]; isEx {
			c.Ok(rule, key, s.Call.Pos(), "exempt: %s", why)
			continue
		}
		if _, isGo := s.Call.(*ssa.Go); isGo {
			continue // started as a goroutine: its result is collected elsewhere
		}
		if _, isDefer := s.Call.(*ssa.Defer); isDefer {
			c.Bad(rule, key, s.Call.Pos(), "%s is deferred: its error is lost", callee)
			continue
		}
		ev := eng.ErrResult(s.Call)
		if ev == nil {
			c.Bad(rule, key, s.Call.Pos(), "the error result of %s is discarded", callee)
			continue
		}
		// instructions that hand the error on
		consume := eng.NewCut()
		for _, u := range eng.UsesReaching(ev) {
			switch x := u.(type) {
			case *ssa.Return, *ssa.Send, *ssa.MapUpdate, *ssa.MakeClosure:
				consume.AddInstrs(u)
			case *ssa.Store:
				if _, local := x.Addr.(*ssa.Alloc); local {
					continue
				}
				// a variadic argument: the error sits in the slot of a local array that is
				// sliced and passed to one call — that call is the use (a debug log is none)
				if ia, isIA := x.Addr.(*ssa.IndexAddr); isIA {
					if arr, isArr := ia.X.(*ssa.Alloc); isArr && arr.Comment == "varargs" {
						for _, ar := range *arr.Referrers() {
							sl, isSl := ar.(*ssa.Slice)
							if !isSl {
								continue
							}
							for _, sr := range *sl.Referrers() {
								if call, isCall := sr.(ssa.CallInstruction); isCall && !strings.HasPrefix(c.P.CalleeName(call), "internal/debug.") {
									consume.AddInstrs(sr)
								}
							}
						}
						continue
					}
				}
				consume.AddInstrs(u)
			case ssa.CallInstruction:
				name := c.P.CalleeName(x)
				if strings.HasPrefix(name, "internal/debug.") {
					continue
				}
				if b, isB := x.Common().Value.(*ssa.Builtin); isB && b.Name() != "panic" {
					continue
				}
				consume.AddInstrs(u)
			}
		}
		fail := eng.NilEdges(fn, eng.SameAs(ev), false)
		if len(fail) == 0 {
			// never tested: it must at least be handed on
			var where []string
			for in := range consume.Instrs {
				where = append(where, c.P.Pos(in.Pos()))
			}
			sort.Strings(where)
			c.Check(consume.Size() > 0, rule, key, s.Call.Pos(), "the error of %s is not tested here, it is handed on (%d uses: %s)", callee, consume.Size(), strings.Join(where, " "))
			continue
		}
		ok := true
		var witness []*ssa.BasicBlock
		for _, e := range fail {
			for _, r := range eng.Returns(fn) {
				if consume.Instrs[r] {
					continue // this return carries the error
				}
				if p := eng.FindPath(eng.EdgeStart(fn, e), r, consume); p != nil {
					ok, witness = false, p
				}
			}
		}
		detail := "after a failed " + callee + " the function returns only after the error was returned, reported or handed on"
		if !ok {
			detail += "; path that drops it: " + c.P.PathString(witness)
		}
		c.Check(ok, rule, key, s.Call.Pos(), "%s", detail)
	}
	if n < minSites {
		c.Unk(rule, "floor", 0, "expected at least %d call sites, found %d", minSites, n)
	}
}
