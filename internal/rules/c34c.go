package rules

import (
	"strings"

	"golang.org/x/tools/go/ssa"

	"verif/internal/eng"
)

// ruleRepairedContentFresh (C34, "repair snapshots produces snapshots that pass check"): check
// rejects a file whose blob list is JSON null. The blob list that repair snapshots writes into a
// file node is therefore never derived from the node's own list (whose nil-ness it would
// inherit): its base — followed through append and through the loop's phi — is a fresh
// allocation (a composite literal or make), so a legacy node with `"content": null` comes out
// with an empty, non-nil list.
func ruleRepairedContentFresh(c *eng.Ctx) {
	const rule = "repaired-content-fresh"
	fn := c.NeedFn(rule, "cmd/restic.runRepairSnapshots")
	if fn == nil {
		return
	}
	contentF := c.P.Field("internal/data.Node", "Content")
	if contentF == nil {
		c.Unk(rule, "anchor:Node.Content", fn.Pos(), "field does not resolve")
		return
	}
	n := 0
	for _, l := range c.P.Lits(fn) {
		sig := l.Signature
		if sig.Params().Len() < 1 || sig.Results().Len() != 1 || !strings.HasSuffix(sig.Results().At(0).Type().String(), "internal/data.Node") {
			continue
		}
		for _, st := range c.P.FieldStoresIn(l, contentF) {
			n++
			c.Touch(l)
			fresh, why := true, ""
			seen := map[ssa.Value]bool{}
			var walk func(v ssa.Value, d int)
			walk = func(v ssa.Value, d int) {
				if v == nil || seen[v] || d > 12 {
					return
				}
				seen[v] = true
				switch x := v.(type) {
				case *ssa.Phi:
					for _, e := range x.Edges {
						walk(e, d+1)
					}
				case *ssa.Call:
					if b, ok := x.Call.Value.(*ssa.Builtin); ok && b.Name() == "append" {
						walk(x.Call.Args[0], d+1)
						return
					}
					fresh, why = false, "result of "+c.P.CalleeName(x)
				case *ssa.ChangeType:
					walk(x.X, d+1)
				case *ssa.MakeSlice:
				case *ssa.Slice:
					if _, isAlloc := x.X.(*ssa.Alloc); !isAlloc {
						fresh, why = false, "a slice of "+c.P.Describe(x.X)
					}
				case *ssa.Const:
					if x.IsNil() {
						fresh, why = false, "nil"
					}
				default:
					fresh, why = false, c.P.Describe(v)
				}
			}
			walk(st.Val, 0)
			c.Check(fresh, rule, "RewriteNode:content-list-is-a-fresh-allocation", st.Pos(), "the blob list stored into the node starts from a freshly allocated, non-nil list (%s)", why)
		}
	}
	c.Check(n >= 1, rule, "RewriteNode:content-store", fn.Pos(), "%d assignments of node.Content in the repair callback", n)
}
