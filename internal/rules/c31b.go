package rules

import (
	"strings"

	"golang.org/x/tools/go/ssa"

	"verif/internal/eng"
)

// ruleSaveReaderHash (C31): every reader that package repository hands to Backend.Save
// carries the content hash the backend asks for: a ByteReader is built with the backend's
// Hasher(), a FileReader with the sum of a hashing.Reader fed by that hasher. A reader built
// with a nil hasher is rejected by backends that verify uploads — in the rollback of a failed
// upgrade this left the repository without any config (genuine defect, fixed).
func ruleSaveReaderHash(c *eng.Ctx) {
	const rule = "save-reader-hash"
	isHasherCall := func(v ssa.Value) bool {
		call := eng.RootCall(v)
		return call != nil && call.Call.IsInvoke() && call.Call.Method.Name() == "Hasher"
	}
	fromHasher := func(v ssa.Value) bool {
		roots := eng.Origins(v, nil)
		if len(roots) == 0 {
			return false
		}
		for _, r := range roots {
			if !isHasherCall(r) {
				return false
			}
		}
		return true
	}
	n := 0
	for _, fn := range c.P.Funcs {
		if eng.PkgOf(fn) != pkgRepo {
			continue
		}
		for _, call := range eng.Calls(fn) {
			cc := call.Common()
			if !cc.IsInvoke() || cc.Method.Name() != "Save" || len(cc.Args) != 3 || !strings.HasSuffix(cc.Value.Type().String(), "internal/backend.Backend") {
				continue
			}
			n++
			c.Touch(fn)
			name := c.P.FnName(fn) + ":Save"
			roots := eng.Origins(cc.Args[2], nil)
			if len(roots) != 1 {
				c.Unk(rule, name+":reader-origin", call.Pos(), "the reader handed to Backend.Save has %d origins", len(roots))
				continue
			}
			switch {
			case c.P.IsCallOf(roots[0], "internal/backend.NewByteReader"):
				h := eng.RootCall(roots[0]).Call.Args[1]
				c.Check(fromHasher(h), rule, name+":ByteReader-hasher", call.Pos(), "the ByteReader is built with the Hasher() of the backend (%s)", c.P.Describe(h))
			case c.P.IsCallOf(roots[0], "internal/backend.NewFileReader"):
				// hash argument: nil (backend without hasher) or Sum of a hashing.Reader over that hasher
				h := eng.RootCall(roots[0]).Call.Args[1]
				sums := 0
				ok := true
				for _, r := range eng.Origins(h, nil) {
					if eng.IsNilConst(r) {
						continue
					}
					sc := eng.RootCall(r)
					if sc == nil || c.P.CalleeName(sc) != "internal/backend/util.(*Reader).Sum" && !strings.HasSuffix(c.P.CalleeName(sc), "hashing.(*Reader).Sum") {
						ok = false
						continue
					}
					// the hashing.Reader was created over the backend's hasher
					okRd := false
					for _, rr := range eng.Origins(sc.Call.Args[0], nil) {
						if nr := eng.RootCall(rr); nr != nil && strings.HasSuffix(c.P.CalleeName(nr), "hashing.NewReader") && fromHasher(nr.Call.Args[1]) {
							okRd = true
						}
					}
					if okRd {
						sums++
					} else {
						ok = false
					}
				}
				c.Check(ok && sums >= 1, rule, name+":FileReader-hash", call.Pos(), "the FileReader's hash is the sum of a hashing.Reader over the backend's Hasher() (nil only when the backend has none)")
			default:
				c.Bad(rule, name+":reader-origin", call.Pos(), "the reader handed to Backend.Save is neither a ByteReader nor a FileReader built here: %s", c.P.Describe(roots[0]))
			}
		}
	}
	if n < 4 {
		c.Unk(rule, "floor", 0, "expected at least 4 Backend.Save calls in package repository, found %d", n)
	}
}
