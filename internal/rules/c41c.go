package rules

import (
	"go/types"
	"reflect"
	"strings"

	"verif/internal/eng"
)

// ruleStringFieldsLossless (C41, "decoding returns every field of every entry unchanged …
// including invalid UTF-8"): encoding/json replaces invalid UTF-8 in a Go string by U+FFFD, so
// a string field of a tree entry that can hold bytes taken from the file system survives a
// round trip only if the node's MarshalJSON/UnmarshalJSON give it an escape of their own.
// Every JSON-visible field of kind string in data.Node and data.ExtendedAttribute is
// classified: escaped by a verified mechanism, of an enumeration type that restic itself
// writes, or — otherwise — lossy.
func ruleStringFieldsLossless(c *eng.Ctx) {
	const rule = "string-fields-lossless"
	mj := c.NeedFn(rule, "internal/data.Node.MarshalJSON")
	uj := c.NeedFn(rule, "internal/data.(*Node).UnmarshalJSON")
	if mj == nil || uj == nil {
		return
	}
	quotes := len(c.P.CallsTo(mj, "strconv.Quote")) > 0 && len(c.P.CallsTo(uj, "strconv.Unquote")) > 0
	rawF := c.P.Field("internal/data.Node", "LinkTargetRaw")
	rawLink := rawF != nil && len(c.P.FieldStoresIn(mj, rawF)) > 0 && len(c.P.CallsTo(mj, "unicode/utf8.ValidString")) > 0
	n := 0
	for _, tn := range []string{"internal/data.Node", "internal/data.ExtendedAttribute"} {
		nt := c.P.NamedType(tn)
		if nt == nil {
			c.Unk(rule, "anchor:"+tn, 0, "type %s does not resolve", tn)
			continue
		}
		st, ok := nt.Underlying().(*types.Struct)
		if !ok {
			continue
		}
		short := tn[strings.LastIndex(tn, ".")+1:]
		for i := 0; i < st.NumFields(); i++ {
			f := st.Field(i)
			tag := reflect.StructTag(st.Tag(i)).Get("json")
			if tag == "-" || !f.Exported() {
				continue
			}
			b, isBasic := f.Type().Underlying().(*types.Basic)
			if !isBasic || b.Kind() != types.String {
				continue
			}
			n++
			key := short + "." + f.Name()
			switch {
			case short == "Node" && f.Name() == "Name":
				c.Check(quotes, rule, key, f.Pos(), "written with strconv.Quote and read back with strconv.Unquote: any byte sequence survives")
			case short == "Node" && f.Name() == "LinkTarget":
				c.Check(rawLink, rule, key, f.Pos(), "a link target that is not valid UTF-8 is also stored as raw bytes (LinkTargetRaw)")
			case short == "Node" && f.Name() == "Error":
				// legacy message field: the module never assigns it, so nothing from the file system gets in
				stores := 0
				for _, fn := range c.P.Funcs {
					for _, s := range c.P.FieldStoresIn(fn, f) {
						if s.Parent() == fn {
							stores++
						}
					}
				}
				c.Check(stores == 0, rule, key, f.Pos(), "Node.Error is never assigned by the module (%d stores): no file-system bytes reach it", stores)
			default:
				if named, isNamed := f.Type().(*types.Named); isNamed && named.Obj().Pkg() != nil && strings.HasSuffix(named.Obj().Pkg().Path(), "internal/data") {
					c.Ok(rule, key, f.Pos(), "enumeration type %s: the values are written by restic itself", named.Obj().Name())
					continue
				}
				c.Bad(rule, key, f.Pos(), "a plain string field goes through encoding/json, which replaces invalid UTF-8 by U+FFFD: the value does not survive a round trip and distinct values can collapse")
			}
		}
	}
	if n < 5 {
		c.Unk(rule, "floor", 0, "expected at least 5 string fields in Node/ExtendedAttribute, found %d", n)
	}
}
