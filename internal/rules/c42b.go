package rules

import (
	"strings"

	"golang.org/x/tools/go/ssa"

	"verif/internal/eng"
)

// ruleProcessDrainsIterator (C42): StreamTrees requires its process callback to read the
// node iterator until it ends or to return an error: the worker asks the subtree collector
// for its result afterwards and the collector panics ("tree was not read completely") when
// the iteration was abandoned. So every loop over the iterator — in the callback itself or in
// a function the callback hands the iterator to — may stop early only on a path that makes
// the consumer return a non-nil error.
func ruleProcessDrainsIterator(c *eng.Ctx) {
	const rule = "process-drains-iterator"
	n := 0
	for _, s := range c.P.AllCallsTo(fnStreamTrees) {
		if strings.HasSuffix(c.P.Pos(s.Call.Pos()), "_test.go") {
			continue
		}
		proc := closureArg(s.Call, 5)
		if proc == nil {
			continue // reported by visited-set
		}
		type consumer struct {
			fn    *ssa.Function
			param *ssa.Parameter
		}
		var cons []consumer
		for _, p := range proc.Params {
			if strings.HasSuffix(p.Type().String(), "data.TreeNodeIterator") {
				cons = append(cons, consumer{proc, p})
				// functions the callback passes the iterator to
				for _, call := range eng.Calls(proc) {
					f := eng.CalleeFunc(call)
					if f == nil || len(f.Blocks) == 0 || !strings.HasPrefix(f.Pkg.Pkg.Path(), eng.Mod) {
						continue
					}
					for i, a := range call.Common().Args {
						if eng.IsParam(proc, p.Name())(a) && i < len(f.Params) {
							cons = append(cons, consumer{f, f.Params[i]})
						}
					}
				}
			}
		}
		for _, cn := range cons {
			// range loops over the iterator: calls of the parameter with a synthetic body
			for _, call := range eng.Calls(cn.fn) {
				if call.Common().IsInvoke() || !eng.IsParam(cn.fn, cn.param.Name())(call.Common().Value) {
					continue
				}
				if len(call.Common().Args) != 1 {
					continue
				}
				mc, ok := call.Common().Args[0].(*ssa.MakeClosure)
				if !ok {
					continue
				}
				body, _ := mc.Fn.(*ssa.Function)
				if body == nil || !strings.Contains(body.Synthetic, "range-over-func") {
					continue
				}
				n++
				c.Touch(body)
				// stores of a (non-nil) error into the consumer's error result
				errStores := eng.NewCut()
				for _, b := range body.Blocks {
					for _, in := range b.Instrs {
						st, isSt := in.(*ssa.Store)
						if !isSt || !eng.IsErrorType(st.Val.Type()) {
							continue
						}
						fv, isFV := st.Addr.(*ssa.FreeVar)
						if !isFV {
							continue
						}
						if cell, _ := boundCell(c.P, body, fv); cell != nil {
							if a, isA := cell.(*ssa.Alloc); isA && a.Parent() == cn.fn && !eng.IsNilConst(st.Val) {
								errStores.AddInstrs(st)
							}
						}
					}
				}
				key := c.P.FnName(s.Fn) + ":" + c.P.FnName(cn.fn) + ":loop-over-tree-nodes"
				var early *eng.PSResult
				for _, r := range eng.Returns(body) {
					k, isK := eng.RetVal(r, 0).(*ssa.Const)
					if !isK || k.Value == nil || k.Value.String() != "false" {
						continue
					}
					r := r
					if res := c.P.FindPathSeeded(eng.Entry(body), func(in ssa.Instruction) bool { return in == ssa.Instruction(r) }, errStores, nil, nil); res != nil {
						early = res
					}
				}
				c.Check(early == nil, rule, key, call.Pos(), "the loop over the tree's nodes stops early only on paths that store an error into %s's result%s", c.P.FnName(cn.fn),
					func() string {
						if early != nil {
							return " — it can be abandoned without an error (" + c.P.PathString(early.Path) + "): StreamTrees' worker then panics with \"tree was not read completely\""
						}
						return ""
					}())
			}
		}
	}
	if n < 3 {
		c.Unk(rule, "floor", 0, "expected at least 3 loops over the node iterator in StreamTrees callbacks, found %d", n)
	}
}
