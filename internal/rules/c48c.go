package rules

import (
	"go/constant"
	"go/token"
	"go/types"
	"strings"

	"golang.org/x/tools/go/ssa"

	"verif/internal/eng"
)

// fieldLoadNamed reports whether v is a load of a field with the given name from a struct
// whose type name starts with typePrefix (generic instances included).
func fieldLoadNamed(v ssa.Value, typePrefix, field string) bool {
	ld, ok := eng.Strip(v).(*ssa.UnOp)
	if !ok || ld.Op != token.MUL {
		return false
	}
	fa, ok := ld.X.(*ssa.FieldAddr)
	if !ok {
		return false
	}
	return fieldAddrNamed(fa, typePrefix, field)
}

func fieldAddrNamed(fa *ssa.FieldAddr, typePrefix, field string) bool {
	fv := eng.FieldVar(fa.X.Type(), fa.Field)
	if fv == nil || fv.Name() != field {
		return false
	}
	t := fa.X.Type()
	if pt, ok := t.Underlying().(*types.Pointer); ok {
		t = pt.Elem()
	}
	n, ok := t.(*types.Named)
	return ok && strings.HasPrefix(n.Obj().Name(), typePrefix)
}

// ruleAssocSetSlots (C48): the operations of AssociatedSet agree on where a handle lives, so
// that a sequence of Insert/Set/Delete leaves each member in exactly one place:
//   - overflow first: Get, Set, Delete and the enumeration consult the overflow map before the
//     index position is used, and use the position only on the miss edge (a handle is never
//     kept in both places);
//   - a slot value[idx]/isSet[idx] is touched only behind idx != -1 and idx < len(value);
//     value and isSet are allocated with the same length;
//   - Set ends with the handle recorded (overflow update, or value stored and isSet set to
//     true), Delete ends with it removed (overflow delete, isSet cleared, or not a member of the
//     array at all), Get reports true only for an overflow hit or a set slot.
func ruleAssocSetSlots(c *eng.Ctx) {
	const rule = "slot-discipline"
	const T = pkgIndex + ".(*AssociatedSet)."
	type target struct {
		name string
		fn   *ssa.Function
	}
	var fns []target
	for _, n := range []string{"Get", "Set", "Delete"} {
		if fn := c.NeedFn(rule, T+n); fn != nil {
			fns = append(fns, target{n, fn})
		}
	}
	// the body of the range over idx.Values() inside All
	if all := c.NeedFn(rule, T+"All"); all != nil {
		found := false
		for _, l := range c.P.Lits(all) {
			if len(c.P.CallsTo(l, pkgIndex+".(*MasterIndex).blobIndex")) == 1 {
				fns = append(fns, target{"All:range-body", l})
				found = true
			}
		}
		if !found {
			c.Unk(rule, "anchor:All:range-body", all.Pos(), "the loop body of All that maps index entries to slots was not found")
		}
	}
	isOverflowMap := func(v ssa.Value) bool { return fieldLoadNamed(v, "AssociatedSet", "overflow") }
	for _, t := range fns {
		fn := t.fn
		c.Touch(fn)
		bi := c.OneCall(rule, fn, pkgIndex+".(*MasterIndex).blobIndex")
		if bi == nil {
			continue
		}
		idx := bi.Value()
		isIdx := eng.SameAs(idx)
		// overflow lookups with comma-ok
		var missEdges, hitEdges []eng.EdgeKey
		for _, b := range fn.Blocks {
			for _, in := range b.Instrs {
				lk, ok := in.(*ssa.Lookup)
				if !ok || !lk.CommaOk || !isOverflowMap(lk.X) {
					continue
				}
				for _, ref := range *lk.Referrers() {
					if ex, ok := ref.(*ssa.Extract); ok && ex.Index == 1 {
						missEdges = append(missEdges, eng.BoolEdges(fn, eng.SameAs(ex), false)...)
						hitEdges = append(hitEdges, eng.BoolEdges(fn, eng.SameAs(ex), true)...)
					}
				}
			}
		}
		c.MustPass(rule, t.name+":overflow-miss→index-position", eng.Entry(fn), bi.(ssa.Instruction), eng.NewCut().AddEdges(missEdges...), "the handle is not in the overflow map")
		// range guards on idx
		inRange := eng.CmpEdges(fn, func(op token.Token, x, y ssa.Value) (bool, bool) {
			if !isIdx(x) {
				return false, false
			}
			call, ok := y.(*ssa.Call)
			if !ok {
				return false, false
			}
			if b, isB := call.Call.Value.(*ssa.Builtin); !isB || b.Name() != "len" || !fieldLoadNamed(call.Call.Args[0], "associatedSetSub", "value") && !fieldLoadNamed(call.Call.Args[0], "associatedSetSub", "isSet") {
				return false, false
			}
			switch op {
			case token.LSS:
				return true, true
			case token.GEQ:
				return true, false
			}
			return false, false
		})
		notMinus := eng.CmpEdges(fn, func(op token.Token, x, y ssa.Value) (bool, bool) {
			k, isK := eng.ConstInt(y)
			if !isIdx(x) || !isK || k != -1 {
				return false, false
			}
			switch op {
			case token.NEQ:
				return true, true
			case token.EQL:
				return true, false
			}
			return false, false
		})
		outOfRange := eng.CmpEdges(fn, func(op token.Token, x, y ssa.Value) (bool, bool) {
			if !isIdx(x) {
				return false, false
			}
			if k, isK := eng.ConstInt(y); isK && k == -1 {
				switch op {
				case token.NEQ:
					return true, false
				case token.EQL:
					return true, true
				}
				return false, false
			}
			switch op {
			case token.LSS:
				return true, false
			case token.GEQ:
				return true, true
			}
			return false, false
		})
		var valueStores, setTrue, setFalse []ssa.Instruction
		var isSetLoads []ssa.Value
		nSlots := 0
		for _, b := range fn.Blocks {
			for _, in := range b.Instrs {
				ia, ok := in.(*ssa.IndexAddr)
				if !ok {
					continue
				}
				isVal := fieldLoadNamed(ia.X, "associatedSetSub", "value")
				isSet := fieldLoadNamed(ia.X, "associatedSetSub", "isSet")
				if !isVal && !isSet {
					continue
				}
				which := "value"
				if isSet {
					which = "isSet"
				}
				if !isIdx(ia.Index) {
					c.Bad(rule, t.name+":"+which+"-slot-index", ia.Pos(), "a slot of %s is addressed with something other than the handle's index position", which)
					continue
				}
				nSlots++
				c.MustPass(rule, t.name+":"+which+"[idx]→idx<len", eng.After(bi.(ssa.Instruction)), ia, eng.NewCut().AddEdges(inRange...), "idx < len(value)")
				c.MustPass(rule, t.name+":"+which+"[idx]→idx!=-1", eng.After(bi.(ssa.Instruction)), ia, eng.NewCut().AddEdges(notMinus...), "idx != -1")
				for _, ref := range *ia.Referrers() {
					switch u := ref.(type) {
					case *ssa.Store:
						if u.Addr != ssa.Value(ia) {
							continue
						}
						if isVal {
							valueStores = append(valueStores, u)
						} else if k, ok := u.Val.(*ssa.Const); ok && k.Value != nil && k.Value.Kind() == constant.Bool {
							if constant.BoolVal(k.Value) {
								setTrue = append(setTrue, u)
							} else {
								setFalse = append(setFalse, u)
							}
						} else {
							c.Bad(rule, t.name+":isSet-store", u.Pos(), "isSet[idx] is assigned a non-constant value")
						}
					case *ssa.UnOp:
						if isSet && u.Op == token.MUL {
							isSetLoads = append(isSetLoads, u)
						}
					}
				}
			}
		}
		c.Check(nSlots >= 1, rule, t.name+":slots", fn.Pos(), "%d slot accesses found", nSlots)
		var ovUpdates, ovDeletes []ssa.Instruction
		for _, b := range fn.Blocks {
			for _, in := range b.Instrs {
				switch x := in.(type) {
				case *ssa.MapUpdate:
					if isOverflowMap(x.Map) {
						ovUpdates = append(ovUpdates, x)
					}
				case *ssa.Call:
					if bn, ok := x.Call.Value.(*ssa.Builtin); ok && bn.Name() == "delete" && isOverflowMap(x.Call.Args[0]) {
						ovDeletes = append(ovDeletes, x)
					}
				}
			}
		}
		switch t.name {
		case "Set":
			done := eng.NewCut().AddInstrs(ovUpdates...).AddInstrs(setTrue...)
			for _, r := range eng.Returns(fn) {
				c.MustPass(rule, "Set:return→recorded", eng.Entry(fn), r, done, "the handle was recorded in the overflow map or its slot was marked set")
			}
			for _, vs := range valueStores {
				for _, r := range eng.Returns(fn) {
					if eng.FindPath(eng.After(vs), r, nil) != nil {
						c.MustPass(rule, "Set:value-stored→isSet=true", eng.After(vs), r, eng.NewCut().AddInstrs(setTrue...), "isSet[idx] = true")
					}
				}
			}
			c.Check(len(valueStores) == 1 && len(setTrue) == 1 && len(setFalse) == 0 && len(ovUpdates) >= 1, rule, "Set:effects", fn.Pos(), "Set stores one value, marks one slot and never clears (%d/%d/%d), overflow updates %d", len(valueStores), len(setTrue), len(setFalse), len(ovUpdates))
		case "Delete":
			done := eng.NewCut().AddInstrs(ovDeletes...).AddInstrs(setFalse...).AddEdges(outOfRange...)
			for _, r := range eng.Returns(fn) {
				c.MustPass(rule, "Delete:return→removed", eng.Entry(fn), r, done, "removed from the overflow map, slot cleared, or no slot exists for the handle")
			}
			c.Check(len(setTrue) == 0 && len(valueStores) == 0 && len(ovUpdates) == 0 && len(ovDeletes) >= 1 && len(setFalse) >= 1, rule, "Delete:effects", fn.Pos(), "Delete only removes")
		case "Get":
			isSetTrue := eng.NewCut().AddEdges(hitEdges...)
			for _, ld := range isSetLoads {
				isSetTrue.AddEdges(eng.BoolEdges(fn, eng.SameAs(ld), true)...)
			}
			n := 0
			for _, r := range eng.Returns(fn) {
				ok := eng.RetVal(r, 1)
				if k, isK := ok.(*ssa.Const); isK && k.Value != nil && !constant.BoolVal(k.Value) {
					continue
				}
				n++
				c.MustPass(rule, "Get:found→overflow-hit-or-slot-set", eng.Entry(fn), r, isSetTrue, "overflow hit or isSet[idx]")
			}
			c.Check(n >= 2 && len(valueStores)+len(setTrue)+len(setFalse)+len(ovUpdates)+len(ovDeletes) == 0, rule, "Get:pure", fn.Pos(), "Get has %d found-returns and no effects", n)
		default:
			c.Check(len(valueStores)+len(setTrue)+len(setFalse)+len(ovUpdates)+len(ovDeletes) == 0, rule, t.name+":pure", fn.Pos(), "the enumeration does not modify the set")
		}
	}
	// value and isSet are allocated with the same length
	if nf := c.NeedFn(rule, pkgIndex+".NewAssociatedSet"); nf != nil {
		var lens []ssa.Value
		for _, b := range nf.Blocks {
			for _, in := range b.Instrs {
				if mk, ok := in.(*ssa.MakeSlice); ok {
					lens = append(lens, mk.Len)
				}
			}
		}
		c.Check(len(lens) == 2 && lens[0] == lens[1], rule, "NewAssociatedSet:value-and-isSet-same-length", nf.Pos(), "value and isSet are made with the same length value (%d allocations)", len(lens))
	}
	c.Floor(rule, 30, 30)
}
