package rules

import (
	"strings"

	"golang.org/x/tools/go/ssa"

	"verif/internal/eng"
)

// ruleRestStripShape (C50): rest.StripPassword returns its input unchanged only when the URL
// does not parse or carries no password; otherwise it replaces the user-info section of the
// URL's string form. The section searched for must be spelled exactly as it occurs in that
// string form: url.URL.String() shows user info escaped, so the needle has to be
// Userinfo.String() (escaped) and not something rebuilt from the decoded Username()/Password().
func ruleRestStripShape(c *eng.Ctx) {
	const rule = "rest-strip-shape"
	fn := c.NeedFn(rule, "internal/backend/rest.StripPassword")
	if fn == nil {
		return
	}
	parses := c.P.CallsTo(fn, "net/url.Parse")
	pws := c.P.CallsTo(fn, "net/url.(*Userinfo).Password")
	reps := c.P.CallsTo(fn, "strings.Replace", "strings.ReplaceAll")
	if len(parses) != 1 || len(pws) != 1 || len(reps) != 1 {
		c.Unk(rule, "StripPassword:shape", fn.Pos(), "expected one url.Parse, one Userinfo.Password and one strings.Replace, found %d/%d/%d", len(parses), len(pws), len(reps))
		return
	}
	rep := reps[0]
	// derivedFromCall: v is built (by concatenation, conversion) from the result of a call named n
	var derived func(v ssa.Value, pred func(*ssa.Call) bool, d int) bool
	derived = func(v ssa.Value, pred func(*ssa.Call) bool, d int) bool {
		if v == nil || d > 8 {
			return false
		}
		switch x := v.(type) {
		case *ssa.Call:
			return pred(x)
		case *ssa.Extract:
			if call, ok := x.Tuple.(*ssa.Call); ok {
				return pred(call) && x.Index == 0
			}
		case *ssa.BinOp:
			return derived(x.X, pred, d+1) || derived(x.Y, pred, d+1)
		case *ssa.Phi:
			for _, e := range x.Edges {
				if derived(e, pred, d+1) {
					return true
				}
			}
		case *ssa.Convert:
			return derived(x.X, pred, d+1)
		case *ssa.ChangeType:
			return derived(x.X, pred, d+1)
		}
		return false
	}
	isNamed := func(n string) func(*ssa.Call) bool {
		return func(call *ssa.Call) bool { return c.P.CalleeName(call) == n }
	}
	hay, needle, repl := eng.Arg(rep, 0), eng.Arg(rep, 1), eng.Arg(rep, 2)
	c.Check(derived(hay, isNamed("net/url.(*URL).String"), 0), rule, "StripPassword:searches-url-string", rep.Pos(), "the text searched is u.String()")
	c.Check(derived(needle, isNamed("net/url.(*Userinfo).String"), 0) && !derived(needle, isNamed("net/url.(*Userinfo).Password"), 0) && !derived(needle, isNamed("net/url.(*Userinfo).Username"), 0),
		rule, "StripPassword:needle-is-escaped-userinfo", rep.Pos(), "the section replaced is u.User.String()+\"@\": the user info exactly as u.String() spells it (escaped) — a needle rebuilt from the decoded user name or password does not occur in the URL string when either contains a character that url escapes, and the password would be shown")
	c.Check(!derived(repl, isNamed("net/url.(*Userinfo).Password"), 0) && !derived(repl, isNamed("net/url.(*Userinfo).String"), 0), rule, "StripPassword:replacement-without-password", rep.Pos(), "the replacement text is not built from the password")
	// unchanged returns only for unparsable URLs or URLs without password
	for _, r := range eng.Returns(fn) {
		v := eng.RetVal(r, 0)
		if derived(v, func(call *ssa.Call) bool { return call == rep.Value() }, 0) {
			continue
		}
		cut := eng.NewCut().AddEdges(eng.FailureEdges(parses[0])...)
		cut = eng.Union(cut, eng.ResultCut(false, 1, pws[0]))
		c.MustPass(rule, "StripPassword:unchanged-only-without-password", eng.Entry(fn), r, cut, "url.Parse failed (restic rejects such a location) or no password is set")
	}
	n := 0
	for _, r := range eng.Returns(fn) {
		if derived(eng.RetVal(r, 0), func(call *ssa.Call) bool { return call == rep.Value() }, 0) {
			n++
		}
	}
	c.Check(n == 1, rule, "StripPassword:masked-return", fn.Pos(), "one return yields the masked form (%d)", n)
	_ = strings.HasPrefix
	c.Floor(rule, 5, 6)
}
