package rules

import (
	"go/token"
	"go/types"
	"strings"

	"golang.org/x/tools/go/ssa"

	"verif/internal/eng"
)

// snapshotRemovalSites lists all removals of snapshot files (RemoveUnpacked/ParallelRemove
// with the constant WriteableSnapshotFile).
func snapshotRemovalSites(c *eng.Ctx) []eng.Site {
	snapK, ok := constIntVal(c, "replace-order", pkgRestic+".SnapshotFile")
	if !ok {
		return nil
	}
	var out []eng.Site
	for _, fn := range c.P.Funcs {
		for _, call := range eng.Calls(fn) {
			ta, isRem := removalTypeArg(c, call)
			if !isRem {
				continue
			}
			if k, isK := eng.ConstInt(ta); isK && k == snapK && strings.HasSuffix(ta.Type().String(), "WriteableFileType") {
				out = append(out, eng.Site{Fn: fn, Call: call})
			}
		}
	}
	return out
}

// ruleReplaceOrder (C26, C25, C34): wherever a snapshot is replaced, the new snapshot is
// saved before the old one is removed; no removal is ever followed by the save.
func ruleReplaceOrder(c *eng.Ctx) {
	const rule = "replace-order"
	sites := snapshotRemovalSites(c)
	if len(sites) < 5 {
		c.Unk(rule, "floor:snapshot-removal-sites", 0, "expected at least 5 snapshot removal sites in the program, found %d", len(sites))
	}
	exceptions := map[string]string{
		"cmd/restic.runForget":                    "forget: removing snapshots is the purpose of the command (C23)",
		"cmd/restic.handleUnreadableSnapshotFile": "repair snapshots --forget: removes a snapshot file that cannot even be read",
	}
	origF := c.P.Field("internal/data.Snapshot", "Original")
	// a removal that sits in an unexported helper without a save of its own is judged where the
	// helper is called (the ordering against SaveSnapshot is the caller's); the id it removes is
	// still judged in the helper
	idCallOf := map[ssa.CallInstruction]ssa.CallInstruction{}
	var lifted []eng.Site
	for _, s := range sites {
		rf := eng.Root(s.Fn)
		name := c.P.FnName(rf)
		_, isEx := exceptions[name]
		if !isEx && rf == s.Fn && rf.Object() != nil && !rf.Object().Exported() && len(c.P.CallsTo(rf, fnSaveSnapshot)) == 0 {
			if callers := c.P.AllCallsTo(name); len(callers) > 0 {
				c.Touch(rf)
				for _, cs := range callers {
					idCallOf[cs.Call] = s.Call
					lifted = append(lifted, cs)
				}
				continue
			}
		}
		lifted = append(lifted, s)
	}
	sites = lifted
	for _, s := range sites {
		c.Touch(s.Fn)
		fn := s.Fn
		root := c.P.FnName(eng.Root(fn))
		key := c.P.FnName(fn) + "→remove(snapshot)"
		si := s.Call.(ssa.Instruction)
		saves := c.P.CallsTo(fn, fnSaveSnapshot)
		idCall := s.Call
		if ic, ok := idCallOf[s.Call]; ok {
			idCall = ic
		}
		// R1: a removal is never followed by the save of the replacement
		for _, sv := range saves {
			if p := eng.FindPath(eng.After(si), sv.(ssa.Instruction), nil); p != nil {
				if ps := c.P.FindPathPS(eng.After(si), func(in ssa.Instruction) bool { return in == sv.(ssa.Instruction) }, nil, nil); ps != nil {
					c.Bad(rule, key+":never-before-save", s.Call.Pos(), "the old snapshot is removed and the replacement saved afterwards (%s): a crash in between loses the snapshot", c.P.PathString(ps.Path))
				}
			}
		}
		if why, ok := exceptions[root]; ok {
			c.Ok(rule, key+":classified", s.Call.Pos(), "frozen exception: %s", why)
			continue
		}
		if len(saves) == 0 {
			c.Bad(rule, key+":classified", s.Call.Pos(), "snapshot removal in %s is neither a replacement (no SaveSnapshot in the function) nor a listed exception", root)
			continue
		}
		// replace: behind the success edge of the save — or the delete-empty case: behind the
		// IsNull() edge of the filtered tree, with no save on that path at all
		isNull := c.P.CallsTo(fn, pkgRestic+".ID.IsNull")
		emptyCut := eng.ResultCut(true, 0, isNull...)
		if emptyCut.Size() > 0 && eng.FindPath(eng.Entry(fn), si, emptyCut) == nil {
			c.Ok(rule, key+":delete-empty", s.Call.Pos(), "removal of a snapshot whose filtered tree is empty (behind filteredTree.IsNull()); nothing is saved on this path")
			continue
		}
		c.MustPass(rule, key+":save-ok→remove-old", eng.Entry(fn), si, eng.SuccessCut(saves...), "data.SaveSnapshot returned nil")
		// the id removed is the old snapshot's own id
		okID := false
		for _, r := range eng.Origins(eng.Arg(idCall, 2), nil) {
			if ld, isLd := r.(*ssa.UnOp); isLd {
				if call := eng.RootCall(ld.X); call != nil && c.P.CalleeName(call) == "internal/data.Snapshot.ID" {
					okID = true
				}
			}
		}
		c.Check(okID, rule, key+":removes-old-id", s.Call.Pos(), "the id removed is sn.ID() of the snapshot that was replaced")
		// original-set
		if origF != nil {
			var stores []ssa.Instruction
			for _, st := range c.P.FieldStoresIn(fn, origF) {
				if st.Parent() == fn {
					stores = append(stores, st)
					okV := false
					for _, r := range eng.Origins(st.Val, nil) {
						if call := eng.RootCall(r); call != nil && c.P.CalleeName(call) == "internal/data.Snapshot.ID" {
							okV = true
						}
					}
					c.Check(okV, "original-set", c.P.FnName(fn)+":Original=sn.ID()", st.Pos(), "Snapshot.Original is set to the id of the snapshot being replaced")
				}
			}
			already := eng.NilEdges(fn, func(v ssa.Value) bool { return eng.LoadsField(v, origF) }, false)
			for _, sv := range saves {
				c.MustPass("original-set", c.P.FnName(fn)+":Original-set→SaveSnapshot", eng.Entry(fn), sv.(ssa.Instruction),
					eng.NewCut().AddInstrs(stores...).AddEdges(already...), "sn.Original assigned (or already set) before the new snapshot is saved")
			}
		}
	}
}

// ruleTagEffects (C25): changing tags touches nothing but Tags and Original.
func ruleTagEffects(c *eng.Ctx) {
	const rule = "tag-effects"
	fn := c.NeedFn(rule, "cmd/restic.changeTags")
	if fn == nil {
		return
	}
	cl := c.P.CallClosure(fn, &eng.ClosureOpts{StopIface: map[string]bool{eng.Mod + "/" + pkgBackend + ".Backend": true},
		StopAt: map[string]bool{fnSaveSnapshot: true, pkgRepo + ".(*Repository).RemoveUnpacked": true}})
	allowed := map[string]bool{"Tags": true, "Original": true}
	written := map[string]bool{}
	bad := ""
	for f := range cl.Funcs {
		for _, b := range f.Blocks {
			for _, in := range b.Instrs {
				st, ok := in.(*ssa.Store)
				if !ok {
					continue
				}
				fa, ok := st.Addr.(*ssa.FieldAddr)
				if !ok {
					continue
				}
				name := eng.FieldName(fa.X.Type(), fa.Field)
				if strings.HasPrefix(name, "internal/data.Snapshot.") {
					fld := strings.TrimPrefix(name, "internal/data.Snapshot.")
					written[fld] = true
					if !allowed[fld] {
						bad += " " + fld + "@" + c.P.Pos(st.Pos())
					}
				}
			}
		}
	}
	c.Check(bad == "", rule, "changeTags:writes-only-Tags-and-Original", fn.Pos(), "the call closure of changeTags (%d functions) stores only to Snapshot.Tags/Original (written: %v)%s", len(cl.Funcs), keysOf(written), bad)
	c.Check(written["Tags"], rule, "changeTags:writes-Tags", fn.Pos(), "changeTags does store to Snapshot.Tags")
	// --set and --add/--remove are alternatives
	isSet := eng.IsParam(fn, "setTags")
	setNonEmpty := lenNonZeroEdges(fn, isSet)
	setEmpty := lenZeroEdges(fn, isSet)
	tagsF := c.P.Field("internal/data.Snapshot", "Tags")
	for _, st := range c.P.FieldStoresIn(fn, tagsF) {
		if st.Parent() == fn {
			c.MustPass(rule, "changeTags:set-branch→Tags=setTags", eng.Entry(fn), st, eng.NewCut().AddEdges(setNonEmpty...), "len(setTags) != 0")
		}
	}
	for _, call := range c.P.CallsTo(fn, "internal/data.(*Snapshot).AddTags", "internal/data.(*Snapshot).RemoveTags") {
		c.MustPass(rule, "changeTags:add/remove-only-without-set", eng.Entry(fn), call.(ssa.Instruction), eng.NewCut().AddEdges(setEmpty...), "len(setTags) == 0")
	}
	// the save happens only if something changed
	if rt := c.NeedFn(rule, "cmd/restic.runTag"); rt != nil {
		n := 0
		for _, b := range rt.Blocks {
			for _, in := range b.Instrs {
				if call, ok := in.(*ssa.Call); ok && c.P.CalleeName(call) == "internal/errors.Fatal" {
					n++
				}
			}
		}
		c.Check(n >= 2, rule, "runTag:option-conflicts-rejected", rt.Pos(), "runTag rejects 'nothing to do' and --set together with --add/--remove (%d Fatal returns)", n)
	}
}

func lenNonZeroEdges(fn *ssa.Function, isX func(ssa.Value) bool) []eng.EdgeKey {
	return eng.CmpEdges(fn, func(op token.Token, x, y ssa.Value) (bool, bool) {
		if !eng.IsLenOf(x, isX) {
			return false, false
		}
		if k, isK := eng.ConstInt(y); !isK || k != 0 {
			return false, false
		}
		switch op {
		case token.NEQ, token.GTR:
			return true, true
		case token.EQL, token.LEQ:
			return true, false
		}
		return false, false
	})
}

// ---- C23 ------------------------------------------------------------------

func ruleForgetGuards(c *eng.Ctx) {
	const rule = "forget-guards"
	fn := c.NeedFn(rule, "cmd/restic.runForget")
	if fn == nil {
		return
	}
	applies := c.P.CallsTo(fn, "internal/data.ApplyPolicy")
	empties := c.P.CallsTo(fn, "internal/data.ExpirePolicy.Empty")
	filterEmpty := c.P.CallsTo(fn, "internal/data.(*SnapshotFilter).Empty", "internal/data.SnapshotFilter.Empty")
	unsafeF := c.P.Field("cmd/restic.ForgetOptions", "UnsafeAllowRemoveAll")
	dryF := c.P.Field("cmd/restic.ForgetOptions", "DryRun")
	if len(applies) != 1 || len(empties) < 2 || unsafeF == nil || dryF == nil {
		c.Unk(rule, "runForget:anchors", fn.Pos(), "expected ApplyPolicy (found %d), two policy.Empty() tests (found %d) and the option fields", len(applies), len(empties))
		return
	}
	ap := applies[0].(ssa.Instruction)
	var emptyBefore, emptyAfter []ssa.CallInstruction
	for _, e := range empties {
		if eng.FindPath(eng.After(ap), e.(ssa.Instruction), nil) != nil && eng.FindPath(eng.After(e.(ssa.Instruction)), ap, eng.NewCut().AddEdges(backEdges(fn)...)) == nil {
			emptyAfter = append(emptyAfter, e)
		} else {
			emptyBefore = append(emptyBefore, e)
		}
	}
	// empty-policy-guard
	c.MustPass(rule, "runForget:empty-policy-needs-unsafe-flag→ApplyPolicy", eng.Entry(fn), ap,
		eng.Union(eng.ResultCut(false, 0, emptyBefore...), eng.NewCut().AddEdges(eng.FieldEdges(fn, unsafeF, true)...)), "the policy is non-empty, or --unsafe-allow-remove-all was given")
	c.MustPass(rule, "runForget:empty-policy-needs-snapshot-filter→ApplyPolicy", eng.Entry(fn), ap,
		eng.Union(eng.ResultCut(false, 0, emptyBefore...), eng.ResultCut(false, 0, filterEmpty...)), "the policy is non-empty, or a snapshot filter restricts what can be removed")
	// last-snapshot-guard
	res := eng.Results(applies[0])
	var removeSet ssa.Value
	parRem := c.P.CallsTo(fn, pkgRestic+".ParallelRemove")
	for _, pr := range parRem {
		for _, r := range eng.Origins(eng.Arg(pr, 2), nil) {
			removeSet = r
		}
	}
	if len(res) < 2 || res[0] == nil || res[1] == nil || removeSet == nil {
		c.Unk(rule, "runForget:ApplyPolicy-results", applies[0].Pos(), "keep/remove results or the removal set not found")
		return
	}
	keepNonEmpty := lenNonZeroEdges(fn, eng.SameAs(res[0]))
	nIns := 0
	for _, call := range eng.Calls(fn) {
		if eng.MethodName(call) != "Insert" || eng.Recv(call) == nil {
			continue
		}
		isSet := false
		for _, r := range eng.Origins(eng.Recv(call), nil) {
			if r == removeSet {
				isSet = true
			}
		}
		if !isSet {
			continue
		}
		nIns++
		ci := call.(ssa.Instruction)
		// which list does the inserted id come from?
		fromRemove, fromAll := false, false
		for _, r := range eng.Origins(eng.Arg(call, 0), nil) {
			ld, ok := r.(*ssa.UnOp)
			if !ok {
				continue
			}
			idCall := eng.RootCall(ld.X)
			if idCall == nil || c.P.CalleeName(idCall) != "internal/data.Snapshot.ID" {
				continue
			}
			for _, e := range eng.Origins(eng.Recv(idCall), nil) {
				base, _ := containerBase(e)
				for _, b := range eng.Origins(base, nil) {
					if b == res[1] {
						fromRemove = true
					}
				}
				if !fromRemove {
					fromAll = true
				}
			}
		}
		if eng.FindPath(eng.After(ap), ci, nil) != nil {
			c.Check(fromRemove, "remove-set-origin", "runForget:policy-mode-removes-only-ApplyPolicy-remove-list", call.Pos(), "in policy mode the ids scheduled for removal are the ids of the `remove` result of ApplyPolicy")
			c.MustPass(rule, "runForget:group-keeps-a-snapshot→schedule-removal", eng.After(ap), ci,
				eng.Union(eng.NewCut().AddEdges(keepNonEmpty...), eng.ResultCut(true, 0, emptyAfter...)), "len(keep) != 0 (or the policy is empty, which needed --unsafe-allow-remove-all)")
		} else {
			argsNonEmpty := lenNonZeroEdges(fn, eng.IsParam(fn, "args"))
			c.Check(fromAll, "remove-set-origin", "runForget:id-mode-removes-the-found-snapshots", call.Pos(), "with explicit snapshot IDs the ids scheduled are those of the snapshots found for the arguments")
			c.MustPass("remove-set-origin", "runForget:id-mode-only-with-arguments", eng.Entry(fn), ci, eng.NewCut().AddEdges(argsNonEmpty...), "len(args) > 0")
		}
	}
	c.Check(nIns == 2, "remove-set-origin", "runForget:removal-set-filled-at-two-sites", fn.Pos(), "the removal set is filled at exactly the ID-mode and the policy-mode site (%d Insert sites)", nIns)
	for _, pr := range parRem {
		c.MustPass(rule, "runForget:not-dry-run→ParallelRemove", eng.Entry(fn), pr.(ssa.Instruction), eng.NewCut().AddEdges(eng.FieldEdges(fn, dryF, false)...), "opts.DryRun is false")
	}
	// the policy literal forwards every option, Empty() looks at the whole struct
	polT := c.P.NamedType("internal/data.ExpirePolicy")
	if polT != nil {
		st := polT.Underlying().(*types.Struct)
		stored := map[string]bool{}
		for i := 0; i < st.NumFields(); i++ {
			for _, s := range c.P.FieldStoresIn(fn, st.Field(i)) {
				_ = s
				stored[st.Field(i).Name()] = true
			}
		}
		var missing []string
		for i := 0; i < st.NumFields(); i++ {
			if !stored[st.Field(i).Name()] {
				missing = append(missing, st.Field(i).Name())
			}
		}
		c.Check(len(missing) == 0, "policy-fields", "runForget:ExpirePolicy-literal-sets-every-field", fn.Pos(), "every field of data.ExpirePolicy is set from a command-line option (missing: %v)", missing)
	}
	if ef := c.NeedFn(rule, "internal/data.ExpirePolicy.Empty"); ef != nil {
		c.Check(len(c.P.CallsTo(ef, "reflect.DeepEqual")) == 1, "policy-fields", "ExpirePolicy.Empty:compares-whole-struct", ef.Pos(), "Empty() compares the whole struct with the zero policy (reflect.DeepEqual), so a new field cannot be forgotten")
	}
	c.Floor(rule, 4, 4)
}
