package rules

import (
	"strings"

	"golang.org/x/tools/go/ssa"

	"verif/internal/eng"
)

// ruleSecondSalvagePass (C34, "repair packs re-uploads every blob that can still be read"):
// the blobs of a damaged pack are salvaged twice — with the positions the index gives and,
// when the pack's own header says anything different, with the header's positions. The
// second pass may be left out only if the two descriptions are equal in every field of
// every entry (slices.Equal / reflect.DeepEqual of the two sorted lists) or the header could
// not be read at all: an index entry with the right id but a wrong length makes the first
// pass fail for a blob the header locates correctly.
func ruleSecondSalvagePass(c *eng.Ctx) {
	const rule = "second-salvage-pass"
	root := c.NeedFn(rule, pkgRepo+".RepairPacks")
	if root == nil {
		return
	}
	var fn *ssa.Function
	var ups []ssa.CallInstruction
	for _, l := range c.P.WithLits(root) {
		if u := c.P.CallsTo(l, pkgRepo+".reuploadBlobsFromPack"); len(u) >= 2 {
			fn, ups = l, u
		}
	}
	if fn == nil {
		c.Unk(rule, "RepairPacks:two-passes", root.Pos(), "expected two calls of reuploadBlobsFromPack (index entries, then pack header entries) in one function of RepairPacks")
		return
	}
	c.Touch(fn)
	first, second := ups[0], ups[1]
	c.MustPass(rule, "RepairPacks:index-pass→header-pass", eng.Entry(fn), second.(ssa.Instruction), eng.SuccessCut(first), "the pass over the index entries succeeded")
	idxList, hdrList := eng.Arg(first, 3), eng.Arg(second, 3)
	sameList := func(a, b ssa.Value) bool {
		if eng.SameAs(a)(b) {
			return true
		}
		ra, rb := eng.Origins(a, nil), eng.Origins(b, nil)
		return len(ra) == 1 && len(rb) == 1 && ra[0] == rb[0]
	}
	// edges on which the two lists are known to be equal entry by entry
	equal := eng.CondEdges(fn, func(cond ssa.Value) (bool, bool) {
		call, ok := cond.(*ssa.Call)
		if !ok || len(call.Call.Args) != 2 {
			return false, false
		}
		n := c.P.CalleeName(call)
		if !(strings.HasPrefix(n, "slices.Equal[") || n == "slices.Equal" || n == "reflect.DeepEqual") {
			return false, false
		}
		a, b := call.Call.Args[0], call.Call.Args[1]
		if (sameList(a, idxList) && sameList(b, hdrList)) || (sameList(a, hdrList) && sameList(b, idxList)) {
			return true, true
		}
		return false, false
	})
	noHeader := eng.NilEdges(fn, func(v ssa.Value) bool { return sameList(v, hdrList) }, true)
	// the end of the iteration: the next receive from the channel of index entries, or a return
	cut := eng.NewCut().AddInstrs(second.(ssa.Instruction)).AddEdges(equal...).AddEdges(noHeader...)
	var targets []ssa.Instruction
	for _, r := range eng.Returns(fn) {
		if eng.IsNilConst(eng.RetVal(r, 0)) {
			targets = append(targets, r)
		}
	}
	for _, b := range fn.Blocks {
		for _, in := range b.Instrs {
			if call, ok := in.(*ssa.Call); ok && call.Call.IsInvoke() && call.Call.Method.Name() == "Add" && strings.Contains(call.Call.Value.Type().String(), "Counter") {
				targets = append(targets, call)
			}
		}
	}
	if len(targets) == 0 {
		c.Unk(rule, "RepairPacks:iteration-end", fn.Pos(), "the end of an iteration (progress counter / success return) was not found")
		return
	}
	ok := true
	var witness []*ssa.BasicBlock
	for _, t := range targets {
		if eng.FindPath(eng.After(first.(ssa.Instruction)), t, nil) == nil {
			continue
		}
		if p := eng.FindPath(eng.After(first.(ssa.Instruction)), t, cut); p != nil {
			ok, witness = false, p
		}
	}
	detail := "after the index-based pass the pack is done only after the header-based pass, or the header list is nil, or both lists are equal entry by entry"
	if !ok {
		detail += "; path that skips the second pass: " + c.P.PathString(witness)
	}
	c.Check(ok, rule, "RepairPacks:second-pass-skipped-only-if-lists-equal", second.Pos(), "%s", detail)
	c.Check(len(equal) > 0, rule, "RepairPacks:lists-compared-entry-by-entry", fn.Pos(), "slices.Equal/reflect.DeepEqual compares the index entries with the header entries (%d edges)", len(equal))
}
