package rules

import (
	"sort"
	"strings"

	"golang.org/x/tools/go/ssa"

	"verif/internal/eng"
)

const (
	pkgRepo    = "internal/repository"
	pkgPack    = "internal/repository/pack"
	pkgBackend = "internal/backend"
	fnPMSave   = pkgRepo + ".(*packerManager).SaveBlob"
	fnPackAdd  = pkgPack + ".(*Packer).Add"
)

func describeAll(c *eng.Ctx, roots []ssa.Value) string {
	var ds []string
	for _, r := range roots {
		ds = append(ds, c.P.Describe(r)+"@"+c.P.Pos(r.Pos()))
	}
	sort.Strings(ds)
	return strings.Join(ds, ", ")
}

var byteReaderThrough = map[string][]int{
	pkgBackend + ".NewByteReader":             {0},
	"bytes.NewReader":                          {0},
	"encoding/binary.littleEndian.AppendUint32": {0},
}

// ruleCiphertextOnly (C04): the bytes that reach pack files and unpacked files are Seal
// output, never the plaintext parameters.
func ruleCiphertextOnly(c *eng.Ctx) {
	const rule = "ciphertext-only"
	opts := &eng.OriginOpts{P: c.P, Through: byteReaderThrough}
	isSeal := func(v ssa.Value) bool { return c.P.IsCallOf(v, fnSeal) }

	// (a) everything added to a pack
	for _, s := range c.P.AllCallsTo(fnPackAdd) {
		c.Touch(s.Fn)
		name := c.P.FnName(s.Fn) + "→Packer.Add:data"
		roots := c.P.InterOrigins(eng.Arg(s.Call, 2), opts, 3, nil)
		ok := len(roots) > 0
		for _, r := range roots {
			if isSeal(r) {
				continue
			}
			// frozen exception: Packer.Merge re-adds blobs read back from another packer's
			// temporary file, which itself was filled through Packer.Add only.
			if _, isMake := r.(*ssa.MakeSlice); isMake && c.P.FnName(s.Fn) == pkgPack+".(*Packer).Merge" {
				continue
			}
			ok = false
		}
		c.Check(ok, rule, name, s.Call.Pos(), "data added to a pack originates only from Key.Seal output (roots: %s)", describeAll(c, roots))
	}
	// (b) what Packer writes to its file: the Add parameter or the sealed header
	for _, fname := range []string{fnPackAdd, pkgPack + ".(*Packer).Finalize"} {
		fn := c.NeedFn(rule, fname)
		if fn == nil {
			continue
		}
		for _, w := range c.SomeCalls(rule, fn, "io.Writer.Write") {
			roots := eng.Origins(eng.Arg(w, 0), opts)
			ok := len(roots) > 0
			for _, r := range roots {
				if isSeal(r) || eng.IsParam(fn, "data")(r) {
					continue
				}
				if k, isK := r.(*ssa.Const); isK && k.Value != nil {
					continue // length field
				}
				if call := eng.RootCall(r); call != nil && c.P.CalleeName(call) == "builtin.len" {
					continue
				}
				ok = false
			}
			c.Check(ok, rule, c.P.FnName(fn)+"→wr.Write", w.Pos(), "bytes written to the pack file are the data parameter or the sealed header (roots: %s)", describeAll(c, roots))
		}
	}
	// (c) unpacked files
	if fn := c.NeedFn(rule, pkgRepo+".(*Repository).saveUnpacked"); fn != nil {
		for _, s := range backendCalls(c, fn, "Save") {
			roots := eng.Origins(eng.Arg(s, 2), opts)
			ok := len(roots) > 0
			for _, r := range roots {
				if !isSeal(r) {
					ok = false
				}
			}
			c.Check(ok, rule, "Repository.saveUnpacked→be.Save:reader", s.Pos(), "the reader given to the backend wraps Key.Seal output only (roots: %s)", describeAll(c, roots))
		}
	}
	// (d) key files: Data is Seal output, all other serialised fields are the informational ones
	keyT := c.P.NamedType(pkgRepo + ".Key")
	if keyT == nil {
		c.Unk(rule, "anchor:repository.Key", 0, "type repository.Key does not resolve")
	} else {
		allowed := map[string]bool{"Created": true, "Username": true, "Hostname": true, "KDF": true, "N": true, "R": true, "P": true, "Salt": true, "Data": true}
		for _, f := range eng.ExportedFields(keyT) {
			c.Check(allowed[f], rule, "repository.Key."+f+":informational-field", keyT.Obj().Pos(),
				"serialised key-file field %s is one of the documented informational fields (or the sealed Data)", f)
		}
		if dataF := c.P.Field(pkgRepo+".Key", "Data"); dataF != nil {
			for _, st := range c.P.AllFieldStores(dataF) {
				roots := eng.Origins(st.Val, opts)
				ok := len(roots) > 0
				for _, r := range roots {
					if !isSeal(r) {
						ok = false
					}
				}
				c.Touch(st.Parent())
				c.Check(ok, rule, c.P.FnName(st.Parent())+":Key.Data=", st.Pos(), "Key.Data is assigned Key.Seal output only (roots: %s)", describeAll(c, roots))
			}
		}
	}
	c.Floor(rule, 14, 15)
}

// backendCalls lists the calls in fn (and its literals) of `method` on a value whose type
// implements backend.Backend.
func backendCalls(c *eng.Ctx, fn *ssa.Function, method string) []ssa.CallInstruction {
	be := c.P.NamedType(pkgBackend + ".Backend")
	var out []ssa.CallInstruction
	for _, f := range c.P.WithLits(fn) {
		for _, call := range eng.Calls(f) {
			if eng.IsMethodOf(call, be, method) {
				out = append(out, call)
			}
		}
	}
	return out
}

// ruleBackendSaveCallers (C04, C39): backend.Backend.Save is called only from package
// repository (sites classified) and from backend wrappers forwarding their own parameters.
func ruleBackendSaveCallers(c *eng.Ctx) {
	const rule = "backend-save-callers"
	be := c.P.NamedType(pkgBackend + ".Backend")
	if be == nil {
		c.Unk(rule, "anchor:backend.Backend", 0, "interface backend.Backend does not resolve")
		return
	}
	// classification of the sites in package repository: function → why the bytes are fine
	repoSites := map[string]string{
		pkgRepo + ".(*Repository).saveUnpacked": "Seal output (ciphertext-only rule)",
		pkgRepo + ".(*Repository).savePacker":   "temporary pack file filled through Packer.Add/Finalize (ciphertext-only rule)",
		pkgRepo + ".AddKey":                     "key file: informational fields + sealed Data (ciphertext-only rule)",
		pkgRepo + ".UpgradeRepo":                "re-upload of the raw (still encrypted) config bytes loaded from the backend",
	}
	sites := c.P.AllCallsWhere(func(fn *ssa.Function, call ssa.CallInstruction) bool { return eng.IsMethodOf(call, be, "Save") })
	for _, s := range sites {
		c.Touch(s.Fn)
		root := eng.Root(s.Fn)
		pkg := eng.PkgOf(s.Fn)
		fname := c.P.FnName(root)
		key := c.P.FnName(s.Fn) + "→Backend.Save"
		switch {
		case pkg == pkgRepo:
			why, ok := classifiedSite(c, root, repoSites)
			c.Check(ok, rule, key, s.Call.Pos(), "Save site in package repository is one of the classified savers: %s", why)
		case strings.HasPrefix(pkg, pkgBackend+"/mock") || strings.HasPrefix(pkg, pkgBackend+"/test"):
			c.Ok(rule, key, s.Call.Pos(), "backend test-suite helper package %s (not linked into restic)", pkg)
		case strings.HasPrefix(pkg, pkgBackend+"/") || pkg == pkgBackend:
			// a wrapper: must be inside a Save method and forward the handle parameter
			isWrapper := root.Signature.Recv() != nil && root.Name() == "Save"
			h := eng.Arg(s.Call, 1)
			hOK := false
			for _, r := range eng.Origins(h, nil) {
				if prm, isP := r.(*ssa.Parameter); isP && prm.Parent() == root {
					hOK = true
				}
				if fv, isFV := r.(*ssa.FreeVar); isFV && eng.LogicalName(fv) == "h" {
					hOK = true
				}
			}
			c.Check(isWrapper && hOK, rule, key, s.Call.Pos(), "backend wrapper %s forwards its own handle inside its Save method", fname)
		default:
			c.Bad(rule, key, s.Call.Pos(), "backend.Backend.Save called from %s outside package repository and the backend wrappers", fname)
		}
	}
	c.Floor(rule, 8, 12)
}
