package rules

import (
	"go/token"
	"go/types"
	"sort"
	"strings"

	"golang.org/x/tools/go/ssa"

	"verif/internal/eng"
)

// waitPoint is a place where a goroutine can block on channel operations.
type waitPoint struct {
	in    ssa.Instruction
	sends map[int]bool // shared channels (index) sent on
	recvs map[int]bool // shared channels received from
	other int          // cases on channels that are neither shared nor ctx.Done()
	desc  string
}

// ruleRendezvousNoCycle (C13): the two goroutines that keep the lock alive — refreshLocks and
// monitorLockRefresh — talk over channels created for exactly this pair. If both can sit at
// a blocking channel operation whose only other way out is the cancellation of the lock
// context (which only these two goroutines and Unlock cancel), and no case of the one matches
// a case of the other, they wait for each other forever: the lock is neither refreshed nor
// monitored and the holder's context is never cancelled, although its lock goes stale.
// Obligation: for every pair of such wait points (one per goroutine) some shared channel is
// sent on by one and received from by the other.
// Sends on a buffered channel are treated like unbuffered ones (they block when it is full).
func ruleRendezvousNoCycle(c *eng.Ctx) {
	const rule = "refresh-rendezvous"
	names := []string{pkgRepo + ".(*locker).refreshLocks", pkgRepo + ".(*locker).monitorLockRefresh"}
	var fns [2]*ssa.Function
	for i, n := range names {
		fns[i] = c.NeedFn(rule, n)
	}
	if fns[0] == nil || fns[1] == nil {
		return
	}
	// the go statements that start the pair
	var starter *ssa.Function
	var gos [2]*ssa.Go
	for _, fn := range c.P.Funcs {
		var found [2]*ssa.Go
		for _, b := range fn.Blocks {
			for _, in := range b.Instrs {
				g, ok := in.(*ssa.Go)
				if !ok {
					continue
				}
				callee := g.Call.StaticCallee()
				for i := range fns {
					if callee == fns[i] {
						found[i] = g
					}
				}
			}
		}
		if found[0] != nil || found[1] != nil {
			if starter != nil || found[0] == nil || found[1] == nil {
				c.Unk(rule, "anchor:go-statements", fn.Pos(), "refreshLocks and monitorLockRefresh are expected to be started together by one function (also found in %s)", c.P.FnName(fn))
				return
			}
			starter, gos = fn, found
		}
	}
	if starter == nil {
		c.Unk(rule, "anchor:go-statements", fns[0].Pos(), "no go statement starts refreshLocks/monitorLockRefresh")
		return
	}
	c.Touch(starter)
	// shared channels: the same make(chan) handed to both
	type shared struct {
		mk     *ssa.MakeChan
		params [2]*ssa.Parameter
	}
	chanOf := func(g *ssa.Go) map[*ssa.MakeChan]int {
		out := map[*ssa.MakeChan]int{}
		for i, a := range g.Call.Args {
			if mk, ok := eng.Strip(a).(*ssa.MakeChan); ok {
				out[mk] = i
			}
		}
		return out
	}
	a0, a1 := chanOf(gos[0]), chanOf(gos[1])
	var chans []shared
	for mk, i0 := range a0 {
		i1, ok := a1[mk]
		if !ok {
			continue
		}
		// argument index → parameter (the receiver is args[0] of a static method call)
		if i0 >= len(fns[0].Params) || i1 >= len(fns[1].Params) {
			continue
		}
		chans = append(chans, shared{mk: mk, params: [2]*ssa.Parameter{fns[0].Params[i0], fns[1].Params[i1]}})
	}
	sort.Slice(chans, func(i, j int) bool { return chans[i].mk.Pos() < chans[j].mk.Pos() })
	if len(chans) < 2 {
		c.Unk(rule, "anchor:shared-channels", starter.Pos(), "expected at least two channels shared by the two goroutines, found %d", len(chans))
		return
	}
	c.Ok(rule, "lockRepo:shared-channels", gos[0].Pos(), "%s starts both goroutines with %d channels created for this pair", c.P.FnName(starter), len(chans))

	isCtxDone := func(v ssa.Value) bool {
		call, ok := eng.Strip(v).(*ssa.Call)
		return ok && call.Call.IsInvoke() && call.Call.Method.Name() == "Done"
	}
	waitPoints := func(side int) []waitPoint {
		fn := fns[side]
		idx := func(v ssa.Value) int {
			for i, sh := range chans {
				if eng.SameAs(sh.params[side])(v) {
					return i
				}
			}
			return -1
		}
		var out []waitPoint
		add := func(in ssa.Instruction, states []*ssa.SelectState) {
			w := waitPoint{in: in, sends: map[int]bool{}, recvs: map[int]bool{}}
			var parts []string
			for _, st := range states {
				i := idx(st.Chan)
				switch {
				case i >= 0 && st.Dir == types.SendOnly:
					w.sends[i] = true
					parts = append(parts, chans[i].params[side].Name()+"<-")
				case i >= 0:
					w.recvs[i] = true
					parts = append(parts, "<-"+chans[i].params[side].Name())
				case isCtxDone(st.Chan):
					parts = append(parts, "<-ctx.Done()")
				default:
					w.other++
					parts = append(parts, "other")
				}
			}
			w.desc = fn.Name() + "{" + strings.Join(parts, ",") + "}"
			out = append(out, w)
		}
		for _, b := range fn.Blocks {
			for _, in := range b.Instrs {
				switch x := in.(type) {
				case *ssa.Select:
					if x.Blocking {
						add(x, x.States)
					}
				case *ssa.Send:
					add(x, []*ssa.SelectState{{Dir: types.SendOnly, Chan: x.Chan, Pos: x.Pos()}})
				case *ssa.UnOp:
					if x.Op == token.ARROW {
						add(x, []*ssa.SelectState{{Dir: types.RecvOnly, Chan: x.X, Pos: x.Pos()}})
					}
				}
			}
		}
		return out
	}
	w0, w1 := waitPoints(0), waitPoints(1)
	stuck := func(ws []waitPoint) []waitPoint {
		var out []waitPoint
		for _, w := range ws {
			if w.other == 0 && len(w.sends)+len(w.recvs) > 0 {
				out = append(out, w)
			}
		}
		return out
	}
	s0, s1 := stuck(w0), stuck(w1)
	c.Check(len(w0) >= 3 && len(w1) >= 2, rule, "wait-points", fns[0].Pos(), "found %d blocking channel operations in refreshLocks and %d in monitorLockRefresh; %d and %d of them have no way out other than the peer or the cancellation of the lock context", len(w0), len(w1), len(s0), len(s1))
	for _, a := range s0 {
		for _, b := range s1 {
			matched := false
			for i := range chans {
				if (a.sends[i] && b.recvs[i]) || (a.recvs[i] && b.sends[i]) {
					matched = true
				}
			}
			c.Touch(fns[0])
			c.Touch(fns[1])
			c.Check(matched, rule, a.desc+"×"+b.desc, b.in.Pos(), "when both goroutines wait here, one of them sends on a channel the other receives from (otherwise both block forever: the lock is no longer refreshed nor monitored and the context is never cancelled)")
		}
	}
	// the pair obligations exist only while both sides have a wait without another way out
	c.Floor(rule, 2, 3)
}
