package rules

import (
	"golang.org/x/tools/go/ssa"

	"verif/internal/eng"
)

// ruleListPackRetries (C33, "the index lists every blob of every readable pack"): repair index
// drops a pack from the new index when listPack fails for it ("invalid pack, skip") and still
// succeeds. One damaged read of a header — a stale cache copy, a flipped bit in transit — does
// not make a pack unreadable: listPack gives a pack up only after a second pack.List failed too.
// From the failure edge of a pack.List call no return is reached without another pack.List call,
// unless it is the last one — and there are at least two.
func ruleListPackRetries(c *eng.Ctx) {
	const rule = "listpack-retries"
	fn := c.NeedFn(rule, pkgRepo+".(*Repository).listPack")
	if fn == nil {
		return
	}
	lists := c.P.CallsTo(fn, pkgPack+".List")
	if !c.Check(len(lists) >= 2, rule, "listPack:two-attempts", fn.Pos(), "listPack reads the header up to twice (%d pack.List calls)", len(lists)) {
		return
	}
	first := lists[0]
	others := eng.NewCut()
	for _, l := range lists[1:] {
		others.AddInstrs(l.(ssa.Instruction))
	}
	n := 0
	for _, e := range eng.FailureEdges(first) {
		for _, r := range eng.Returns(fn) {
			if eng.FindPath(eng.EdgeStart(fn, e), r, nil) == nil {
				continue
			}
			n++
			c.MustPass(rule, "listPack:first-failure→second-attempt", eng.EdgeStart(fn, e), r, others, "the header was read a second time")
		}
	}
	c.Check(n >= 1, rule, "listPack:failure-edge", fn.Pos(), "%d paths from the first failure to a return examined", n)
}
