package rules

import (
	"go/token"
	"go/types"
	"sort"
	"strings"

	"golang.org/x/tools/go/ssa"

	"verif/internal/eng"
)

// parserRoots: functions that turn user-supplied text into values.
func parserRoots(c *eng.Ctx) []*ssa.Function {
	var out []*ssa.Function
	seen := map[*ssa.Function]bool{}
	add := func(f *ssa.Function) {
		if f != nil && !seen[f] {
			seen[f] = true
			out = append(out, f)
		}
	}
	// every pflag.Value implementation of the module: Set(string) error
	for _, fn := range c.P.Funcs {
		if fn.Parent() != nil || fn.Signature.Recv() == nil || fn.Name() != "Set" {
			continue
		}
		sig := fn.Signature
		if sig.Params().Len() == 1 && sig.Results().Len() == 1 && eng.IsErrorType(sig.Results().At(0).Type()) {
			if bt, ok := sig.Params().At(0).Type().Underlying().(*types.Basic); ok && bt.Kind() == types.String {
				if strings.Contains(eng.PkgOf(fn), "/test") || strings.HasSuffix(eng.PkgOf(fn), "mock") {
					continue
				}
				add(fn)
			}
		}
	}
	for _, n := range []string{
		"internal/data.ParseDuration", "internal/ui.ParseBytes", "cmd/restic.stringToIntSlice", "cmd/restic.parsePercentage",
		"internal/options.Parse", "internal/options.Options.Apply", "internal/backend.SplitShellStrings", "cmd/restic.checkFlags",
		"cmd/restic.verifyForgetOptions", "cmd/restic.verifyPruneOptions",
	} {
		if f := c.P.Fn(n); f != nil {
			add(f)
		} else {
			c.Unk("parser-no-panic", "anchor:"+n, 0, "parser entry point does not resolve")
		}
	}
	sort.Slice(out, func(i, j int) bool { return c.P.FnName(out[i]) < c.P.FnName(out[j]) })
	return out
}

// valueDependsOnError reports whether the panic operand carries an error value (the
// `panic(err)` pattern: an input-dependent failure turned into a crash).
func carriesError(v ssa.Value) bool {
	seen := map[ssa.Value]bool{}
	var rec func(v ssa.Value, d int) bool
	rec = func(v ssa.Value, d int) bool {
		if v == nil || seen[v] || d > 8 {
			return false
		}
		seen[v] = true
		if eng.IsErrorType(v.Type()) {
			if _, isK := v.(*ssa.Const); !isK {
				return true
			}
		}
		switch x := v.(type) {
		case *ssa.MakeInterface:
			return rec(x.X, d+1)
		case *ssa.ChangeInterface:
			return rec(x.X, d+1)
		case *ssa.Phi:
			for _, e := range x.Edges {
				if rec(e, d+1) {
					return true
				}
			}
		case *ssa.Call:
			// fmt.Sprintf("…%v", err) and friends
			for _, a := range x.Call.Args {
				if rec(a, d+1) {
					return true
				}
			}
		case *ssa.Slice:
			return rec(x.X, d+1)
		case *ssa.Alloc:
			for _, r := range *x.Referrers() {
				if ia, ok := r.(*ssa.IndexAddr); ok {
					for _, rr := range *ia.Referrers() {
						if st, ok := rr.(*ssa.Store); ok && rec(st.Val, d+1) {
							return true
						}
					}
				}
			}
		case *ssa.UnOp:
			if x.Op == token.MUL {
				if sts, _, ok := eng.ReachingStores(x); ok {
					for _, st := range sts {
						if rec(st.Val, d+1) {
							return true
						}
					}
				}
			}
		}
		return false
	}
	return rec(v, 0)
}

// ruleParserNoPanic (C49): no parser of user-supplied values turns a failure into a panic.
func ruleParserNoPanic(c *eng.Ctx) {
	const rule = "parser-no-panic"
	roots := parserRoots(c)
	if len(roots) < 12 {
		c.Unk(rule, "floor:parsers", 0, "expected at least 12 parser entry points (pflag.Value.Set implementations and named parsers), found %d", len(roots))
	}
	// developer-error panics that do not depend on the parsed input
	allow := map[string]string{
		"internal/options.Options.Apply": "panics on malformed struct tags / unsupported field kinds of the option struct: a programming error found by the first test, independent of the input",
	}
	stop := &eng.ClosureOpts{StopIface: map[string]bool{eng.Mod + "/" + pkgBackend + ".Backend": true}}
	checked := map[*ssa.Function]bool{}
	for _, r := range roots {
		c.Touch(r)
		cl := c.P.CallClosure(r, stop)
		var bad []string
		npanic := 0
		for f := range cl.Funcs {
			if len(f.Blocks) == 0 || !strings.HasPrefix(eng.PkgOf(f), "internal/") && !strings.HasPrefix(eng.PkgOf(f), "cmd/") {
				continue
			}
			// only the parsing packages themselves: a parser that calls into the repository is not a parser
			if len(cl.Funcs) > 400 {
				continue
			}
			for _, pn := range eng.Panics(f) {
				npanic++
				if !carriesError(pn.X) {
					continue
				}
				if _, ok := allow[c.P.FnName(eng.Root(f))]; ok {
					continue
				}
				bad = append(bad, c.P.FnName(f)+"@"+c.P.Pos(pn.Pos()))
			}
			checked[f] = true
		}
		sort.Strings(bad)
		c.Check(len(bad) == 0, rule, c.P.FnName(r)+":no-error-turned-into-panic", r.Pos(),
			"in the call closure of %s (%d functions, %d panics) no panic carries an error value (panic(err) on a failed conversion of user input)%s",
			c.P.FnName(r), len(cl.Funcs), npanic, ifs(len(bad) > 0, ": "+strings.Join(bad, ", "), ""))
	}
	// strconv errors are returned, not dropped
	n := 0
	for f := range checked {
		for _, call := range eng.Calls(f) {
			name := c.P.CalleeName(call)
			if !strings.HasPrefix(name, "strconv.Parse") && name != "strconv.Atoi" {
				continue
			}
			n++
			ev := eng.ErrResult(call)
			ok := ev != nil && ev.Referrers() != nil && len(*ev.Referrers()) > 0
			c.Check(ok, "strconv-errors", c.P.FnName(f)+"→"+name, call.Pos(), "the error of %s is examined", name)
		}
	}
	if n < 4 {
		c.Unk("strconv-errors", "floor", 0, "expected at least 4 strconv conversions in the parsers, found %d", n)
	}
}

// ruleBitsize (C49): the bit size given to strconv.ParseInt/ParseUint fits the type the
// result is converted to, and ParseBytes checks the multiplication overflow.
func ruleBitsize(c *eng.Ctx) {
	const rule = "bitsize-agreement"
	n := 0
	for _, fn := range c.P.Funcs {
		pkg := eng.PkgOf(fn)
		if !strings.HasPrefix(pkg, "cmd/restic") && !strings.HasPrefix(pkg, "internal/") {
			continue
		}
		for _, call := range eng.Calls(fn) {
			name := c.P.CalleeName(call)
			if name != "strconv.ParseInt" && name != "strconv.ParseUint" {
				continue
			}
			bits, isK := eng.ConstInt(eng.Arg(call, 2))
			if !isK {
				continue
			}
			if bits == 0 {
				bits = 64
			}
			res := eng.Results(call)
			if len(res) == 0 || res[0] == nil {
				continue
			}
			// conversions of the result
			for _, u := range *res[0].Referrers() {
				cv, ok := u.(*ssa.Convert)
				if !ok {
					continue
				}
				bt, ok := cv.Type().Underlying().(*types.Basic)
				if !ok {
					continue
				}
				size := int64(c.P.Pkgs[0].TypesSizes.Sizeof(bt)) * 8
				n++
				// the rule is about lost bits; a same-width change of signedness (ParseBytes feeds
				// bits.Mul64 and re-checks the sign afterwards) loses none
				fits := bits <= size
				c.Touch(fn)
				c.Check(fits, rule, c.P.FnName(fn)+"→"+name+"→"+bt.Name(), cv.Pos(), "%s with bit size %d is converted to %s (%d bits): no silent truncation", name, bits, bt.Name(), size)
			}
		}
	}
	// ParseBytes: the product is used only if the high word is zero and the value non-negative
	if fn := c.NeedFn(rule, "internal/ui.ParseBytes"); fn != nil {
		mul := c.P.CallsTo(fn, "math/bits.Mul64")
		if len(mul) != 1 {
			c.Bad(rule, "ParseBytes:overflow-checked-multiplication", fn.Pos(), "the size is not computed with bits.Mul64 (found %d calls): the multiplication by the unit can overflow silently", len(mul))
		} else {
			res := eng.Results(mul[0])
			hiZero := eng.CmpEdges(fn, func(op token.Token, x, y ssa.Value) (bool, bool) {
				if k, isK := eng.ConstInt(y); isK && k == 0 && len(res) > 0 && res[0] != nil && eng.SameAs(res[0])(x) && (op == token.EQL || op == token.NEQ) {
					return true, op == token.EQL
				}
				return false, false
			})
			nonNeg := eng.CmpEdges(fn, func(op token.Token, x, y ssa.Value) (bool, bool) {
				if k, isK := eng.ConstInt(y); isK && k == 0 {
					switch op {
					case token.LSS:
						return true, false
					case token.GEQ:
						return true, true
					}
				}
				return false, false
			})
			for _, r := range eng.Returns(fn) {
				rv := eng.RetVal(r, 1)
				if !c.P.MayBeNil(rv) {
					continue
				}
				if eng.FindPath(eng.After(mul[0].(ssa.Instruction)), r, nil) == nil {
					continue
				}
				c.MustPass(rule, "ParseBytes:high-word-zero→value", eng.After(mul[0].(ssa.Instruction)), r, eng.NewCut().AddEdges(hiZero...), "the high word of the 128-bit product is zero")
				c.MustPass(rule, "ParseBytes:non-negative→value", eng.After(mul[0].(ssa.Instruction)), r, eng.NewCut().AddEdges(nonNeg...), "the product fits a non-negative int64")
			}
		}
	}
	if n == 0 {
		c.Note("rule %s: no converted ParseInt/ParseUint result found", rule)
	}
}

// ruleApplyExhaustive (C49): every option struct registered for extended options has only
// field kinds that options.Apply understands.
func ruleApplyExhaustive(c *eng.Ctx) {
	const rule = "apply-exhaustive"
	fn := c.NeedFn(rule, "internal/options.Options.Apply")
	if fn == nil {
		return
	}
	// kinds handled by Apply's switch on field.Type.Name(): collected from string constants compared
	handled := map[string]bool{}
	for _, b := range fn.Blocks {
		for _, in := range b.Instrs {
			bo, ok := in.(*ssa.BinOp)
			if !ok || bo.Op != token.EQL {
				continue
			}
			if k, isK := bo.Y.(*ssa.Const); isK && k.Value != nil {
				if bt, isB := k.Type().Underlying().(*types.Basic); isB && bt.Kind() == types.String {
					handled[strings.Trim(k.Value.ExactString(), "\"")] = true
				}
			}
		}
	}
	if len(handled) < 3 {
		c.Unk(rule, "Apply:handled-kinds", fn.Pos(), "cannot extract the field kinds Apply handles (found %v)", keysOf(handled))
		return
	}
	// config structs handed to options.Register / Apply
	n := 0
	seenT := map[string]bool{}
	for _, s := range c.P.AllCallsTo("internal/options.Register", "internal/options.Options.Apply") {
		idx := 1
		arg := eng.Arg(s.Call, idx)
		if arg == nil {
			continue
		}
		for _, r := range eng.Origins(arg, nil) {
			t := r.Type()
			for {
				pt, ok := t.(*types.Pointer)
				if !ok {
					break
				}
				t = pt.Elem()
			}
			nt, ok := t.(*types.Named)
			if !ok {
				continue
			}
			st, ok := nt.Underlying().(*types.Struct)
			if !ok || seenT[nt.String()] {
				continue
			}
			seenT[nt.String()] = true
			n++
			var bad []string
			for i := 0; i < st.NumFields(); i++ {
				tag := st.Tag(i)
				if !strings.Contains(tag, "option:\"") {
					continue
				}
				ft := st.Field(i).Type()
				name := ""
				switch x := ft.(type) {
				case *types.Basic:
					name = x.Name()
				case *types.Named:
					name = x.Obj().Name()
				case *types.Pointer:
					if nn, ok := x.Elem().(*types.Named); ok {
						name = nn.Obj().Name()
					}
				}
				if !handled[name] {
					bad = append(bad, st.Field(i).Name()+":"+name)
				}
			}
			c.Check(len(bad) == 0, rule, eng.Short(nt.Obj().Pkg().Path())+"."+nt.Obj().Name()+":option-fields-supported", nt.Obj().Pos(),
				"every field with an `option` tag has a kind that options.Apply handles (%v)%s", keysOf(handled), ifs(len(bad) > 0, "; unsupported: "+strings.Join(bad, ", "), ""))
		}
	}
	if n < 3 {
		c.Unk(rule, "floor", fn.Pos(), "expected at least 3 option structs passed to options.Register/Apply, found %d", n)
	}
}
