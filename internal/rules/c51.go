package rules

import (
	"strings"

	"golang.org/x/tools/go/ssa"

	"verif/internal/eng"
)

const pkgSelfupdate = "internal/selfupdate"

// resultOf reports whether v is result idx of call (looking through conversions, slices of
// arrays and single-assignment locals).
func resultOf(v ssa.Value, call ssa.CallInstruction, idx int) bool {
	res := eng.Results(call)
	if idx >= len(res) || res[idx] == nil {
		return false
	}
	if eng.SameAs(res[idx])(v) {
		return true
	}
	for _, o := range eng.Origins(v, nil) {
		if o == res[idx] {
			return true
		}
		if idx == 0 && len(res) == 1 && o == call.Value() {
			return true
		}
	}
	return false
}

// ruleVerifyBeforeInstall (C51): the binary is replaced only after the signature of the
// checksum file verified, the checksum of exactly the downloaded file name was found in that
// same file, and the SHA-256 of exactly the bytes that get installed equals it.
func ruleVerifyBeforeInstall(c *eng.Ctx) {
	const rule = "verify-before-install"
	fn := c.NeedFn(rule, pkgSelfupdate+".DownloadLatestStableRelease")
	if fn == nil {
		return
	}
	one := func(name string) ssa.CallInstruction {
		cs := c.P.CallsTo(fn, name)
		if len(cs) != 1 {
			c.Unk(rule, "DownloadLatestStableRelease:"+name[strings.LastIndex(name, ".")+1:], fn.Pos(), "expected exactly one call of %s, found %d", name, len(cs))
			return nil
		}
		return cs[0]
	}
	ext := one(pkgSelfupdate + ".extractToFile")
	gpg := one(pkgSelfupdate + ".GPGVerify")
	fh := one(pkgSelfupdate + ".findHash")
	eq := one("bytes.Equal")
	sum := one("crypto/sha256.Sum256")
	if ext == nil || gpg == nil || fh == nil || eq == nil || sum == nil {
		return
	}
	target := ext.(ssa.Instruction)
	c.MustPass(rule, "install→signature-valid", eng.Entry(fn), target, eng.ResultCut(true, 0, gpg), "GPGVerify returned ok == true")
	c.MustPass(rule, "install→signature-check-without-error", eng.Entry(fn), target, eng.SuccessCut(gpg), "GPGVerify returned no error")
	c.MustPass(rule, "install→checksum-line-found", eng.Entry(fn), target, eng.SuccessCut(fh), "findHash returned no error")
	c.MustPass(rule, "install→hash-equal", eng.Entry(fn), target, eng.ResultCut(true, 0, eq), "bytes.Equal(wantHash, gotHash) is true")
	// the values are the same ones
	downloads := c.P.CallsTo(fn, pkgSelfupdate+".getGithubDataFile")
	var sumsDL, binDL ssa.CallInstruction
	for _, d := range downloads {
		if resultOf(eng.Arg(gpg, 0), d, 1) {
			sumsDL = d
		}
		if resultOf(eng.Arg(ext, 0), d, 1) {
			binDL = d
		}
	}
	c.Check(sumsDL != nil && binDL != nil && sumsDL != binDL, rule, "same-values:downloads", fn.Pos(), "the signed checksum file and the installed archive are results of two getGithubDataFile calls")
	if sumsDL == nil || binDL == nil {
		return
	}
	c.Check(resultOf(eng.Arg(fh, 0), sumsDL, 1), rule, "same-values:checksums-verified-are-checksums-used", fh.Pos(), "findHash reads the very buffer whose signature GPGVerify checked")
	c.Check(resultOf(eng.Arg(fh, 1), binDL, 0), rule, "same-values:hash-looked-up-for-downloaded-name", fh.Pos(), "the checksum is looked up under the name of the asset that was downloaded")
	c.Check(resultOf(eng.Arg(sum, 0), binDL, 1), rule, "same-values:hashed-bytes-are-installed-bytes", sum.Pos(), "SHA-256 is computed over the very buffer handed to extractToFile")
	c.Check(resultOf(eng.Arg(ext, 1), binDL, 0), rule, "same-values:archive-name", ext.Pos(), "extractToFile decides the archive format from the downloaded asset's name")
	c.Check(eng.IsParam(fn, "target")(eng.Arg(ext, 2)), rule, "same-values:target", ext.Pos(), "the file written is the caller's target")
	a0, a1 := eng.Arg(eq, 0), eng.Arg(eq, 1)
	isWant := func(v ssa.Value) bool { return resultOf(v, fh, 0) }
	isGot := func(v ssa.Value) bool {
		for _, o := range eng.Origins(v, nil) {
			if o == sum.Value() {
				return true
			}
		}
		return mentionsCallResult(v, sum)
	}
	c.Check((isWant(a0) && isGot(a1)) || (isWant(a1) && isGot(a0)), rule, "same-values:compared-hashes", eq.Pos(), "bytes.Equal compares findHash's result with the SHA-256 just computed")
	// the only writer
	callers := c.P.AllCallsTo(pkgSelfupdate + ".extractToFile")
	c.Check(len(callers) == 1, rule, "extractToFile:single-caller", ext.Pos(), "extractToFile is called only from DownloadLatestStableRelease (%d call sites)", len(callers))
	allowedWriters := map[string]bool{pkgSelfupdate + ".extractToFile": true, pkgSelfupdate + ".removeResticBinary": true}
	for _, f := range c.P.Funcs {
		if eng.PkgOf(f) != pkgSelfupdate {
			continue
		}
		for _, call := range eng.Calls(f) {
			switch c.P.CalleeName(call) {
			case "os.Create", "os.OpenFile", "os.Rename", "os.Remove", "os.WriteFile", "os.CreateTemp", "os.Chmod", "os.RemoveAll":
				root := c.P.FnName(eng.Root(f))
				c.Check(allowedWriters[root], rule, "file-writers:"+root, call.Pos(), "file-system writes in package selfupdate happen only in extractToFile (and its platform helper)")
			}
		}
	}
	c.Floor(rule, 12, 14)
}

// mentionsCallResult: v is a slice/conversion of a local that holds the result of call.
func mentionsCallResult(v ssa.Value, call ssa.CallInstruction) bool {
	for i := 0; i < 8; i++ {
		switch x := v.(type) {
		case *ssa.Slice:
			v = x.X
		case *ssa.UnOp:
			v = x.X
		case *ssa.Alloc:
			for _, r := range *x.Referrers() {
				if st, ok := r.(*ssa.Store); ok && st.Addr == ssa.Value(x) && st.Val == call.Value() {
					return true
				}
			}
			return false
		case *ssa.ChangeType:
			v = x.X
		default:
			return v == call.Value()
		}
	}
	return false
}

// ruleSignatureCheck (C51): GPGVerify says ok only if the detached signature over its data
// argument verifies against the key ring built from the embedded key, which nothing assigns.
func ruleSignatureCheck(c *eng.Ctx) {
	const rule = "signature-check"
	fn := c.NeedFn(rule, pkgSelfupdate+".GPGVerify")
	if fn == nil {
		return
	}
	var ring, check ssa.CallInstruction
	for _, call := range eng.Calls(fn) {
		switch n := c.P.CalleeName(call); {
		case strings.HasSuffix(n, "openpgp.ReadArmoredKeyRing"):
			ring = call
		case strings.HasSuffix(n, "openpgp.CheckArmoredDetachedSignature"):
			check = call
		}
	}
	if ring == nil || check == nil {
		c.Unk(rule, "GPGVerify:shape", fn.Pos(), "ReadArmoredKeyRing / CheckArmoredDetachedSignature not found")
		return
	}
	for _, r := range eng.Returns(fn) {
		if k, isK := eng.RetVal(r, 0).(*ssa.Const); isK && k.Value != nil && k.Value.String() == "false" {
			continue
		}
		c.MustPass(rule, "GPGVerify:ok-only-if-signature-verifies", eng.Entry(fn), r, eng.SuccessCut(check), "CheckArmoredDetachedSignature returned no error")
	}
	c.Check(resultOf(eng.Arg(check, 0), ring, 0), rule, "GPGVerify:keyring-from-embedded-key", check.Pos(), "the signature is checked against the key ring read by ReadArmoredKeyRing")
	readerOf := func(v ssa.Value, pred func(ssa.Value) bool) bool {
		for _, o := range eng.Origins(v, nil) {
			if call := eng.RootCall(o); call != nil && c.P.CalleeName(call) == "bytes.NewReader" && pred(eng.Arg(call, 0)) {
				return true
			}
		}
		return false
	}
	g := c.P.Global(pkgSelfupdate + ".key")
	c.Check(g != nil && readerOf(eng.Arg(ring, 0), func(v ssa.Value) bool { return isGlobalLoad(c, v, pkgSelfupdate+".key") }), rule, "GPGVerify:keyring-source", ring.Pos(), "the key ring is read from the package variable `key`")
	c.Check(readerOf(eng.Arg(check, 1), eng.IsParam(fn, "data")) && readerOf(eng.Arg(check, 2), eng.IsParam(fn, "sig")), rule, "GPGVerify:signed-data-and-signature", check.Pos(), "the signed message is the data argument and the signature the sig argument")
	if g != nil {
		stores := c.P.GlobalStores(g)
		inInit := 0
		for _, st := range stores {
			if st.Parent().Name() == "init" {
				inInit++
			}
		}
		c.Check(len(stores) == inInit && inInit <= 1, rule, "key:never-reassigned", g.Pos(), "the embedded release key is only set by its initialiser (%d stores, %d in init)", len(stores), inInit)
	}
	// findHash: a hash is returned only for a line whose second column equals the file name
	if fh := c.NeedFn(rule, pkgSelfupdate+".findHash"); fh != nil {
		isName := eng.IsParam(fh, "filename")
		nameEq := eng.CmpEdgesEq(fh, func(x, y ssa.Value) bool { return isName(x) || isName(y) })
		decodes := c.P.CallsTo(fh, "encoding/hex.DecodeString")
		n := 0
		for _, r := range eng.Returns(fh) {
			if eng.IsNilConst(eng.RetVal(r, 0)) {
				continue // no hash handed out
			}
			if c.P.MayBeNil(eng.RetVal(r, 1)) {
				n++
				c.MustPass(rule, "findHash:name-matches→hash", eng.Entry(fh), r, eng.NewCut().AddEdges(nameEq...), "the line's file name column equals the requested name")
				c.MustPass(rule, "findHash:hex-decoded→hash", eng.Entry(fh), r, eng.SuccessCut(decodes...), "the hash column decoded as hex")
				c.Check(len(decodes) == 1 && resultOf(eng.RetVal(r, 0), decodes[0], 0), rule, "findHash:returns-decoded-column", r.Pos(), "the returned hash is the decoded first column of that line")
			}
		}
		c.Check(n >= 1, rule, "findHash:success-return", fh.Pos(), "findHash has a success return (%d)", n)
	}
	c.Floor(rule, 8, 9)
}
