package rules

import (
	"strings"

	"golang.org/x/tools/go/ssa"

	"verif/internal/eng"
)

// ruleURLBackendsStrip (C50, "plus other schemes"): a backend whose location parser hands
// (part of) the location to net/url.Parse accepts the URL syntax user:password@host, whether
// or not it uses the password afterwards. Such a backend must register a strip function other
// than location.NoPassword, otherwise the accepted location is displayed with the secret.
func ruleURLBackendsStrip(c *eng.Ctx) {
	const rule = "url-backends-strip"
	n := 0
	for _, s := range c.P.AllCallsWhere(func(fn *ssa.Function, call ssa.CallInstruction) bool {
		name := c.P.CalleeName(call)
		return strings.HasPrefix(name, "internal/backend/location.New") && strings.HasSuffix(name, "BackendFactory")
	}) {
		pkg := eng.PkgOf(s.Fn)
		parse, _ := eng.Strip(eng.Arg(s.Call, 1)).(*ssa.Function)
		if parse == nil {
			c.Unk(rule, pkg+":parser", s.Call.Pos(), "the location parser registered by %s is not a named function", pkg)
			continue
		}
		n++
		// does the parser (with its helpers in the same package) use url.Parse?
		seen := map[*ssa.Function]bool{}
		var usesURL func(f *ssa.Function, d int) bool
		usesURL = func(f *ssa.Function, d int) bool {
			if seen[f] || d > 3 {
				return false
			}
			seen[f] = true
			for _, g := range c.P.WithLits(f) {
				for _, call := range eng.Calls(g) {
					if c.P.CalleeName(call) == "net/url.Parse" {
						return true
					}
					if callee := call.Common().StaticCallee(); callee != nil && len(callee.Blocks) > 0 && eng.PkgOf(callee) == pkg && usesURL(callee, d+1) {
						return true
					}
				}
			}
			return false
		}
		strip := eng.Strip(eng.Arg(s.Call, 2))
		stripName := c.P.ValueDesc(strip)
		if f, ok := strip.(*ssa.Function); ok {
			stripName = c.P.FnName(f)
		}
		if !usesURL(parse, 0) {
			c.Ok(rule, pkg+":no-url-syntax", s.Call.Pos(), "the location parser of %s does not parse a URL", pkg)
			continue
		}
		c.Touch(parse)
		c.Check(!strings.HasSuffix(stripName, "location.NoPassword"), rule, pkg+":url-location-is-stripped", s.Call.Pos(), "%s parses its location with net/url.Parse, which accepts user:password@host; its registered strip function is %s", pkg, stripName)
	}
	if n < 8 {
		c.Unk(rule, "floor", 0, "expected at least 8 backend factories, found %d", n)
	}
}
