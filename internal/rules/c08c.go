package rules

import (
	"golang.org/x/tools/go/ssa"

	"verif/internal/eng"
)

// ruleIndexLoadErrorsPropagate (C08, "lookups after a load equal what the index files record"):
// MasterIndex.Load receives every index file through a callback (id, idx, err). A file that
// could not be loaded or decoded must not be passed over in silence — the index would then
// lack every entry of that file and Load would still succeed. When the callback is handed a
// non-nil error for a file that is not loaded yet, it returns a non-nil error unless the error
// was given to the caller's own callback (check uses it to go on without that file).
func ruleIndexLoadErrorsPropagate(c *eng.Ctx) {
	const rule = "index-load-errors-propagate"
	fn := c.NeedFn(rule, pkgIndex+".(*MasterIndex).Load")
	if fn == nil {
		return
	}
	n := 0
	for _, lit := range c.P.Lits(fn) {
		if lit.Parent() != fn || len(lit.Params) != 3 || !eng.IsErrorType(lit.Params[2].Type()) {
			continue
		}
		n++
		c.Touch(lit)
		errP := lit.Params[2]
		handed := eng.NewCut()
		for _, call := range eng.Calls(lit) {
			if call.Common().IsInvoke() || call.Common().StaticCallee() != nil {
				// already loaded: nothing to report for this file
				if eng.MethodName(call) == "Has" {
					handed = eng.Union(handed, eng.ResultCut(true, 0, call))
				}
				continue
			}
			// a call of a function value that receives the error: the caller's callback
			for _, a := range call.Common().Args {
				if eng.SameAs(errP)(a) {
					handed.AddInstrs(call.(ssa.Instruction))
				}
			}
		}
		r := c.P.FindPathSeeded(eng.Entry(lit), func(in ssa.Instruction) bool { _, ok := in.(*ssa.Return); return ok }, handed,
			func(env *eng.PSEnv, target ssa.Instruction) bool {
				return env.MayBeNil(eng.RetVal(target.(*ssa.Return), 0))
			}, func(env *eng.PSEnv) { env.AssumeNil(errP, false) })
		switch {
		case r != nil && r.Exhausted:
			c.Unk(rule, "Load:index-file-error→reported", lit.Pos(), "path search exhausted")
		case r != nil:
			c.Bad(rule, "Load:index-file-error→reported", lit.Pos(), "an index file that failed to load can be passed over: with a non-nil error the callback returns nil without having handed the error to the caller's callback (path %s)", c.P.PathString(r.Path))
		default:
			c.Ok(rule, "Load:index-file-error→reported", lit.Pos(), "a failed index file ends the load, or the caller's callback decided about it")
		}
	}
	c.Check(n == 1, rule, "Load:per-index-callback", fn.Pos(), "%d callbacks (id, idx, err) in MasterIndex.Load", n)
}
