package rules

import (
	"go/token"

	"golang.org/x/tools/go/ssa"

	"verif/internal/eng"
)

// ruleLoadBlobReturnsVerified (C02, "a load returns the bytes whose hash was checked, or fails"):
// packBlobIterator.Next compares the hash of the decrypted, decompressed plaintext with the
// blob's ID. What loadBlob hands back with a nil error is that plaintext and nothing else:
// either the value itself, or the caller's buffer cut to len(plaintext) after copy(buf, plaintext)
// — its length comes from the verified bytes, not from what the index entry claims.
func ruleLoadBlobReturnsVerified(c *eng.Ctx) {
	const rule = "loadblob-returns-verified-bytes"
	fn := c.NeedFn(rule, pkgRepo+".(*Repository).loadBlob")
	if fn == nil {
		return
	}
	isPlain := func(v ssa.Value) bool {
		for _, o := range eng.Origins(v, nil) {
			switch x := o.(type) {
			case *ssa.Field:
				if f := eng.FieldVar(x.X.Type(), x.Field); f != nil && f.Name() == "Plaintext" {
					return true
				}
			case *ssa.UnOp:
				if fa, ok := x.X.(*ssa.FieldAddr); ok && x.Op == token.MUL {
					if f := eng.FieldVar(fa.X.Type(), fa.Field); f != nil && f.Name() == "Plaintext" {
						return true
					}
				}
			}
		}
		return false
	}
	var copies []ssa.CallInstruction
	for _, call := range eng.Calls(fn) {
		if b, ok := call.Common().Value.(*ssa.Builtin); ok && b.Name() == "copy" && isPlain(call.Common().Args[1]) {
			copies = append(copies, call)
		}
	}
	n := 0
	for _, r := range eng.Returns(fn) {
		v := eng.RetVal(r, 0)
		if eng.IsNilConst(v) {
			continue
		}
		n++
		if isPlain(v) {
			c.Ok(rule, "loadBlob:returns-the-verified-plaintext", r.Pos(), "the plaintext checked by the iterator is returned as it is")
			continue
		}
		sl, isSl := v.(*ssa.Slice)
		okLen := false
		if isSl && sl.High != nil && sl.Low == nil {
			if call, ok := sl.High.(*ssa.Call); ok {
				if b, isB := call.Call.Value.(*ssa.Builtin); isB && b.Name() == "len" && isPlain(call.Call.Args[0]) {
					okLen = true
				}
			}
		}
		if !c.Check(okLen, rule, "loadBlob:buffer-cut-to-len(plaintext)", r.Pos(), "the returned buffer is buf[:len(plaintext)] (%s)", c.P.Describe(v)) {
			continue
		}
		var into []ssa.CallInstruction
		for _, cp := range copies {
			if eng.SameAs(v)(cp.Common().Args[0]) {
				into = append(into, cp)
			}
		}
		c.MustPass(rule, "loadBlob:buffer-filled-from-plaintext", eng.Entry(fn), r, eng.CallCut(into...), "copy(buf, plaintext) ran for the returned buffer")
	}
	c.Check(n >= 2, rule, "loadBlob:data-returns", fn.Pos(), "%d returns that hand out data", n)
}
