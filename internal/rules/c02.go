package rules

import (
	"go/token"
	"go/types"
	"strings"

	"golang.org/x/tools/go/ssa"

	"verif/internal/eng"
)

const (
	pkgRestic  = "internal/restic"
	fnHash     = pkgRestic + ".Hash"
	fnIDFromH  = pkgRestic + ".IDFromHash"
	fnIDString = pkgRestic + ".ID.String"
	fnIDEqual  = pkgRestic + ".ID.Equal"
)

// structFieldStores returns the values stored into field `name` of the local struct that v
// (a load of a local composite) was built from.
func structFieldStores(v ssa.Value, name string) []ssa.Value {
	ld, ok := v.(*ssa.UnOp)
	if !ok || ld.Op != token.MUL {
		return nil
	}
	a, ok := ld.X.(*ssa.Alloc)
	if !ok {
		return nil
	}
	var out []ssa.Value
	for _, r := range *a.Referrers() {
		fa, ok := r.(*ssa.FieldAddr)
		if !ok {
			continue
		}
		fv := eng.FieldVar(fa.X.Type(), fa.Field)
		if fv == nil || fv.Name() != name {
			continue
		}
		for _, rr := range *fa.Referrers() {
			if st, ok := rr.(*ssa.Store); ok && st.Addr == ssa.Value(fa) {
				out = append(out, st.Val)
			}
		}
	}
	return out
}

func sameRoots(a, b []ssa.Value) bool {
	if len(a) == 0 || len(a) != len(b) {
		return false
	}
	for _, x := range a {
		found := false
		for _, y := range b {
			if x == y {
				found = true
			}
		}
		if !found {
			return false
		}
	}
	return true
}

// fieldLoadKey describes a load x.f.g of a parameter as "param.f.g" ("" if not of that form).
func fieldLoadKey(v ssa.Value) string {
	v = eng.Strip(v)
	ld, ok := v.(*ssa.UnOp)
	if !ok || ld.Op != token.MUL {
		return ""
	}
	var parts []string
	cur := ld.X
	for {
		switch x := cur.(type) {
		case *ssa.FieldAddr:
			fv := eng.FieldVar(x.X.Type(), x.Field)
			if fv == nil {
				return ""
			}
			parts = append([]string{fv.Name()}, parts...)
			cur = x.X
			continue
		case *ssa.UnOp:
			if x.Op == token.MUL {
				cur = x.X
				continue
			}
			return ""
		case *ssa.Parameter:
			return x.Name() + "." + strings.Join(parts, ".")
		}
		return ""
	}
}

// ruleSaveNameIsHash (C02): files are saved under the hash of exactly the bytes handed to
// the backend.
func ruleSaveNameIsHash(c *eng.Ctx) {
	const rule = "save-name-is-hash"
	opts := &eng.OriginOpts{P: c.P, Through: byteReaderThrough}
	be := c.P.NamedType(pkgBackend + ".Backend")
	sites := c.P.AllCallsWhere(func(fn *ssa.Function, call ssa.CallInstruction) bool {
		return eng.PkgOf(fn) == pkgRepo && eng.IsMethodOf(call, be, "Save")
	})
	for _, s := range sites {
		c.Touch(s.Fn)
		fname := c.P.FnName(s.Fn)
		key := fname + "→be.Save:name"
		if why, isEx := classifiedSite(c, eng.Root(s.Fn), map[string]string{
			pkgRepo + ".UpgradeRepo": "re-upload of the raw old config file (config has the constant zero ID by format definition)",
		}); isEx {
			// frozen exception: restores the old raw config under the fixed config name
			c.Ok(rule, key, s.Call.Pos(), "exempt: %s", why)
			continue
		}
		names := structFieldStores(eng.Arg(s.Call, 1), "Name")
		if len(names) != 1 {
			c.Unk(rule, key, s.Call.Pos(), "cannot find the single store to Handle.Name of the handle passed to Save (%d found)", len(names))
			continue
		}
		strCall, ok := names[0].(*ssa.Call)
		if !ok || c.P.CalleeName(strCall) != fnIDString {
			c.Bad(rule, key, s.Call.Pos(), "Handle.Name is not the String() of a restic.ID")
			continue
		}
		idRoots := eng.Origins(eng.Recv(strCall), opts)
		rdRoots := eng.Origins(eng.Arg(s.Call, 2), opts)
		okAll := len(idRoots) > 0
		why := ""
		for _, r := range idRoots {
			call := eng.RootCall(r)
			switch {
			case call != nil && c.P.CalleeName(call) == fnHash:
				hashed := eng.Origins(eng.Arg(call, 0), opts)
				if !sameRoots(hashed, rdRoots) {
					okAll = false
					why += " Hash() is applied to other bytes than the reader wraps (" + describeAll(c, hashed) + " vs " + describeAll(c, rdRoots) + ");"
				}
			case call != nil && c.P.CalleeName(call) == fnIDFromH:
				// pack files: streamed hash of the temporary file that is then uploaded
				if !packHashMatches(c, call, eng.Arg(s.Call, 2)) {
					okAll = false
					why += " IDFromHash is not the sha256 of the same file that is uploaded;"
				}
			default:
				// the zero ID: only for the config file
				if k, isK := r.(*ssa.Const); isK && k.Value == nil && fname == pkgRepo+".(*Repository).saveUnpacked" {
					if !zeroIDOnlyForConfig(c, s.Fn, k) {
						okAll = false
						why += " zero ID used outside the t == ConfigFile branch;"
					}
					continue
				}
				okAll = false
				why += " name originates from " + c.P.Describe(r) + ";"
			}
		}
		c.Check(okAll, rule, key, s.Call.Pos(), "the file name is the hash of exactly the bytes handed to the backend (id roots: %s)%s", describeAll(c, idRoots), why)
	}
	c.Floor(rule, 4, 4)
}

// zeroIDOnlyForConfig: the store of the zero ID constant k is reachable only through the
// t == ConfigFile edge.
func zeroIDOnlyForConfig(c *eng.Ctx, fn *ssa.Function, k *ssa.Const) bool {
	cfg, ok := c.P.Obj(pkgRestic + ".ConfigFile").(*types.Const)
	if !ok {
		return false
	}
	want, _ := constIntOf(cfg)
	edges := eng.CmpEdges(fn, func(op token.Token, x, y ssa.Value) (bool, bool) {
		if op != token.EQL && op != token.NEQ {
			return false, false
		}
		if v, isK := eng.ConstInt(y); isK && v == want && eng.IsParam(fn, "t")(x) {
			return true, op == token.EQL
		}
		return false, false
	})
	cut := eng.NewCut().AddEdges(edges...)
	if cut.Size() == 0 {
		return false
	}
	found := false
	for _, b := range fn.Blocks {
		for _, in := range b.Instrs {
			// the zero value reaches the id variable either through a store or through a phi edge
			switch x := in.(type) {
			case *ssa.Store:
				if x.Val == ssa.Value(k) {
					found = true
					if eng.FindPath(eng.Entry(fn), x, cut) != nil {
						return false
					}
				}
			case *ssa.Phi:
				for i, e := range x.Edges {
					if e == ssa.Value(k) {
						found = true
						pred := b.Preds[i]
						term := pred.Instrs[len(pred.Instrs)-1]
						if eng.FindPath(eng.Entry(fn), term, cut) != nil && !cut.Edges[eng.EdgeKey{pred.Index, b.Index}] {
							return false
						}
					}
				}
			}
		}
	}
	return found
}

func constIntOf(k *types.Const) (int64, bool) {
	v := k.Val()
	if v == nil {
		return 0, false
	}
	s := v.ExactString()
	var n int64
	for _, ch := range s {
		if ch < '0' || ch > '9' {
			return 0, false
		}
		n = n*10 + int64(ch-'0')
	}
	return n, true
}

// packHashMatches: id = IDFromHash(hr.Sum(nil)), hr = hashing.NewReader(<reader chain over
// NewFileReader(F)>, sha256.New()), and the uploaded reader is NewFileReader(F, …) of the
// same file F.
func packHashMatches(c *eng.Ctx, idCall *ssa.Call, uploaded ssa.Value) bool {
	const newFileReader = pkgBackend + ".NewFileReader"
	const hashingNew = pkgRepo + "/hashing.NewReader"
	through := &eng.OriginOpts{P: c.P, Through: map[string][]int{hashingNew: {0}}}
	// Sum receiver
	var sumCall *ssa.Call
	for _, r := range eng.Origins(eng.Arg(idCall, 0), nil) {
		if call := eng.RootCall(r); call != nil && eng.MethodName(call) == "Sum" {
			sumCall = call
		}
	}
	if sumCall == nil {
		return false
	}
	var hr *ssa.Call
	for _, r := range eng.Origins(eng.Recv(sumCall), nil) {
		if call := eng.RootCall(r); call != nil && c.P.CalleeName(call) == hashingNew {
			hr = call
		}
	}
	if hr == nil || !c.P.IsCallOf(eng.Arg(hr, 1), "crypto/sha256.New") {
		return false
	}
	hashedFile := ""
	for _, r := range eng.Origins(eng.Arg(hr, 0), through) {
		call := eng.RootCall(r)
		if call == nil || c.P.CalleeName(call) != newFileReader {
			return false
		}
		hashedFile = fieldLoadKey(eng.Arg(call, 0))
	}
	upFile := ""
	for _, r := range eng.Origins(uploaded, through) {
		call := eng.RootCall(r)
		if call == nil || c.P.CalleeName(call) != newFileReader {
			return false
		}
		upFile = fieldLoadKey(eng.Arg(call, 0))
	}
	return hashedFile != "" && hashedFile == upFile
}

// ruleVerifyBeforeStore (C02, C06, C07): data is re-read and compared before it is stored.
func ruleVerifyBeforeStore(c *eng.Ctx) {
	const rule = "verify-before-store"
	if fn := c.NeedFn(rule, pkgRepo+".(*Repository).saveAndEncrypt"); fn != nil {
		ver := c.P.CallsTo(fn, pkgRepo+".(*Repository).verifyCiphertext")
		for _, t := range c.SomeCalls(rule, fn, fnPMSave) {
			c.MustPass(rule, "saveAndEncrypt:verifyCiphertext→SaveBlob", eng.Entry(fn), t.(ssa.Instruction), eng.SuccessCut(ver...), "verifyCiphertext returned nil")
			for _, v := range ver {
				c.Check(sameRoots(eng.Origins(eng.Arg(v, 0), nil), eng.Origins(eng.Arg(t, 3), nil)), rule, "saveAndEncrypt:verified-bytes-are-stored-bytes", v.Pos(),
					"the buffer verified is the buffer handed to SaveBlob")
			}
		}
	}
	if fn := c.NeedFn(rule, pkgRepo+".(*Repository).saveUnpacked"); fn != nil {
		ver := c.P.CallsTo(fn, pkgRepo+".(*Repository).verifyUnpacked")
		opts := &eng.OriginOpts{P: c.P, Through: byteReaderThrough}
		for _, t := range backendCalls(c, fn, "Save") {
			c.MustPass(rule, "saveUnpacked:verifyUnpacked→be.Save", eng.Entry(fn), t.(ssa.Instruction), eng.SuccessCut(ver...), "verifyUnpacked returned nil")
			for _, v := range ver {
				c.Check(sameRoots(eng.Origins(eng.Arg(v, 0), opts), eng.Origins(eng.Arg(t, 2), opts)), rule, "saveUnpacked:verified-bytes-are-stored-bytes", v.Pos(),
					"the buffer verified is the buffer handed to the backend")
			}
		}
	}
	if fn := c.NeedFn(rule, pkgPack+".(*Packer).Finalize"); fn != nil {
		ver := c.P.CallsTo(fn, pkgPack+".verifyHeader")
		for _, t := range c.SomeCalls(rule, fn, "io.Writer.Write") {
			c.MustPass(rule, "Packer.Finalize:verifyHeader→Write", eng.Entry(fn), t.(ssa.Instruction), eng.SuccessCut(ver...), "verifyHeader returned nil")
		}
	}
	// inside the verifiers: nil only after the comparison (or the documented opt-out)
	noExtra := c.P.Field(pkgRepo+".Options", "NoExtraVerify")
	if fn := c.NeedFn(rule, pkgRepo+".(*Repository).verifyCiphertext"); fn != nil && noExtra != nil {
		var eq []ssa.CallInstruction
		for _, call := range c.P.CallsTo(fn, fnIDEqual) {
			for _, r := range eng.Origins(eng.Recv(call), nil) {
				if c.P.IsCallOf(r, fnHash) {
					eq = append(eq, call)
				}
			}
		}
		cut := eng.Union(eng.ResultCut(true, 0, eq...), eng.NewCut().AddEdges(eng.FieldEdges(fn, noExtra, true)...))
		for _, r := range eng.Returns(fn) {
			if c.P.MayBeNil(eng.RetVal(r, 0)) {
				c.MustPass(rule, "verifyCiphertext:nil-only-after-hash-compare", eng.Entry(fn), r, cut, "Hash(plaintext).Equal(id) is true (or NoExtraVerify)")
			}
		}
	}
	if fn := c.NeedFn(rule, pkgRepo+".(*Repository).verifyUnpacked"); fn != nil && noExtra != nil {
		eq := c.P.CallsTo(fn, "bytes.Equal")
		cut := eng.Union(eng.ResultCut(true, 0, eq...), eng.NewCut().AddEdges(eng.FieldEdges(fn, noExtra, true)...))
		for _, r := range eng.Returns(fn) {
			if c.P.MayBeNil(eng.RetVal(r, 0)) {
				c.MustPass(rule, "verifyUnpacked:nil-only-after-compare", eng.Entry(fn), r, cut, "bytes.Equal(plaintext, expected) is true (or NoExtraVerify)")
			}
		}
		for _, e := range eq {
			a, b := eng.Arg(e, 0), eng.Arg(e, 1)
			c.Check(eng.IsParam(fn, "expected")(a) || eng.IsParam(fn, "expected")(b), rule, "verifyUnpacked:compares-with-expected", e.Pos(), "the comparison is against the expected plaintext parameter")
		}
	}
	c.Floor(rule, 7, 9)
}

// ruleNilOnlyAfterHash (C02, C38, C43): a load path returns "no error" only after the
// hash comparison succeeded.
func ruleNilOnlyAfterHash(c *eng.Ctx) {
	const rule = "nil-only-after-hash"
	// packBlobIterator.Next: the Err field of the returned value
	if fn := c.NeedFn(rule, pkgRepo+".(*packBlobIterator).Next"); fn != nil {
		errF := c.P.Field(pkgRepo+".packBlobValue", "Err")
		ptF := c.P.Field(pkgRepo+".packBlobValue", "Plaintext")
		if errF == nil || ptF == nil {
			c.Unk(rule, "anchor:packBlobValue.Err", fn.Pos(), "fields of packBlobValue do not resolve")
		} else {
			var eq []ssa.CallInstruction
			var hashed []ssa.Value
			for _, call := range c.P.CallsTo(fn, fnIDEqual) {
				for _, r := range eng.Origins(eng.Recv(call), nil) {
					if hc := eng.RootCall(r); hc != nil && c.P.CalleeName(hc) == fnHash {
						eq = append(eq, call)
						hashed = append(hashed, eng.Arg(hc, 0))
					}
				}
			}
			cut := eng.ResultCut(true, 0, eq...)
			n := 0
			for _, st := range c.P.FieldStoresIn(fn, errF) {
				if k, isK := st.Val.(*ssa.Const); isK && k.IsNil() {
					// an explicitly empty value returned together with a non-nil error
					continue
				}
				n++
				c.NilOnlyVia(rule, "packBlobIterator.Next:Err-nil-only-after-hash-equal", st.Val, st, cut, "restic.Hash(plaintext).Equal(entry.ID) is true")
			}
			if n == 0 {
				c.Unk(rule, "packBlobIterator.Next:Err-store", fn.Pos(), "no store to packBlobValue.Err found")
			}
			// the plaintext handed out is the plaintext that was hashed
			for _, st := range c.P.FieldStoresIn(fn, ptF) {
				if k, isK := st.Val.(*ssa.Const); isK && k.IsNil() {
					continue
				}
				ok := false
				for _, h := range hashed {
					if sameRoots(eng.Origins(h, nil), eng.Origins(st.Val, nil)) {
						ok = true
					}
				}
				c.Check(ok, rule, "packBlobIterator.Next:returned-plaintext-is-hashed-plaintext", st.Pos(), "the Plaintext field holds the value whose hash was compared")
			}
			// the outer error result is nil exactly when a value is produced; callers test pbv.Err (open-error-used / accumulators)
		}
	}
	// LoadRaw: nil error only after id == Hash(buf) (config exempt)
	if fn := c.NeedFn(rule, pkgRepo+".(*Repository).LoadRaw"); fn != nil {
		isID := eng.IsParam(fn, "id")
		hashEq := eng.CmpEdges(fn, func(op token.Token, x, y ssa.Value) (bool, bool) {
			if op != token.EQL && op != token.NEQ {
				return false, false
			}
			if !isID(x) {
				x, y = y, x
			}
			if isID(x) && c.P.IsCallOf(y, fnHash) {
				return true, op == token.EQL
			}
			return false, false
		})
		cfgK, _ := c.P.Obj(pkgBackend + ".ConfigFile").(*types.Const)
		var cfgEdges []eng.EdgeKey
		if cfgK != nil {
			want, _ := constIntOf(cfgK)
			cfgEdges = eng.CmpEdges(fn, func(op token.Token, x, y ssa.Value) (bool, bool) {
				if op != token.EQL && op != token.NEQ {
					return false, false
				}
				if v, isK := eng.ConstInt(y); isK && v == want {
					return true, op == token.EQL
				}
				return false, false
			})
		}
		if len(hashEq) == 0 {
			c.Bad(rule, "LoadRaw:hash-compare", fn.Pos(), "no comparison of the requested id with restic.Hash(buf) found")
		}
		cut := eng.NewCut().AddEdges(hashEq...).AddEdges(cfgEdges...)
		for _, r := range eng.Returns(fn) {
			if len(r.Results) == 2 && c.P.MayBeNil(eng.RetVal(r, 1)) {
				c.NilOnlyVia(rule, "LoadRaw:nil-error-only-after-hash-equal", eng.RetVal(r, 1), r, cut, "id == restic.Hash(buf) (config file exempt)")
			}
		}
	}
	c.Floor(rule, 3, 3)
}

// externConstInt looks up an integer constant of a package outside the module through the
// imports of one of the module's packages.
func externConstInt(c *eng.Ctx, rule, viaPkg, path, name string) (int64, bool) {
	if pk := c.P.Pkg(viaPkg); pk != nil && pk.Types != nil {
		for _, imp := range pk.Types.Imports() {
			if imp.Path() == path {
				if k, isK := imp.Scope().Lookup(name).(*types.Const); isK {
					return constIntOf(k)
				}
			}
		}
	}
	c.Unk(rule, "anchor:"+path+"."+name, token.NoPos, "constant %s.%s does not resolve through the imports of %s", path, name, viaPkg)
	return 0, false
}

// ruleLoadSites (C02): every place package repository reads from the backend is one of the
// classified, verifying load paths.
func ruleLoadSites(c *eng.Ctx) {
	const rule = "load-sites"
	be := c.P.NamedType(pkgBackend + ".Backend")
	class := map[string]string{
		pkgRepo + ".loadRaw":                     "LoadRaw: whole-file hash compared with the name (nil-only-after-hash)",
		pkgRepo + ".(*Repository).loadBlob":      "packBlobIterator: MAC + plaintext hash (nil-only-after-hash)",
		pkgRepo + ".(*Repository).listPack":      "pack.List: header is MAC-authenticated by Key.Open",
		pkgRepo + ".checkPackInner":              "check: pack hash, header and every blob verified; errors accumulated",
		pkgRepo + ".(*Repository).loadBlobsFromPack": "streamPack → packBlobIterator (bound Load method handed to streamPack)",
		pkgRepo + ".streamPackPart":              "streamPack → packBlobIterator",
	}
	debugOnly := map[string]bool{}
	n := 0
	visit := func(fn *ssa.Function, what string, pos token.Pos) {
		c.Touch(fn)
		n++
		root := c.P.FnName(eng.Root(fn))
		why, ok := class[root]
		if !ok && strings.Contains(c.P.Pos(pos), "internal/repository/debug.go") {
			ok, why = true, "debug build only (tag debug): writes undecryptable data to disk for inspection"
			debugOnly[root] = true
		}
		c.Check(ok, rule, root+"→"+what, pos, "backend read in package repository is a classified, verifying load path: %s", why)
	}
	for _, fn := range c.P.Funcs {
		if eng.PkgOf(fn) != pkgRepo {
			continue
		}
		for _, call := range eng.Calls(fn) {
			switch {
			case eng.IsMethodOf(call, be, "Load"):
				visit(fn, "Backend.Load", call.Pos())
			case c.P.CalleeName(call) == pkgBackend+".ReadAt":
				visit(fn, "backend.ReadAt", call.Pos())
			case c.P.CalleeName(call) == pkgBackend+".ReaderAt":
				visit(fn, "backend.ReaderAt", call.Pos())
			}
		}
		for _, b := range fn.Blocks {
			for _, in := range b.Instrs {
				mc, ok := in.(*ssa.MakeClosure)
				if !ok {
					continue
				}
				f, ok := mc.Fn.(*ssa.Function)
				if !ok || !strings.Contains(f.Synthetic, "bound method") || len(mc.Bindings) == 0 {
					continue
				}
				if obj, ok := f.Object().(*types.Func); ok && obj.Name() == "Load" {
					it := be.Underlying().(*types.Interface)
					t := mc.Bindings[0].Type()
					if types.Implements(t, it) {
						visit(fn, "bound:Backend.Load", mc.Pos())
					}
				}
			}
		}
	}
	_ = n
	c.Floor(rule, 6, 6)
}

// ruleZeroChunk (C02): the all-zero shortcut uses the same length for the test and the
// precomputed hash.
func ruleZeroChunk(c *eng.Ctx) {
	const rule = "zero-chunk-agreement"
	minSize, ok := externConstInt(c, rule, pkgRepo, "github.com/restic/chunker", "MinSize")
	if !ok {
		return
	}
	fn := c.NeedFn(rule, pkgRepo+".(*Repository).saveBlob")
	if fn == nil {
		return
	}
	zc := c.P.CallsTo(fn, pkgRepo+".(*Repository).zeroChunk")
	isBuf := eng.IsParam(fn, "buf")
	lenEq := eng.CmpEdges(fn, func(op token.Token, x, y ssa.Value) (bool, bool) {
		if op != token.EQL && op != token.NEQ {
			return false, false
		}
		if v, isK := eng.ConstInt(y); isK && v == minSize && eng.IsLenOf(x, isBuf) {
			return true, op == token.EQL
		}
		return false, false
	})
	zpEq := eng.CmpEdges(fn, func(op token.Token, x, y ssa.Value) (bool, bool) {
		if op != token.EQL && op != token.NEQ {
			return false, false
		}
		if v, isK := eng.ConstInt(y); isK && v == minSize && c.P.IsCallOf(x, pkgRestic+".ZeroPrefixLen") {
			if call := eng.RootCall(x); call != nil && isBuf(eng.Arg(call, 0)) {
				return true, op == token.EQL
			}
		}
		return false, false
	})
	for _, z := range zc {
		zi := z.(ssa.Instruction)
		c.MustPass(rule, "saveBlob:len(buf)==MinSize→zeroChunk", eng.Entry(fn), zi, eng.NewCut().AddEdges(lenEq...), "len(buf) == chunker.MinSize")
		c.MustPass(rule, "saveBlob:ZeroPrefixLen(buf)==MinSize→zeroChunk", eng.Entry(fn), zi, eng.NewCut().AddEdges(zpEq...), "restic.ZeroPrefixLen(buf) == chunker.MinSize")
	}
	// zeroChunk hashes make([]byte, MinSize)
	if zfn := c.NeedFn(rule, pkgRepo+".(*Repository).zeroChunk"); zfn != nil {
		ok := false
		for _, f := range c.P.WithLits(zfn) {
			for _, h := range c.P.CallsTo(f, fnHash) {
				for _, r := range eng.Origins(eng.Arg(h, 0), nil) {
					if ms, isMS := r.(*ssa.MakeSlice); isMS {
						if v, isK := eng.ConstInt(ms.Len); isK && v == minSize {
							ok = true
						}
					}
					// make([]byte, K) with constant K is lowered to new [K]byte + slice
					if a, isA := r.(*ssa.Alloc); isA {
						if pt, isP := a.Type().(*types.Pointer); isP {
							if at, isArr := pt.Elem().(*types.Array); isArr && at.Len() == minSize {
								ok = true
							}
						}
					}
				}
			}
		}
		c.Check(ok, rule, "zeroChunk:hash-of-MinSize-zero-bytes", zfn.Pos(), "zeroChunk() is restic.Hash(make([]byte, chunker.MinSize))")
	}
	// every other path computes the hash of buf (or takes the caller-supplied id)
	c.Floor(rule, 3, 3)
}
