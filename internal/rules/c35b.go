package rules

import (
	"strings"

	"golang.org/x/tools/go/ssa"

	"verif/internal/eng"
)

// ruleLoadConsumerStartsAfresh (C35, "a retried operation completes with the same result"): the
// retry backend calls the consumer of a Load again after an attempt that failed half-way. A
// consumer that collects what it reads must therefore start from nothing on every call: the
// destination it copies into is created inside the consumer (or reset there before it is
// written), never a buffer captured from outside that still holds the bytes of the failed attempt.
func ruleLoadConsumerStartsAfresh(c *eng.Ctx) {
	const rule = "load-consumer-starts-afresh"
	be := c.P.NamedType(pkgBackend + ".Backend")
	sites := c.P.AllCallsWhere(func(fn *ssa.Function, call ssa.CallInstruction) bool {
		return eng.IsMethodOf(call, be, "Load") && !strings.Contains(c.P.Pos(fn.Pos()), "_test.go")
	})
	n := 0
	for _, s := range sites {
		args := s.Call.Common().Args
		if len(args) == 0 {
			continue
		}
		consumer := args[len(args)-1]
		var lit *ssa.Function
		for _, o := range eng.Origins(consumer, nil) {
			if mc, ok := o.(*ssa.MakeClosure); ok {
				lit, _ = mc.Fn.(*ssa.Function)
			} else if f, ok := o.(*ssa.Function); ok {
				lit = f
			}
		}
		if lit == nil || lit.Parent() == nil {
			continue // a consumer handed through (wrapper) or a named function without captured state
		}
		n++
		c.Touch(lit)
		key := c.P.FnName(s.Fn) + "→Load:consumer"
		bad := ""
		for _, call := range eng.Calls(lit) {
			name := c.P.CalleeName(call)
			var dst ssa.Value
			switch {
			case name == "io.Copy" || name == "io.CopyN" || name == "io.CopyBuffer":
				dst = call.Common().Args[0]
			case strings.HasSuffix(name, "bytes.Buffer).ReadFrom") || strings.HasSuffix(name, "bytes.Buffer).Write"):
				dst = eng.Recv(call)
			default:
				continue
			}
			for _, o := range eng.Origins(dst, nil) {
				fv, isFV := o.(*ssa.FreeVar)
				if !isFV {
					continue
				}
				if !strings.Contains(fv.Type().String(), "bytes.Buffer") {
					continue // files, hashers behind wrappers etc. are judged by their own rules
				}
				// reset inside the consumer before the write?
				reset := eng.NewCut()
				for _, rc := range eng.Calls(lit) {
					rn := c.P.CalleeName(rc)
					if strings.HasSuffix(rn, "bytes.Buffer).Reset") || strings.HasSuffix(rn, "bytes.Buffer).Truncate") {
						for _, ro := range eng.Origins(eng.Recv(rc), nil) {
							if ro == ssa.Value(fv) {
								reset.AddInstrs(rc.(ssa.Instruction))
							}
						}
					}
				}
				if reset.Size() == 0 || eng.FindPath(eng.Entry(lit), call.(ssa.Instruction), reset) != nil {
					bad = "the consumer copies into the captured buffer `" + fv.Name() + "` without emptying it first"
				}
			}
		}
		c.Check(bad == "", rule, key, s.Call.Pos(), "the consumer starts from an empty destination on every attempt (%s)", bad)
	}
	c.Check(n >= 2, rule, "Load:consumers", 0, "%d Load call sites with a function literal as consumer", n)
}
