package rules

import (
	"golang.org/x/tools/go/ssa"

	"verif/internal/eng"
)

// ruleSavePackerOnce (C04, "no nonce is used twice under one key" — which includes: no sealed
// object is stored twice): savePacker finalizes a packer — seals and appends its header — and
// uploads it. Calling it again for the same packer appends a second header and stores the same
// blob ciphertexts, nonces and all, under a second name. The upload worker therefore calls
// savePacker once for each packer it takes from its queue: from behind a savePacker call no
// savePacker call is reachable without taking the next packer from the channel first.
func ruleSavePackerOnce(c *eng.Ctx) {
	const rule = "savepacker-once"
	fn := c.NeedFn(rule, pkgRepo+".newPackerUploader")
	if fn == nil {
		return
	}
	n := 0
	for _, f := range c.P.WithLits(fn) {
		var saves []ssa.CallInstruction
		for _, call := range eng.Calls(f) {
			if eng.MethodName(call) == "savePacker" {
				saves = append(saves, call)
			}
		}
		if len(saves) == 0 {
			continue
		}
		n += len(saves)
		c.Touch(f)
		next := eng.NewCut()
		for _, b := range f.Blocks {
			for _, in := range b.Instrs {
				switch x := in.(type) {
				case *ssa.UnOp:
					if x.Op.String() == "<-" {
						next.AddInstrs(x)
					}
				case *ssa.Select:
					next.AddInstrs(x)
				case *ssa.Next:
					next.AddInstrs(x)
				}
			}
		}
		ok := true
		for _, a := range saves {
			for _, b := range saves {
				if eng.FindPath(eng.After(a.(ssa.Instruction)), b.(ssa.Instruction), next) != nil {
					ok = false
				}
			}
		}
		c.Check(ok && next.Size() > 0, rule, c.P.FnName(f)+":one-savePacker-per-queued-packer", saves[0].Pos(), "between two savePacker calls the worker takes the next packer from its queue")
	}
	c.Check(n >= 1, rule, "newPackerUploader:savePacker-calls", fn.Pos(), "%d savePacker calls in the upload workers", n)
}
