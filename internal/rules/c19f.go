package rules

import (
	"go/token"

	"golang.org/x/tools/go/ssa"

	"verif/internal/eng"
)

// ruleExistingFileCutToSize (C19, "for all pre-existing target states"): ensureSize is the only
// place where a target file that already exists and is reused gets rid of bytes beyond the
// size of the snapshot's file — blob writes only overwrite, and a zero-length file gets no write
// at all. It reports success only after the file was cut (truncateSparse, or Truncate) or was
// found to be no longer than the wanted size.
func ruleExistingFileCutToSize(c *eng.Ctx) {
	const rule = "existing-file-cut-to-size"
	fn := c.NeedFn(rule, pkgRestorer+".ensureSize")
	if fn == nil {
		return
	}
	isSize := eng.IsParam(fn, "createSize")
	var cuts []ssa.CallInstruction
	for _, call := range eng.Calls(fn) {
		if c.P.CalleeName(call) == pkgRestorer+".truncateSparse" || (eng.MethodName(call) == "Truncate" && !call.Common().IsInvoke()) {
			cuts = append(cuts, call)
		}
	}
	notLonger := eng.CmpEdges(fn, func(op token.Token, x, y ssa.Value) (bool, bool) {
		isFileSize := func(v ssa.Value) bool {
			call := eng.RootCall(v)
			return call != nil && eng.MethodName(call) == "Size"
		}
		switch {
		case isFileSize(x) && isSize(y):
			switch op {
			case token.GTR:
				return true, false
			case token.LEQ:
				return true, true
			}
		case isSize(x) && isFileSize(y):
			switch op {
			case token.LSS:
				return true, false
			case token.GEQ:
				return true, true
			}
		}
		return false, false
	})
	if len(cuts) == 0 || len(notLonger) == 0 {
		c.Unk(rule, "ensureSize:shape", fn.Pos(), "expected truncation calls (%d) and a comparison of the file's size with the wanted size (%d)", len(cuts), len(notLonger))
		return
	}
	cut := eng.Union(eng.SuccessCut(cuts...), eng.NewCut().AddEdges(notLonger...))
	n := 0
	for _, r := range eng.Returns(fn) {
		if eng.IsNilConst(eng.RetVal(r, 0)) {
			continue // a failure: no file is handed back
		}
		n++
		c.MustPass(rule, "ensureSize:success→file-not-longer-than-wanted", eng.Entry(fn), r, cut, "the file was truncated, or fi.Size() <= createSize")
	}
	c.Check(n >= 1, rule, "ensureSize:success-returns", fn.Pos(), "%d success returns", n)
}
