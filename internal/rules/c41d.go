package rules

import (
	"golang.org/x/tools/go/ssa"

	"verif/internal/eng"
)

// ruleNameQuoteSymmetric (C41, "names with any bytes come back unchanged"): Node.UnmarshalJSON
// runs strconv.Unquote over the stored name of every node. That is the inverse of what the
// writer does only if the writer quotes every name: on every path of Node.MarshalJSON to
// json.Marshal the Name of the marshalled value was replaced by the inside of
// strconv.Quote(node.Name) — no fast path for names that "need no escaping" (Unquote rejects
// what Quote would have escaped, a raw line feed for one) — and on every successful path of
// UnmarshalJSON the name went through strconv.Unquote.
func ruleNameQuoteSymmetric(c *eng.Ctx) {
	const rule = "name-quote-symmetric"
	nameF := c.P.Field("internal/data.Node", "Name")
	if m := c.NeedFn(rule, "internal/data.Node.MarshalJSON"); m != nil {
		quotes := c.P.CallsTo(m, "strconv.Quote")
		var marshals []ssa.CallInstruction
		for _, call := range eng.Calls(m) {
			if c.P.CalleeName(call) == "encoding/json.Marshal" {
				marshals = append(marshals, call)
			}
		}
		c.Check(len(quotes) >= 1 && len(marshals) >= 1, rule, "MarshalJSON:shape", m.Pos(), "%d strconv.Quote calls, %d json.Marshal calls", len(quotes), len(marshals))
		// the stores of the quoted name
		var sets []ssa.Instruction
		for _, b := range m.Blocks {
			for _, in := range b.Instrs {
				st, ok := in.(*ssa.Store)
				if !ok {
					continue
				}
				fa, isFA := st.Addr.(*ssa.FieldAddr)
				if !isFA {
					continue
				}
				if f := eng.FieldVar(fa.X.Type(), fa.Field); f == nil || f.Name() != "Name" {
					continue
				}
				for _, o := range eng.Origins(st.Val, nil) {
					for _, q := range quotes {
						if o == q.Value() {
							sets = append(sets, st)
						}
					}
				}
			}
		}
		for _, mc := range marshals {
			c.MustPass(rule, "MarshalJSON:every-name-is-quoted", eng.Entry(m), mc.(ssa.Instruction), eng.NewCut().AddInstrs(sets...), "the marshalled Name was set from strconv.Quote(node.Name)")
		}
		for _, q := range quotes {
			c.Check(nameF != nil && mentionsFieldDeepArgs(eng.Arg(q, 0), nameF), rule, "MarshalJSON:quotes-the-name", q.Pos(), "strconv.Quote is applied to node.Name")
		}
	}
	if u := c.NeedFn(rule, "internal/data.(*Node).UnmarshalJSON"); u != nil {
		unq := c.P.CallsTo(u, "strconv.Unquote")
		c.Check(len(unq) >= 1, rule, "UnmarshalJSON:shape", u.Pos(), "%d strconv.Unquote calls", len(unq))
		for _, r := range eng.Returns(u) {
			if !eng.IsNilConst(eng.RetVal(r, 0)) {
				continue
			}
			c.MustPass(rule, "UnmarshalJSON:every-name-is-unquoted", eng.Entry(u), r, eng.SuccessCut(unq...), "strconv.Unquote of the stored name succeeded")
		}
	}
}
