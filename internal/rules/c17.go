package rules

import (
	"go/token"
	"go/types"
	"strings"

	"golang.org/x/tools/go/ssa"

	"verif/internal/eng"
)

// ruleChunkerReset (C17): every file starts chunking from a fresh chunker and read state,
// parameterised by the repository's polynomial only.
func ruleChunkerReset(c *eng.Ctx) {
	const rule = "reset-before-chunk"
	sf := c.NeedFn(rule, pkgArch+".(*fileSaver).saveFile")
	if sf == nil {
		return
	}
	reads := c.P.CallsTo(sf, pkgArch+".(*fileChunkState).readNextChunk")
	resets := c.P.CallsTo(sf, pkgArch+".(*fileChunkState).reset")
	var chunkerResets []ssa.CallInstruction
	for _, call := range eng.Calls(sf) {
		if call.Common().IsInvoke() && call.Common().Method.Name() == "Reset" && eng.IsParam(sf, "chnker")(call.Common().Value) {
			chunkerResets = append(chunkerResets, call)
		}
	}
	if len(reads) != 1 {
		c.Unk(rule, "saveFile:readNextChunk", sf.Pos(), "expected one readNextChunk call, found %d", len(reads))
		return
	}
	c.MustPass(rule, "saveFile:chunker-reset→first-chunk", eng.Entry(sf), reads[0].(ssa.Instruction), eng.CallCut(chunkerResets...), "chnker.Reset()")
	c.MustPass(rule, "saveFile:read-state-reset→first-chunk", eng.Entry(sf), reads[0].(ssa.Instruction), eng.CallCut(resets...), "chunkState.reset()")
	// the chunker and the state that are reset are the ones used for reading
	c.Check(eng.IsParam(sf, "chnker")(eng.Arg(reads[0], 1)) && eng.IsParam(sf, "chunkState")(eng.Recv(reads[0])), rule, "saveFile:same-chunker-and-state", reads[0].Pos(), "readNextChunk uses the chunker and the state that were reset")
	for _, r := range resets {
		c.Check(eng.IsParam(sf, "chunkState")(eng.Recv(r)), rule, "saveFile:resets-own-state", r.Pos(), "reset() is called on the state used for reading")
	}
	// reset clears every field of the read state except the buffer
	if rf := c.NeedFn(rule, pkgArch+".(*fileChunkState).reset"); rf != nil {
		st := c.P.NamedType(pkgArch + ".fileChunkState")
		if st != nil {
			s := st.Underlying().(*types.Struct)
			for i := 0; i < s.NumFields(); i++ {
				f := s.Field(i)
				if _, isSlice := f.Type().Underlying().(*types.Slice); isSlice {
					c.Ok(rule, "fileChunkState."+f.Name()+":buffer", f.Pos(), "scratch buffer, its content is only valid between bpos and bmax")
					continue
				}
				ok := false
				for _, store := range c.P.FieldStoresIn(rf, f) {
					if k, isK := store.Val.(*ssa.Const); isK && (k.Value == nil || k.Value.String() == "0" || k.Value.String() == "false") {
						ok = true
					}
				}
				c.Check(ok, rule, "fileChunkState."+f.Name()+":cleared-by-reset", f.Pos(), "reset() zeroes %s (no state of the previous file survives)", f.Name())
			}
		}
	}
	// the chunker is reset with the polynomial it was created with, which is the repository's
	if br := c.NeedFn(rule, pkgRepo+".(*baseChunker).Reset"); br != nil {
		polF := c.P.Field(pkgRepo+".baseChunker", "pol")
		ok := false
		for _, call := range eng.Calls(br) {
			if strings.HasSuffix(c.P.CalleeName(call), "BaseChunker).Reset") && mentionsFieldDeepArgs(eng.Arg(call, 0), polF) {
				ok = true
			}
		}
		c.Check(ok, rule, "baseChunker.Reset:own-polynomial", br.Pos(), "baseChunker.Reset resets the library chunker with the stored polynomial")
	}
	if nc := c.NeedFn(rule, pkgRepo+".(*chunkerFactory).NewChunker"); nc != nil {
		fpol := c.P.Field(pkgRepo+".chunkerFactory", "pol")
		bpol := c.P.Field(pkgRepo+".baseChunker", "pol")
		ok := false
		for _, st := range c.P.FieldStoresIn(nc, bpol) {
			if mentionsFieldDeepArgs(st.Val, fpol) {
				ok = true
			}
		}
		okBase := false
		for _, call := range eng.Calls(nc) {
			if strings.HasSuffix(c.P.CalleeName(call), "chunker.NewBase") && mentionsFieldDeepArgs(eng.Arg(call, 0), fpol) {
				okBase = true
			}
		}
		c.Check(ok && okBase, rule, "NewChunker:factory-polynomial", nc.Pos(), "a new chunker is created with, and remembers, the factory's polynomial")
	}
	if nf := c.NeedFn(rule, pkgRepo+".newChunkerFactory"); nf != nil {
		fpol := c.P.Field(pkgRepo+".chunkerFactory", "pol")
		cfgPol := c.P.Field(pkgRestic+".Config", "ChunkerPolynomial")
		ok := false
		for _, st := range c.P.FieldStoresIn(nf, fpol) {
			if mentionsFieldDeepArgs(st.Val, cfgPol) {
				ok = true
			}
		}
		c.Check(ok, rule, "newChunkerFactory:repository-polynomial", nf.Pos(), "the factory's polynomial is the repository config's ChunkerPolynomial")
	}
	c.Floor(rule, 9, 10)
}

// ruleChunkReads (C17): chunk boundaries do not depend on read sizes: the reader is only
// drained through io.ReadFull into the fixed buffer, and every byte taken from the buffer is
// appended to the chunk being built.
func ruleChunkReads(c *eng.Ctx) {
	const rule = "chunk-reads"
	fn := c.NeedFn(rule, pkgArch+".(*fileChunkState).readNextChunk")
	if fn == nil {
		return
	}
	isRd := eng.IsParam(fn, "rd")
	bufF := c.P.Field(pkgArch+".fileChunkState", "readBuf")
	bposF := c.P.Field(pkgArch+".fileChunkState", "bpos")
	bmaxF := c.P.Field(pkgArch+".fileChunkState", "bmax")
	n := 0
	for _, call := range eng.Calls(fn) {
		uses := false
		for _, a := range call.Common().Args {
			if isRd(a) {
				uses = true
			}
		}
		if call.Common().IsInvoke() && isRd(call.Common().Value) {
			uses = true
		}
		if !uses {
			continue
		}
		n++
		ok := c.P.CalleeName(call) == "io.ReadFull" && mentionsFieldDeepArgs(eng.Arg(call, 1), bufF)
		c.Check(ok, rule, "readNextChunk:reader-only-through-ReadFull", call.Pos(), "the file is read only with io.ReadFull into the state's fixed-size buffer (short reads of the source cannot move chunk boundaries)")
	}
	c.Check(n == 1, rule, "readNextChunk:one-read-site", fn.Pos(), "one call reads from the file (%d)", n)
	// the chunker sees exactly the unread part of the buffer
	for _, call := range eng.Calls(fn) {
		if call.Common().IsInvoke() && call.Common().Method.Name() == "NextSplitPoint" {
			sl, ok := eng.Arg(call, 0).(*ssa.Slice)
			okW := ok && mentionsFieldDeepArgs(sl.X, bufF) && sl.Low != nil && mentionsFieldDeepArgs(sl.Low, bposF) && sl.High != nil && mentionsFieldDeepArgs(sl.High, bmaxF)
			c.Check(okW, rule, "readNextChunk:chunker-sees-unread-window", call.Pos(), "NextSplitPoint is given readBuf[bpos:bmax]")
		}
	}
	// every advance of bpos is matched by an append of exactly the bytes skipped
	adv := 0
	for _, st := range c.P.FieldStoresIn(fn, bposF) {
		if k, isK := eng.ConstInt(st.Val); isK && k == 0 {
			continue // buffer refilled
		}
		adv++
		matched := false
		for _, in := range st.Block().Instrs {
			call, ok := in.(*ssa.Call)
			if !ok || c.P.CalleeName(call) != "builtin.append" || len(call.Call.Args) != 2 {
				continue
			}
			src, ok := call.Call.Args[1].(*ssa.Slice)
			if !ok || !mentionsFieldDeepArgs(src.X, bufF) || src.Low == nil || src.High == nil {
				continue
			}
			// appended window: [old bpos : new bpos]
			if mentionsFieldDeepArgs(src.Low, bposF) && (src.High == st.Val || eng.SameAs(st.Val)(src.High) || sameFieldLoad(src.High, st.Val) || sameArith(src.High, st.Val)) {
				matched = true
			}
		}
		c.Check(matched, rule, "readNextChunk:consumed-bytes-appended", st.Pos(), "bpos advances to the upper bound of the window that was just appended to the chunk (no byte of the buffer is skipped or taken twice)")
	}
	c.Check(adv == 2, rule, "readNextChunk:two-advance-sites", fn.Pos(), "bpos advances at two places: whole window, and up to the split point (%d)", adv)
	// after a refill the window is [0:n] of what ReadFull delivered
	for _, st := range c.P.FieldStoresIn(fn, bmaxF) {
		okN := false
		for _, call := range c.P.CallsTo(fn, "io.ReadFull") {
			if resultOf(st.Val, call, 0) || mentionsCallResultDeep(st.Val, call) {
				okN = true
			}
		}
		c.Check(okN, rule, "readNextChunk:window-is-what-was-read", st.Pos(), "bmax is the number of bytes io.ReadFull delivered")
	}
	c.Floor(rule, 6, 7)
}

// sameArith: both values are the same binary operation over operands that load the same fields.
func sameArith(a, b ssa.Value) bool {
	ba, okA := a.(*ssa.BinOp)
	bb, okB := b.(*ssa.BinOp)
	if !okA || !okB || ba.Op != bb.Op {
		return false
	}
	same := func(x, y ssa.Value) bool {
		if x == y || eng.SameAs(x)(y) || sameFieldLoad(x, y) {
			return true
		}
		cx, okX := x.(*ssa.Convert)
		cy, okY := y.(*ssa.Convert)
		return okX && okY && (cx.X == cy.X || eng.SameAs(cx.X)(cy.X))
	}
	return same(ba.X, bb.X) && same(ba.Y, bb.Y)
}

func mentionsCallResultDeep(v ssa.Value, call ssa.CallInstruction) bool {
	for i := 0; i < 6; i++ {
		switch x := v.(type) {
		case *ssa.Convert:
			v = x.X
		case *ssa.Extract:
			return x.Tuple == call.Value()
		case *ssa.Phi:
			for _, e := range x.Edges {
				if mentionsCallResultDeep(e, call) {
					return true
				}
			}
			return false
		default:
			return v == call.Value()
		}
	}
	return false
}

// ruleContentOrder (C17/C01): the IDs of a file's chunks are recorded in read order: a slot
// is reserved for every chunk before it is handed to the asynchronous saver, the saver's
// callback writes the ID into the slot reserved for that chunk, and the slot counter advances
// once per chunk.
func ruleContentOrder(c *eng.Ctx) {
	const rule = "content-order"
	sf := c.NeedFn(rule, pkgArch+".(*fileSaver).saveFile")
	if sf == nil {
		return
	}
	contentF := c.P.Field(pkgData+".Node", "Content")
	var saves []ssa.CallInstruction
	for _, call := range eng.Calls(sf) {
		if eng.MethodName(call) == "SaveBlobAsync" {
			saves = append(saves, call)
		}
	}
	reads := c.P.CallsTo(sf, pkgArch+".(*fileChunkState).readNextChunk")
	if len(saves) != 1 || len(reads) != 1 {
		c.Unk(rule, "saveFile:shape", sf.Pos(), "expected one SaveBlobAsync and one readNextChunk, found %d/%d", len(saves), len(reads))
		return
	}
	// what is saved is the chunk just read
	c.Check(resultOf(eng.Arg(saves[0], 2), reads[0], 0), rule, "saveFile:saves-chunk-just-read", saves[0].Pos(), "SaveBlobAsync receives the chunk returned by readNextChunk")
	// a slot is appended to node.Content before the chunk is handed over
	var slotAppends []ssa.Instruction
	for _, st := range c.P.FieldStoresIn(sf, contentF) {
		if call := eng.RootCall(st.Val); call != nil && c.P.CalleeName(call) == "builtin.append" {
			slotAppends = append(slotAppends, st)
		}
	}
	c.Check(len(slotAppends) == 1, rule, "saveFile:slot-append", sf.Pos(), "one statement appends a slot to node.Content (%d)", len(slotAppends))
	c.MustPass(rule, "saveFile:slot-reserved→save", eng.After(reads[0].(ssa.Instruction)), saves[0].(ssa.Instruction), eng.NewCut().AddInstrs(slotAppends...), "node.Content = append(node.Content, restic.ID{})")
	// the callback writes into node.Content[pos] with pos captured per chunk from the counter
	cb := closureArg(saves[0], 5)
	if cb == nil {
		c.Unk(rule, "saveFile:callback", saves[0].Pos(), "the SaveBlobAsync callback is not a literal")
		return
	}
	var posCell *ssa.Alloc
	okSlot := false
	for _, b := range cb.Blocks {
		for _, in := range b.Instrs {
			st, ok := in.(*ssa.Store)
			if !ok {
				continue
			}
			ia, ok := st.Addr.(*ssa.IndexAddr)
			if !ok || !mentionsFieldDeepArgs(ia.X, contentF) {
				continue
			}
			if ld, isLd := ia.Index.(*ssa.UnOp); isLd && ld.Op == token.MUL {
				if fv, isFV := ld.X.(*ssa.FreeVar); isFV {
					if cell, _ := boundCell(c.P, cb, fv); cell != nil {
						posCell, _ = cell.(*ssa.Alloc)
					}
				}
			}
			if eng.IsParam(cb, cb.Params[0].Name())(st.Val) {
				okSlot = true
			}
		}
	}
	c.Check(okSlot && posCell != nil, rule, "saveFile:callback-fills-its-slot", cb.Pos(), "the callback stores the new blob ID into node.Content[pos]")
	if posCell == nil {
		return
	}
	// pos is a per-iteration variable initialised from the running counter
	var counter ssa.Value
	for _, st := range cellStores(posCell) {
		counter = st.Val
	}
	perIter := inCycle(posCell.Block())
	c.Check(perIter && counter != nil, rule, "saveFile:slot-index-per-chunk", posCell.Pos(), "pos is a fresh variable in every iteration, set from the running chunk counter")
	// the counter advances exactly once between two chunks: every path from the save to the next read passes idx++
	if counter != nil {
		var incs []ssa.Instruction
		for _, b := range sf.Blocks {
			for _, in := range b.Instrs {
				bo, ok := in.(*ssa.BinOp)
				if !ok || bo.Op != token.ADD {
					continue
				}
				if k, isK := eng.ConstInt(bo.Y); isK && k == 1 {
					for _, o := range originsThroughPhi(counter) {
						if o == ssa.Value(bo) {
							incs = append(incs, bo)
						}
					}
					if ld, isLd := counter.(*ssa.UnOp); isLd {
						if bx, isLd2 := bo.X.(*ssa.UnOp); isLd2 && bx.X == ld.X {
							incs = append(incs, bo)
						}
					}
				}
			}
		}
		c.Check(len(incs) >= 1, rule, "saveFile:counter-increment", sf.Pos(), "the chunk counter is incremented (%d sites)", len(incs))
		if len(incs) >= 1 {
			c.MustPass(rule, "saveFile:one-slot-per-chunk", eng.After(saves[0].(ssa.Instruction)), reads[0].(ssa.Instruction), eng.NewCut().AddInstrs(incs...), "idx++")
		}
	}
	c.Floor(rule, 6, 7)
}

var _ = strings.HasPrefix
