package rules

import "verif/internal/eng"

func init() {
	register(&Property{
		ID: "C29",
		Explanation: "Decides the 'at least one working key at every interruption point' and 'same master key' clauses structurally: (passwd-order) changePassword removes the old key — the id read before switching — only behind the success edges of AddKey and of the verification that the repository opens with the new key; a failed verification removes the new key and only then; (current-key-guard) repository.RemoveKey reaches the backend Remove only on id != repo.KeyID(), removes a KeyFile handle, and key files are removed nowhere else (neither directly nor through the generic removal path); (same-master) every AddKey call outside createMasterKey passes repo.Key() as the master key to seal, a fresh random master key is generated only when no template is given (init), and the user key is KDF(password). (key-search-complete) searchKey tries every listed key up to the limit: the counter compared with maxKeys starts at 0 and is advanced by one in exactly one place of the listing callback and nowhere else, ErrMaxKeysReached is returned only behind counter > maxKeys (strictly), a nil return of the callback is reached only after openKey was applied to the listed id, ErrUnauthenticated continues with the next key, and before the listing searchKey returns only with a successfully opened hinted key (added after a seeded change that charged the hinted attempt to the budget). (key-removal-exclusive) every removal of a key file in cmd/restic is reached only from a command that opened the repository with openWithExclusiveLock (the removal of a key the command has just added and found broken is exempt by name): the 'key in use' guard knows only its own process, the exclusive lock is what keeps two processes from removing each other's key (added after a seeded change that gave key remove the shared lock). Not decided: which passwords open a given key file (scrypt/Poly1305 behaviour).",
		Assumptions: commonAssumptions,
		Technique:   "static analysis: CFG edge cuts + value origin of the key ids and the sealed master key + call-site enumeration (go/ssa)",
		Run: func(c *eng.Ctx) {
			ruleKeyRemovalExclusive(c)
			ruleKeyOrder(c)
			ruleKeyRemoval(c)
			ruleSameMaster(c)
			ruleKeySearchComplete(c)
		},
		Controls: []Control{
			{Name: "key-passwd-with-shared-lock", File: "cmd/restic/cmd_key_passwd.go",
				Old: "	ctx, repo, unlock, err := openWithExclusiveLock(ctx, gopts, false, printer)", New: "	ctx, repo, unlock, err := openWithAppendLock(ctx, gopts, false, printer)", Rule: "key-removal-exclusive"},
			{Name: "last-permitted-key-not-tried", File: "internal/repository/key.go",
				Old: "		if maxKeys > 0 && checked > maxKeys {", New: "		if maxKeys > 0 && checked >= maxKeys {", Rule: "key-search-complete"},
			{Name: "wrong-password-ends-the-search", File: "internal/repository/key.go",
				Old: "			if errors.Is(err, crypto.ErrUnauthenticated) {\n				return nil\n			}\n\n			return err\n		}\n\n		debug.Log(\"successfully opened key %v\", id.String())", New: "			return err\n		}\n\n		debug.Log(\"successfully opened key %v\", id.String())", Rule: "key-search-complete"},
			{Name: "remove-old-key-before-verifying-new", File: "cmd/restic/cmd_key_passwd.go",
				Old: "	err = switchToNewKeyAndRemoveIfBroken(ctx, repo, id, pw)\n	if err != nil {\n		return err\n	}\n\n	err = repository.RemoveKey(ctx, repo, oldID)\n	if err != nil {\n		return err\n	}",
				New: "	err = repository.RemoveKey(ctx, repo, oldID)\n	if err != nil {\n		return err\n	}\n\n	err = switchToNewKeyAndRemoveIfBroken(ctx, repo, id, pw)\n	if err != nil {\n		return err\n	}", Rule: "passwd-order"},
			{Name: "allow-removing-current-key", File: "internal/repository/key.go",
				Old: "	if id == repo.KeyID() {\n		return errors.New(\"refusing to remove key currently used to access repository\")\n	}\n", New: "", Rule: "current-key-guard"},
			{Name: "key-add-creates-new-master", File: "cmd/restic/cmd_key_add.go",
				Old: "repository.AddKey(ctx, repo, pw, opts.Username, opts.Hostname, repo.Key())", New: "repository.AddKey(ctx, repo, pw, opts.Username, opts.Hostname, nil)", Rule: "same-master"},
		},
	})
	register(&Property{
		ID: "C30",
		Explanation: "Decides the refusal guards: (init-guards) Repository.Init reaches Repository.init only if the config Stat failed with an IsNotExist error, both the key listing and the snapshot listing completed without their callback being invoked (each callback returns a non-nil error on every path, i.e. for any file found), and min <= version <= max; init saves the config only after the master key was created; (config-writers) the config file is written only by restic.SaveConfig, which is called only by Repository.init and upgradeRepository; CreateConfig takes the polynomial from chunker.RandomPolynomial() exactly when none is given (checking its error) and the ID from NewRandomID. Not decided: irreducibility of a user-supplied polynomial and atomicity of the backend's Stat/List against a concurrent init.",
		Assumptions: append([]string{"chunker.RandomPolynomial returns an irreducible polynomial"}, commonAssumptions...),
		Technique:   "static analysis: CFG edge cuts (disjunction-free guards) + call-site enumeration of config writers (go/ssa)",
		Run: func(c *eng.Ctx) {
			ruleInitGuards(c)
			ruleConfigWriters(c)
		},
		Controls: []Control{
			{Name: "init-over-existing-snapshots", File: "internal/repository/repository.go",
				Old: "	if err := r.List(ctx, restic.SnapshotFile, func(_ restic.ID, _ int64) error {\n		return errors.New(\"repository already contains snapshots\")\n	}); err != nil {\n		return err\n	}\n", New: "", Rule: "init-guards"},
			{Name: "init-when-stat-fails-otherwise", File: "internal/repository/repository.go",
				Old: "	if err != nil && !r.be.IsNotExist(err) {\n		return err\n	}\n	if err == nil {\n		return errors.New(\"repository master key and config already initialized\")", New: "	if err == nil {\n		return errors.New(\"repository master key and config already initialized\")", Rule: "init-guards"},
			{Name: "key-listing-ignores-some-files", File: "internal/repository/repository.go",
				Old: "	if err := r.List(ctx, restic.KeyFile, func(_ restic.ID, _ int64) error {\n		return errors.New(\"repository already contains keys\")", New: "	if err := r.List(ctx, restic.KeyFile, func(_ restic.ID, size int64) error {\n		if size == 0 {\n			return nil\n		}\n		return errors.New(\"repository already contains keys\")", Rule: "init-guards"},
		},
	})
	register(&Property{
		ID: "C31",
		Explanation: "Decides the ordering of the v1→v2 config replacement: (config-replace-order) UpgradeRepo upgrades only version 1, loads the raw old config and writes it to a local backup file before upgradeRepository runs, re-uploads exactly those raw bytes whenever upgradeRepository failed — after removing what the failed attempt left behind on backends without atomic replace, and without removing anything where files are replaced atomically (genuine defect, fixed in /repo: the rollback removed the intact old config, and a second failed upload left none) —, and deletes the backup only after success; upgradeRepository reports success only if SaveConfig succeeded and writes Version = 2. A removal of the old config that precedes the save lies behind HasAtomicReplace == false, so on backends that replace atomically the config is never absent (added after a seeded change that removed it unconditionally). The rule also demands that the old config is not removed before the new one is stored; on backends without atomic replace (rest, mem, sftp without posix rename) the code removes it first — a crash between Remove and SaveConfig leaves the repository without a config. That is a genuine defect of the pinned tree which cannot be repaired by a small patch (the backend interface has no rename); it is listed in known_findings.txt and reported as KNOWN-FINDING; (save-reader-hash) every reader that package repository hands to Backend.Save carries the content hash the backend asks for — a ByteReader built with the backend's Hasher(), a FileReader with the sum of a hashing.Reader over that hasher; the rollback of a failed upgrade re-uploaded the old config with a nil hasher, which hash-verifying backends reject, leaving no config at all (genuine defect, demonstrated, fixed). Not decided: that snapshots stay restorable with unchanged content (no data is rewritten by the upgrade: the only repository write is the config).",
		Assumptions: commonAssumptions,
		Technique:   "static analysis: CFG edge cuts around the config replacement (go/ssa); one known finding",
		Run: func(c *eng.Ctx) {
			ruleUpgradeOrder(c)
			ruleSaveReaderHash(c)
		},
		Controls: []Control{
			{Name: "upgrade-without-backup", File: "internal/repository/upgrade_repo.go",
				Old: "	if err != nil {\n		return fmt.Errorf(\"write config file backup to %v failed: %w\", tempdir, err)\n	}\n", New: "	if err != nil {\n		fmt.Printf(\"write config file backup to %v failed: %v\", tempdir, err)\n	}\n", Rule: "config-replace-order"},
			{Name: "rollback-removes-on-every-backend", File: "internal/repository/upgrade_repo.go",
				Old: "		if !repo.be.Properties().HasAtomicReplace {\n			// the failed upgrade removed", New: "		if !repo.be.Properties().HasAtomicReplace || err != nil {\n			// the failed upgrade removed", Rule: "config-replace-order"},
			{Name: "config-removed-on-every-backend", File: "internal/repository/upgrade_repo.go",
				Old: "	if !repo.be.Properties().HasAtomicReplace {\n		// remove the original file", New: "	if !repo.be.Properties().HasAtomicReplace || repo.Config().Version == 1 {\n		// remove the original file", Rule: "config-replace-order"},
			{Name: "upgrade-any-version", File: "internal/repository/upgrade_repo.go",
				Old: "	if repo.Config().Version != 1 {", New: "	if repo.Config().Version > 2 {", Rule: "config-replace-order"},
			{Name: "no-reupload-on-failure", File: "internal/repository/upgrade_repo.go",
				Old: "		err = repo.be.Save(ctx, h, backend.NewByteReader(rawConfigFile, repo.be.Hasher()))\n		if err != nil {\n			repoError.ReuploadOldConfigError = err\n		}\n", New: "", Rule: "config-replace-order"},
			{Name: "reupload-without-content-hash", File: "internal/repository/upgrade_repo.go",
				Old: "backend.NewByteReader(rawConfigFile, repo.be.Hasher())", New: "backend.NewByteReader(rawConfigFile, nil)", Rule: "save-reader-hash"},
			{Name: "key-saved-without-content-hash", File: "internal/repository/key.go",
				Old: "backend.NewByteReader(buf, s.be.Hasher())", New: "backend.NewByteReader(buf, nil)", Rule: "save-reader-hash"},
		},
	})
}
