package rules

import (
	"go/token"

	"golang.org/x/tools/go/ssa"

	"verif/internal/eng"
)

// ruleReuseOnlyIfFileSurvives (C19): the restorer skips blobs that verifyFile found in the
// existing target. That is only sound if createFile keeps the file: createFile replaces the
// target by a new empty file when it is not a regular file or has more than one hard link.
// So verifyFile must not hand out a state that still needs a restore for such a file.
func ruleReuseOnlyIfFileSurvives(c *eng.Ctx) {
	const rule = "reuse-only-if-file-survives"
	vf := c.NeedFn(rule, pkgRestorer+".(*Restorer).verifyFile")
	cf := c.NeedFn(rule, pkgRestorer+".createFile")
	if vf == nil || cf == nil {
		return
	}
	linksF := c.P.Field("internal/fs.ExtendedFileInfo", "Links")
	if linksF == nil {
		c.Unk(rule, "anchor:ExtendedFileInfo.Links", 0, "field does not resolve")
		return
	}
	manyLinks := func(fn *ssa.Function, want bool) []eng.EdgeKey {
		return eng.CmpEdges(fn, func(op token.Token, x, y ssa.Value) (bool, bool) {
			k, isK := eng.ConstInt(y)
			if !isK || k != 1 || !mentionsFieldDeepArgs(x, linksF) {
				return false, false
			}
			switch op {
			case token.GTR: // Links > 1
				return true, want
			case token.LEQ:
				return true, !want
			}
			return false, false
		})
	}
	// the sibling: createFile replaces files with several links (checked in detail by create-file)
	c.Check(len(manyLinks(cf, true)) > 0, rule, "createFile:replaces-hard-linked-target", cf.Pos(), "createFile tests Links > 1 (and replaces such a target by a new file)")
	isFailFast := eng.IsParam(vf, "failFast")
	needs := c.P.CallsTo(vf, pkgRestorer+".(*fileState).NeedsRestore")
	var regular []ssa.CallInstruction
	for _, call := range eng.Calls(vf) {
		if eng.MethodName(call) == "IsRegular" {
			regular = append(regular, call)
		}
	}
	n := 0
	for _, r := range eng.Returns(vf) {
		v := eng.RetVal(r, 0)
		if eng.IsNilConst(v) {
			continue
		}
		n++
		cut := eng.NewCut()
		cut.AddEdges(manyLinks(vf, false)...)
		cut.AddEdges(eng.BoolEdges(vf, isFailFast, true)...)
		cut = eng.Union(cut, eng.ResultCut(false, 0, needs...))
		// the mtime shortcut returns a state that needs no restore: a literal with a nil blob
		// list whose sizeMatches is true on the edge taken
		if a, ok := v.(*ssa.Alloc); ok {
			bmF := c.P.Field(pkgRestorer+".fileState", "blobMatches")
			smF := c.P.Field(pkgRestorer+".fileState", "sizeMatches")
			var bm, sm ssa.Value
			for _, ref := range *a.Referrers() {
				if fa, isFA := ref.(*ssa.FieldAddr); isFA {
					for _, r2 := range *fa.Referrers() {
						if st, isSt := r2.(*ssa.Store); isSt && st.Addr == ssa.Value(fa) {
							switch eng.FieldVar(fa.X.Type(), fa.Field) {
							case bmF:
								bm = st.Val
							case smF:
								sm = st.Val
							}
						}
					}
				}
			}
			if bm != nil && eng.IsNilConst(bm) && sm != nil {
				cut.AddEdges(eng.BoolEdges(vf, eng.SameAs(sm), true)...)
			}
		}
		c.MustPass(rule, "verifyFile:reusable-state-only-if-target-is-kept", eng.Entry(vf), r, cut, "the target has a single link, or the state needs no restore, or the caller is --verify (failFast)")
		c.MustPass(rule, "verifyFile:state-only-for-regular-files", eng.Entry(vf), r, eng.ResultCut(true, 0, regular...), "fi.Mode().IsRegular()")
	}
	c.Check(n >= 1, rule, "verifyFile:state-returns", vf.Pos(), "verifyFile has returns that hand out a file state (%d)", n)
	c.Floor(rule, 4, 5)
}
