package rules

import (
	"golang.org/x/tools/go/ssa"

	"verif/internal/eng"
)

// ruleFreezeGateHeld (C37, "while frozen no new non-lock operation starts", for all
// interleavings): an operation that has passed the freeze gate must not be able to start its
// call of the wrapped backend after Freeze() has returned. That needs the gate to stay closed
// behind the operation — the freeze lock taken in typeDependentLimit is given back by the
// release function the caller defers (or is a read lock held for the operation), not inside
// typeDependentLimit itself. Today it is released before typeDependentLimit returns: between
// that return and be.Backend.Save/Load/Stat/Remove another goroutine can freeze the backend
// and the operation starts anyway (known finding, demonstrated with a context whose Err()
// waits for the freeze; closing it makes Freeze wait for every transfer in flight, which is a
// change of behaviour and not a small repair).
func ruleFreezeGateHeld(c *eng.Ctx) {
	const rule = "freeze-gate-held"
	fn := c.NeedFn(rule, pkgSema+".(*connectionLimitedBackend).typeDependentLimit")
	if fn == nil {
		return
	}
	n := 0
	for _, call := range eng.Calls(fn) {
		path, mode, isLock := c.P.LockOp(call)
		if !isLock || mode <= 0 {
			continue
		}
		n++
		releasedInside := false
		var where ssa.CallInstruction
		for _, other := range eng.Calls(fn) {
			p2, m2, ok2 := c.P.LockOp(other)
			if ok2 && m2 < 0 && p2 == path {
				releasedInside = true
				where = other
			}
		}
		if releasedInside {
			c.Bad(rule, "typeDependentLimit:freeze-gate-stays-closed-behind-the-operation", where.Pos(), "the freeze lock is released before typeDependentLimit returns: an operation that has passed the gate starts its call of the wrapped backend also after Freeze() has returned")
		} else {
			c.Ok(rule, "typeDependentLimit:freeze-gate-stays-closed-behind-the-operation", call.Pos(), "the freeze lock taken at the gate is not given back inside typeDependentLimit")
		}
	}
	if n == 0 {
		c.Unk(rule, "typeDependentLimit:freeze-lock", fn.Pos(), "no acquisition of the freeze lock found in typeDependentLimit")
	}
}
