package rules

import (
	"go/token"

	"golang.org/x/tools/go/ssa"

	"verif/internal/eng"
)

// nilEdgesDeep is eng.NilEdges plus the edges on which the nil test is known through a
// `a && b` / `a || b` that go/ssa lowered to a phi (tagless switch cases).
func nilEdgesDeep(fn *ssa.Function, same func(ssa.Value) bool, wantNil bool) []eng.EdgeKey {
	out := eng.NilEdges(fn, same, wantNil)
	isCmp := func(op token.Token) func(ssa.Value) bool {
		return func(v ssa.Value) bool {
			bo, ok := v.(*ssa.BinOp)
			if !ok || bo.Op != op {
				return false
			}
			switch {
			case eng.IsNilConst(bo.Y):
				return same(bo.X)
			case eng.IsNilConst(bo.X):
				return same(bo.Y)
			}
			return false
		}
	}
	// x == nil is true  ⇔ nil;   x != nil is true ⇔ non-nil
	out = append(out, eng.DerivedBoolEdges(fn, isCmp(token.EQL), wantNil)...)
	out = append(out, eng.DerivedBoolEdges(fn, isCmp(token.NEQ), !wantNil)...)
	return out
}
