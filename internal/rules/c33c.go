package rules

import (
	"go/token"
	"go/types"

	"golang.org/x/tools/go/ssa"

	"verif/internal/eng"
)

// ruleKeptIndexHasNoExcludedPack (C33, C09): MasterIndex.Rewrite leaves an index file as it
// is (it is not added to the obsolete set, so it survives) only if the file names none of the
// packs that must disappear from the index: every way from taking an index file off the
// channel to the next one either marks the file obsolete (its surviving entries are re-stored
// through EachByPack, which filters the excluded packs) or lies behind
// len(idx.Packs().Intersect(excludePacks)) == 0. Without that test a full index file keeps its
// entries for removed, missing or unreadable packs while repair index and prune report success.
func ruleKeptIndexHasNoExcludedPack(c *eng.Ctx) {
	const rule = "kept-index-has-no-excluded-pack"
	root := c.NeedFn(rule, pkgIndex+".(*MasterIndex).Rewrite")
	if root == nil {
		return
	}
	var lit *ssa.Function
	for _, l := range c.P.Lits(root) {
		// the goroutine that receives the loaded index files and (in the body of its
		// range-over-func loop) stores the surviving packs into the new index
		hasRecv, stores := false, false
		for _, b := range l.Blocks {
			for _, in := range b.Instrs {
				if u, ok := in.(*ssa.UnOp); ok && u.Op == token.ARROW && u.CommaOk {
					hasRecv = true
				}
			}
		}
		for _, g := range c.P.WithLits(l) {
			if len(c.P.CallsTo(g, pkgIndex+".(*Index).StorePack")) > 0 {
				stores = true
			}
		}
		if hasRecv && stores {
			lit = l
		}
	}
	if lit == nil {
		c.Unk(rule, "Rewrite:rewriter-goroutine", root.Pos(), "no function literal of Rewrite stores packs into a new index")
		return
	}
	c.Touch(lit)
	// the loop over the loaded index files: a receive with comma-ok from the task channel
	var recv *ssa.UnOp
	for _, b := range lit.Blocks {
		for _, in := range b.Instrs {
			// the outermost receive loop (the loops over EachByPack's channel are nested in it)
			if u, ok := in.(*ssa.UnOp); ok && u.Op == token.ARROW && u.CommaOk && (recv == nil || u.Block().Dominates(recv.Block())) {
				recv = u
			}
		}
	}
	if recv == nil {
		c.Unk(rule, "Rewrite:task-loop", lit.Pos(), "the loop receiving the loaded index files was not found")
		return
	}
	// the obsolete set: IDSet.Merge/Insert on a captured set other than the processed-hash sets;
	// identified as the set that is handed to ParallelRemove in Rewrite
	var obsoleteCell ssa.Value
	for _, pr := range c.P.CallsTo(root, pkgRestic+".ParallelRemove") {
		if len(pr.Common().Args) > 2 {
			if ld, ok := eng.Strip(pr.Common().Args[2]).(*ssa.UnOp); ok && ld.Op == token.MUL {
				obsoleteCell = ld.X
			}
		}
	}
	if obsoleteCell == nil {
		c.Unk(rule, "Rewrite:obsolete-set", root.Pos(), "the set of index files handed to ParallelRemove does not resolve to a variable")
		return
	}
	var fvObsolete *ssa.FreeVar
	for _, in := range rootClosures(root, lit) {
		for i, b := range in.Bindings {
			if b == obsoleteCell && i < len(lit.FreeVars) {
				fvObsolete = lit.FreeVars[i]
			}
		}
	}
	var marks []ssa.Instruction
	for _, call := range eng.Calls(lit) {
		m := eng.MethodName(call)
		if (m != "Merge" && m != "Insert") || eng.Recv(call) == nil {
			continue
		}
		if ld, ok := eng.Strip(eng.Recv(call)).(*ssa.UnOp); ok && ld.Op == token.MUL && fvObsolete != nil && ld.X == ssa.Value(fvObsolete) {
			marks = append(marks, call.(ssa.Instruction))
		}
	}
	if len(marks) == 0 {
		c.Bad(rule, "Rewrite:marks-obsolete", lit.Pos(), "the rewriter never adds an index file to the set of files to delete")
		return
	}
	// len(idx.Packs().Intersect(excludePacks)) == 0
	noExcluded := eng.CmpEdges(lit, func(op token.Token, x, y ssa.Value) (bool, bool) {
		k, isK := eng.ConstInt(y)
		if !isK || k != 0 {
			return false, false
		}
		if !eng.IsLenOf(x, func(v ssa.Value) bool {
			call := eng.RootCall(v)
			if call == nil || eng.MethodName(call) != "Intersect" || len(call.Call.Args) < 2 {
				return false
			}
			if nt, ok := call.Call.Args[0].Type().(*types.Named); !ok || nt.Obj().Name() != "IDSet" {
				return false
			}
			// the argument is the excludePacks parameter of Rewrite (captured)
			for _, r := range eng.Origins(call.Call.Args[1], nil) {
				if ld, ok := r.(*ssa.UnOp); ok && ld.Op == token.MUL {
					if fv, ok := ld.X.(*ssa.FreeVar); ok && eng.LogicalName(fv) == "excludePacks" {
						return true
					}
				}
				if fv, ok := r.(*ssa.FreeVar); ok && eng.LogicalName(fv) == "excludePacks" {
					return true
				}
			}
			return false
		}) {
			return false, false
		}
		switch op {
		case token.EQL, token.LEQ:
			return true, true
		case token.GTR, token.NEQ:
			return true, false
		}
		return false, false
	})
	cut := eng.NewCut().AddInstrs(marks...).AddEdges(noExcluded...)
	// from the start of the loop body back to the receive
	var okEdge []eng.EdgeKey
	for _, ref := range *recv.Referrers() {
		if ex, ok := ref.(*ssa.Extract); ok && ex.Index == 1 {
			okEdge = eng.BoolEdges(lit, eng.SameAs(ex), true)
		}
	}
	if len(okEdge) == 0 {
		c.Unk(rule, "Rewrite:task-loop", recv.Pos(), "the loop condition of the task loop does not resolve")
		return
	}
	ok := true
	var witness []*ssa.BasicBlock
	for _, e := range okEdge {
		if p := eng.FindPath(eng.EdgeStart(lit, e), recv, cut); p != nil {
			ok, witness = false, p
		}
	}
	detail := "an index file is kept unchanged only if it names no excluded pack; otherwise it is marked obsolete and its other entries are re-stored"
	if !ok {
		detail += "; path that keeps a file without the test: " + c.P.PathString(witness)
	}
	c.Check(ok, rule, "Rewrite:index-kept→names-no-excluded-pack", recv.Pos(), "%s", detail)
	c.Check(len(noExcluded) > 0, rule, "Rewrite:excluded-pack-test", lit.Pos(), "the rewriter tests len(idx.Packs().Intersect(excludePacks)) == 0 (%d edges)", len(noExcluded))
}

// rootClosures lists the MakeClosure instructions in root that create lit.
func rootClosures(root, lit *ssa.Function) []*ssa.MakeClosure {
	var out []*ssa.MakeClosure
	for _, b := range root.Blocks {
		for _, in := range b.Instrs {
			if mc, ok := in.(*ssa.MakeClosure); ok && mc.Fn == ssa.Value(lit) {
				out = append(out, mc)
			}
		}
	}
	return out
}
