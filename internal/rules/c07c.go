package rules

import (
	"go/token"

	"golang.org/x/tools/go/ssa"

	"verif/internal/eng"
)

// ruleLegacyMarkers (C07, "payloads starting with 0x02/'['/'{'", "repository versions 1 and 2"):
// a file written while the repository was version 1 is stored as it is, and read back by a
// version 2 repository after the upgrade. decompressUnpacked therefore hands back unchanged
// whatever starts with one of the two bytes a JSON document of restic starts with — '{' *and*
// '[' — before it looks for the version byte: both comparisons of p[0] exist, and the raw
// return lies behind either of them.
func ruleLegacyMarkers(c *eng.Ctx) {
	const rule = "legacy-markers"
	fn := c.NeedFn(rule, pkgRepo+".(*Repository).decompressUnpacked")
	if fn == nil || len(fn.Params) < 2 {
		return
	}
	pP := fn.Params[1]
	isFirstByte := func(v ssa.Value) bool {
		ld, ok := eng.Strip(v).(*ssa.UnOp)
		if !ok || ld.Op != token.MUL {
			return false
		}
		ia, ok := ld.X.(*ssa.IndexAddr)
		if !ok || !eng.SameAs(pP)(ia.X) {
			return false
		}
		k, isK := eng.ConstInt(ia.Index)
		return isK && k == 0
	}
	seen := map[int64]bool{}
	eng.CmpEdges(fn, func(op token.Token, x, y ssa.Value) (bool, bool) {
		if (op == token.EQL || op == token.NEQ) && isFirstByte(x) {
			if k, ok := eng.ConstInt(y); ok {
				seen[k] = true
			}
		}
		return false, false
	})
	c.Check(seen['['] && seen['{'], rule, "decompressUnpacked:both-json-openers", fn.Pos(), "p[0] is compared with '[' (%v) and with '{' (%v): files of a version 1 repository are stored raw", seen['['], seen['{'])
	c.Check(seen[2], rule, "decompressUnpacked:version-byte", fn.Pos(), "p[0] is compared with the version byte 2")
}
