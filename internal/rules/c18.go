package rules

import (
	"go/token"
	"go/types"
	"strings"

	"golang.org/x/tools/go/ssa"

	"verif/internal/eng"
)

const (
	pkgRestorer = "internal/restorer"
	pkgFS       = "internal/fs"
)

func originatesFromCall(c *eng.Ctx, v ssa.Value, names ...string) *ssa.Call {
	for _, r := range eng.Origins(v, nil) {
		if call := eng.RootCall(r); call != nil {
			for _, n := range names {
				if c.P.CalleeName(call) == n {
					return call
				}
			}
		}
	}
	return nil
}

// ruleNameGuards (C18): a node name from the snapshot reaches a file-system path only after
// it was shown to be a single path component that stays below the directory being restored.
func ruleNameGuards(c *eng.Ctx) {
	const rule = "name-guards"
	root := c.NeedFn(rule, pkgRestorer+".(*Restorer).traverseTreeInner")
	if root == nil {
		return
	}
	nameF := c.P.Field("internal/data.Node", "Name")
	n := 0
	for _, fn := range c.P.WithLits(root) {
		// nodeTarget := filepath.Join(target, nodeName) with nodeName from filepath.Base
		// … and it is the value handed to the visitor callbacks as the file-system path (argument 1;
		// argument 2 is the snapshot-relative location, which never touches the file system)
		var nodeTargets []*ssa.Call
		for _, call := range c.P.CallsTo(fn, "path/filepath.Join") {
			cv := call.(*ssa.Call)
			fromBase := false
			for _, a := range joinArgs(cv) {
				if b, _ := baseCallOf(c, a); b != nil {
					fromBase = true
				}
			}
			if !fromBase {
				continue
			}
			isPath := false
			for _, vc := range eng.Calls(fn) {
				if strings.HasPrefix(c.P.CalleeName(vc), "field:"+pkgRestorer+".treeVisitor.") && eng.Arg(vc, 1) != nil && eng.SameAs(cv)(eng.Arg(vc, 1)) {
					isPath = true
				}
			}
			if isPath {
				nodeTargets = append(nodeTargets, cv)
			}
		}
		if len(nodeTargets) == 0 {
			continue
		}
		c.Touch(fn)
		// (a) nodeName == node.Name
		sameName := eng.CmpEdges(fn, func(op token.Token, x, y ssa.Value) (bool, bool) {
			if op != token.EQL && op != token.NEQ {
				return false, false
			}
			if b, _ := baseCallOf(c, x); b == nil {
				x, y = y, x
			}
			if b, _ := baseCallOf(c, x); b == nil || nameF == nil || !eng.LoadsField(y, nameF) {
				return false, false
			}
			return true, op == token.EQL
		})
		// the Base is taken of Join(separator, node.Name): an absolute, cleaned path
		for _, nt := range nodeTargets {
			isNT := eng.SameAs(nt)
			// (b) target != nodeTarget, (c) HasPathPrefix(target, nodeTarget)
			notSame := eng.CmpEdges(fn, func(op token.Token, x, y ssa.Value) (bool, bool) {
				if (op != token.EQL && op != token.NEQ) || !(isNT(x) || isNT(y)) {
					return false, false
				}
				return true, op == token.NEQ
			})
			var prefix []ssa.CallInstruction
			for _, hp := range c.P.CallsTo(fn, pkgFS+".HasPathPrefix") {
				if isNT(eng.Arg(hp, 1)) {
					prefix = append(prefix, hp)
				}
			}
			// every call that receives nodeTarget (visitor callbacks, recursion), except logging
			for _, call := range eng.Calls(fn) {
				name := c.P.CalleeName(call)
				if name == "internal/debug.Log" || name == pkgFS+".HasPathPrefix" {
					continue
				}
				uses := false
				for _, a := range call.Common().Args {
					if isNT(a) {
						uses = true
					}
				}
				if !uses {
					continue
				}
				n++
				short := name[strings.LastIndex(name, ".")+1:]
				ci := call.(ssa.Instruction)
				c.MustPass(rule, "traverseTree:single-component-name→"+short, eng.Entry(fn), ci, eng.NewCut().AddEdges(sameName...), "filepath.Base(filepath.Join(\"/\", node.Name)) == node.Name")
				c.MustPass(rule, "traverseTree:not-the-directory-itself→"+short, eng.Entry(fn), ci, eng.NewCut().AddEdges(notSame...), "target != nodeTarget")
				c.MustPass(rule, "traverseTree:below-target→"+short, eng.Entry(fn), ci, eng.ResultCut(true, 0, prefix...), "fs.HasPathPrefix(target, nodeTarget)")
			}
		}
		// the name that is sanitised is rooted first (Join with the separator)
		okRooted := false
		isName := func(v ssa.Value) bool { return nameF != nil && eng.LoadsField(v, nameF) }
		for _, nt := range nodeTargets {
			for _, a := range joinArgs(nt) {
				if b, h := baseCallOf(c, a); b != nil && baseOfRootedName(c, b, h, isName) {
					okRooted = true
				}
			}
		}
		c.Check(okRooted, rule, "traverseTree:name-rooted-before-Base", fn.Pos(), "the component is computed as Base(Join(separator, node.Name)), so '..' and separators cannot survive")
	}
	if n < 4 {
		c.Unk(rule, "traverseTree:uses-of-nodeTarget", root.Pos(), "expected at least 4 calls receiving the child target path (enterDir, recursion, leaveDir, visitNode), found %d", n)
	}
}

// joinArgs returns the elements of the variadic argument of filepath.Join.
func joinArgs(call *ssa.Call) []ssa.Value {
	var out []ssa.Value
	if len(call.Call.Args) == 0 {
		return nil
	}
	sl, ok := call.Call.Args[0].(*ssa.Slice)
	if !ok {
		return call.Call.Args
	}
	a, ok := sl.X.(*ssa.Alloc)
	if !ok {
		return nil
	}
	for _, r := range *a.Referrers() {
		if ia, ok := r.(*ssa.IndexAddr); ok {
			for _, rr := range *ia.Referrers() {
				if st, ok := rr.(*ssa.Store); ok {
					out = append(out, st.Val)
				}
			}
		}
	}
	return out
}

// ruleDeleteGuard (C18, C20): --delete removes only entries below the directory, that are
// not part of the snapshot and are selected by the filter.
func ruleDeleteGuard(c *eng.Ctx) {
	const rule = "delete-guard"
	fn := c.NeedFn(rule, pkgRestorer+".(*Restorer).removeUnexpectedFiles")
	if fn == nil {
		return
	}
	rms := c.P.CallsTo(fn, pkgFS+".RemoveAll")
	if len(rms) == 0 {
		c.Unk(rule, "removeUnexpectedFiles:RemoveAll", fn.Pos(), "RemoveAll not found")
		return
	}
	sel := c.P.CallsTo(fn, "field:"+pkgRestorer+".Restorer.SelectFilter")
	for _, rm := range rms {
		ri := rm.(ssa.Instruction)
		path := eng.Arg(rm, 0)
		isP := eng.SameAs(path)
		var prefix []ssa.CallInstruction
		for _, hp := range c.P.CallsTo(fn, pkgFS+".HasPathPrefix") {
			if isP(eng.Arg(hp, 1)) {
				prefix = append(prefix, hp)
			}
		}
		notSame := eng.CmpEdges(fn, func(op token.Token, x, y ssa.Value) (bool, bool) {
			if (op != token.EQL && op != token.NEQ) || !(isP(x) || isP(y)) {
				return false, false
			}
			return true, op == token.NEQ
		})
		c.MustPass(rule, "removeUnexpectedFiles:below-target→RemoveAll", eng.Entry(fn), ri, eng.ResultCut(true, 0, prefix...), "fs.HasPathPrefix(target, nodeTarget)")
		c.MustPass(rule, "removeUnexpectedFiles:not-the-directory-itself→RemoveAll", eng.Entry(fn), ri, eng.NewCut().AddEdges(notSame...), "target != nodeTarget")
		c.MustPass(rule, "removeUnexpectedFiles:selected→RemoveAll", eng.Entry(fn), ri, eng.ResultCut(true, 0, sel...), "SelectFilter says the entry is selected for restore")
		// not in the snapshot: the keep-set lookup failed
		var notKept []eng.EdgeKey
		for _, b := range fn.Blocks {
			for _, in := range b.Instrs {
				if lk, ok := in.(*ssa.Lookup); ok && lk.CommaOk {
					for _, r := range *lk.Referrers() {
						if e, ok := r.(*ssa.Extract); ok && e.Index == 1 {
							notKept = append(notKept, eng.BoolEdges(fn, eng.SameAs(e), false)...)
						}
					}
				}
			}
		}
		c.MustPass(rule, "removeUnexpectedFiles:not-in-snapshot→RemoveAll", eng.Entry(fn), ri, eng.NewCut().AddEdges(notKept...), "the entry name is not among the names of the snapshot's directory")
		dryF := c.P.Field(pkgRestorer+".Options", "DryRun")
		c.MustPass(rule, "removeUnexpectedFiles:not-dry-run→RemoveAll", eng.Entry(fn), ri, eng.NewCut().AddEdges(eng.FieldEdges(fn, dryF, false)...), "opts.DryRun is false")
		// the path deleted is Join(target, entry) of the listed directory
		j := originatesFromCall(c, path, "path/filepath.Join")
		okJ := false
		if j != nil {
			for _, a := range joinArgs(j) {
				if eng.IsParam(fn, "target")(a) {
					okJ = true
				}
			}
		}
		c.Check(okJ, rule, "removeUnexpectedFiles:path-is-Join(target,entry)", rm.Pos(), "the deleted path is filepath.Join(target, entry)")
	}
	// the directory is listed without following a symlink
	nofollow, _ := constIntVal(c, rule, pkgFS+".O_NOFOLLOW")
	for _, rd := range c.SomeCalls(rule, fn, pkgFS+".Readdirnames") {
		k, isK := eng.ConstInt(eng.Arg(rd, 2))
		c.Check(isK && nofollow != 0 && k&nofollow == nofollow, rule, "removeUnexpectedFiles:list-with-O_NOFOLLOW", rd.Pos(), "the directory whose surplus entries are deleted is opened with O_NOFOLLOW")
	}
	c.Floor(rule, 7, 7)
}

// ruleNoFollow (C18): files are opened without following a symlink in the last component,
// and a replaced file is re-created exclusively.
func ruleNoFollow(c *eng.Ctx) {
	const rule = "nofollow"
	nofollow, ok1 := constIntVal(c, rule, pkgFS+".O_NOFOLLOW")
	excl, ok2 := constIntVal(c, rule, pkgFS+".O_EXCL")
	creat, ok3 := constIntVal(c, rule, pkgFS+".O_CREATE")
	if !ok1 || !ok2 || !ok3 || nofollow == 0 {
		if nofollow == 0 && ok1 {
			c.Note("O_NOFOLLOW is 0 in configuration %s: rule nofollow not applicable here", c.P.Cfg)
			c.Ok(rule, "nofollow:not-applicable", 0, "O_NOFOLLOW has no meaning in this build configuration (%s)", c.P.Cfg)
		}
		return
	}
	n := 0
	for _, fn := range c.P.Funcs {
		if eng.PkgOf(fn) != pkgRestorer {
			continue
		}
		for _, call := range c.P.CallsTo(fn, pkgFS+".OpenFile") {
			n++
			c.Touch(fn)
			k, isK := eng.ConstInt(eng.Arg(call, 1))
			c.Check(isK && k&nofollow == nofollow, rule, c.P.FnName(fn)+"→OpenFile:O_NOFOLLOW", call.Pos(), "fs.OpenFile in package restorer carries O_NOFOLLOW (flags %#x)", k)
			// a re-create after removing the obstacle must be exclusive
			if isK && k&creat == creat {
				var removes []ssa.CallInstruction
				removes = append(removes, c.P.CallsTo(fn, pkgFS+".Remove", pkgFS+".RemoveAll")...)
				after := false
				for _, rm := range removes {
					if eng.FindPath(eng.After(rm.(ssa.Instruction)), call.(ssa.Instruction), nil) != nil {
						after = true
					}
				}
				if after {
					c.Check(k&excl == excl, rule, c.P.FnName(fn)+"→OpenFile-after-remove:O_EXCL", call.Pos(), "the file created after removing an obstacle is opened with O_EXCL (nothing can be swapped in)")
				}
			}
		}
	}
	if n < 4 {
		c.Unk(rule, "floor", 0, "expected at least 4 fs.OpenFile sites in package restorer, found %d", n)
	}
}

// ruleDirNotSymlink (C18): a directory below the target is used only if lstat showed that
// it does not exist yet or is a real directory, or after the foreign object was removed.
func ruleDirNotSymlink(c *eng.Ctx) {
	const rule = "dir-not-symlink"
	fn := c.NeedFn(rule, pkgRestorer+".(*Restorer).ensureDir")
	if fn == nil {
		return
	}
	mk := c.P.CallsTo(fn, pkgFS+".MkdirAll")
	// the examination (Lstat, remove what is not a directory) happens in ensureDir itself or in
	// a private helper it calls before MkdirAll
	ex := fn
	var exCall ssa.CallInstruction
	lstats := c.P.CallsTo(fn, pkgFS+".Lstat")
	if len(lstats) == 0 {
		for _, call := range callsReaching(c, fn, 1, func(x ssa.CallInstruction) bool { return c.P.CalleeName(x) == pkgFS+".Lstat" }) {
			if h := call.Common().StaticCallee(); h != nil && len(h.Blocks) > 0 && eng.PkgOf(h) == pkgRestorer {
				ex, exCall = h, call
				lstats = c.P.CallsTo(h, pkgFS+".Lstat")
			}
		}
	}
	rm := c.P.CallsTo(ex, pkgFS+".Remove")
	if len(lstats) != 1 || len(mk) == 0 {
		c.Unk(rule, "ensureDir:anchors", fn.Pos(), "expected one fs.Lstat and a fs.MkdirAll, found %d and %d", len(lstats), len(mk))
		return
	}
	var isDir, notExist []ssa.CallInstruction
	for _, call := range eng.Calls(ex) {
		switch {
		case eng.MethodName(call) == "IsDir":
			isDir = append(isDir, call)
		case c.P.CalleeName(call) == "internal/errors.Is" || c.P.CalleeName(call) == "errors.Is":
			notExist = append(notExist, call)
		}
	}
	dryF := c.P.Field(pkgRestorer+".Options", "DryRun")
	cut := eng.Union(eng.ResultCut(true, 0, isDir...), eng.ResultCut(true, 0, notExist...), eng.SuccessCut(rm...))
	const what = "lstat: does not exist, or IsDir() is true, or the non-directory (file, symlink, …) was removed successfully"
	if exCall != nil {
		c.Touch(ex)
		// the helper reports success only in those three cases …
		for _, r := range eng.Returns(ex) {
			if c.P.MayBeNil(eng.RetVal(r, len(r.Results)-1)) {
				c.MustPass(rule, "ensureDir:absent-or-real-directory-or-removed→MkdirAll", eng.After(lstats[0].(ssa.Instruction)), r, cut, what)
				c.MustPass(rule, "ensureDir:lstat→MkdirAll", eng.Entry(ex), r, eng.CallCut(lstats...), "the path is examined with Lstat (no symlink following) first")
			}
		}
		// … and the directory is created only after it did
		for _, m := range mk {
			c.MustPass(rule, "ensureDir:examined→MkdirAll", eng.Entry(fn), m.(ssa.Instruction), eng.SuccessCut(exCall), c.P.FnName(ex)+" returned nil")
			samePath := eng.IsParam(fn, "target")(eng.Arg(m, 0))
			okBind := false
			for i, hp := range ex.Params {
				if eng.SameAs(hp)(eng.Arg(lstats[0], 0)) && i < len(exCall.Common().Args) && eng.IsParam(fn, "target")(exCall.Common().Args[i]) {
					okBind = true
				}
			}
			c.Check(samePath && okBind, rule, "ensureDir:same-path", m.Pos(), "the path examined is the path created")
		}
	} else {
		for _, m := range mk {
			c.MustPass(rule, "ensureDir:absent-or-real-directory-or-removed→MkdirAll", eng.After(lstats[0].(ssa.Instruction)), m.(ssa.Instruction), cut, what)
			c.MustPass(rule, "ensureDir:lstat→MkdirAll", eng.Entry(fn), m.(ssa.Instruction), eng.Union(eng.CallCut(lstats...)), "the path is examined with Lstat (no symlink following) first")
			c.Check(eng.IsParam(fn, "target")(eng.Arg(m, 0)) && eng.IsParam(fn, "target")(eng.Arg(lstats[0], 0)), rule, "ensureDir:same-path", m.Pos(), "the path examined is the path created")
		}
	}
	_ = dryF
	// every directory the restorer creates below the target goes through ensureDir
	for _, f := range c.P.Funcs {
		if eng.PkgOf(f) != pkgRestorer {
			continue
		}
		for _, call := range c.P.CallsTo(f, pkgFS+".MkdirAll", "os.MkdirAll", "os.Mkdir") {
			rootName := c.P.FnName(eng.Root(f))
			ok := rootName == pkgRestorer+".(*Restorer).ensureDir" || (rootName == pkgRestorer+".(*Restorer).RestoreTo" && f == eng.Root(f))
			c.Check(ok, rule, c.P.FnName(f)+"→MkdirAll", call.Pos(), "directories are created only by ensureDir (and once for the restore target itself in RestoreTo)")
		}
	}
	c.Floor(rule, 4, 5)
}

// ---- C19 ------------------------------------------------------------------

func ruleCreateFile(c *eng.Ctx) {
	const rule = "create-file"
	fn := c.NeedFn(rule, pkgRestorer+".createFile")
	if fn == nil {
		return
	}
	excl, _ := constIntVal(c, rule, pkgFS+".O_EXCL")
	es := c.P.CallsTo(fn, pkgRestorer+".ensureSize")
	var exclOpen []ssa.CallInstruction
	for _, o := range c.P.CallsTo(fn, pkgFS+".OpenFile") {
		if k, isK := eng.ConstInt(eng.Arg(o, 1)); isK && excl != 0 && k&excl == excl {
			exclOpen = append(exclOpen, o)
		}
	}
	if len(es) == 0 || len(exclOpen) == 0 {
		c.Unk(rule, "createFile:anchors", fn.Pos(), "ensureSize (%d) or the O_EXCL re-create (%d) not found", len(es), len(exclOpen))
		return
	}
	// success only through ensureSize
	for _, r := range eng.Returns(fn) {
		rv := eng.RetVal(r, 1)
		if !c.P.MayBeNil(rv) {
			continue
		}
		direct := false
		for _, o := range eng.Origins(rv, nil) {
			for _, e := range es {
				if call := eng.RootCall(o); call != nil && ssa.CallInstruction(call) == e {
					direct = true
				}
			}
		}
		if direct {
			c.Ok(rule, "createFile:success-only-through-ensureSize", r.Pos(), "the result of ensureSize is returned")
		} else {
			c.NilOnlyVia(rule, "createFile:success-only-through-ensureSize", rv, r, eng.CallCut(es...), "ensureSize(f, fi, createSize, sparse)")
		}
	}
	// an existing object is reused only if it is a regular file with a single link
	var regular []ssa.CallInstruction
	for _, call := range eng.Calls(fn) {
		if eng.MethodName(call) == "IsRegular" {
			regular = append(regular, call)
		}
	}
	linksF := c.P.Field(pkgFS+".ExtendedFileInfo", "Links")
	oneLink := eng.CmpEdges(fn, func(op token.Token, x, y ssa.Value) (bool, bool) {
		if linksF == nil || !eng.LoadsField(x, linksF) {
			return false, false
		}
		if k, isK := eng.ConstInt(y); isK && k == 1 {
			switch op {
			case token.GTR:
				return true, false
			case token.LEQ:
				return true, true
			}
		}
		return false, false
	})
	for _, e := range es {
		ei := e.(ssa.Instruction)
		regCut := eng.ResultCut(true, 0, regular...)
		for _, rg := range regular {
			regCut.AddEdges(eng.DerivedBoolEdges(fn, eng.SameAs(rg.Value()), true)...)
		}
		c.MustPass(rule, "createFile:reused-only-if-regular", eng.Entry(fn), ei, eng.Union(eng.SuccessCut(exclOpen...), regCut), "the opened object is a regular file, or it was removed and re-created with O_EXCL")
		c.MustPass(rule, "createFile:reused-only-if-single-link", eng.Entry(fn), ei, eng.Union(eng.SuccessCut(exclOpen...), eng.NewCut().AddEdges(oneLink...)), "the existing file has a single link, or it was removed and re-created with O_EXCL")
	}
	// ensureSize: a longer file is truncated
	if ef := c.NeedFn(rule, pkgRestorer+".ensureSize"); ef != nil {
		tr := 0
		for _, call := range eng.Calls(ef) {
			if eng.MethodName(call) == "Truncate" || c.P.CalleeName(call) == pkgRestorer+".truncateSparse" {
				tr++
			}
		}
		c.Check(tr >= 2, rule, "ensureSize:truncates", ef.Pos(), "ensureSize truncates a file that is longer than the snapshot content (sparse and non-sparse path)")
	}
	c.Floor(rule, 4, 4)
}

// ruleSparseOff (C19): holes are never assumed in a file that already existed.
func ruleSparseOff(c *eng.Ctx) {
	const rule = "sparse-off-for-existing"
	fn := c.NeedFn(rule, pkgRestorer+".(*fileRestorer).restoreFiles")
	if fn == nil {
		return
	}
	sparseF := c.P.Field(pkgRestorer+".fileInfo", "sparse")
	stateF := c.P.Field(pkgRestorer+".fileInfo", "state")
	if sparseF == nil || stateF == nil {
		c.Unk(rule, "anchor:fileInfo", fn.Pos(), "fields do not resolve")
		return
	}
	var falseStores, otherStores []ssa.Instruction
	for _, st := range c.P.FieldStoresIn(fn, sparseF) {
		if st.Parent() != fn {
			continue
		}
		if k, ok := st.Val.(*ssa.Const); ok && k.Value != nil && k.Value.String() == "false" {
			falseStores = append(falseStores, st)
		} else {
			otherStores = append(otherStores, st)
		}
	}
	// stores inside the per-blob callback happen during the forEachBlob call
	for _, call := range c.P.CallsTo(fn, pkgRestorer+".(*fileRestorer).forEachBlob") {
		otherStores = append(otherStores, call.(ssa.Instruction))
	}
	if len(falseStores) == 0 {
		c.Bad(rule, "restoreFiles:sparse=false-for-existing-files", fn.Pos(), "no `file.sparse = false` found")
		return
	}
	noState := eng.NilEdges(fn, func(v ssa.Value) bool { return eng.LoadsField(v, stateF) }, true)
	back := eng.NewCut().AddEdges(backEdges(fn)...)
	// iteration end: any back edge source terminator
	for _, s := range otherStores {
		for _, be := range backEdges(fn) {
			term := fn.Blocks[be[0]].Instrs[len(fn.Blocks[be[0]].Instrs)-1]
			if eng.FindPath(eng.After(s), term, nil) == nil {
				continue
			}
			cut := eng.NewCut().AddInstrs(falseStores...).AddEdges(noState...)
			if p := eng.FindPath(eng.After(s), term, eng.Union(cut, eng.NewCut())); p != nil {
				// ignore paths that wrap around the loop more than once
				if p2 := eng.FindPath(eng.After(s), term, eng.Union(cut, withoutEdge(back, be))); p2 != nil {
					c.Bad(rule, "restoreFiles:sparse=false-for-existing-files", s.Pos(), "after sparse may have been enabled, an existing file (file.state != nil) reaches the end of the iteration without `file.sparse = false`: %s", c.P.PathString(p2))
					return
				}
			}
		}
	}
	for _, fs := range falseStores {
		c.MustPass(rule, "restoreFiles:sparse=false-only-for-existing-files", eng.Entry(fn), fs, eng.NewCut().AddEdges(eng.NilEdges(fn, func(v ssa.Value) bool { return eng.LoadsField(v, stateF) }, false)...), "file.state != nil")
	}
	c.Ok(rule, "restoreFiles:sparse=false-for-existing-files", falseStores[0].Pos(), "every path on which sparse may have been enabled for a file with existing state passes `file.sparse = false` before the iteration ends")
}

func withoutEdge(c *eng.Cut, e eng.EdgeKey) *eng.Cut {
	out := eng.NewCut()
	for k := range c.Edges {
		if k != e {
			out.Edges[k] = true
		}
	}
	return out
}

// ruleOverwriteModes (C19): shouldOverwrite, evaluated for each overwrite mode.
func ruleOverwriteModes(c *eng.Ctx) {
	const rule = "overwrite-exhaustive"
	fn := c.NeedFn(rule, pkgRestorer+".shouldOverwrite")
	if fn == nil {
		return
	}
	named := c.P.NamedType(pkgRestorer + ".OverwriteBehavior")
	if named == nil {
		c.Unk(rule, "anchor:OverwriteBehavior", fn.Pos(), "type does not resolve")
		return
	}
	isP := eng.IsParam(fn, "overwrite")
	sc := c.P.Pkg(pkgRestorer).Types.Scope()
	n := 0
	for _, name := range sc.Names() {
		k, ok := sc.Lookup(name).(*types.Const)
		if !ok || !types.Identical(k.Type(), named) {
			continue
		}
		val, _ := constIntOf(k)
		n++
		seed := func(env *eng.PSEnv) { seedCompare(env, fn, isP, val) }
		panicReach := false
		for _, p := range eng.Panics(fn) {
			if c.P.FindPathSeeded(eng.Entry(fn), func(in ssa.Instruction) bool { return in == ssa.Instruction(p) }, nil, nil, seed) != nil {
				panicReach = true
			}
		}
		lstatReach := false
		for _, l := range c.P.CallsTo(fn, pkgFS+".Lstat") {
			if c.P.FindPathSeeded(eng.Entry(fn), func(in ssa.Instruction) bool { return in == l.(ssa.Instruction) }, nil, nil, seed) != nil {
				lstatReach = true
			}
		}
		switch name {
		case "OverwriteInvalid":
			c.Ok(rule, "shouldOverwrite:"+name, fn.Pos(), "the invalid mode is rejected when the option is parsed; reaching shouldOverwrite with it panics (%v)", panicReach)
		case "OverwriteAlways", "OverwriteIfChanged":
			c.Check(!panicReach && !lstatReach, rule, "shouldOverwrite:"+name, fn.Pos(), "%s: always overwrite, without looking at the existing file (panic reachable: %v, lstat reachable: %v)", name, panicReach, lstatReach)
		default:
			c.Check(!panicReach && lstatReach, rule, "shouldOverwrite:"+name, fn.Pos(), "%s is handled: the existing file is examined and no 'unknown overwrite behavior' panic is reachable (panic reachable: %v)", name, panicReach)
			if name == "OverwriteNever" {
				// true only if the destination does not exist
				var notExist []ssa.CallInstruction
				for _, call := range eng.Calls(fn) {
					if n := c.P.CalleeName(call); n == "internal/errors.Is" || n == "errors.Is" {
						notExist = append(notExist, call)
					}
				}
				ok := true
				for _, r := range eng.Returns(fn) {
					if kk, isK := eng.RetVal(r, 0).(*ssa.Const); isK && kk.Value != nil && kk.Value.String() == "false" {
						continue
					}
					if c.P.FindPathSeeded(eng.Entry(fn), func(in ssa.Instruction) bool { return in == ssa.Instruction(r) }, eng.ResultCut(true, 0, notExist...), nil, seed) != nil {
						ok = false
					}
				}
				c.Check(ok, rule, "shouldOverwrite:never-touches-existing", fn.Pos(), "with OverwriteNever a true result is reachable only if lstat reported ErrNotExist")
			}
		}
	}
	if n < 5 {
		c.Unk(rule, "floor", fn.Pos(), "expected 5 OverwriteBehavior constants, found %d", n)
	}
	// the callback runs only if shouldOverwrite said yes
	if w := c.NeedFn(rule, pkgRestorer+".(*Restorer).withOverwriteCheck"); w != nil {
		so := c.P.CallsTo(w, pkgRestorer+".shouldOverwrite")
		for _, cb := range c.SomeCalls(rule, w, "param:cb") {
			c.MustPass(rule, "withOverwriteCheck:overwrite-allowed→restore-callback", eng.Entry(w), cb.(ssa.Instruction), eng.ResultCut(true, 0, so...), "shouldOverwrite returned true")
			c.MustPass(rule, "withOverwriteCheck:no-error→restore-callback", eng.Entry(w), cb.(ssa.Instruction), eng.SuccessCut(so...), "shouldOverwrite returned no error")
		}
	}
}

// ---- C20 ------------------------------------------------------------------

func ruleSelectWiring(c *eng.Ctx) {
	const rule = "select-wiring"
	fn := c.NeedFn(rule, "cmd/restic.runRestore")
	if fn == nil {
		return
	}
	selF := c.P.Field(pkgRestorer+".Restorer", "SelectFilter")
	if selF == nil {
		c.Unk(rule, "anchor:Restorer.SelectFilter", fn.Pos(), "field does not resolve")
		return
	}
	// the literal that consults the exclude list and the one that consults the include list
	collect := map[string]ssa.Value{}
	for _, call := range eng.Calls(fn) {
		n := c.P.CalleeName(call)
		if strings.HasSuffix(n, "ExcludePatternOptions.CollectPatterns") || strings.HasSuffix(n, "(*ExcludePatternOptions).CollectPatterns") {
			collect["exclude"] = eng.Results(call)[0]
		}
		if strings.HasSuffix(n, "IncludePatternOptions.CollectPatterns") || strings.HasSuffix(n, "(*IncludePatternOptions).CollectPatterns") {
			collect["include"] = eng.Results(call)[0]
		}
	}
	if collect["exclude"] == nil || collect["include"] == nil {
		c.Unk(rule, "runRestore:pattern-lists", fn.Pos(), "CollectPatterns calls for excludes/includes not found")
		return
	}
	kindOfLit := func(l *ssa.Function) string {
		// which captured list does the literal range over?
		for i, fv := range l.FreeVars {
			_ = i
			src := captureSource(fn, l, fv)
			if src == nil {
				continue
			}
			for k, v := range collect {
				if eng.SameAs(v)(src) {
					return k
				}
			}
		}
		return ""
	}
	hasEdges := func(kind string) []eng.EdgeKey {
		return lenNonZeroEdges(fn, eng.SameAs(collect[kind]))
	}
	n := 0
	for _, st := range c.P.FieldStoresIn(fn, selF) {
		if st.Parent() != fn {
			continue
		}
		kind := ""
		for _, r := range eng.Origins(st.Val, nil) {
			if mc, ok := r.(*ssa.MakeClosure); ok {
				if l, ok := mc.Fn.(*ssa.Function); ok {
					kind = kindOfLit(l)
				}
			}
		}
		if kind == "" {
			c.Unk(rule, "runRestore:SelectFilter=?", st.Pos(), "cannot tell which pattern list the assigned filter consults")
			continue
		}
		n++
		other := "include"
		if kind == "include" {
			other = "exclude"
		}
		c.MustPass(rule, "runRestore:"+kind+"-filter-only-with-"+kind+"-patterns", eng.Entry(fn), st, eng.NewCut().AddEdges(hasEdges(kind)...), "len("+kind+" patterns) > 0")
		// mutually exclusive: with patterns of the other kind this store is unreachable or the command was rejected
		c.MustPass(rule, "runRestore:"+kind+"-filter-not-with-"+other+"-patterns", eng.Entry(fn), st, eng.NewCut().AddEdges(lenZeroEdges(fn, eng.SameAs(collect[other]))...), "len("+other+" patterns) == 0")
	}
	c.Check(n == 2, rule, "runRestore:two-filter-assignments", fn.Pos(), "SelectFilter is assigned the exclude filter and the include filter (%d assignments)", n)
	// traversal honours the filter
	root := c.P.Fn(pkgRestorer + ".(*Restorer).traverseTreeInner")
	if root == nil {
		c.Unk(rule, "anchor:traverseTreeInner", 0, "function does not resolve")
		return
	}
	m := 0
	for _, f := range c.P.WithLits(root) {
		sel := c.P.CallsTo(f, "field:"+pkgRestorer+".Restorer.SelectFilter")
		if len(sel) == 0 {
			continue
		}
		for _, call := range eng.Calls(f) {
			name := c.P.CalleeName(call)
			switch name {
			case "field:" + pkgRestorer + ".treeVisitor.visitNode", "field:" + pkgRestorer + ".treeVisitor.enterDir":
				m++
				c.MustPass(rule, "traverseTree:selected→"+name[strings.LastIndex(name, ".")+1:], eng.Entry(f), call.(ssa.Instruction), eng.ResultCut(true, 0, sel...), "SelectFilter: selectedForRestore")
			case pkgRestorer + ".(*Restorer).traverseTreeInner":
				m++
				c.MustPass(rule, "traverseTree:child-may-be-selected→recursion", eng.Entry(f), call.(ssa.Instruction), eng.ResultCut(true, 1, sel...), "SelectFilter: childMayBeSelected")
			}
		}
	}
	if m < 3 {
		c.Unk(rule, "traverseTree:filter-uses", root.Pos(), "expected visitNode, enterDir and the recursion to be guarded by SelectFilter, found %d guarded calls", m)
	}
}
