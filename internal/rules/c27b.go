package rules

import (
	"go/token"

	"golang.org/x/tools/go/ssa"

	"verif/internal/eng"
)

// pathDecides reports whether parameter idx of lit influences what lit returns or does beyond
// being printed: it is used in a comparison, or handed to a call whose result is used, or
// stored. It also reports whether lit writes variables it captured (a per-visit side effect).
func pathDecides(c *eng.Ctx, lit *ssa.Function, idx int) (decides bool, sideEffect bool) {
	if idx >= len(lit.Params) {
		return true, true
	}
	p := lit.Params[idx]
	isP := eng.IsParam(lit, p.Name())
	for _, b := range lit.Blocks {
		for _, in := range b.Instrs {
			switch x := in.(type) {
			case *ssa.BinOp:
				if isP(x.X) || isP(x.Y) {
					decides = true
				}
			case *ssa.Store:
				if _, isFV := x.Addr.(*ssa.FreeVar); isFV {
					sideEffect = true
				}
				if isP(x.Val) {
					if _, isAlloc := x.Addr.(*ssa.Alloc); !isAlloc {
						// stored somewhere other than the parameter's own spill slot / varargs array
						if _, isIA := x.Addr.(*ssa.IndexAddr); !isIA {
							decides = true
						}
					}
				}
			case ssa.CallInstruction:
				uses := false
				for _, a := range x.Common().Args {
					if isP(a) || mentionsVarargOf(a, isP) {
						uses = true
					}
				}
				if !uses {
					continue
				}
				if v := x.Value(); v != nil && v.Referrers() != nil && len(*v.Referrers()) > 0 && x.Common().Signature().Results().Len() > 0 {
					decides = true
				}
			}
		}
	}
	return decides, sideEffect
}

// mentionsVarargOf: a is the slice of a varargs array one of whose elements is the parameter.
func mentionsVarargOf(a ssa.Value, isP func(ssa.Value) bool) bool {
	sl, ok := a.(*ssa.Slice)
	if !ok {
		return false
	}
	arr, ok := sl.X.(*ssa.Alloc)
	if !ok {
		return false
	}
	for _, r := range *arr.Referrers() {
		if ia, ok := r.(*ssa.IndexAddr); ok {
			for _, r2 := range *ia.Referrers() {
				if st, ok := r2.(*ssa.Store); ok {
					v := st.Val
					if mi, isMI := v.(*ssa.MakeInterface); isMI {
						v = mi.X
					}
					if isP(v) {
						return true
					}
				}
			}
		}
	}
	return false
}

// ruleMemoNeedsPathIndependence (C27): TreeRewriter memoises rewritten subtrees by tree ID
// only. That is sound only if the node filter's verdict does not depend on the path and
// visiting a node has no side effect; otherwise a tree that occurs at two paths gets the
// verdict (and the statistics) of its first occurrence. So every construction of a
// TreeRewriter with a path-dependent or effectful filter must switch the memo off.
func ruleMemoNeedsPathIndependence(c *eng.Ctx) {
	const rule = "memo-needs-path-independence"
	sites := c.P.AllCallsTo(pkgWalker + ".NewTreeRewriter")
	n := 0
	for _, s := range sites {
		if eng.PkgOf(s.Fn) == pkgWalker && len(s.Fn.Params) == 0 {
			continue
		}
		ld, ok := eng.Strip(eng.Arg(s.Call, 0)).(*ssa.UnOp)
		if !ok || ld.Op != token.MUL {
			c.Unk(rule, c.P.FnName(s.Fn)+":options", s.Call.Pos(), "the RewriteOpts argument is not a local literal")
			continue
		}
		opts, ok := ld.X.(*ssa.Alloc)
		if !ok {
			c.Unk(rule, c.P.FnName(s.Fn)+":options", s.Call.Pos(), "the RewriteOpts argument is not a local literal")
			continue
		}
		n++
		fields := map[string]ssa.Value{}
		for _, r := range *opts.Referrers() {
			if fa, isFA := r.(*ssa.FieldAddr); isFA {
				for _, r2 := range *fa.Referrers() {
					if st, isSt := r2.(*ssa.Store); isSt && st.Addr == ssa.Value(fa) {
						if fv := eng.FieldVar(fa.X.Type(), fa.Field); fv != nil {
							fields[fv.Name()] = st.Val
						}
					}
				}
			}
		}
		// is the verdict path-dependent / effectful?
		needOff, why := false, ""
		classify := func(name string, v ssa.Value, pathIdx int) {
			if v == nil || eng.IsNilConst(v) {
				return
			}
			var lit *ssa.Function
			switch x := eng.Strip(v).(type) {
			case *ssa.MakeClosure:
				lit, _ = x.Fn.(*ssa.Function)
			case *ssa.Function:
				lit = x
			}
			if lit == nil {
				needOff, why = true, name+" is a function value this site does not define (its verdict may depend on the path)"
				return
			}
			d, e := pathDecides(c, lit, pathIdx)
			if d {
				needOff, why = true, name+" uses the path for its verdict (or hands it to another function whose result it uses)"
			} else if e {
				needOff, why = true, name+" updates captured variables on every visit"
			}
		}
		classify("RewriteNode", fields["RewriteNode"], 1)
		classify("KeepEmptyDirectory", fields["KeepEmptyDirectory"], 0)
		off := false
		if k, isK := fields["DisableNodeCache"].(*ssa.Const); isK && k.Value != nil && k.Value.String() == "true" {
			off = true
		}
		key := c.P.FnName(s.Fn) + ":memo-by-tree-id"
		if needOff {
			c.Check(off, rule, key, s.Call.Pos(), "the subtree memo (keyed by tree ID only) is switched off with the constant DisableNodeCache: true, because %s — otherwise a tree that occurs at two paths gets the result computed for its first path", why)
		} else {
			c.Ok(rule, key, s.Call.Pos(), "the filter's verdict does not depend on the path (the path is only printed) and it has no per-visit side effect: memoising rewritten subtrees by ID is sound (memo %s)", ifs(off, "off", "on"))
		}
	}
	if n < 2 {
		c.Unk(rule, "floor", 0, "expected at least 2 constructions of a TreeRewriter, found %d", n)
	}
	// the memo is consulted only when it exists, i.e. NewTreeRewriter creates it only with the cache enabled
	if nt := c.NeedFn(rule, pkgWalker+".NewTreeRewriter"); nt != nil {
		repF := c.P.Field(pkgWalker+".TreeRewriter", "replaces")
		offF := c.P.Field(pkgWalker+".RewriteOpts", "DisableNodeCache")
		for _, st := range c.P.FieldStoresIn(nt, repF) {
			c.MustPass(rule, "NewTreeRewriter:memo-only-if-enabled", eng.Entry(nt), st, eng.NewCut().AddEdges(eng.FieldEdges(nt, offF, false)...), "!opts.DisableNodeCache")
		}
	}
}
