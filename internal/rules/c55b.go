package rules

import (
	"go/token"

	"golang.org/x/tools/go/ssa"

	"verif/internal/eng"
)

// ruleTypeChangeNoticed (C55, items that cannot be read as what was listed): the archiver
// learns the type of an item from an lstat-like, metadata-only handle and only then opens it
// for reading. An item replaced by a symbolic link in between is noticed — and reported, which
// makes the backup incomplete — only because the real open still refuses to follow links:
//   - archiver.save opens the item it is about to classify with a flag word that contains
//     fs.O_NOFOLLOW;
//   - localFile.MakeReadable re-opens with the flags the handle was created with (it loads
//     f.flag, it does not make up a flag word);
//   - newLocalFile stores the flag word it was given in the handle and passes it to os.OpenFile
//     (through sanitizeFlags, which on the platforms that have O_NOFOLLOW returns it unchanged).
func ruleTypeChangeNoticed(c *eng.Ctx) {
	const rule = "type-change-noticed"
	nofollow, okK := constIntVal(c, rule, pkgFS+".O_NOFOLLOW")
	if !okK {
		return
	}
	if save := c.NeedFn(rule, pkgArch+".(*Archiver).save"); save != nil {
		n := 0
		for _, call := range eng.Calls(save) {
			if eng.MethodName(call) != "OpenFile" || !call.Common().IsInvoke() {
				continue
			}
			n++
			k, isK := eng.ConstInt(eng.Arg(call, 1))
			c.Check(isK && k&nofollow != 0, rule, "save:item-opened-without-following-links", call.Pos(), "save opens the item with fs.O_NOFOLLOW")
		}
		c.Check(n >= 1, rule, "save:opens-the-item", save.Pos(), "%d OpenFile calls in save", n)
	}
	flagF := c.P.Field(pkgFS+".localFile", "flag")
	if mr := c.NeedFn(rule, pkgFS+".(*localFile).MakeReadable"); mr != nil {
		calls := c.P.CallsTo(mr, pkgFS+".newLocalFile")
		c.Check(len(calls) == 1, rule, "MakeReadable:reopens", mr.Pos(), "%d calls of newLocalFile", len(calls))
		for _, call := range calls {
			ok := false
			if ld, isLd := eng.Strip(eng.Arg(call, 1)).(*ssa.UnOp); isLd && ld.Op == token.MUL {
				if fa, isFA := ld.X.(*ssa.FieldAddr); isFA && flagF != nil && eng.FieldVar(fa.X.Type(), fa.Field) == flagF && eng.SameAs(mr.Params[0])(fa.X) {
					ok = true
				}
			}
			c.Check(ok, rule, "MakeReadable:reopens-with-the-handles-flags", call.Pos(), "the handle is re-opened with f.flag (%s)", c.P.Describe(eng.Arg(call, 1)))
		}
	}
	if nl := c.NeedFn(rule, pkgFS+".newLocalFile"); nl != nil && len(nl.Params) >= 2 {
		flagP := nl.Params[1]
		stored := false
		for _, st := range c.P.FieldStoresIn(nl, flagF) {
			if eng.SameAs(flagP)(st.Val) {
				stored = true
			} else {
				c.Bad(rule, "newLocalFile:handle-remembers-its-flags", st.Pos(), "localFile.flag is set to something other than the flag parameter (%s)", c.P.Describe(st.Val))
			}
		}
		c.Check(stored, rule, "newLocalFile:handle-remembers-its-flags", nl.Pos(), "the handle stores the flag word it was opened with")
		for _, call := range c.P.CallsTo(nl, "os.OpenFile") {
			arg := eng.Arg(call, 1)
			ok := eng.SameAs(flagP)(arg)
			if sc := eng.RootCall(arg); !ok && sc != nil && c.P.CalleeName(sc) == pkgFS+".sanitizeFlags" && eng.SameAs(flagP)(eng.Arg(sc, 0)) {
				ok = true
				// where O_NOFOLLOW is a real open flag, sanitizeFlags hands it through
				if sf := c.P.Fn(pkgFS + ".sanitizeFlags"); sf != nil && c.P.Cfg.GOOS != "windows" {
					ident := true
					for _, r := range eng.Returns(sf) {
						if !eng.SameAs(sf.Params[0])(eng.RetVal(r, 0)) {
							ident = false
						}
					}
					c.Check(ident, rule, "sanitizeFlags:keeps-nofollow", sf.Pos(), "sanitizeFlags returns its argument on this platform")
				}
			}
			c.Check(ok, rule, "newLocalFile:opens-with-the-given-flags", call.Pos(), "os.OpenFile receives the caller's flag word")
		}
	}
}
