package rules

import (
	"go/token"
	"strings"

	"golang.org/x/tools/go/ssa"

	"verif/internal/eng"
)

// ruleCheckFreshCache (C03): check never verifies the repository against a pre-existing
// local cache: before the repository is opened, runCheck redirects the cache to a fresh
// temporary directory (or disables it), unless the user explicitly asked for --with-cache.
func ruleCheckFreshCache(c *eng.Ctx) {
	const rule = "check-fresh-cache"
	prep := c.NeedFn(rule, "cmd/restic.prepareCheckCache")
	run := c.NeedFn(rule, "cmd/restic.runCheck")
	if prep == nil || run == nil {
		return
	}
	withCache := c.P.Field("cmd/restic.CheckOptions", "WithCache")
	noCache := c.P.Field("internal/global.Options", "NoCache")
	cacheDir := c.P.Field("internal/global.Options", "CacheDir")
	if withCache == nil || noCache == nil || cacheDir == nil {
		c.Unk(rule, "anchor:options-fields", prep.Pos(), "CheckOptions.WithCache / Options.NoCache / Options.CacheDir do not resolve")
		return
	}
	// (a) every way out of prepareCheckCache has decided the cache: explicit opt-in, no cache,
	// or CacheDir redirected to a directory created by os.MkdirTemp
	cut := eng.NewCut()
	cut.AddEdges(eng.FieldEdges(prep, withCache, true)...)
	cut.AddEdges(eng.FieldEdges(prep, noCache, true)...)
	nDir := 0
	for _, st := range c.P.FieldStoresIn(prep, noCache) {
		if st.Parent() == prep {
			cut.AddInstrs(st)
		}
	}
	for _, st := range c.P.FieldStoresIn(prep, cacheDir) {
		if st.Parent() != prep {
			continue
		}
		fresh := false
		for _, r := range eng.Origins(st.Val, nil) {
			if c.P.IsCallOf(r, "os.MkdirTemp") {
				fresh = true
			}
		}
		c.Check(fresh, rule, "prepareCheckCache:CacheDir=fresh-temp-dir", st.Pos(), "Options.CacheDir is redirected to a directory just created by os.MkdirTemp")
		if fresh {
			cut.AddInstrs(st)
			nDir++
		}
	}
	if nDir == 0 {
		c.Bad(rule, "prepareCheckCache:CacheDir=fresh-temp-dir", prep.Pos(), "prepareCheckCache never redirects Options.CacheDir to a fresh temporary directory")
	}
	for _, r := range eng.Returns(prep) {
		c.MustPass(rule, "prepareCheckCache:cache-decided→return", eng.Entry(prep), r, cut, "--with-cache, no cache, or CacheDir redirected to a fresh directory")
	}
	// (b) runCheck prepares the cache before it opens the repository, on the same options value
	preps := c.P.CallsTo(run, "cmd/restic.prepareCheckCache")
	var opens []ssa.CallInstruction
	for _, call := range eng.Calls(run) {
		if n := c.P.CalleeName(call); strings.HasPrefix(n, "cmd/restic.openWith") || n == "cmd/restic.internalOpenWithLocked" {
			opens = append(opens, call)
		}
	}
	if len(opens) == 0 || len(preps) == 0 {
		c.Unk(rule, "runCheck:open/prepare", run.Pos(), "expected a prepareCheckCache call (%d) and a repository open (%d) in runCheck", len(preps), len(opens))
		return
	}
	for _, o := range opens {
		c.MustPass(rule, "runCheck:fresh-cache-prepared→open-repository", eng.Entry(run), o.(ssa.Instruction), eng.CallCut(preps...), "prepareCheckCache(opts, &gopts, …) executed before the repository is opened")
		// the options value handed to the open is the variable whose address was prepared
		same := false
		for _, p := range preps {
			var cell ssa.Value
			for _, a := range p.Common().Args {
				if al, ok := a.(*ssa.Alloc); ok {
					cell = al
				}
			}
			for _, a := range o.Common().Args {
				if ld, ok := a.(*ssa.UnOp); ok && ld.Op == token.MUL && ld.X == cell && cell != nil {
					same = true
				}
			}
		}
		c.Check(same, rule, "runCheck:open-uses-prepared-options", o.Pos(), "the repository is opened with the global options that prepareCheckCache modified")
	}
	c.Floor(rule, 5, 7)
}
