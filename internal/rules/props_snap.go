package rules

import "verif/internal/eng"

func init() {
	register(&Property{
		ID: "C26",
		Explanation: "Decides, for every crash point: (replace-order) all snapshot-removal sites of the program (RemoveUnpacked/ParallelRemove with WriteableSnapshotFile) are enumerated; no removal can be followed by data.SaveSnapshot in the same function (remove-then-save would open a window without any snapshot); each site is either a replacement — reachable only through the success edge of SaveSnapshot and removing sn.ID() of the replaced snapshot —, the delete-empty case behind filteredTree.IsNull() on which nothing is saved, or one of two named exceptions (forget; removal of an unreadable snapshot file); (original-set) before the new snapshot is saved, sn.Original is assigned sn.ID() or was already set; (snapshot-after-upload) the rewritten tree is flushed before the snapshot is saved; (unreadable-removal-needs-named-id) the one removal without a saved successor — an unreadable snapshot file in repair snapshots — happens only with --forget, for an id the user named on the command line, outside a dry run (added after a seeded change that applied --forget to every snapshot whose load failed). Not decided: that the tree is kept unless a filter changed it (data-dependent).",
		Assumptions: commonAssumptions,
		Technique:   "static analysis: enumeration of all snapshot-removal sites + CFG edge cuts against SaveSnapshot (go/ssa)",
		AllConfigs:  true,
		Run: func(c *eng.Ctx) {
			ruleReplaceOrder(c)
			ruleSnapshotAfterUpload(c)
			ruleUnreadableSnapshotRemoval(c)
		},
		Controls: []Control{
			{Name: "unreadable-snapshot-removed-without-forget", File: "cmd/restic/cmd_repair_snapshots.go",
				Old: "	if opts.Forget && slices.Index(args, id) >= 0 {", New: "	if opts.Forget || slices.Index(args, id) >= 0 {", Rule: "unreadable-removal-needs-named-id"},
			{Name: "tag-removes-before-saving", File: "cmd/restic/cmd_tag.go",
				Old: "		// Save the new snapshot.\n		id, err := data.SaveSnapshot(ctx, repo, sn)\n		if err != nil {\n			return false, err\n		}\n\n		debug.Log(\"old snapshot %v saved as a new snapshot %v\", sn.ID(), id)\n\n		// Remove the old snapshot.\n		if err = repo.RemoveUnpacked(ctx, restic.WriteableSnapshotFile, *sn.ID()); err != nil {\n			return false, err\n		}\n",
				New: "		// Remove the old snapshot.\n		if err := repo.RemoveUnpacked(ctx, restic.WriteableSnapshotFile, *sn.ID()); err != nil {\n			return false, err\n		}\n\n		// Save the new snapshot.\n		id, err := data.SaveSnapshot(ctx, repo, sn)\n		if err != nil {\n			return false, err\n		}\n", Rule: "replace-order"},
			{Name: "rewrite-removes-despite-failed-save", File: "cmd/restic/cmd_rewrite.go",
				Old: "	id, err := data.SaveSnapshot(ctx, repo, sn)\n	if err != nil {\n		return false, err\n	}\n	printer.P(\"saved new snapshot %v\", id.Str())", New: "	id, err := data.SaveSnapshot(ctx, repo, sn)\n	if err != nil {\n		printer.E(\"saving failed: %v\", err)\n	}\n	printer.P(\"saved new snapshot %v\", id.Str())", Rule: "replace-order"},
			{Name: "rewrite-forgets-original", File: "cmd/restic/cmd_rewrite.go",
				Old: "	sn.Original = sn.ID()\n	sn.Tree = &filteredTree", New: "	sn.Tree = &filteredTree", Rule: "original-set"},
		},
	})
	register(&Property{
		ID: "C53",
		Explanation: "Decides the guards of the comparison, not the listed set for given trees (the plan listed this property as not applicable; re-examination found that each marker is carried by a guard): (dual-merge) by specialised evaluation of data.DualTreeIterator's loop with both sides non-empty: when tree 1's next name is smaller only tree 1's node is handed out, when tree 2's is smaller only tree 2's, for equal names both together; an iterator is advanced only when its node is handed out and every handed-out node's iterator is advanced before the pair is yielded; (diff-markers) Comparer.diffTree prints '-' only with node2 == nil and node1 != nil, '+' only with node1 == nil and node2 != nil, a modified pair only when both are present and the modifier string is non-empty; the letter T is appended only on the edge where the types differ, M only for two files whose content lists are not DeepEqual; the recursion into subdirectories is reached only when the two subtree IDs differ and compares node1.Subtree with node2.Subtree, and collectDir, which handles identical subtrees, reports nothing; (printdir-lists-everything) below an added or removed directory printDir prints every node before it goes on to the next one, and whether it descends into a subdirectory is decided by the node's type alone (added after a seeded change that skipped subtrees whose tree blob had been seen before, dropping the paths of identical subtrees); (type-change-lists-children) when the two types differ, the paths below the side that is a directory exist in only one snapshot and can only be listed by printDir — on the pinned tree no printDir call is reachable from the types-differ edge, diff prints `T /d` and nothing for /d/x (demonstrated; KNOWN-FINDING, the repair adds lines to diff's output and statistics). Not decided: that both trees are sorted by name (C41), the statistics, and metadata-only changes (U).",
		Assumptions: commonAssumptions,
		Technique:   "static analysis: specialised path evaluation of the merge loop with nil-ness of the yielded sides + CFG edge cuts per marker (go/ssa)",
		Run: func(c *eng.Ctx) {
			ruleDualMerge(c)
			ruleDiffMarkers(c)
			rulePrintDirListsEverything(c)
			ruleTypeChangeListsChildren(c)
		},
		Controls: []Control{
			{Name: "added-directory-lists-only-files", File: "cmd/restic/cmd_diff.go",
				Old: "		c.printChange(NewChange(name, mode))\n		stats.Add(node)\n		addBlobs(blobs, node)\n\n		if node.Type == data.NodeTypeDir {\n			err := c.printDir(", New: "		if node.Type != data.NodeTypeDir {\n			c.printChange(NewChange(name, mode))\n		}\n		stats.Add(node)\n		addBlobs(blobs, node)\n\n		if node.Type == data.NodeTypeDir {\n			err := c.printDir(", Rule: "printdir-lists-everything"},
			{Name: "merge-keeps-larger-name", File: "internal/data/tree.go",
				Old: "				if node1.Name < node2.Name {\n					node2 = nil\n				} else if node1.Name > node2.Name {\n					node1 = nil\n				}", New: "				if node1.Name < node2.Name {\n					node1 = nil\n				} else if node1.Name > node2.Name {\n					node2 = nil\n				}", Rule: "dual-merge"},
			{Name: "both-sides-always-advanced", File: "internal/data/tree.go",
				Old: "			if node2 != nil {\n				if err = iter2.Next(); err != nil {\n					break\n				}\n			}", New: "			if err = iter2.Next(); err != nil {\n				break\n			}", Rule: "dual-merge"},
			{Name: "modified-marker-for-any-type", File: "cmd/restic/cmd_diff.go",
				Old: "			if node1.Type == data.NodeTypeFile &&\n				node2.Type == data.NodeTypeFile &&\n				!reflect.DeepEqual(node1.Content, node2.Content) {", New: "			if !reflect.DeepEqual(node1.Content, node2.Content) {", Rule: "diff-markers"},
			{Name: "identical-subtrees-descended", File: "cmd/restic/cmd_diff.go",
				Old: "				if (*node1.Subtree).Equal(*node2.Subtree) {\n					err = c.collectDir(ctx, stats.BlobsCommon, *node1.Subtree)\n				} else {\n					err = c.diffTree(ctx, stats, name, *node1.Subtree, *node2.Subtree)\n				}", New: "				err = c.diffTree(ctx, stats, name, *node1.Subtree, *node2.Subtree)", Rule: "diff-markers"},
			{Name: "unchanged-pairs-printed", File: "cmd/restic/cmd_diff.go",
				Old: "			if mod != \"\" {\n				c.printChange(NewChange(name, mod))\n			}", New: "			c.printChange(NewChange(name, mod))", Rule: "diff-markers"},
		},
	})
	register(&Property{
		ID: "C57",
		Explanation: "Decides the structural form of 'unique match or error' in restic.Find (the plan listed this property as not applicable; re-examination showed that the clause is carried by guards, not by a frozen source fragment): (unique-prefix-match) the listing callback records an ID only on the edge where the prefix equals id.String()[:len(prefix)] and only while no match is recorded yet; with a match already recorded, a further ID with the prefix makes the callback return a non-nil error; Find returns a nil error only if the listing returned nil and a match is recorded, and then returns that recorded ID; (find-errors-propagate) at each of the call sites of Find (key remove, repair snapshots, debug, snapshot lookup) the error is returned or handed on before the function can return — the key hint of searchKey is exempt by name (a hint that does not resolve is logged and all keys are tried). Not decided: that the listing enumerates every file of the type (backend contract) and case/length handling of the prefix beyond the comparison shown.",
		Assumptions: commonAssumptions,
		Technique:   "static analysis: CFG edge cuts on the prefix test and the first-match test + path-sensitive error flow (go/ssa)",
		Run:         func(c *eng.Ctx) { ruleUniquePrefixMatch(c); ruleFindErrorsPropagate(c) },
		Controls: []Control{
			{Name: "key-remove-ignores-find-error", File: "cmd/restic/cmd_key_remove.go",
				Old: "	id, err := restic.Find(ctx, repo, restic.KeyFile, idPrefix)\n	if err != nil {\n		return err\n	}\n", New: "	id, err := restic.Find(ctx, repo, restic.KeyFile, idPrefix)\n	if err != nil {\n		id = restic.ID{}\n	}\n", Rule: "find-errors-propagate"},
			{Name: "second-match-overwrites-first", File: "internal/restic/backend_find.go",
				Old: "			if match.IsNull() {\n				match = id\n			} else {\n				return &MultipleIDMatchesError{prefix}\n			}", New: "			match = id", Rule: "unique-prefix-match"},
			{Name: "no-match-returns-null-id", File: "internal/restic/backend_find.go",
				Old: "	if !match.IsNull() {\n		return match, nil\n	}\n", New: "	if !match.IsNull() || prefix == \"\" {\n		return match, nil\n	}\n", Rule: "unique-prefix-match"},
		},
	})
	register(&Property{
		ID: "C54",
		Explanation: "Decides the accounting structure of stats --mode restore-size, not the sums (the plan listed this property as not applicable; the 'hard links once per snapshot' clause turned out to be a test-and-set shape): (restore-size-accounting) in restore-size mode every visited node increments TotalFileCount on every path; TotalSize is increased only for a node with a single link, a directory, a node whose (inode, device) was not seen before in this snapshot, or a node without inode number; on the not-seen-before edge the pair is recorded in the hard link index before the size is added; Has and Add are keyed by the node's inode; and every snapshot is walked with a hard link index created for it; (stats-walk-complete, stats-errors-propagate) the walk callback returns only nil, the error it was handed or an error it constructs — never a skip sentinel, which would leave a subtree out of the totals —, returns the error when the walker could not load a node, statsWalkSnapshot reports success only if walker.Walk returned nil, and its callers hand its error on. Not decided: that node sizes equal the bytes a restore writes, and the cross-snapshot totals.",
		Assumptions: commonAssumptions,
		Technique:   "static analysis: CFG edge cuts over the counting-mode branch + test-and-set shape of the hard link index (go/ssa)",
		Run:         func(c *eng.Ctx) { ruleHardlinkOnce(c); ruleStatsWalkComplete(c) },
		Controls: []Control{
			{Name: "node-errors-left-out-of-totals", File: "cmd/restic/cmd_stats.go",
				Old: "		if nodeErr != nil {\n			return nodeErr\n		}\n		if node == nil {\n			return nil\n		}\n		progress.Update(1, 0, uint64(node.Size))", New: "		if nodeErr != nil || node == nil {\n			return nil\n		}\n		progress.Update(1, 0, uint64(node.Size))", Rule: "stats-walk-complete"},
			{Name: "walk-error-not-returned", File: "cmd/restic/cmd_stats.go",
				Old: "	if err != nil {\n		return fmt.Errorf(\"walking tree %s: %v\", *snapshot.Tree, err)\n	}\n", New: "	if err != nil {\n		stats.SnapshotsCount--\n	}\n", Rule: "stats-walk-complete"},
			{Name: "hardlinks-counted-every-time", File: "cmd/restic/cmd_stats.go",
				Old: "				if !hardLinkIndex.Has(node.Inode, node.DeviceID) || node.Inode == 0 {\n					hardLinkIndex.Add(node.Inode, node.DeviceID, struct{}{})\n					stats.TotalSize += node.Size\n				}", New: "				hardLinkIndex.Add(node.Inode, node.DeviceID, struct{}{})\n				stats.TotalSize += node.Size", Rule: "restore-size-accounting"},
			{Name: "first-sight-not-recorded", File: "cmd/restic/cmd_stats.go",
				Old: "					hardLinkIndex.Add(node.Inode, node.DeviceID, struct{}{})\n					stats.TotalSize += node.Size", New: "					stats.TotalSize += node.Size", Rule: "restore-size-accounting"},
		},
	})
	register(&Property{
		ID: "C52",
		Explanation: "Decides the structural conditions under which the n/t buckets partition the packs, not the arithmetic itself (the plan listed this property as not applicable; what is claimed here is the form of the predicate and the accepted ranges): (bucket-selection) selectPacksByBucket selects a pack iff pack[0] % totalBuckets == bucket-1 — a function of the pack alone, so two different n never select the same pack and every pack's residue r is selected by n = r+1; checkFlags accepts n/t only with n != 0, t != 0, n <= t and t <= totalBucketsMax (specialised evaluation: with any of these violated no nil return is reachable after parsing), and totalBucketsMax is 256, the number of values of the single ID byte used; selectRandomPacksByPercentage raises the number of packs to read to 1 for a non-empty repository; (subset-wiring) buildPacksFilter hands element 0 of the parsed n/t to selectPacksByBucket as the bucket and element 1 as the number of buckets (both uint: swapped, it compiles), repository.Checker.ReadPacks uses the pack list of the index for nothing but the call of the subset filter and ranges only over the filter's result, and the snapshot-filtered checker returns what the caller's filter makes of the restricted list. Not decided: the modular arithmetic itself (every residue 0..t-1 is below t), uniformity, and the size-based subset's rounding.",
		Assumptions: commonAssumptions,
		Technique:   "static analysis: shape of the selection predicate (operators, operands, constants) + specialised path evaluation of the option validation (go/ssa, go/constant)",
		Run:         func(c *eng.Ctx) { ruleBucketSelection(c); ruleSubsetWiring(c) },
		Controls: []Control{
			{Name: "bucket-and-total-swapped", File: "cmd/restic/cmd_check.go",
				Old: "			bucket := dataSubset[0]\n			totalBuckets := dataSubset[1]\n", New: "			bucket := dataSubset[1]\n			totalBuckets := dataSubset[0]\n", Rule: "subset-wiring"},
			{Name: "progress-counts-all-packs", File: "internal/repository/checker.go",
				Old: "	packs = filter(packs)\n\n	p := printer.NewCounter(\"packs\")\n	p.SetMax(uint64(len(packs)))", New: "	p := printer.NewCounter(\"packs\")\n	p.SetMax(uint64(len(packs)))\n	packs = filter(packs)\n", Rule: "subset-wiring"},
			{Name: "bucket-compared-without-offset", File: "cmd/restic/cmd_check.go",
				Old: "		if (uint(pack[0]) % totalBuckets) == (bucket - 1) {", New: "		if (uint(pack[0]) % totalBuckets) == bucket {", Rule: "bucket-selection"},
			{Name: "n-greater-than-t-accepted", File: "cmd/restic/cmd_check.go",
				Old: "			if dataSubset[0] == 0 || dataSubset[1] == 0 || dataSubset[0] > dataSubset[1] {", New: "			if dataSubset[0] == 0 || dataSubset[1] == 0 {", Rule: "bucket-selection"},
			{Name: "percentage-may-select-nothing", File: "cmd/restic/cmd_check.go",
				Old: "	if packCount > 0 && packsToCheck < 1 {\n		packsToCheck = 1\n	}\n", New: "", Rule: "bucket-selection"},
		},
	})
	register(&Property{
		ID: "C24",
		Explanation: "Decides coverage and gating in the selection code, not the selected sets: (filter-coverage) SnapshotFilter.matches applies HasHostname(f.Hosts), HasTagList(f.Tags) and HasPaths(f.Paths) to the snapshot and cannot yield true when any of them is false (specialised evaluation); every field of SnapshotFilter is one of these criteria or the time limit; findLatest records a snapshot as latest only behind matches==true, behind 'no limit or not after TimestampLimit', and behind 'no candidate yet or not before the current candidate'; FindAll's listing callback sees a snapshot only if it matches or failed to load; HasHostname and HasTagList return true for an empty list and HasHostname is otherwise membership of sn.Hostname, HasPaths tests the requested paths against the set of sn.Paths; (group-key) GroupSnapshots puts a snapshot's tags/hostname/paths into the key only on the corresponding groupBy edge (empty otherwise), sorts tags and paths before the key is encoded when grouping by them, and appends the snapshot to the group stored under its own key; (filter-negatives-justified) HasPaths returns false only behind the miss edge of looking a requested path up among the snapshot's paths, HasTags only behind hasTag(tag)==false — no shortcut on lengths, which is wrong once the request repeats an entry (added after a seeded change); (tag-list-conjunction) HasTags answers yes only after its loop over the requested tags ran to its end — genuine defect, fixed in /repo: the empty tag ended the evaluation for untagged snapshots. Not decided: that the sets selected are exactly the satisfying snapshots (tag-list semantics, path normalisation), and tie-breaking of 'latest'.",
		Assumptions: commonAssumptions,
		Technique:   "static analysis: criterion/predicate pairing enumerated from the filter type + specialised path evaluation + CFG edge cuts (go/ssa, go/types)",
		Run: func(c *eng.Ctx) {
			ruleFilterCoverage(c)
			ruleGroupKey(c)
			ruleFilterNegativesJustified(c); ruleTagListConjunction(c)
		},
		Controls: []Control{
			{Name: "empty-tag-ends-the-list", File: "internal/data/snapshot.go",
				Old: "			// the empty tag stands for \"has no tags\", the rest of the list still applies\n			continue\n", New: "			return true\n", Rule: "tag-list-conjunction"},
			{Name: "tag-filter-rejects-by-count", File: "internal/data/snapshot.go",
				Old: "func (sn *Snapshot) HasTags(l []string) bool {\n	for _, tag := range l {", New: "func (sn *Snapshot) HasTags(l []string) bool {\n	if len(l) > len(sn.Tags)+1 {\n		return false\n	}\n	for _, tag := range l {", Rule: "filter-negatives-justified"},
			{Name: "paths-criterion-ignored", File: "internal/data/snapshot_find.go",
				Old: "	return sn.HasHostname(f.Hosts) && sn.HasTagList(f.Tags) && sn.HasPaths(f.Paths)", New: "	return sn.HasHostname(f.Hosts) && sn.HasTagList(f.Tags)", Rule: "filter-coverage"},
			{Name: "criteria-disjunctive", File: "internal/data/snapshot_find.go",
				Old: "	return sn.HasHostname(f.Hosts) && sn.HasTagList(f.Tags) && sn.HasPaths(f.Paths)", New: "	return sn.HasHostname(f.Hosts) && (sn.HasTagList(f.Tags) || sn.HasPaths(f.Paths))", Rule: "filter-coverage"},
			{Name: "latest-ignores-time-limit", File: "internal/data/snapshot_find.go",
				Old: "		if !f.TimestampLimit.IsZero() && snapshot.Time.After(f.TimestampLimit) {\n			return nil\n		}\n", New: "", Rule: "filter-coverage"},
			{Name: "tags-not-sorted-for-key", File: "internal/data/snapshot_group.go",
				Old: "			tags = sn.Tags\n			sort.Strings(tags)", New: "			tags = sn.Tags", Rule: "group-key"},
			{Name: "hostname-always-in-key", File: "internal/data/snapshot_group.go",
				Old: "		if groupBy.Host {\n			hostname = sn.Hostname\n		}", New: "		hostname = sn.Hostname", Rule: "group-key"},
		},
	})
	register(&Property{
		ID: "C32",
		Explanation: "Decides ordering, error flow and the skip test of copy, not tree equality: (copy-order) in copyTreeBatched the snapshots of a batch are saved only after the WithBlobUploader session that copied their trees returned nil (so an interrupted copy leaves no destination snapshot without data), an error of copyTree fails that session, copyTree is given *sn.Tree, it returns the errors of StreamTrees and CopyBlobs and copies only after the traversal succeeded; copySaveSnapshot saves into the destination with sn.Original set — kept if present, otherwise the source snapshot's ID; (similar-snapshots) similarSnapshots reads every persistent field of data.Snapshot (enumerated from the struct; exceptions Parent, Original, ProgramVersion, Summary, id) and collectAllSnapshots skips a source snapshot only behind similarSnapshots==true for a destination snapshot found under the same Original/ID key (or after yielding a load error); visited-set (C42) covers the tree traversal of copyTree. Not decided: that CopyBlobs transfers exactly the collected blobs, content equality after restore, and idempotence when destination snapshots were edited.",
		Assumptions: commonAssumptions,
		Technique:   "static analysis: CFG ordering cuts + path-sensitive error propagation + struct-field coverage (go/ssa, go/types)",
		Run: func(c *eng.Ctx) {
			ruleCopyOrder(c)
			ruleSimilarSnapshots(c)
			ruleVisitedSet(c)
		},
		Controls: []Control{
			{Name: "snapshots-saved-inside-upload-session", File: "cmd/restic/cmd_copy.go",
				Old: "				debug.Log(\"tree copied\")\n				batchSize += sizeBlobs", New: "				debug.Log(\"tree copied\")\n				if err := copySaveSnapshot(ctx, sn, dstRepo, printer); err != nil {\n					return err\n				}\n				batchSize += sizeBlobs", Rule: "copy-order"},
			{Name: "copyblobs-error-downgraded", File: "cmd/restic/cmd_copy.go",
				Old: "	if err != nil {\n		return 0, errors.Fatalf(\"%s\", err)\n	}\n	return sizeBlobs, nil", New: "	if err != nil {\n		printer.E(\"%s\", err)\n	}\n	return sizeBlobs, nil", Rule: "copy-order"},
			{Name: "original-overwritten", File: "cmd/restic/cmd_copy.go",
				Old: "	if sn.Original == nil {\n		sn.Original = sn.ID()\n	}", New: "	sn.Original = sn.ID()", Rule: "copy-order"},
			{Name: "similar-ignores-hostname", File: "cmd/restic/cmd_copy.go",
				Old: " || sna.Hostname != snb.Hostname ||", New: " ||", Rule: "similar-snapshots"},
		},
	})
	register(&Property{
		ID: "C28",
		Explanation: "Decides the totality clause only ('no pattern or path causes a panic', errors are reported), not the glob semantics: (pattern-totality) every call of preparePattern, which reads patternStr[0], lies behind a non-empty test of that string (Match, ChildMatch, ParsePatterns); in both CollectPatterns functions each matcher constructor is reached only after ValidatePatterns succeeded on the same list, and patterns read from files are validated before they are merged into the option lists; the case-insensitive constructors build their matcher from strings.ToLower of every pattern and apply ToLower to the item; list ends with the error of match / childMatch / prepareStr, match with the error of filepath.Match, and prepareStr splits only non-empty paths; (first-double-wildcard) hasDoubleWildcard returns at the first empty part (the position childMatch cuts the path at, behind which nothing of the pattern is static) and childMatch cuts at exactly the reported position — added after a seeded change that reported the last `**`, which pruned directories containing matches.; (doublestar-bound) the loop in match that expands the first `**` into 0..n single wildcards is not bounded through len(pattern.parts), which counts every further `**` as a mandatory component — genuine defect, fixed in /repo: /a/**/b/**/c did not match /a/b/c. Not decided: that `**`, relative patterns, directory coverage and negation behave as documented in general, that childMatch is never false when a descendant matches, and the remaining index arithmetic inside match.",
		Assumptions: commonAssumptions,
		Technique:   "static analysis: call-site enumeration with dominating-guard cuts + path-sensitive error propagation (go/ssa)",
		Run:         func(c *eng.Ctx) { rulePatternTotality(c); ruleFirstDoubleWildcard(c); ruleDoubleStarBound(c) },
		Controls: []Control{
			{Name: "expansion-bound-counts-other-doublestars", File: "internal/filter/filter.go",
				Old: "i <= len(strs)-fixed; i++", New: "i <= len(strs)-len(pattern.parts)+1; i++", Rule: "doublestar-bound"},
			{Name: "childmatch-cuts-one-component-late", File: "internal/filter/filter.go",
				Old: "		strs = strs[:pos]\n", New: "		strs = strs[:pos+1]\n", Rule: "first-double-wildcard"},
			{Name: "parsepatterns-keeps-empty-pattern", File: "internal/filter/filter.go",
				Old: "		if pat == \"\" {\n			continue\n		}\n\n		pats := preparePattern(pat)", New: "		pats := preparePattern(pat)", Rule: "pattern-totality"},
			{Name: "exclude-patterns-not-validated", File: "internal/filter/exclude.go",
				Old: "		if err := ValidatePatterns(opts.Excludes); err != nil {\n			return nil, errors.Fatalf(\"--exclude: %s\", err)\n		}\n", New: "", Rule: "pattern-totality"},
			{Name: "iexclude-item-not-lowered", File: "internal/filter/exclude.go",
				Old: "		return rejFunc(strings.ToLower(item))", New: "		return rejFunc(item)", Rule: "pattern-totality"},
			{Name: "list-swallows-match-error", File: "internal/filter/filter.go",
				Old: "		m, err := match(pat, strs)\n		if err != nil {\n			return false, false, err\n		}", New: "		m, err := match(pat, strs)\n		if err != nil {\n			m = false\n		}", Rule: "pattern-totality"},
		},
	})
	register(&Property{
		ID: "C27",
		Explanation: "Decides the identity clause and the shape of the tree rewrite, not which paths a pattern matches (C28): (filter-identity) the node filters built by gatherExcludeFilters and gatherIncludeFilters return their node argument itself or nil, and no literal of these builders stores to a field of data.Node (kept entries keep metadata and data); for --exclude the selection helper returns false exactly on the edge where a reject function returned true for the node's path and the filter keeps the node exactly when the helper, asked about that path, returns true; (rewrite-tree) TreeRewriter.RewriteTree gives the filter item.Node and path.Join(nodepath, node.Name), adds exactly the node the filter returned, moves past a kept node only through AddNode or the edge where the rewritten subtree ID is null, sets a directory's Subtree to the recursive result, starts rewriting only after the tree re-encoded to the same ID (or AllowUnstableSerialization), and memoises old→new IDs only after Finalize succeeded; (rewrite-unchanged) in filterAndReplaceSnapshot, with an identical filtered tree, no metadata change and no recomputed summary, SaveSnapshot is unreachable; (memo-needs-path-independence) TreeRewriter memoises rewritten subtrees by tree ID only, so every construction of a TreeRewriter whose node filter uses the path for its verdict (a comparison, or a call whose result is used — printing does not count), is a function value defined elsewhere, or updates captured variables on each visit, must pass the constant DisableNodeCache: true (NewSnapshotSizeRewriter: yes; repair snapshots: the path is only printed, memo allowed), and NewTreeRewriter creates the memo only with the cache enabled — added after a seeded change that re-enabled the memo for rewrite; (rewrite-include-asks-all) the closures of gatherIncludeFilters return a negative answer only after every include function (case-insensitive and case-sensitive patterns) was asked: inside the loop over the functions only `true` is returned — added after a seeded change that let the first function alone decide about directories. Not decided: which directories 'lead to matches' for given patterns, pattern semantics, and summary statistics.",
		Assumptions: commonAssumptions,
		Technique:   "static analysis: return-value origin and field-store effects of the filter closures + per-iteration path cuts + specialised path evaluation (go/ssa)",
		Run: func(c *eng.Ctx) {
			ruleFilterIdentity(c)
			ruleRewriteTreeShape(c)
			ruleRewriteUnchanged(c)
			ruleMemoNeedsPathIndependence(c)
			ruleRewriteIncludeAsksAll(c)
		},
		Controls: []Control{
			{Name: "files-judged-by-first-include-kind", File: "cmd/restic/cmd_rewrite.go",
				Old: "			} else if matched {\n				return true\n			}\n		}\n		return false\n	}\n\n	rewriteNode = func", New: "			} else {\n				return matched\n			}\n		}\n		return false\n	}\n\n	rewriteNode = func", Rule: "rewrite-include-asks-all"},
			{Name: "memo-enabled-for-path-dependent-filter", File: "internal/walker/rewriter.go",
				Old: "		DisableNodeCache:   true,\n", New: "		DisableNodeCache:   keepEmptyDirectoryFilter != nil,\n", Rule: "memo-needs-path-independence"},
			{Name: "exclude-filter-clears-content", File: "cmd/restic/cmd_rewrite.go",
				Old: "		if exSelectByName(path) {\n			return node\n		}", New: "		if exSelectByName(path) {\n			node.AccessTime = node.ModTime\n			return node\n		}", Rule: "filter-identity"},
			{Name: "exclude-keeps-matched-node", File: "cmd/restic/cmd_rewrite.go",
				Old: "			if reject(nodepath) {\n				return false\n			}", New: "			if reject(nodepath) && len(nodepath) > 1 {\n				return false\n			}", Rule: "filter-identity"},
			{Name: "non-dir-nodes-dropped-on-odd-names", File: "internal/walker/rewriter.go",
				Old: "		if node.Type != data.NodeTypeDir {\n			err = tb.AddNode(node)", New: "		if node.Type != data.NodeTypeDir {\n			if node.Name == \"\" {\n				continue\n			}\n			err = tb.AddNode(node)", Rule: "rewrite-tree"},
			{Name: "re-encode-check-ignored", File: "internal/walker/rewriter.go",
				Old: "		if nodeID != testID {\n			return restic.ID{}, fmt.Errorf(\"cannot encode tree at %q without losing information\", nodepath)\n		}", New: "		if nodeID != testID {\n			debug.Log(\"cannot encode tree at %q without losing information\", nodepath)\n		}", Rule: "rewrite-tree"},
			{Name: "unchanged-tree-saved-anyway", File: "cmd/restic/cmd_rewrite.go",
				Old: "	if filteredTree == *sn.Tree && newMetadata == nil && matchingSummary {", New: "	if filteredTree == *sn.Tree && newMetadata == nil && matchingSummary && dryRun {", Rule: "rewrite-unchanged"},
		},
	})
	register(&Property{
		ID: "C22",
		Explanation: "Decides the structure of policy evaluation, not which snapshots a policy selects: (bucket-table) in ApplyPolicy every counting and within field of ExpirePolicy (a field without a row is a violation) is paired with the bucket function of its own granularity (Last↔always, Hourly↔ymdh, Daily↔ymd, Weekly↔yw, Monthly↔ym, Yearly↔y, likewise for the Within* fields), with a reason text naming that granularity and the last-seen bucket starting at -1; the counters reported with a kept snapshot come from the row of the same name; the bucket functions compute their value from exactly the calendar fields of their granularity (y: Year; ym: Year, Month; ymd: Year, Month, Day; ymdh: Year, Month, Day, Hour; yw: ISOWeek) and `always` returns the snapshot's position; (policy-partition) every loop iteration appends the current snapshot to keep or to remove, never to both, every kept snapshot gets one KeepReason, the function returns (keep, remove, reasons), and every field of ExpirePolicy is read; (within-anchor) the anchor of the within windows (findLatestTimestamp) is the zero time or a snapshot's own Time read behind Time.Before(now) — never the clock (added after a seeded change that clamped a future-dated newest snapshot to time.Now(), so that every real snapshot fell out of the window). Not decided: the selection itself (counts, 'oldest' rule, within arithmetic), monotonicity, and grouping.",
		Assumptions: commonAssumptions,
		Technique:   "static analysis: literal-table pairing by resolved function objects + per-iteration path cuts over the loop body + struct-field coverage (go/ssa, go/types)",
		Run: func(c *eng.Ctx) {
			ruleBucketTable(c)
			rulePolicyPartition(c)
			ruleWithinAnchor(c)
		},
		Controls: []Control{
			{Name: "within-anchored-at-future-snapshot", File: "internal/data/snapshot_policy.go",
				Old: "		if sn.Time.After(latest) && sn.Time.Before(now) {", New: "		if sn.Time.After(latest) {\n			_ = now", Rule: "within-anchor"},
			{Name: "weekly-uses-month-bucket", File: "internal/data/snapshot_policy.go",
				Old: "		{p.Weekly, yw, -1, \"weekly snapshot\"},", New: "		{p.Weekly, ym, -1, \"weekly snapshot\"},", Rule: "bucket-table"},
			{Name: "daily-bucket-ignores-month", File: "internal/data/snapshot_policy.go",
				Old: "	return d.Year()*10000 + int(d.Month())*100 + d.Day()", New: "	return d.Year()*10000 + d.Day()", Rule: "bucket-table"},
			{Name: "tagged-snapshots-in-both-lists", File: "internal/data/snapshot_policy.go",
				Old: "		} else {\n			remove = append(remove, cur)\n		}\n	}\n\n	return keep, remove, reasons", New: "		}\n		if !keepSnap || len(keepSnapReasons) == 0 {\n			remove = append(remove, cur)\n		}\n	}\n\n	return keep, remove, reasons", Rule: "policy-partition"},
			{Name: "within-yearly-never-consulted", File: "internal/data/snapshot_policy.go",
				Old: "		{p.WithinYearly, y, -1, \"yearly within\"},", New: "		{p.WithinMonthly, y, -1, \"yearly within\"},", Rule: "bucket-table"},
		},
	})
	register(&Property{
		ID: "C25",
		Explanation: "Decides the effect clause, not the resulting tag list: (tag-effects) the call closure of changeTags stores to no field of data.Snapshot other than Tags and Original (every other field of the snapshot is unchanged by construction); Tags is assigned the --set list only on the len(setTags)!=0 edge and AddTags/RemoveTags run only on the other edge; runTag rejects conflicting options; (replace-order) the retagged snapshot is saved before the old one is removed, so the number of snapshots never drops; (set-always-persisted) on the len(setTags)!=0 edge sn.Tags is assigned the --set list itself (nil for the single empty string) and every successful return passes SaveSnapshot — skipping the save is accepted only behind an exact equality test (slices.Equal / reflect.DeepEqual) of old and new list — added after a seeded change that skipped the save for set-equal lists; (add-only-absent-tags) AddTags does not append a tag once an existing tag compared equal to it (RemoveTags removes one occurrence per tag, which is only right while lists hold no duplicates) — added after a seeded change that turned `continue nextTag` into `break`. Not decided: the resulting tag list of --add/--remove as a value. (remove-every-occurrence) RemoveTags goes on scanning the snapshot's tags after a match — genuine defect, fixed in /repo: it stopped at the first match, so a duplicated tag [a,a] survived `tag --remove a`, which the statement's quantifier names.",
		Assumptions: commonAssumptions,
		Technique:   "static analysis: field-store effects over the call closure of changeTags + CFG edge cuts (go/ssa)",
		Run: func(c *eng.Ctx) {
			ruleTagEffects(c)
			ruleReplaceOrder(c)
			ruleSetAlwaysPersisted(c)
			ruleAddOnlyAbsentTags(c)
			ruleRemoveEveryOccurrence(c)
		},
		Controls: []Control{
			{Name: "remove-stops-at-first-occurrence", File: "internal/data/snapshot.go",
				Old: "				// the tag moved to position i has not been examined yet\n				i--\n", New: "				break\n", Rule: "remove-every-occurrence"},
			{Name: "set-skipped-when-first-tag-equal", File: "cmd/restic/cmd_tag.go",
				Old: "		sn.Tags = setTags\n		changed = true", New: "		changed = len(sn.Tags) == 0 || len(setTags) == 0 || sn.Tags[0] != setTags[0]\n		sn.Tags = setTags", Rule: "set-always-persisted"},
			{Name: "tag-also-rewrites-hostname", File: "cmd/restic/cmd_tag.go",
				Old: "		sn.Tags = setTags\n		changed = true", New: "		sn.Tags = setTags\n		sn.Hostname = \"\"\n		changed = true", Rule: "tag-effects"},
			{Name: "add-tags-even-with-set", File: "cmd/restic/cmd_tag.go",
				Old: "		sn.Tags = setTags\n		changed = true\n	} else {\n		changed = sn.AddTags(addTags)", New: "		sn.Tags = setTags\n		changed = true\n	}\n	{\n		changed = sn.AddTags(addTags) || changed", Rule: "tag-effects"},
		},
	})
	register(&Property{
		ID: "C23",
		Explanation: "Decides the guards of forget: (forget-guards) ApplyPolicy is reachable only with a non-empty policy or with --unsafe-allow-remove-all together with a snapshot filter; in policy mode an id is scheduled for removal only on the len(keep)!=0 edge of that group (or with an empty policy, which needed the unsafe flag), i.e. a non-empty policy never removes a whole group; ParallelRemove runs only on the DryRun==false edge; (remove-set-origin) the removal set is filled at exactly two sites — in policy mode with the ids of ApplyPolicy's `remove` result, in ID mode (only when arguments are given) with the ids of the snapshots found for the arguments — and that set is what ParallelRemove receives; (policy-fields) every field of data.ExpirePolicy is set from an option and Empty() compares the whole struct; (remove-report) every report callback handed to restic.ParallelRemove examines the error it receives for the file; in runForget a failed removal records the file's id on every path and prune — which is told that the listed snapshots are gone — runs only behind len(failedSnIDs) == 0 of that very set; because ParallelRemove invokes the callback from its worker goroutines, every update of captured state in a report callback holds a mutex (the unsynchronised failedSnIDs.Insert of runForget was a genuine defect, fixed; the first two clauses were added after a seeded change that made the callback test the enclosing function's err). (empty-policy-structural) ExpirePolicy.Empty, on which the group guard rests, can answer anything but false only behind len(e.Tags) == 0 taken of the field itself — a policy consisting of --keep-tag '' (keep untagged snapshots) is not empty (added after a seeded change that measured a flattened copy, which drops empty tags: a fully tagged group was removed). Not decided: which snapshots the policy selects (C22).",
		Assumptions: commonAssumptions,
		Technique:   "static analysis: CFG edge cuts + value origin of the removal set + lockset of the concurrent report callbacks (go/ssa)",
		Run:         func(c *eng.Ctx) { ruleEmptyPolicyStructural(c); ruleForgetGuards(c); ruleRemoveReport(c) },
		Controls: []Control{
			{Name: "empty-judged-without-tags", File: "internal/data/snapshot_policy.go",
				Old: "	if len(e.Tags) != 0 {\n		return false\n	}\n\n	empty := ExpirePolicy{Tags: e.Tags}", New: "	empty := ExpirePolicy{Tags: e.Tags}", Rule: "empty-policy-structural"},
			{Name: "failed-removal-recorded-without-lock", File: "cmd/restic/cmd_forget.go",
				Old: "					failedSnIDsLock.Lock()\n					failedSnIDs.Insert(id)\n					failedSnIDsLock.Unlock()\n", New: "					failedSnIDs.Insert(id)\n					_ = &failedSnIDsLock\n", Rule: "remove-report"},
			{Name: "prune-although-removals-failed", File: "cmd/restic/cmd_forget.go",
				Old: "	if len(failedSnIDs) > 0 {\n		return ErrFailedToRemoveOneOrMoreSnapshots\n	}\n\n	if len(removeSnIDs) > 0 && opts.Prune {", New: "	if len(removeSnIDs) > 0 && opts.Prune {", Rule: "remove-report"},
			{Name: "remove-last-snapshot-of-group", File: "cmd/restic/cmd_forget.go",
				Old: "			if !policy.Empty() && len(keep) == 0 {\n				return fmt.Errorf(\"refusing to delete last snapshot of snapshot group \\\"%v\\\"\", key.String())\n			}\n", New: "			if !policy.Empty() && len(keep) == 0 {\n				printer.E(\"%v\", fmt.Errorf(\"removing last snapshot of group %v\", key.String()))\n			}\n", Rule: "forget-guards"},
			{Name: "dry-run-deletes", File: "cmd/restic/cmd_forget.go",
				Old: "		if !opts.DryRun {\n			bar := printer.NewCounter(\"files deleted\")", New: "		if !opts.DryRun || len(args) > 0 {\n			bar := printer.NewCounter(\"files deleted\")", Rule: "forget-guards"},
			{Name: "policy-mode-removes-kept-too", File: "cmd/restic/cmd_forget.go",
				Old: "			for _, sn := range remove {\n				removeSnIDs.Insert(*sn.ID())\n			}", New: "			for _, sn := range snapshotGroup {\n				removeSnIDs.Insert(*sn.ID())\n			}", Rule: "remove-set-origin"},
			{Name: "empty-policy-allowed", File: "cmd/restic/cmd_forget.go",
				Old: "			} else {\n				return errors.Fatal(\"no policy was specified, no snapshots will be removed\")\n			}", New: "			}", Rule: "forget-guards"},
		},
	})
}
