package rules

import (
	"go/token"
	"strings"

	"golang.org/x/tools/go/ssa"

	"verif/internal/eng"
)

// paramCalls lists the calls in fn through the function-typed parameter `name`.
func paramCalls(c *eng.Ctx, fn *ssa.Function, name string) []ssa.CallInstruction {
	var out []ssa.CallInstruction
	for _, call := range eng.Calls(fn) {
		if c.P.CalleeName(call) == "param:"+name {
			out = append(out, call)
		}
	}
	return out
}

// ruleStreamDelivery (C43): streamPackPart hands every blob to the callback with the error
// it really has, after trying the other copies; streamPack's chunks partition the request.
func ruleStreamDelivery(c *eng.Ctx) {
	const rule = "stream-delivery"
	fn := c.NeedFn(rule, pkgRepo+".streamPackPart")
	if fn == nil {
		return
	}
	handles := paramCalls(c, fn, "handleBlobFn")
	loads := paramCalls(c, fn, "loadBlobFn")
	nexts := c.P.CallsTo(fn, pkgRepo+".(*packBlobIterator).Next")
	beLoads := paramCalls(c, fn, "beLoad")
	if len(handles) != 2 || len(loads) != 2 || len(nexts) != 1 || len(beLoads) != 1 {
		c.Unk(rule, "streamPackPart:shape", fn.Pos(), "expected 2 handleBlobFn, 2 loadBlobFn, 1 Next and 1 beLoad call, found %d/%d/%d/%d", len(handles), len(loads), len(nexts), len(beLoads))
		return
	}
	errF := c.P.Field(pkgRepo+".packBlobValue", "Err")
	ptF := c.P.Field(pkgRepo+".packBlobValue", "Plaintext")
	hF := c.P.Field(pkgRepo+".packBlobValue", "Handle")
	isLoadFn := eng.IsParam(fn, "loadBlobFn")
	// classify the two delivery sites: after a failed download / per decoded blob
	var dlSite, itSite ssa.CallInstruction
	for _, h := range handles {
		if eng.FindPath(eng.After(nexts[0].(ssa.Instruction)), h.(ssa.Instruction), nil) != nil && mentionsFieldDeepArgs(eng.Arg(h, 2), errF) {
			itSite = h
		} else {
			dlSite = h
		}
	}
	if dlSite == nil || itSite == nil {
		c.Unk(rule, "streamPackPart:delivery-sites", fn.Pos(), "cannot tell the download-failure delivery from the per-blob delivery")
		return
	}
	// --- per-blob delivery
	c.Check(mentionsFieldDeepArgs(eng.Arg(itSite, 0), hF) && mentionsFieldDeepArgs(eng.Arg(itSite, 1), ptF) && mentionsFieldDeepArgs(eng.Arg(itSite, 2), errF),
		rule, "streamPackPart:delivers-iterator-value", itSite.Pos(), "the callback receives Handle, Plaintext and Err of the value the iterator returned")
	// fallback first: with val.Err != nil and a fallback loader, the callback is reached only after the loader was tried
	var fbLoad ssa.CallInstruction
	for _, l := range loads {
		if eng.FindPath(eng.After(nexts[0].(ssa.Instruction)), l.(ssa.Instruction), nil) != nil && eng.FindPath(eng.After(l.(ssa.Instruction)), itSite.(ssa.Instruction), nil) != nil {
			fbLoad = l
		}
	}
	if fbLoad == nil {
		c.Bad(rule, "streamPackPart:damaged-blob→fallback→deliver", itSite.Pos(), "no fallback load between the iterator and the delivery of a blob")
	} else {
		seed := func(env *eng.PSEnv) {
			for _, b := range fn.Blocks {
				for _, in := range b.Instrs {
					if ld, ok := in.(*ssa.UnOp); ok && ld.Op == token.MUL && eng.LoadsField(ld, errF) {
						// the iterator reported a damaged blob … (until the fallback clears it)
						env.AssumeNil(ld, false)
					}
				}
			}
			env.AssumeNilAlways(fn.Params[paramPos(fn, "loadBlobFn")], false)
		}
		// scenario: Next returned a value with Err != nil; loadBlobFn != nil
		errLoads := func() []ssa.Value {
			var out []ssa.Value
			for _, b := range fn.Blocks {
				for _, in := range b.Instrs {
					if ld, ok := in.(*ssa.UnOp); ok && ld.Op == token.MUL && eng.LoadsField(ld, errF) {
						out = append(out, ld)
					}
				}
			}
			return out
		}()
		_ = seed
		// the first test of val.Err after Next: its non-nil edge
		firstErrEdges := eng.NilEdges(fn, func(v ssa.Value) bool {
			for _, l := range errLoads {
				if v == l {
					return true
				}
			}
			return false
		}, false)
		okFB := len(firstErrEdges) > 0
		for _, e := range firstErrEdges {
			res := c.P.FindPathSeeded(eng.EdgeStart(fn, e), func(in ssa.Instruction) bool { return in == itSite.(ssa.Instruction) }, eng.CallCut(fbLoad), nil,
				func(env *eng.PSEnv) { env.AssumeNilAlways(fn.Params[paramPos(fn, "loadBlobFn")], false) })
			if res != nil {
				okFB = false
			}
		}
		c.Check(okFB, rule, "streamPackPart:damaged-blob→fallback→deliver", itSite.Pos(), "a blob the iterator reports as damaged is delivered only after loadBlobFn (another stored copy) was tried, whenever a fallback loader is configured")
		// the fallback asks for the same blob, and its success replaces plaintext and clears the error
		c.Check(mentionsFieldDeepArgs(eng.Arg(fbLoad, 1), hF), rule, "streamPackPart:fallback-same-handle", fbLoad.Pos(), "the fallback loads val.Handle")
		var clr, setPT []ssa.Instruction
		for _, st := range c.P.FieldStoresIn(fn, errF) {
			if eng.IsNilConst(st.Val) {
				clr = append(clr, st)
			}
		}
		for _, st := range c.P.FieldStoresIn(fn, ptF) {
			if eng.SameAs(eng.Results(fbLoad)[0])(st.Val) {
				setPT = append(setPT, st)
			}
		}
		okClr := len(clr) > 0 && len(setPT) > 0
		for _, st := range clr {
			// Err is cleared only when the fallback succeeded, and then the plaintext is the fallback's
			if eng.FindPath(eng.Entry(fn), st, eng.SuccessCut(fbLoad)) != nil {
				okClr = false
			}
			if eng.FindPath(eng.Entry(fn), st, eng.NewCut().AddInstrs(setPT...)) != nil && eng.FindPath(eng.After(st), itSite.(ssa.Instruction), eng.NewCut().AddInstrs(setPT...)) != nil {
				okClr = false
			}
		}
		c.Check(okClr, rule, "streamPackPart:error-cleared-only-with-fallback-data", fbLoad.Pos(), "val.Err is reset only on the success edge of the fallback load, together with val.Plaintext = the fallback's bytes")
	}
	// the callback's error stops the stream
	for _, h := range handles {
		ev := eng.ErrResult(h)
		if ev == nil {
			c.Bad(rule, "streamPackPart:callback-error-examined", h.Pos(), "the error returned by handleBlobFn is dropped")
			continue
		}
		bad := false
		for _, e := range eng.FailureEdges(h) {
			from, ecut := eng.EdgeOrigin(fn, e, nil)
			res := c.P.FindPathSeeded(from, func(in ssa.Instruction) bool {
				if _, ok := in.(*ssa.Return); ok {
					return true
				}
				for _, h2 := range handles {
					if in == h2.(ssa.Instruction) {
						return true
					}
				}
				return false
			}, ecut, func(env *eng.PSEnv, target ssa.Instruction) bool {
				if r, ok := target.(*ssa.Return); ok {
					return env.MayBeNil(eng.RetVal(r, 0))
				}
				return true
			}, func(env *eng.PSEnv) { env.AssumeNil(ev, false) })
			if res != nil {
				bad = true
			}
		}
		c.Check(!bad && len(eng.FailureEdges(h)) > 0, rule, "streamPackPart:callback-error→stop:"+ifs(h == dlSite, "download-failed", "per-blob"), h.Pos(), "after handleBlobFn returned an error no further blob is delivered and streamPackPart returns a non-nil error")
	}
	// --- download failure: every requested blob is tried elsewhere and delivered with that result
	var dlLoad ssa.CallInstruction
	for _, l := range loads {
		if l != fbLoad {
			dlLoad = l
		}
	}
	if dlLoad != nil {
		res := eng.Results(dlLoad)
		okArgs := len(res) == 2 && eng.SameAs(res[0])(eng.Arg(dlSite, 1)) && eng.SameAs(res[1])(eng.Arg(dlSite, 2))
		c.Check(okArgs, rule, "streamPackPart:download-failed→deliver-fallback-result", dlSite.Pos(), "after a failed download the callback gets the bytes and the error of loadBlobFn for that blob")
		c.Check(eng.SameAs(eng.Arg(dlLoad, 1))(eng.Arg(dlSite, 0)) || sameFieldLoad(eng.Arg(dlLoad, 1), eng.Arg(dlSite, 0)), rule, "streamPackPart:download-failed-same-handle", dlSite.Pos(), "the delivered handle is the one that was loaded")
		c.MustPass(rule, "streamPackPart:download-failed→fallback-needs-loader", eng.Entry(fn), dlLoad.(ssa.Instruction), eng.NewCut().AddEdges(eng.NilEdges(fn, isLoadFn, false)...), "loadBlobFn != nil")
		c.MustPass(rule, "streamPackPart:fallback-only-after-failed-download", eng.Entry(fn), dlLoad.(ssa.Instruction), eng.NewCut().AddEdges(eng.FailureEdges(beLoads[0])...), "beLoad returned an error")
	}
	// a failed download is never reported as success
	for _, e := range eng.FailureEdges(beLoads[0]) {
		ev := eng.ErrResult(beLoads[0])
		res := c.P.FindPathSeeded(eng.EdgeStart(fn, e), func(in ssa.Instruction) bool {
			return in == nexts[0].(ssa.Instruction)
		}, nil, nil, func(env *eng.PSEnv) { env.AssumeNil(ev, false) })
		c.Check(res == nil, rule, "streamPackPart:failed-download-not-decoded", beLoads[0].Pos(), "after beLoad failed the (partially filled) buffer is never decoded")
	}
	c.Floor(rule, 9, 11)
}

func paramPos(fn *ssa.Function, name string) int {
	for i, p := range fn.Params {
		if p.Name() == name {
			return i
		}
	}
	return 0
}

// sameFieldLoad: both values load the same field of the same base.
func sameFieldLoad(a, b ssa.Value) bool {
	la, okA := eng.Strip(a).(*ssa.UnOp)
	lb, okB := eng.Strip(b).(*ssa.UnOp)
	if !okA || !okB {
		return false
	}
	return sameSlot(la.X, lb.X)
}

// ruleChunkPartition (C43): streamPack cuts the sorted request into consecutive slices: each
// part starts where the previous one ended and the remainder goes to the last call.
func ruleChunkPartition(c *eng.Ctx) {
	const rule = "chunk-partition"
	fn := c.NeedFn(rule, pkgRepo+".streamPack")
	if fn == nil {
		return
	}
	parts := c.P.CallsTo(fn, pkgRepo+".streamPackPart")
	if len(parts) != 2 {
		c.Unk(rule, "streamPack:parts", fn.Pos(), "expected two streamPackPart calls (in the loop, and the remainder), found %d", len(parts))
		return
	}
	isBlobs := eng.IsParam(fn, "blobs")
	var lowPhi *ssa.Phi
	var inLoop, last ssa.CallInstruction
	for _, p := range parts {
		sl, ok := eng.Strip(eng.Arg(p, 6)).(*ssa.Slice)
		if !ok || !isBlobs(sl.X) {
			c.Bad(rule, "streamPack:part-is-slice-of-request", p.Pos(), "the blobs handed to streamPackPart are not a sub-slice of the (sorted) request")
			return
		}
		phi, _ := sl.Low.(*ssa.Phi)
		if phi == nil {
			c.Bad(rule, "streamPack:part-starts-at-lowerIdx", p.Pos(), "the part does not start at the running lower index")
			return
		}
		if lowPhi != nil && lowPhi != phi {
			// the remainder call sees the loop-exit value of the same variable
			same := false
			for _, e := range phi.Edges {
				if e == ssa.Value(lowPhi) {
					same = true
				}
			}
			for _, e := range lowPhi.Edges {
				if e == ssa.Value(phi) {
					same = true
				}
			}
			if !same {
				c.Bad(rule, "streamPack:one-lower-index", p.Pos(), "the two calls use different lower-index variables")
				return
			}
		}
		if sl.High == nil {
			last = p
		} else {
			inLoop = p
			lowPhi = phi
		}
	}
	if inLoop == nil || last == nil {
		c.Bad(rule, "streamPack:remainder", fn.Pos(), "expected one bounded part blobs[lowerIdx:i] and one remainder blobs[lowerIdx:]")
		return
	}
	c.Ok(rule, "streamPack:part-is-slice-of-request", inLoop.Pos(), "both calls pass sub-slices of the sorted request starting at lowerIdx; the last one is open-ended")
	high := eng.Strip(eng.Arg(inLoop, 6)).(*ssa.Slice).High
	// lowerIdx only ever becomes 0 (start) or the end of the part just streamed
	okEdges := true
	var desc []string
	seenPhi := map[*ssa.Phi]bool{}
	var walk func(p *ssa.Phi)
	walk = func(p *ssa.Phi) {
		if seenPhi[p] {
			return
		}
		seenPhi[p] = true
		for i, e := range p.Edges {
			switch x := e.(type) {
			case *ssa.Const:
				if k, isK := eng.ConstInt(x); !isK || k != 0 {
					okEdges = false
				}
				desc = append(desc, "0")
			case *ssa.Phi:
				walk(x)
			default:
				if e == high {
					// assigned after the split part was streamed successfully
					pred := p.Block().Preds[i]
					if eng.FindPath(eng.Entry(fn), pred.Instrs[len(pred.Instrs)-1], eng.SuccessCut(inLoop)) != nil {
						// the predecessor is reachable without the call: acceptable only if it is the non-split path carrying the old value
						okEdges = false
					}
					desc = append(desc, "i (after the part ended at i)")
				} else {
					okEdges = false
					desc = append(desc, e.Name())
				}
			}
		}
	}
	walk(lowPhi)
	c.Check(okEdges, rule, "streamPack:lower-index-advances-to-part-end", inLoop.Pos(), "lowerIdx is 0 initially and afterwards only the upper bound of the part just streamed (values: %s): no requested blob is skipped or streamed twice", strings.Join(desc, ", "))
	// no part is empty: streamPackPart reads blobs[0] and blobs[len-1]. The bounded part
	// blobs[lowerIdx:i] is streamed only behind i > lowerIdx, or behind the gap test (the gap
	// before blob lowerIdx itself is zero by construction); the remainder only for a non-empty request.
	gapMax, gapOK := constIntVal(c, rule, pkgRepo+".maxUnusedRange")
	nonEmpty := eng.CmpEdges(fn, func(op token.Token, x, y ssa.Value) (bool, bool) {
		isHigh := func(v ssa.Value) bool { return v == high || eng.SameAs(high)(v) }
		isLow := func(v ssa.Value) bool {
			for _, o := range originsThroughPhi(v) {
				if o == ssa.Value(lowPhi) {
					return true
				}
			}
			return v == ssa.Value(lowPhi)
		}
		switch {
		case isHigh(x) && isLow(y):
			switch op {
			case token.GTR:
				return true, true
			case token.LEQ:
				return true, false
			}
		case isLow(x) && isHigh(y):
			switch op {
			case token.LSS:
				return true, true
			case token.GEQ:
				return true, false
			}
		}
		if k, isK := eng.ConstInt(y); gapOK && isK && k == gapMax && op == token.GTR {
			return true, true
		}
		return false, false
	})
	c.MustPass(rule, "streamPack:bounded-part-is-not-empty", eng.Entry(fn), inLoop.(ssa.Instruction), eng.NewCut().AddEdges(nonEmpty...), "i > lowerIdx (the part holds at least one blob), or the gap before blob i exceeds maxUnusedRange")
	isBl := eng.IsParam(fn, "blobs")
	emptyReq := eng.CmpEdges(fn, func(op token.Token, x, y ssa.Value) (bool, bool) {
		k, isK := eng.ConstInt(y)
		if !isK || k != 0 || !eng.IsLenOf(x, isBl) {
			return false, false
		}
		switch op {
		case token.EQL:
			return true, false
		case token.NEQ, token.GTR:
			return true, true
		}
		return false, false
	})
	c.MustPass(rule, "streamPack:remainder-is-not-empty", eng.Entry(fn), last.(ssa.Instruction), eng.NewCut().AddEdges(emptyReq...), "len(blobs) != 0")
	// a failed part aborts
	for _, p := range parts {
		ev := eng.ErrResult(p)
		if p == last {
			okRet := false
			for _, r := range eng.Returns(fn) {
				if eng.SameAs(ev)(eng.RetVal(r, 0)) {
					okRet = true
				}
			}
			c.Check(okRet, rule, "streamPack:remainder-error-returned", p.Pos(), "the result of the last part is the result of streamPack")
			continue
		}
		bad := false
		for _, e := range eng.FailureEdges(p) {
			from, ecut := eng.EdgeOrigin(fn, e, nil)
			res := c.P.FindPathSeeded(from, func(in ssa.Instruction) bool {
				if _, ok := in.(*ssa.Return); ok {
					return true
				}
				return in == parts[0].(ssa.Instruction) || in == parts[1].(ssa.Instruction)
			}, ecut, func(env *eng.PSEnv, target ssa.Instruction) bool {
				if r, ok := target.(*ssa.Return); ok {
					return env.MayBeNil(eng.RetVal(r, 0))
				}
				return true
			}, func(env *eng.PSEnv) { env.AssumeNil(ev, false) })
			if res != nil {
				bad = true
			}
		}
		c.Check(!bad, rule, "streamPack:part-error→abort", p.Pos(), "an error of a part ends streamPack with that error")
	}
	// the request is sorted before it is cut
	sorts := c.P.CallsTo(fn, "internal/repository/pack.Blobs.Sort")
	for _, p := range parts {
		c.MustPass(rule, "streamPack:sorted→part", eng.Entry(fn), p.(ssa.Instruction), eng.CallCut(sorts...), "blobs.Sort()")
	}
	c.Floor(rule, 5, 6)
}

// ruleIteratorConsumes (C43): packBlobIterator.Next takes exactly the first pending entry.
func ruleIteratorConsumes(c *eng.Ctx) {
	const rule = "iterator-consumes-one"
	fn := c.NeedFn(rule, pkgRepo+".(*packBlobIterator).Next")
	if fn == nil {
		return
	}
	blobsF := c.P.Field(pkgRepo+".packBlobIterator", "blobs")
	var pops []ssa.Instruction
	for _, st := range c.P.FieldStoresIn(fn, blobsF) {
		if sl, ok := st.Val.(*ssa.Slice); ok && mentionsField(sl.X, blobsF) {
			if k, isK := eng.ConstInt(sl.Low); isK && k == 1 && sl.High == nil {
				pops = append(pops, st)
			}
		}
	}
	c.Check(len(pops) == 1, rule, "Next:pops-first-entry", fn.Pos(), "Next removes exactly the first pending entry (b.blobs = b.blobs[1:]) (%d such stores)", len(pops))
	for _, r := range eng.Returns(fn) {
		// every return except the EOF one has consumed an entry
		if isGlobalLoad(c, eng.RetVal(r, 1), pkgRepo+".errPackEOF") {
			c.MustPass(rule, "Next:EOF-only-when-empty", eng.Entry(fn), r, eng.NewCut().AddEdges(eng.CmpEdges(fn, func(op token.Token, x, y ssa.Value) (bool, bool) {
				k, isK := eng.ConstInt(y)
				if !isK || k != 0 || !eng.IsLenOf(x, func(v ssa.Value) bool { return mentionsField(v, blobsF) }) {
					return false, false
				}
				switch op {
				case token.EQL:
					return true, true
				case token.NEQ, token.GTR:
					return true, false
				}
				return false, false
			})...), "len(b.blobs) == 0")
			continue
		}
		c.MustPass(rule, "Next:entry-consumed→return", eng.Entry(fn), r, eng.NewCut().AddInstrs(pops...), "b.blobs = b.blobs[1:]")
	}
	// the value describes that entry
	c.Floor(rule, 4, 8)
}

// ruleAllCopiesTried (C43): LoadBlob tries every stored copy before it gives up.
func ruleAllCopiesTried(c *eng.Ctx) {
	const rule = "all-copies-tried"
	fn := c.NeedFn(rule, pkgRepo+".(*Repository).loadBlob")
	if fn == nil {
		return
	}
	reads := c.P.CallsTo(fn, pkgBackend+".ReadAt")
	nexts := c.P.CallsTo(fn, pkgRepo+".(*packBlobIterator).Next")
	if len(reads) != 1 || len(nexts) != 1 {
		c.Unk(rule, "loadBlob:shape", fn.Pos(), "expected one ReadAt and one Next, found %d/%d", len(reads), len(nexts))
		return
	}
	var back []eng.EdgeKey
	back = append(back, backEdges(fn)...)
	check := func(key string, edges []eng.EdgeKey, what string) {
		okC := len(edges) > 0
		for _, e := range edges {
			if eng.FindPathF(eng.EdgeStart(fn, e), func(in ssa.Instruction) bool { _, isRet := in.(*ssa.Return); return isRet }, eng.NewCut().AddEdges(back...)) != nil {
				okC = false
			}
		}
		c.Check(okC, rule, key, fn.Pos(), "%s: the loop moves on to the next copy of the blob, no return is reachable before the next iteration", what)
	}
	check("loadBlob:read-error→next-copy", eng.FailureEdges(reads[0]), "after a failed read")
	errF := c.P.Field(pkgRepo+".packBlobValue", "Err")
	// decode failure: the combined err (Next's error or pbv.Err) tested non-nil
	var decEdges []eng.EdgeKey
	decEdges = append(decEdges, eng.FailureEdges(nexts[0])...)
	decEdges = append(decEdges, eng.NilEdges(fn, func(v ssa.Value) bool {
		if eng.LoadsField(v, errF) {
			return true
		}
		if phi, ok := v.(*ssa.Phi); ok {
			for _, e := range phi.Edges {
				if eng.LoadsField(e, errF) {
					return true
				}
			}
		}
		return false
	}, false)...)
	// keep only edges after which the success return is not reachable without the back edge (i.e. failure edges)
	var fail []eng.EdgeKey
	for _, e := range decEdges {
		succ := false
		for _, r := range eng.Returns(fn) {
			if k, isK := eng.RetVal(r, 1).(*ssa.Const); isK && k.IsNil() {
				if eng.FindPath(eng.EdgeStart(fn, e), r, eng.NewCut().AddEdges(back...)) != nil {
					succ = true
				}
			}
		}
		if !succ {
			fail = append(fail, e)
		}
	}
	check("loadBlob:decode-error→next-copy", fail, "after a damaged copy")
	// LoadBlob: a second round without the cache after the first failed
	if lb := c.NeedFn(rule, pkgRepo+".(*Repository).LoadBlob"); lb != nil {
		calls := c.P.CallsTo(lb, pkgRepo+".(*Repository).loadBlob")
		c.Check(len(calls) == 2, rule, "LoadBlob:retries-without-cache", lb.Pos(), "LoadBlob calls loadBlob twice (%d)", len(calls))
		if len(calls) == 2 {
			c.MustPass(rule, "LoadBlob:second-round-only-after-failure", eng.Entry(lb), calls[1].(ssa.Instruction), eng.NewCut().AddEdges(eng.FailureEdges(calls[0])...), "the first round failed")
			forget := callsReaching(c, lb, 2, func(call ssa.CallInstruction) bool { return eng.MethodName(call) == "Forget" })
			cacheF := c.P.Field(pkgRepo+".Repository", "cache")
			cut := eng.CallCut(forget...)
			cut.AddEdges(eng.NilEdges(lb, func(v ssa.Value) bool { return eng.LoadsField(v, cacheF) }, true)...)
			c.Check(len(forget) > 0, rule, "LoadBlob:cached-copies-forgotten", lb.Pos(), "the cached pack copies are dropped before the second round")
			// both rounds cover all copies found in the index
			lookups := c.P.CallsWhere(lb, func(call ssa.CallInstruction) bool { return eng.MethodName(call) == "Lookup" })
			okAll := len(lookups) == 1
			for _, cl := range calls {
				if okAll && !eng.SameAs(lookups[0].Value())(eng.Arg(cl, 1)) {
					okAll = false
				}
			}
			c.Check(okAll, rule, "LoadBlob:all-index-copies", lb.Pos(), "both rounds are given every copy the index knows (the full result of idx.Lookup)")
		}
	}
	c.Floor(rule, 5, 6)
}
