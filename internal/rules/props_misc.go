package rules

import "verif/internal/eng"

func init() {
	register(&Property{
		ID: "C49",
		Explanation: "Decides totality (no crash), not exactness: (parser-no-panic) for every parser of user-supplied text — all pflag.Value.Set implementations of the module and the named parsers (ParseDuration, ParseBytes, stringToIntSlice, parsePercentage, options.Parse/Apply, SplitShellStrings, checkFlags, verifyForgetOptions, verifyPruneOptions) — no function in its call closure contains a panic whose operand carries an error value (the `panic(err)` pattern that turns a failed conversion of the input into a crash); frozen exception: options.Apply's developer-error panics on malformed struct tags. This rule reported the genuine defect in data.nextNumber (range error of strconv.Atoi), now fixed; (strconv-errors) the error of every strconv.Parse*/Atoi in the parsers is examined; (bitsize-agreement) the bit size of every ParseInt/ParseUint fits the type its result is converted to, and ParseBytes returns a value only on the high-word==0 and value>=0 edges of its bits.Mul64 product; (apply-exhaustive) every option struct handed to options.Register/Apply has only `option` fields of kinds Apply's switch handles; (decimal-base) every ParseInt/ParseUint of the command layer uses the constant base 10 (named exception: extended options) — added after a seeded change that read --keep-last 010 as 8; (float-not-nan) a value parsed with ParseFloat is used only behind math.IsNaN false or an ordered comparison that held — NaN passed the range checks of --read-data-subset and --max-unused (genuine defect, fixed); (duration-parse) ParseDuration assigns each unit behind a not-seen-before test and the hours behind a constant range test — hours beyond 2562047 overflowed time.Duration when the policy was applied and forget --keep-within removed every snapshot, a repeated unit kept only the last number, and years, months and days — which go to time.Time.AddDate — are assigned behind a constant range test as well: counts of a few hundred billion years wrapped with the same effect (genuine defects, demonstrated, fixed). Not decided: that accepted values denote exactly the parsed number and that durations print back to an equal value.",
		Assumptions: commonAssumptions,
		Technique:   "static analysis: call-closure scan for error-carrying panics + bit-size/type agreement + CFG edge cuts (go/ssa)",
		Run: func(c *eng.Ctx) {
			ruleParserNoPanic(c)
			ruleBitsize(c)
			ruleApplyExhaustive(c)
			ruleParseBase(c)
			ruleFloatNotNaN(c)
			ruleDurationParse(c)
		},
		Controls: []Control{
			{Name: "check-subset-percentage-nan", File: "cmd/restic/cmd_check.go",
				Old: "	if math.IsNaN(p) {\n		return 0, errors.Errorf(\"parsePercentage: %q is not a number\", s)\n	}\n", New: "	_ = math.NaN\n", Rule: "float-not-nan"},
			{Name: "pack-size-env-any-base", File: "internal/global/global.go",
				Old: "strconv.ParseUint(envVal, 10, 32)", New: "strconv.ParseUint(envVal, 0, 32)", Rule: "decimal-base"},
			{Name: "years-months-days-unbounded", File: "internal/data/duration.go",
				Old: "			if int64(num) > maxDateCount || int64(num) < -maxDateCount {", New: "			if int64(num) > maxDateCount && int64(num) < -maxDateCount {", Rule: "duration-parse"},
			{Name: "hours-unbounded", File: "internal/data/duration.go",
				Old: "			if int64(num) > maxHours || int64(num) < -maxHours {", New: "			if int64(num) < -maxHours {", Rule: "duration-parse"},
			{Name: "atoi-range-error-panics", File: "internal/data/duration.go",
				Old: "	num, err = strconv.Atoi(n)\n	if err != nil {\n		return 0, input, err\n	}", New: "	num, err = strconv.Atoi(n)\n	if err != nil {\n		panic(err)\n	}", Rule: "parser-no-panic"},
			{Name: "parsebytes-unchecked-multiplication", File: "internal/ui/format.go",
				Old: "	if hi != 0 || value < 0 {", New: "	if value < 0 {\n		_ = hi", Rule: "bitsize-agreement"},
		},
	})
	register(&Property{
		ID: "C40",
		Explanation: "Decides the decision structure of change detection, not the resulting snapshot contents: (change-detection-fields) in archiver.fileChanged, specialising in turn the comparison of node type, size, mtime, ctime and inode to 'differs' (ctime/inode with the respective ignore flag off) leaves no return other than the constant `true` reachable, and a nil parent node counts as changed; an attribute whose equality comparison is missing is a violation; (reuse-guard) in Archiver.save the store `node.Content = previous.Content` is reachable only with previous != nil, fileChanged false and allBlobsPresent true, fileChanged is handed the parent's node, and allBlobsPresent returns true only after every index lookup succeeded; (skip-if-unchanged) Archiver.Snapshot returns the (nil, nil) 'skipped' result only with a parent snapshot, the SkipIfUnchanged option and an equal root tree ID, never after SaveSnapshot, and SaveSnapshot is reached only on the complementary edges; (parent-errors-never-skip) in saveTree no path leads from a failed read of the parent snapshot (TreeFinder.Find, loadSubtree) to the next target unless archiving the item was at least attempted (arch.save / the recursive saveTree) or it was added to the new tree — the error ends the backup or the item is archived without its old state (added after a seeded change). Not decided: that equal metadata implies equal content (the documented heuristic), tree iteration order, and the parent lookup by path.",
		Assumptions: commonAssumptions,
		Technique:   "static analysis: specialised path-sensitive reachability of the 'unchanged' return per compared attribute + CFG edge cuts (go/ssa)",
		Run: func(c *eng.Ctx) {
			ruleChangeDetection(c)
			ruleReuseGuard(c)
			ruleSkipIfUnchanged(c)
			ruleParentErrorsNeverSkip(c)
		},
		Controls: []Control{
			{Name: "unfindable-parent-entry-skips-target", File: "internal/archiver/archiver.go",
				Old: "		oldNode, err := finder.Find(name)\n		err = arch.error(snItem, err)\n		if err != nil {\n			return futureNode{}, 0, err\n		}\n		oldSubtree, err := arch.loadSubtree(ctx, oldNode)", New: "		oldNode, err := finder.Find(name)\n		if err != nil {\n			if arch.error(snItem, err) == nil {\n				continue\n			}\n			return futureNode{}, 0, err\n		}\n		oldSubtree, err := arch.loadSubtree(ctx, oldNode)", Rule: "parent-errors-never-skip"},
			{Name: "mtime-only-forward", File: "internal/archiver/archiver.go",
				Old: "	case !fi.ModTime.Equal(node.ModTime):", New: "	case fi.ModTime.After(node.ModTime):", Rule: "change-detection-fields"},
			{Name: "inode-check-dropped", File: "internal/archiver/archiver.go",
				Old: "	case checkInode && node.Inode != fi.Inode:\n		return true\n", New: "	case checkInode && node.Inode != fi.Inode:\n		return false\n", Rule: "change-detection-fields"},
			{Name: "reuse-without-index-check", File: "internal/archiver/archiver.go",
				Old: "			if arch.allBlobsPresent(previous) {", New: "			if arch.allBlobsPresent(previous) || previous.Size == 0 {", Rule: "reuse-guard"},
			{Name: "skip-without-flag", File: "internal/archiver/archiver.go",
				Old: "	if opts.ParentSnapshot != nil && opts.SkipIfUnchanged {", New: "	if opts.ParentSnapshot != nil {", Rule: "skip-if-unchanged"},
		},
	})
	register(&Property{
		ID: "C50",
		Explanation: "Decides the usage discipline around displayed locations, not the URL rewriting itself: (location-taint) a forward taint analysis over the whole module (flow- and context-insensitive; through phis, conversions, concatenation, strings/fmt.Sprint*/url helpers, local variables, captured variables, struct fields, varargs, parameters of module functions and their results) starting at every load of global.Options.Repo, SecondaryRepoOptions.Repo/LegacyRepo and at the content of the repository file finds no tainted argument of fmt.Print*/Fprint*/Errorf, log.*, debug.Log, the error constructors of internal/errors and pkg/errors, a method of the internal/ui printers and terminals, and no tainted store into a JSON-tagged struct field; the only way out is location.StripPassword; (strip-registered) every backend factory registration is classified: a backend whose package takes a password out of its URL (Userinfo.Password / url.UserPassword) must register a strip function other than location.NoPassword (rest), location.StripPassword returns its input unchanged only when no factory knows the scheme and otherwise returns factory.StripPassword(s). (rest-strip-shape) rest.StripPassword returns its input unchanged only when url.Parse fails (such a location is rejected by restic) or no password is set, and otherwise replaces, in u.String(), the user info exactly as that string spells it (Userinfo.String(), escaped) by text not built from the password — added after a seeded change that searched for the decoded user:password and so missed every password containing an escaped character; (strip-parses-what-parse-accepts) rest.ParseConfig and rest.StripPassword hand url.Parse the same function of the location string (prepareURL(s)), so a location whose password StripPassword cannot remove is not accepted either — added after a seeded change that trimmed whitespace on the accepting side only. Not decided: url.URL's own escaping rules, locations shown by backends from their parsed Config (after location.Parse), and text that the operating system or libraries echo.",
		Assumptions: commonAssumptions,
		Technique:   "static analysis: interprocedural forward taint propagation over SSA values, fields and parameters with a sanitiser and an enumerated sink set (go/ssa)",
		AllConfigs:  true,
		Run: func(c *eng.Ctx) {
			ruleLocationTaint(c)
			ruleStripRegistered(c)
			ruleRestStripShape(c)
			ruleStripParsesWhatParseAccepts(c)
			ruleURLBackendsStrip(c)
		},
		Controls: []Control{
			{Name: "parseconfig-unescapes-before-parsing", File: "internal/backend/rest/config.go",
				Old: "	s = prepareURL(s)\n\n	u, err := url.Parse(s)\n	if err != nil {\n		return nil, errors.WithStack(err)\n	}", New: "	s = prepareURL(strings.ToLower(s))\n\n	u, err := url.Parse(s)\n	if err != nil {\n		return nil, errors.WithStack(err)\n	}", Rule: "strip-parses-what-parse-accepts"},
			{Name: "init-prints-raw-location", File: "cmd/restic/cmd_init.go",
				Old: "s.Config().ID[:10], location.StripPassword(gopts.Backends, gopts.Repo))", New: "s.Config().ID[:10], gopts.Repo)", Rule: "location-taint"},
			{Name: "open-error-shows-raw-location", File: "internal/global/global.go",
				Old: "		return nil, errors.Fatalf(\"unable to open repository at %v: %v\", location.StripPassword(gopts.Backends, s), err)", New: "		return nil, errors.Fatalf(\"unable to open repository at %v: %v\", s, err)", Rule: "location-taint"},
			{Name: "init-json-raw-location", File: "cmd/restic/cmd_init.go",
				Old: "			Repository:  location.StripPassword(gopts.Backends, gopts.Repo),", New: "			Repository:  gopts.Repo,", Rule: "location-taint"},
			{Name: "rest-strip-searches-decoded-userinfo", File: "internal/backend/rest/config.go",
				Old: "strings.Replace(u.String(), u.User.String()+\"@\", u.User.Username()+\":***@\", 1)", New: "strings.Replace(u.String(), u.User.Username()+\":\"+func() string { p, _ := u.User.Password(); return p }()+\"@\", u.User.Username()+\":***@\", 1)", Rule: "rest-strip-shape"},
			{Name: "rest-registers-identity-strip", File: "internal/backend/rest/rest.go",
				Old: "	return location.NewHTTPBackendFactory(\"rest\", ParseConfig, StripPassword, Create, Open)", New: "	return location.NewHTTPBackendFactory(\"rest\", ParseConfig, location.NoPassword, Create, Open)", Rule: "strip-registered"},
		},
	})
	register(&Property{
		ID: "C51",
		Explanation: "Decides the gate in front of the only code that replaces the binary: (verify-before-install) in DownloadLatestStableRelease the call of extractToFile is reachable only through GPGVerify's ok==true and no-error edges, findHash's success edge and the true edge of bytes.Equal; the buffer whose signature is verified is the buffer findHash reads; the checksum is looked up under the downloaded asset's own name; SHA-256 is computed over the very buffer extractToFile installs; bytes.Equal compares findHash's result with that digest; extractToFile has this single call site and file-system writes in package selfupdate occur only in it (and its platform helper); (signature-check) GPGVerify returns ok only on the success edge of CheckArmoredDetachedSignature, which gets the key ring read from the package variable `key` (never reassigned), the data argument as signed message and sig as signature; findHash returns a hash only for a line whose file-name column equals the requested name, hex-decoded from that line. Not decided: correctness of openpgp/sha256, TLS and the GitHub API, and what extractToFile leaves behind when it fails half-way.",
		Assumptions: commonAssumptions,
		Technique:   "static analysis: CFG edge cuts (must-pass-through) + value-origin identity of the verified, hashed and installed buffers + who-may-write enumeration (go/ssa)",
		AllConfigs:  true,
		Run: func(c *eng.Ctx) {
			ruleVerifyBeforeInstall(c)
			ruleSignatureCheck(c)
		},
		Controls: []Control{
			{Name: "ignore-failed-signature", File: "internal/selfupdate/download.go",
				Old: "	if !ok {\n		return \"\", errors.New(\"GPG signature verification of the file SHA256SUMS failed\")\n	}\n", New: "	if !ok {\n		printf(\"GPG signature verification of the file SHA256SUMS failed\\n\")\n	}\n", Rule: "verify-before-install"},
			{Name: "hash-of-suffix-instead-of-downloaded-name", File: "internal/selfupdate/download.go",
				Old: "	wantHash, err := findHash(sha256sums, downloadFilename)", New: "	wantHash, err := findHash(sha256sums, suffix)", Rule: "verify-before-install"},
			{Name: "findhash-prefix-match", File: "internal/selfupdate/download.go",
				Old: "		if data[1] == filename {", New: "		if strings.HasSuffix(data[1], filename) {", Rule: "signature-check"},
			{Name: "gpg-error-means-ok", File: "internal/selfupdate/verify.go",
				Old: "	if err != nil {\n		return false, err\n	}\n\n	return true, nil", New: "	if err != nil {\n		return true, nil\n	}\n\n	return true, nil", Rule: "signature-check"},
		},
	})
	register(&Property{
		ID: "C55",
		Explanation: "Decides the status plumbing from an unreadable item to the exit code, not which operating-system errors occur: (incomplete-status) the closure installed as Archiver.Error in runBackup clears the captured `success` flag on every path, nothing sets the flag back to true, every return of runBackup that can yield a nil error after Archiver.Snapshot lies behind the success==true edge, ErrInvalidSourceData is returned only after Snapshot succeeded (the snapshot is saved first), and inaccessible targets reported by collectTargets clear the flag without aborting the run; (exit-table) by specialised evaluation of main: with err == ErrInvalidSourceData every path reaches Exit with status 3, with err == nil status 0, with any other non-nil error never 0; the command's error reaches that switch unchanged (overwritten only when nil or ErrOK; the backup command's RunE returns runBackup's result itself); (skip-implies-hook) in every Archiver method, after a source operation (fs.FS / fs.File / toNoder method, save, saveDir, saveTree, nodeFromFileInfo, dirPathToNode, dirToNodeAndEntries) failed, no return with a possibly-nil error is reachable without a call of Archiver.error (directly or through a closure that always calls it); save's error filter turns only os.ErrNotExist into nil (vanished files do not count, as the statement says), and the errors of opening the item — the metadata open, the re-open for reading that follows the lstat, and the open of a directory inside saveDir — pass that filter before the hook or the return (genuine defect, fixed in /repo: an item that vanished between lstat and open made the backup exit 3); treeSaver.save drops a failed item only after its error hook, which is Archiver.Error; (type-change-noticed) an item replaced by a symbolic link between its lstat and its open is noticed (and so reported) only because the open refuses to follow links: save opens the item with fs.O_NOFOLLOW, localFile.MakeReadable re-opens with the flag word stored in the handle, and newLocalFile stores the word it was given and passes it to os.OpenFile (sanitizeFlags is the identity where O_NOFOLLOW is an open flag) — added after a seeded change that re-opened with O_RDONLY. Not decided: errors inside the file saver's chunk loop reach the tree saver through the future's result (flow through a channel), and cobra returns RunE's error unchanged.",
		Assumptions: commonAssumptions,
		Technique:   "static analysis: path-sensitive reachability with nil-ness facts from failure edges + specialised evaluation of main's exit switch + CFG edge cuts (go/ssa)",
		Run: func(c *eng.Ctx) {
			ruleErrorHook(c)
			ruleExitTable(c)
			ruleSkipImpliesHook(c)
			ruleTypeChangeNoticed(c)
		},
		Controls: []Control{
			{Name: "vanished-before-reopen-is-reported", File: "internal/archiver/archiver.go",
				Old: "			// ignore if file disappeared since it was returned by readdir\n			return filterError(filterNotExist(err))\n		}\n\n		fi, err := meta.Stat()\n		if err != nil {\n			debug.Log(\"stat() on opened", New: "			return filterError(err)\n		}\n\n		fi, err := meta.Stat()\n		if err != nil {\n			debug.Log(\"stat() on opened", Rule: "skip-implies-hook"},
			{Name: "save-follows-links", File: "internal/archiver/archiver.go",
				Old: "	meta, err := arch.FS.OpenFile(target, fs.O_NOFOLLOW, true)", New: "	meta, err := arch.FS.OpenFile(target, fs.O_RDONLY, true)", Rule: "type-change-noticed"},
			{Name: "handle-forgets-its-flags", File: "internal/fs/fs_local.go",
				Old: "		name: name,\n		flag: flag,\n		f:    f,", New: "		name: name,\n		flag: flag &^ O_NOFOLLOW,\n		f:    f,", Rule: "type-change-noticed"},
			{Name: "hook-forgets-flag-for-filtered-errors", File: "cmd/restic/cmd_backup.go",
				Old: "		success = false\n		reterr := progressReporter.Error(item, err)", New: "		reterr := progressReporter.Error(item, err)\n		if reterr != nil {\n			success = false\n		}", Rule: "incomplete-status"},
			{Name: "incomplete-status-lost-when-scanner-ok", File: "cmd/restic/cmd_backup.go",
				Old: "	if !success {\n		return ErrInvalidSourceData\n	}", New: "	if !success && werr != nil {\n		return ErrInvalidSourceData\n	}", Rule: "incomplete-status"},
			{Name: "fatal-test-before-invalid-source", File: "cmd/restic/main.go",
				Old: "	case err == ErrInvalidSourceData:\n		exitCode = 3", New: "	case err == ErrInvalidSourceData:\n		exitCode = 1", Rule: "exit-table"},
			{Name: "permission-errors-treated-as-vanished", File: "internal/archiver/archiver.go",
				Old: "		if errors.Is(err, os.ErrNotExist) {\n			return nil\n		}", New: "		if errors.Is(err, os.ErrNotExist) || errors.Is(err, os.ErrPermission) {\n			return nil\n		}", Rule: "skip-implies-hook"},
			{Name: "stat-error-excludes-silently", File: "internal/archiver/archiver.go",
				Old: "			debug.Log(\"stat() on opened file %v returned error: %v\", target, err)\n			return filterError(err)", New: "			debug.Log(\"stat() on opened file %v returned error: %v\", target, err)\n			return futureNode{}, true, nil", Rule: "skip-implies-hook"},
		},
	})
	register(&Property{
		ID: "C46",
		Explanation: "Decides structural necessary conditions of 'a read through the mount returns exactly the requested range', not the range arithmetic: (fuse-read) file.Open stores at cumsize[i+1] the running sum after adding the size the index reports for Content[i] in the same iteration, and fails when a size is unknown; openFile.getBlobAt uses f.node.Content[i] both as the key of the blob cache and as the ID it loads on a miss; openFile.Read hands getBlobAt its loop variable, which starts at a position derived from sort.Search over cumsize and goes up by one per round; every byte of the response is copied from a blob obtained that way into a slice of resp.Data, and the response is cut to the sum of what copy reported; Read and getBlobAt store through nothing reachable from their receiver, the state concurrent readers of one open file share (the shared blob cache's own locking is C47). Not decided: the search predicate and the offset subtraction (that startContent is the blob containing the offset and that the first blob is entered at the right byte), the behaviour past the end of the file, and the FUSE library's handling of the response buffer. Planned as not applicable in DESIGN section 4; claimed at level 'other' for exactly these clauses.",
		Assumptions: commonAssumptions,
		Technique:   "static analysis: value-shape checks of the accumulator and loop-variable phis, provenance of copied bytes, store-effect enumeration (go/ssa)",
		Run:         func(c *eng.Ctx) { ruleFuseRead(c) },
		Controls: []Control{
			{Name: "cumsize-stored-before-adding", File: "internal/fuse/file.go",
				Old: "		bytes += uint64(size)\n		cumsize[i+1] = bytes\n", New: "		cumsize[i+1] = bytes\n		bytes += uint64(size)\n", Rule: "fuse-read"},
			{Name: "cache-key-of-the-previous-blob", File: "internal/fuse/file.go",
				Old: "	blob, err = f.root.blobCache.GetOrCompute(f.node.Content[i], func() ([]byte, error) {", New: "	blob, err = f.root.blobCache.GetOrCompute(f.node.Content[max(i-1, 0)], func() ([]byte, error) {", Rule: "fuse-read"},
			{Name: "response-length-is-request-size", File: "internal/fuse/file.go",
				Old: "	resp.Data = resp.Data[:readBytes]\n", New: "	resp.Data = resp.Data[:req.Size-remainingBytes+readBytes-readBytes]\n", Rule: "fuse-read"},
			{Name: "read-writes-to-the-open-file", File: "internal/fuse/file.go",
				Old: "	dst := resp.Data[0:req.Size]\n", New: "	f.cumsize[startContent] += 0\n	dst := resp.Data[0:req.Size]\n", Rule: "fuse-read"},
			{Name: "blob-index-skips-one", File: "internal/fuse/file.go",
				Old: "	for i := startContent; remainingBytes > 0 && i < len(f.cumsize)-1; i++ {", New: "	for i := startContent; remainingBytes > 0 && i < len(f.cumsize)-1; i += 2 {", Rule: "fuse-read"},
		},
	})
	register(&Property{
		ID: "C47",
		Explanation: "Decides the structural half of the blob cache contract: (cache-locks) every access to Cache.c, Cache.free and Cache.inProgress holds Cache.mu (evict is the LRU callback and runs inside LRU calls); (lru-calls-locked) every method call on the simplelru instance is made with mu held; (budget-symmetry) `free` is changed only in add (minus the entry's size, after a loop that evicts while size > free, so free stays >= 0) and in evict (plus the evicted entry's size), both sizes computed by the same cap(blob)+overhead expression, and entries larger than the whole cache are refused before anything is evicted; (inprogress-cleanup) GetOrCompute registers the id in inProgress before unlocking, every path that leaves after registration deletes the entry and closes the channel exactly via the deferred function, and waiters re-check the cache after the channel is closed; (cache-result-provenance, shared with C03) GetOrCompute returns success only on a cache hit — with the cached blob — or with the results of the caller's own computation, and a failed computation is never inserted: a waiter whose peer failed, produced an uncacheable blob or was evicted in between computes the value itself. Not decided: that the LRU library evicts in recency order, and at-most-once computation per id under all interleavings.",
		Assumptions: commonAssumptions,
		Technique:   "static analysis: must-hold locksets over guarded fields + enumeration of budget updates + CFG ordering (go/ssa)",
		Run: func(c *eng.Ctx) {
			ruleGuardedFields(c, blobCacheGuard)
			ruleLRUCallsLocked(c)
			ruleBudget(c)
			ruleInProgress(c)
			// a lookup returns the value computed for its id: shared with C03
			ruleCacheResultProvenance(c)
		},
		Controls: []Control{
			{Name: "evict-once", File: "internal/bloblru/cache.go",
				Old: "	for size > c.free {", New: "	if size > c.free {", Rule: "budget-symmetry"},
		},
	})
	register(&Property{
		ID: "C45",
		Explanation: "Decides the 'no entry for other node types' clause: (dumpable-filter) every send of a *data.Node on a channel in package dump — the only way a node reaches the tar/zip writers — is reachable only on an edge where that node's Type equals file, dir or symlink, at the top level of the dumped directory as well as for nested nodes (this rule reported the genuine defect in sendNodes, now fixed); (format-siblings) dumpNodeTar and dumpNodeZip distinguish exactly these three types. (ordered-content) in Dumper.writeNode the order of a file's blobs survives concurrent loading: every loader goroutine sends the blob it loaded for the loop's element of node.Content on a channel created in that same iteration, the loop itself queues that channel on the FIFO channel of channels, and the single writer goroutine (started once, the only caller of Write) writes what it receives from each queued channel in turn — one shared result channel, or a writer not following the queue, is a violation (added after a seeded change that hoisted the channel out of the loop); (every-dumpable-sent) the walk callback of sendNodes returns only nil, the error it was handed or ctx.Err() — never the walker's skip sentinel, which would drop all later siblings — and returns nil for a node only after offering it to the writer unless the node is nil or its type is none of file, dir, symlink (added after a seeded change). (tar-mode-bits-independent) dumpNodeTar ORs each of the tar bits 04000/02000/01000 into header.Mode behind a test of a bit of node.Mode, and the three are not mutually exclusive — one run can set all of them (added after a seeded change that turned the three ifs into one switch, so 06755 came out as 04755). Not decided: entry order across directories, permission bits and link targets.",
		Assumptions: commonAssumptions,
		Technique:   "static analysis: enumeration of channel sends + CFG edge cuts on the type test of the sent value (go/ssa)",
		Run:         func(c *eng.Ctx) { ruleDumpableFilter(c); ruleOrderedContent(c); ruleEveryDumpableSent(c); ruleTarModeBitsIndependent(c) },
		Controls: []Control{
			{Name: "setgid-only-without-setuid", File: "internal/dump/tar.go",
				Old: "	}\n	if node.Mode&os.ModeSetgid != 0 {", New: "	} else if node.Mode&os.ModeSetgid != 0 {", Rule: "tar-mode-bits-independent"},
			{Name: "symlinks-filtered-out-silently", File: "internal/dump/common.go",
				Old: "		if node.Type != data.NodeTypeFile && node.Type != data.NodeTypeDir && node.Type != data.NodeTypeSymlink {\n			return nil\n		}", New: "		if node.Type != data.NodeTypeFile && node.Type != data.NodeTypeDir {\n			return nil\n		}", Rule: "every-dumpable-sent"},
			{Name: "root-nodes-unfiltered", File: "internal/dump/common.go",
				Old: "	if root.Type != data.NodeTypeFile && root.Type != data.NodeTypeDir && root.Type != data.NodeTypeSymlink {\n		// only files, directories and symlinks are dumped, same as for nested nodes\n		return nil\n	}\n", New: "", Rule: "dumpable-filter"},
			{Name: "one-result-channel-for-all-blobs", File: "internal/dump/common.go",
				Old: "loop:\n	for _, id := range node.Content {\n		// This needs to be buffered, so that loaders can quit\n		// without waiting for the writer.\n		ch := make(chan []byte, 1)\n",
				New: "	ch := make(chan []byte, len(node.Content))\nloop:\n	for _, id := range node.Content {\n", Rule: "ordered-content"},
			{Name: "nested-filter-admits-fifos", File: "internal/dump/common.go",
				Old: "		if node.Type != data.NodeTypeFile && node.Type != data.NodeTypeDir && node.Type != data.NodeTypeSymlink {\n			return nil\n		}", New: "		if node.Type == data.NodeTypeSocket {\n			return nil\n		}", Rule: "dumpable-filter"},
		},
	})
}
