package rules

import "verif/internal/eng"

func init() {
	register(&Property{
		ID: "C45",
		Explanation: "Decides the 'no entry for other node types' clause: (dumpable-filter) every send of a *data.Node on a channel in package dump — the only way a node reaches the tar/zip writers — is reachable only on an edge where that node's Type equals file, dir or symlink, at the top level of the dumped directory as well as for nested nodes (this rule reported the genuine defect in sendNodes, now fixed); (format-siblings) dumpNodeTar and dumpNodeZip distinguish exactly these three types. Not decided: entry order, permission bits, link targets and content under concurrent blob loading.",
		Assumptions: commonAssumptions,
		Technique:   "static analysis: enumeration of channel sends + CFG edge cuts on the type test of the sent value (go/ssa)",
		Run:         func(c *eng.Ctx) { ruleDumpableFilter(c) },
		Controls: []Control{
			{Name: "root-nodes-unfiltered", File: "internal/dump/common.go",
				Old: "	if root.Type != data.NodeTypeFile && root.Type != data.NodeTypeDir && root.Type != data.NodeTypeSymlink {\n		// only files, directories and symlinks are dumped, same as for nested nodes\n		return nil\n	}\n", New: "", Rule: "dumpable-filter"},
			{Name: "nested-filter-admits-fifos", File: "internal/dump/common.go",
				Old: "		if node.Type != data.NodeTypeFile && node.Type != data.NodeTypeDir && node.Type != data.NodeTypeSymlink {\n			return nil\n		}", New: "		if node.Type == data.NodeTypeSocket {\n			return nil\n		}", Rule: "dumpable-filter"},
		},
	})
}
