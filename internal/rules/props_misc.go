package rules

import "verif/internal/eng"

func init() {
	register(&Property{
		ID: "C49",
		Explanation: "Decides totality (no crash), not exactness: (parser-no-panic) for every parser of user-supplied text — all pflag.Value.Set implementations of the module and the named parsers (ParseDuration, ParseBytes, stringToIntSlice, parsePercentage, options.Parse/Apply, SplitShellStrings, checkFlags, verifyForgetOptions, verifyPruneOptions) — no function in its call closure contains a panic whose operand carries an error value (the `panic(err)` pattern that turns a failed conversion of the input into a crash); frozen exception: options.Apply's developer-error panics on malformed struct tags. This rule reported the genuine defect in data.nextNumber (range error of strconv.Atoi), now fixed; (strconv-errors) the error of every strconv.Parse*/Atoi in the parsers is examined; (bitsize-agreement) the bit size of every ParseInt/ParseUint fits the type its result is converted to, and ParseBytes returns a value only on the high-word==0 and value>=0 edges of its bits.Mul64 product; (apply-exhaustive) every option struct handed to options.Register/Apply has only `option` fields of kinds Apply's switch handles. Not decided: that accepted values denote exactly the parsed number and that durations print back to an equal value.",
		Assumptions: commonAssumptions,
		Technique:   "static analysis: call-closure scan for error-carrying panics + bit-size/type agreement + CFG edge cuts (go/ssa)",
		Run: func(c *eng.Ctx) {
			ruleParserNoPanic(c)
			ruleBitsize(c)
			ruleApplyExhaustive(c)
		},
		Controls: []Control{
			{Name: "atoi-range-error-panics", File: "internal/data/duration.go",
				Old: "	num, err = strconv.Atoi(n)\n	if err != nil {\n		return 0, input, err\n	}", New: "	num, err = strconv.Atoi(n)\n	if err != nil {\n		panic(err)\n	}", Rule: "parser-no-panic"},
			{Name: "parsebytes-unchecked-multiplication", File: "internal/ui/format.go",
				Old: "	if hi != 0 || value < 0 {", New: "	if value < 0 {\n		_ = hi", Rule: "bitsize-agreement"},
		},
	})
	register(&Property{
		ID: "C45",
		Explanation: "Decides the 'no entry for other node types' clause: (dumpable-filter) every send of a *data.Node on a channel in package dump — the only way a node reaches the tar/zip writers — is reachable only on an edge where that node's Type equals file, dir or symlink, at the top level of the dumped directory as well as for nested nodes (this rule reported the genuine defect in sendNodes, now fixed); (format-siblings) dumpNodeTar and dumpNodeZip distinguish exactly these three types. Not decided: entry order, permission bits, link targets and content under concurrent blob loading.",
		Assumptions: commonAssumptions,
		Technique:   "static analysis: enumeration of channel sends + CFG edge cuts on the type test of the sent value (go/ssa)",
		Run:         func(c *eng.Ctx) { ruleDumpableFilter(c) },
		Controls: []Control{
			{Name: "root-nodes-unfiltered", File: "internal/dump/common.go",
				Old: "	if root.Type != data.NodeTypeFile && root.Type != data.NodeTypeDir && root.Type != data.NodeTypeSymlink {\n		// only files, directories and symlinks are dumped, same as for nested nodes\n		return nil\n	}\n", New: "", Rule: "dumpable-filter"},
			{Name: "nested-filter-admits-fifos", File: "internal/dump/common.go",
				Old: "		if node.Type != data.NodeTypeFile && node.Type != data.NodeTypeDir && node.Type != data.NodeTypeSymlink {\n			return nil\n		}", New: "		if node.Type == data.NodeTypeSocket {\n			return nil\n		}", Rule: "dumpable-filter"},
		},
	})
}
