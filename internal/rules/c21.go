package rules

import (
	"go/token"

	"golang.org/x/tools/go/ssa"

	"verif/internal/eng"
)

// ruleVerifyStrict (C21): with the arguments VerifyFiles passes (failFast, no mtime
// shortcut) verifyFile succeeds only if the size matches and every blob was read completely
// and hashes to the expected id; any failure makes restore --verify fail.
func ruleVerifyStrict(c *eng.Ctx) {
	const rule = "verify-strict"
	fn := c.NeedFn(rule, pkgRestorer+".(*Restorer).verifyFile")
	vf := c.NeedFn(rule, pkgRestorer+".(*Restorer).VerifyFiles")
	if fn == nil || vf == nil {
		return
	}
	// the constants VerifyFiles passes
	n := 0
	for _, f := range c.P.WithLits(vf) {
		for _, call := range c.P.CallsTo(f, pkgRestorer+".(*Restorer).verifyFile") {
			n++
			ff, ok1 := eng.Arg(call, 3).(*ssa.Const)
			tm, ok2 := eng.Arg(call, 4).(*ssa.Const)
			good := ok1 && ok2 && ff.Value != nil && tm.Value != nil && ff.Value.String() == "true" && tm.Value.String() == "false"
			c.Check(good, rule, "VerifyFiles:strict-arguments", call.Pos(), "VerifyFiles calls verifyFile with failFast=true and trustMtime=false")
		}
	}
	if n == 0 {
		c.Unk(rule, "VerifyFiles:verifyFile-call", vf.Pos(), "call not found")
	}
	var failFast, trust ssa.Value
	for _, p := range fn.Params {
		switch p.Name() {
		case "failFast":
			failFast = p
		case "trustMtime":
			trust = p
		}
	}
	if failFast == nil || trust == nil {
		c.Unk(rule, "verifyFile:parameters", fn.Pos(), "failFast/trustMtime parameters not found")
		return
	}
	seed := func(env *eng.PSEnv) {
		env.Assume(failFast, true)
		env.Assume(trust, false)
	}
	sizeF := c.P.Field("internal/data.Node", "Size")
	sizeEq := eng.CmpEdges(fn, func(op token.Token, x, y ssa.Value) (bool, bool) {
		if op != token.EQL && op != token.NEQ {
			return false, false
		}
		isNodeSize := func(v ssa.Value) bool {
			for _, r := range eng.Origins(v, nil) {
				if sizeF != nil && eng.LoadsField(r, sizeF) {
					return true
				}
			}
			return false
		}
		isFileSize := func(v ssa.Value) bool {
			call := eng.RootCall(eng.Strip(v))
			return call != nil && eng.MethodName(call) == "Size"
		}
		if (isNodeSize(x) && isFileSize(y)) || (isNodeSize(y) && isFileSize(x)) {
			return true, op == token.EQL
		}
		return false, false
	})
	if len(sizeEq) == 0 {
		c.Bad(rule, "verifyFile:size-compared", fn.Pos(), "no comparison of node.Size with the file size found")
	}
	// hash comparison: the value stored into matches[i] is Equal(Hash(buf)), tested right after
	var hashOK []eng.EdgeKey
	var reads []ssa.CallInstruction
	for _, call := range eng.Calls(fn) {
		if eng.MethodName(call) == "ReadAt" {
			reads = append(reads, call)
		}
	}
	for _, b := range fn.Blocks {
		for _, in := range b.Instrs {
			st, ok := in.(*ssa.Store)
			if !ok {
				continue
			}
			eq := eng.RootCall(st.Val)
			if eq == nil || c.P.CalleeName(eq) != fnIDEqual || !c.P.IsCallOf(eng.Arg(eq, 0), fnHash) {
				continue
			}
			ia, ok := st.Addr.(*ssa.IndexAddr)
			if !ok {
				continue
			}
			// conditions that load the same element
			hashOK = append(hashOK, eng.BoolEdges(fn, func(v ssa.Value) bool {
				if v == ssa.Value(eq) {
					return true
				}
				ld, ok := v.(*ssa.UnOp)
				if !ok || ld.Op != token.MUL {
					return false
				}
				ia2, ok := ld.X.(*ssa.IndexAddr)
				return ok && ia2.X == ia.X && ia2.Index == ia.Index
			}, true)...)
		}
	}
	if len(hashOK) == 0 {
		c.Bad(rule, "verifyFile:hash-compared", fn.Pos(), "no test of blobID.Equal(restic.Hash(buf)) found")
	}
	check := func(key string, from eng.Loc, target ssa.Instruction, cut *eng.Cut, what string, acc func(*eng.PSEnv, ssa.Instruction) bool) {
		ps := c.P.FindPathSeeded(from, func(in ssa.Instruction) bool { return in == target }, cut, acc, seed)
		if ps != nil {
			c.Bad(rule, key, target.Pos(), "with failFast=true, trustMtime=false a path avoids the guard (%s): %s", what, c.P.PathString(ps.Path))
			return
		}
		c.Ok(rule, key, target.Pos(), "with failFast=true, trustMtime=false every path passes: %s", what)
	}
	for _, r := range eng.Returns(fn) {
		rv := eng.RetVal(r, 2)
		if !c.P.MayBeNil(rv) {
			continue
		}
		acc := func(env *eng.PSEnv, _ ssa.Instruction) bool { return env.MayBeNil(rv) }
		check("verifyFile:size-equal→success", eng.Entry(fn), r, eng.NewCut().AddEdges(sizeEq...), "int64(node.Size) == fi.Size()", acc)
		// no verdict before the blobs were looked at: success lies behind the loop over node.Content
		if len(reads) == 1 {
			var header *ssa.BasicBlock
			rb := reads[0].Block()
			for _, b := range fn.Blocks {
				if !b.Dominates(rb) || b == rb {
					continue
				}
				for _, p := range b.Preds {
					if b.Dominates(p) && (header == nil || header.Dominates(b)) {
						header = b
					}
				}
			}
			if header == nil || len(header.Instrs) == 0 {
				c.Unk(rule, "verifyFile:content-loop", fn.Pos(), "the loop over the blobs of the file was not found")
			} else {
				check("verifyFile:content-loop→success", eng.Entry(fn), r, eng.NewCut().AddInstrs(header.Instrs[0]), "the loop over node.Content (every blob is read and hashed)", acc)
			}
		}
		for _, rd := range reads {
			if eng.FindPath(eng.After(rd.(ssa.Instruction)), r, nil) == nil {
				continue
			}
			check("verifyFile:read-ok→success", eng.After(rd.(ssa.Instruction)), r, eng.SuccessCut(rd), "f.ReadAt returned no error (a short file gives io.EOF)", acc)
			check("verifyFile:hash-equal→success", eng.After(rd.(ssa.Instruction)), r, eng.NewCut().AddEdges(hashOK...), "blobID.Equal(restic.Hash(buf))", acc)
		}
	}
	// the next blob is read only after the previous one matched
	for _, rd := range reads {
		ri := rd.(ssa.Instruction)
		if eng.FindPath(eng.After(ri), ri, nil) != nil {
			check("verifyFile:hash-equal→next-blob", eng.After(ri), ri, eng.NewCut().AddEdges(hashOK...), "the previous blob matched before the next one is read", nil)
		}
	}
	// the hashed buffer is the buffer that was read, at the accumulated offset
	for _, rd := range reads {
		okBuf := false
		for _, h := range c.P.CallsTo(fn, fnHash) {
			if sameRoots(eng.Origins(eng.Arg(h, 0), nil), eng.Origins(eng.Arg(rd, 0), nil)) {
				okBuf = true
			}
		}
		c.Check(okBuf, rule, "verifyFile:hashes-what-was-read", rd.Pos(), "restic.Hash is applied to the buffer filled by ReadAt")
	}
	// errors reach the command's exit status
	for _, f := range c.P.Lits(vf) {
		for _, call := range c.P.CallsTo(f, pkgRestorer+".(*Restorer).verifyFile") {
			san := c.P.CallsTo(f, pkgRestorer+".(*Restorer).sanitizeError")
			okFlow := false
			for _, s := range san {
				if ev := eng.ErrResult(call); ev != nil && eng.SameAs(ev)(eng.Arg(s, 1)) {
					okFlow = true
				}
			}
			c.Check(okFlow, rule, "VerifyFiles:error→error-handler", call.Pos(), "the verifyFile error is handed to the restorer's error handler (which counts it) and returned to the errgroup")
		}
	}
	if run := c.NeedFn(rule, "cmd/restic.runRestore"); run != nil {
		vcalls := c.P.CallsTo(run, pkgRestorer+".(*Restorer).VerifyFiles")
		// totalErrors is a captured counter: its zero test guards success
		var zeroEdges []eng.EdgeKey
		zeroEdges = eng.CmpEdges(run, func(op token.Token, x, y ssa.Value) (bool, bool) {
			k, isK := eng.ConstInt(y)
			if !isK || k != 0 {
				return false, false
			}
			ld, ok := x.(*ssa.UnOp)
			if !ok || ld.Op != token.MUL {
				return false, false
			}
			a, ok := ld.X.(*ssa.Alloc)
			if !ok || !a.Heap {
				return false, false
			}
			switch op {
			case token.GTR:
				return true, false
			case token.LEQ, token.EQL:
				return true, true
			}
			return false, false
		})
		for _, v := range vcalls {
			for _, r := range eng.Returns(run) {
				rv := eng.RetVal(r, 0)
				if !c.P.MayBeNil(rv) || eng.FindPath(eng.After(v.(ssa.Instruction)), r, nil) == nil {
					continue
				}
				for _, g := range []struct {
					key, what string
					cut       *eng.Cut
				}{
					{"runRestore:verify-ok→exit-0", "VerifyFiles returned nil", eng.SuccessCut(v)},
					{"runRestore:no-counted-errors→exit-0", "totalErrors == 0 after verification", eng.NewCut().AddEdges(zeroEdges...)},
				} {
					if g.cut.Size() == 0 {
						c.Bad(rule, g.key, r.Pos(), "guard not found: %s", g.what)
						continue
					}
					ps := c.P.FindPathPS(eng.After(v.(ssa.Instruction)), func(in ssa.Instruction) bool { return in == ssa.Instruction(r) }, g.cut,
						func(env *eng.PSEnv, _ ssa.Instruction) bool { return env.MayBeNil(rv) })
					c.Check(ps == nil, rule, g.key, r.Pos(), "after --verify ran, exit status 0 is reachable only through: %s", g.what)
				}
			}
		}
		if len(vcalls) == 0 {
			c.Unk(rule, "runRestore:VerifyFiles", run.Pos(), "call not found")
		}
		// the error handler counts every error
		errF := c.P.Field(pkgRestorer+".Restorer", "Error")
		for _, st := range c.P.FieldStoresIn(run, errF) {
			for _, r := range eng.Origins(st.Val, nil) {
				if mc, ok := r.(*ssa.MakeClosure); ok {
					if l, ok := mc.Fn.(*ssa.Function); ok {
						incs := 0
						for _, b := range l.Blocks {
							for _, in := range b.Instrs {
								if s2, ok := in.(*ssa.Store); ok {
									if _, isFV := s2.Addr.(*ssa.FreeVar); isFV {
										incs++
									}
								}
							}
						}
						okAll := incs > 0
						c.Check(okAll, rule, "runRestore:error-handler-counts", l.Pos(), "the restorer's Error callback increments totalErrors")
					}
				}
			}
		}
	}
	c.Floor(rule, 9, 10)
}
