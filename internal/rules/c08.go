package rules

import (
	"go/token"
	"go/types"
	"strings"

	"golang.org/x/tools/go/ssa"

	"verif/internal/eng"
)

// fieldStoresAnywhere lists the stores to field fv in fn and its nested literals.
func fieldStoresAnywhere(c *eng.Ctx, fn *ssa.Function, fv *types.Var) []*ssa.Store {
	var out []*ssa.Store
	for _, f := range c.P.WithLits(fn) {
		out = append(out, c.P.FieldStoresIn(f, fv)...)
	}
	return out
}

// ruleIndexWireFields (C08): writer and reader of the index file format agree field by field,
// and the in-memory entry keeps every one of them.
func ruleIndexWireFields(c *eng.Ctx) {
	const rule = "index-wire-fields"
	gen := c.NeedFn(rule, pkgIndex+".(*Index).generatePackList")
	dec := c.NeedFn(rule, pkgIndex+".DecodeIndex")
	bj := c.P.NamedType(pkgIndex + ".blobJSON")
	if gen == nil || dec == nil || bj == nil {
		return
	}
	st := bj.Underlying().(*types.Struct)
	// wire field → in-memory entry field → pack.Blob field
	table := map[string][2]string{
		"ID":                 {"id", "internal/restic.BlobHandle.ID"},
		"Type":               {"", "internal/restic.BlobHandle.Type"}, // the type is the table the entry lives in
		"Offset":             {"offset", "internal/repository/pack.Blob.Offset"},
		"Length":             {"length", "internal/repository/pack.Blob.Length"},
		"UncompressedLength": {"uncompressedLength", "internal/repository/pack.Blob.UncompressedLength"},
	}
	for i := 0; i < st.NumFields(); i++ {
		f := st.Field(i)
		m, known := table[f.Name()]
		if !known {
			c.Bad(rule, "blobJSON."+f.Name()+":known-field", f.Pos(), "the index file format has a blob field this check has no pairing for: writer/reader agreement for it is unverified")
			continue
		}
		// writer
		stores := fieldStoresAnywhere(c, gen, f)
		okW := len(stores) > 0
		if m[0] != "" {
			ef := c.P.Field(pkgIndex+".indexEntry", m[0])
			for _, s := range stores {
				if !mentionsFieldDeepArgs(s.Val, ef) {
					okW = false
				}
			}
		}
		c.Check(okW, rule, "blobJSON."+f.Name()+":written-from-entry", gen.Pos(), "generatePackList sets %s from the entry's %s", f.Name(), ifs(m[0] == "", "table (blob type)", m[0]))
		// reader: the pack.Blob handed to store gets this field from the same wire field
		tn := m[1][:strings.LastIndex(m[1], ".")]
		fn := m[1][strings.LastIndex(m[1], ".")+1:]
		target := c.P.Field(tn, fn)
		okR := false
		for _, s := range fieldStoresAnywhere(c, dec, target) {
			if mentionsFieldDeepArgs(s.Val, f) {
				okR = true
			}
		}
		c.Check(okR, rule, "blobJSON."+f.Name()+":read-into-blob", dec.Pos(), "DecodeIndex copies %s into %s", f.Name(), m[1])
	}
	// pack level: ID written from idx.packs[e.packIndex], read into addToPacks
	pj := c.P.Field(pkgIndex+".packJSON", "ID")
	packsF := c.P.Field(pkgIndex+".Index", "packs")
	piF := c.P.Field(pkgIndex+".indexEntry", "packIndex")
	okP := false
	for _, s := range fieldStoresAnywhere(c, gen, pj) {
		for _, o := range eng.Origins(s.Val, nil) {
			if ld, ok := o.(*ssa.UnOp); ok && ld.Op == token.MUL {
				if ia, isIA := ld.X.(*ssa.IndexAddr); isIA && mentionsFieldDeepArgs(ia.X, packsF) && mentionsFieldDeepArgs(ia.Index, piF) {
					okP = true
				}
			}
		}
	}
	c.Check(okP, rule, "packJSON.ID:written-from-entry-pack", gen.Pos(), "the pack ID written for an entry is idx.packs[e.packIndex]")
	adds := c.P.CallsTo(dec, pkgIndex+".(*Index).addToPacks")
	stores := c.P.CallsTo(dec, pkgIndex+".(*Index).store")
	okD := len(adds) == 1 && len(stores) == 1
	if okD {
		okD = mentionsFieldDeepArgs(eng.Arg(adds[0], 0), pj) && resultOf(eng.Arg(stores[0], 0), adds[0], 0)
	}
	c.Check(okD, rule, "packJSON.ID:read-into-pack-list", dec.Pos(), "DecodeIndex registers the pack ID and stores each blob under the index addToPacks returned")
	// Index.store → indexMap.add: positions agree with names
	if sf := c.NeedFn(rule, pkgIndex+".(*Index).store"); sf != nil {
		addFn := c.P.Fn(pkgIndex + ".(*indexMap).add")
		for _, call := range c.P.CallsTo(sf, pkgIndex+".(*indexMap).add") {
			want := map[string]string{"id": "internal/restic.BlobHandle.ID", "offset": "internal/repository/pack.Blob.Offset", "length": "internal/repository/pack.Blob.Length", "uncompressedLength": "internal/repository/pack.Blob.UncompressedLength"}
			for i, p := range addFn.Params {
				if i == 0 {
					continue // receiver
				}
				if p.Name() == "packIdx" {
					c.Check(eng.IsParam(sf, "packIndex")(eng.Arg(call, i-1)), rule, "store→add:packIdx", call.Pos(), "the pack index is passed through")
					continue
				}
				full, ok := want[p.Name()]
				if !ok {
					c.Bad(rule, "store→add:"+p.Name(), call.Pos(), "indexMap.add has a parameter this check has no pairing for")
					continue
				}
				fv := c.P.Field(full[:strings.LastIndex(full, ".")], full[strings.LastIndex(full, ".")+1:])
				c.Check(mentionsFieldDeepArgs(eng.Arg(call, i-1), fv), rule, "store→add:"+p.Name(), call.Pos(), "argument %s of indexMap.add is blob.%s", p.Name(), full[strings.LastIndex(full, ".")+1:])
			}
			// the map chosen is the one of the blob's type
			tyF := c.P.Field("internal/restic.BlobHandle", "Type")
			byTypeF := c.P.Field(pkgIndex+".Index", "byType")
			okT := false
			if ia, isIA := eng.Recv(call).(*ssa.IndexAddr); isIA && mentionsFieldDeepArgs(ia.X, byTypeF) || isIA && eng.FieldVar(derefStruct(ia.X), 0) == nil {
				if mentionsFieldDeepArgs(ia.Index, tyF) {
					okT = true
				}
			}
			c.Check(okT, rule, "store→add:table-of-blob-type", call.Pos(), "the entry is added to idx.byType[blob.Type]")
		}
	}
	// indexMap.add stores each parameter in the entry field of the same name
	if addFn := c.NeedFn(rule, pkgIndex+".(*indexMap).add"); addFn != nil {
		pair := map[string]string{"id": "id", "packIdx": "packIndex", "offset": "offset", "length": "length", "uncompressedLength": "uncompressedLength"}
		for pn, fnm := range pair {
			fv := c.P.Field(pkgIndex+".indexEntry", fnm)
			ok := false
			for _, s := range c.P.FieldStoresIn(addFn, fv) {
				if eng.IsParam(addFn, pn)(s.Val) {
					ok = true
				}
			}
			c.Check(ok, rule, "add:entry."+fnm, addFn.Pos(), "indexMap.add stores parameter %s in entry field %s", pn, fnm)
		}
	}
	// toPackedBlob reads them back
	if tp := c.NeedFn(rule, pkgIndex+".(*Index).toPackedBlob"); tp != nil {
		pair := map[string]string{"id": "internal/restic.BlobHandle.ID", "offset": "internal/repository/pack.Blob.Offset", "length": "internal/repository/pack.Blob.Length", "uncompressedLength": "internal/repository/pack.Blob.UncompressedLength"}
		for en, full := range pair {
			ef := c.P.Field(pkgIndex+".indexEntry", en)
			target := c.P.Field(full[:strings.LastIndex(full, ".")], full[strings.LastIndex(full, ".")+1:])
			ok := false
			for _, s := range c.P.FieldStoresIn(tp, target) {
				if mentionsFieldDeepArgs(s.Val, ef) {
					ok = true
				}
			}
			c.Check(ok, rule, "toPackedBlob:"+en, tp.Pos(), "a lookup result's %s is the entry's %s", full[strings.LastIndex(full, ".")+1:], en)
		}
	}
	c.Floor(rule, 20, 24)
}

func derefStruct(v ssa.Value) types.Type {
	t := v.Type()
	if p, ok := t.Underlying().(*types.Pointer); ok {
		return p.Elem()
	}
	return t
}

// ruleNarrowingGuards (C08): values are narrowed to the entry's 32-bit fields only behind a
// range check.
func ruleNarrowingGuards(c *eng.Ctx) {
	const rule = "narrowing-guards"
	const max32 = int64(1)<<32 - 1
	tooBig := func(fn *ssa.Function, isV func(ssa.Value) bool) []eng.EdgeKey {
		return eng.CmpEdges(fn, func(op token.Token, x, y ssa.Value) (bool, bool) {
			k, isK := eng.ConstInt(y)
			if cv, isCv := y.(*ssa.Convert); isCv {
				k, isK = eng.ConstInt(cv.X)
			}
			if !isK || k != max32 || !isV(x) {
				return false, false
			}
			switch op {
			case token.GTR:
				return true, false // the edge on which the value fits
			case token.LEQ:
				return true, true
			}
			return false, false
		})
	}
	if sf := c.NeedFn(rule, pkgIndex+".(*Index).store"); sf != nil {
		for _, call := range c.P.CallsTo(sf, pkgIndex+".(*indexMap).add") {
			for _, fnm := range []string{"Offset", "Length", "UncompressedLength"} {
				fv := c.P.Field("internal/repository/pack.Blob", fnm)
				c.MustPass(rule, "Index.store:"+fnm+"<=MaxUint32", eng.Entry(sf), call.(ssa.Instruction), eng.NewCut().AddEdges(tooBig(sf, func(v ssa.Value) bool { return mentionsFieldDeepArgs(v, fv) })...), "blob."+fnm+" <= math.MaxUint32")
			}
		}
	}
	packsF := c.P.Field(pkgIndex+".Index", "packs")
	lenOfPacks := func(v ssa.Value) bool {
		if cv, ok := v.(*ssa.Convert); ok {
			v = cv.X
		}
		return eng.IsLenOf(v, func(x ssa.Value) bool { return mentionsFieldDeepArgs(x, packsF) })
	}
	if ap := c.NeedFn(rule, pkgIndex+".(*Index).addToPacks"); ap != nil {
		for _, r := range eng.Returns(ap) {
			c.MustPass(rule, "addToPacks:pack-count<=MaxUint32", eng.Entry(ap), r, eng.NewCut().AddEdges(tooBig(ap, lenOfPacks)...), "len(idx.packs) <= math.MaxUint32")
		}
	}
	if mg := c.NeedFn(rule, pkgIndex+".(*Index).merge"); mg != nil {
		n := 0
		for _, f := range c.P.WithLits(mg) {
			for _, call := range c.P.CallsTo(f, pkgIndex+".(*indexMap).add") {
				n++
				if f == mg {
					c.MustPass(rule, "merge:pack-count<=MaxUint32", eng.Entry(mg), call.(ssa.Instruction), eng.NewCut().AddEdges(tooBig(mg, lenOfPacks)...), "len(idx.packs) <= math.MaxUint32 after appending the merged index's packs")
				} else {
					// the add happens in a loop body literal: its MakeClosure must lie behind the check
					for _, b := range mg.Blocks {
						for _, in := range b.Instrs {
							if mc, ok := in.(*ssa.MakeClosure); ok && (mc.Fn == ssa.Value(f) || mc.Fn == ssa.Value(f.Parent())) {
								c.MustPass(rule, "merge:pack-count<=MaxUint32", eng.Entry(mg), mc, eng.NewCut().AddEdges(tooBig(mg, lenOfPacks)...), "len(idx.packs) <= math.MaxUint32 after appending the merged index's packs")
							}
						}
					}
				}
			}
		}
		c.Check(n >= 1, rule, "merge:add-site", mg.Pos(), "merge copies entries with indexMap.add (%d sites)", n)
	}
	c.Floor(rule, 5, 6)
}

// ruleIndexLoadOrder (C08): MasterIndex.Load inserts every index it is given, merges only
// after all were loaded, and starts from scratch when a previously loaded index disappeared.
func ruleIndexLoadOrder(c *eng.Ctx) {
	const rule = "index-load-order"
	ld := c.NeedFn(rule, pkgIndex+".(*MasterIndex).Load")
	if ld == nil {
		return
	}
	forAll := c.P.CallsTo(ld, pkgIndex+".ForAllIndexes")
	merges := c.P.CallsTo(ld, pkgIndex+".(*MasterIndex).MergeFinalIndexes")
	prep := c.P.CallsTo(ld, pkgIndex+".(*MasterIndex).prepareIncrementalLoad")
	if len(forAll) != 1 || len(merges) != 1 || len(prep) != 1 {
		c.Unk(rule, "Load:shape", ld.Pos(), "expected one ForAllIndexes, MergeFinalIndexes and prepareIncrementalLoad call, found %d/%d/%d", len(forAll), len(merges), len(prep))
		return
	}
	c.MustPass(rule, "Load:all-indexes-loaded→merge", eng.Entry(ld), merges[0].(ssa.Instruction), eng.SuccessCut(forAll[0]), "ForAllIndexes returned nil")
	c.MustPass(rule, "Load:prepared→load", eng.Entry(ld), forAll[0].(ssa.Instruction), eng.SuccessCut(prep[0]), "prepareIncrementalLoad returned nil")
	okRet := false
	for _, r := range eng.Returns(ld) {
		if eng.SameAs(merges[0].Value())(eng.RetVal(r, 0)) {
			okRet = true
		}
	}
	c.Check(okRet, rule, "Load:merge-error-returned", merges[0].Pos(), "the result of MergeFinalIndexes is the result of Load")
	// the callback inserts every non-nil index unless it was loaded before or the user callback failed
	cb := closureArg(forAll[0], 3)
	if cb == nil {
		c.Unk(rule, "Load:callback", forAll[0].Pos(), "the ForAllIndexes callback is not a literal")
	} else {
		ins := c.P.CallsTo(cb, pkgIndex+".(*MasterIndex).Insert")
		c.Check(len(ins) == 1, rule, "Load:inserts-loaded-index", cb.Pos(), "the callback inserts the loaded index (%d Insert calls)", len(ins))
		if len(ins) == 1 {
			isIdx := eng.IsParam(cb, "idx")
			c.Check(isIdx(eng.Arg(ins[0], 0)), rule, "Load:inserts-the-index-it-got", ins[0].Pos(), "Insert receives the callback's idx")
			// specialised: idx != nil, not loaded before, user callback ok → Insert is reached on every path to return
			var has []ssa.CallInstruction
			for _, call := range eng.Calls(cb) {
				if eng.MethodName(call) == "Has" {
					has = append(has, call)
				}
			}
			seed := func(env *eng.PSEnv) {
				env.AssumeNilAlways(cb.Params[paramPos(cb, "idx")], false)
				for _, h := range has {
					env.Assume(h.Value(), false)
				}
				// every error value tested in the callback is nil
				for _, b := range cb.Blocks {
					for _, in := range b.Instrs {
						if bo, ok := in.(*ssa.BinOp); ok && (bo.Op == token.NEQ || bo.Op == token.EQL) && eng.IsErrorType(bo.X.Type()) && eng.IsNilConst(bo.Y) {
							env.Assume(bo, bo.Op == token.EQL)
						}
					}
				}
			}
			res := c.P.FindPathSeeded(eng.Entry(cb), func(in ssa.Instruction) bool { _, ok := in.(*ssa.Return); return ok }, eng.CallCut(ins...), nil, seed)
			c.Check(res == nil, rule, "Load:every-new-index-is-inserted", cb.Pos(), "for an index that was not loaded before, decoded without error and accepted by the caller's callback, the ForAllIndexes callback cannot return without mi.Insert(idx)")
		}
	}
	// prepareIncrementalLoad: a vanished index forces a full reload
	if pf := c.NeedFn(rule, pkgIndex+".(*MasterIndex).prepareIncrementalLoad"); pf != nil {
		clears := c.P.CallsTo(pf, pkgIndex+".(*MasterIndex).clear")
		var subs []ssa.CallInstruction
		for _, call := range eng.Calls(pf) {
			if eng.MethodName(call) == "Sub" {
				subs = append(subs, call)
			}
		}
		ok := len(clears) == 1 && len(subs) == 1
		c.Check(ok, rule, "prepareIncrementalLoad:vanished-index-is-a-set-difference", pf.Pos(), "whether a previously loaded index file disappeared is decided by the set difference loadedIDs.Sub(indexFiles) (found %d) guarding mi.clear() (found %d); comparing counts would miss an index file that was replaced by others", len(subs), len(clears))
		if ok {
			// with len(Sub(...)) > 0 every path to the success return passes clear(), and returns nil (= nothing loaded yet)
			gone := eng.CmpEdges(pf, func(op token.Token, x, y ssa.Value) (bool, bool) {
				k, isK := eng.ConstInt(y)
				if !isK || k != 0 || !eng.IsLenOf(x, eng.SameAs(subs[0].Value())) {
					return false, false
				}
				switch op {
				case token.GTR, token.NEQ:
					return true, true
				case token.EQL, token.LEQ:
					return true, false
				}
				return false, false
			})
			c.Check(len(gone) > 0, rule, "prepareIncrementalLoad:vanished-index-test", pf.Pos(), "the test len(loadedIDs.Sub(indexFiles)) > 0 was found")
			for _, e := range gone {
				for _, r := range eng.Returns(pf) {
					if !eng.IsNilConst(eng.RetVal(r, 1)) {
						continue
					}
					if eng.FindPath(eng.EdgeStart(pf, e), r, nil) == nil {
						continue
					}
					c.Check(eng.FindPath(eng.EdgeStart(pf, e), r, eng.CallCut(clears...)) == nil, rule, "prepareIncrementalLoad:vanished-index→clear", r.Pos(), "when a previously loaded index file is gone the in-memory index is cleared before loading")
				}
			}
		}
	}
	c.Floor(rule, 8, 9)
}
