package rules

import (
	"go/token"

	"golang.org/x/tools/go/ssa"

	"verif/internal/eng"
)

// rulePrintDirListsEverything (C53): an added or removed directory is reported with every
// path below it. In Comparer.printDir each node of the tree is printed (printChange) before the
// loop goes on, and whether the walk descends into a subdirectory depends on the node's type
// alone — not, for instance, on whether its tree blob has been seen before (identical subtrees
// occur at several paths, and every path has to be listed).
func rulePrintDirListsEverything(c *eng.Ctx) {
	const rule = "printdir-lists-everything"
	root := c.NeedFn(rule, "cmd/restic.(*Comparer).printDir")
	if root == nil {
		return
	}
	var body *ssa.Function
	var rec, prints []ssa.CallInstruction
	for _, l := range c.P.WithLits(root) {
		r := c.P.CallsTo(l, "cmd/restic.(*Comparer).printDir")
		p := c.P.CallsTo(l, "cmd/restic.(*Comparer).printChange", "field:cmd/restic.Comparer.printChange")
		if len(r) > 0 && len(p) > 0 {
			body, rec, prints = l, r, p
		}
	}
	if body == nil {
		c.Unk(rule, "printDir:loop-body", root.Pos(), "the loop body of printDir (printChange + recursive descent) was not found")
		return
	}
	c.Touch(body)
	// (1) every node that lets the loop continue was printed
	n := 0
	for _, r := range eng.Returns(body) {
		if body != root {
			// range-over-func body: `return true` = next node
			k, ok := eng.RetVal(r, 0).(*ssa.Const)
			if !ok || k.Value == nil || k.Value.String() != "true" {
				continue
			}
		}
		n++
		c.MustPass(rule, "printDir:next-node→this-node-printed", eng.Entry(body), r, eng.CallCut(prints...), "printChange(NewChange(name, mode))")
	}
	c.Check(n >= 1, rule, "printDir:loop-continues", body.Pos(), "%d ways to go on with the next node", n)
	// (2) between printing a node and descending into it only its type is tested
	for _, rc := range rec {
		reach := map[*ssa.BasicBlock]bool{}
		for _, b := range body.Blocks {
			if len(b.Instrs) == 0 {
				continue
			}
			fromPrint := false
			for _, p := range prints {
				if p.Block() == b || eng.FindPath(eng.After(p.(ssa.Instruction)), b.Instrs[0], nil) != nil {
					fromPrint = true
				}
			}
			if fromPrint && (b == rc.Block() || eng.FindPath(eng.Loc{B: b, I: 0}, rc.(ssa.Instruction), nil) != nil) {
				reach[b] = true
			}
		}
		ok := true
		var bad ssa.Value
		for b := range reach {
			if b == rc.Block() {
				continue
			}
			ifi, isIf := b.Instrs[len(b.Instrs)-1].(*ssa.If)
			if !isIf {
				continue
			}
			// both successors matter only if one of them leaves the way to the recursion
			leaves := false
			for _, s := range b.Succs {
				if !reach[s] && s != rc.Block() {
					leaves = true
				}
			}
			if !leaves {
				continue
			}
			cond, _ := eng.Unnot(ifi.Cond)
			_, x, y, isCmp := eng.Cmp(cond)
			if isCmp && (nodeTypeName(c, x) != "" || nodeTypeName(c, y) != "") {
				continue
			}
			ok, bad = false, cond
		}
		detail := "the descent into a subdirectory is decided by the node's type alone"
		if !ok {
			detail += "; it also depends on " + c.P.Describe(bad)
		}
		c.Check(ok, rule, "printDir:descent-depends-on-type-only", rc.Pos(), "%s", detail)
	}
}

// ruleTypeChangeListsChildren (C53, "a path is listed as added or removed exactly when it
// exists in only one snapshot"): when an entry is a directory in one snapshot and something
// else in the other, the paths below the directory exist in only one snapshot. They can only be
// reported by printDir, so from the edge on which diffTree has found the types to differ a
// printDir call must be reachable before the comparison moves on to the next pair of entries.
func ruleTypeChangeListsChildren(c *eng.Ctx) {
	const rule = "type-change-lists-children"
	root := c.NeedFn(rule, "cmd/restic.(*Comparer).diffTree")
	if root == nil {
		return
	}
	typeF := c.P.Field("internal/data.Node", "Type")
	n := 0
	for _, l := range c.P.WithLits(root) {
		prints := c.P.CallsTo(l, "cmd/restic.(*Comparer).printDir")
		if len(prints) == 0 || typeF == nil {
			continue
		}
		differ := eng.CmpEdges(l, func(op token.Token, x, y ssa.Value) (bool, bool) {
			if (op != token.NEQ && op != token.EQL) || !eng.LoadsField(x, typeF) || !eng.LoadsField(y, typeF) {
				return false, false
			}
			return true, op == token.NEQ
		})
		if len(differ) == 0 {
			continue
		}
		c.Touch(l)
		n++
		reach := false
		for _, e := range differ {
			for _, p := range prints {
				if eng.FindPath(eng.EdgeStart(l, e), p.(ssa.Instruction), nil) != nil {
					reach = true
				}
			}
		}
		c.Check(reach, rule, "diffTree:types-differ→children-of-the-directory-side-listed", l.Pos(), "after node1.Type != node2.Type a printDir call for the side that is a directory is reachable within the same pair of entries")
	}
	if n == 0 {
		c.Unk(rule, "anchor:type-comparison", root.Pos(), "the comparison of the two node types in diffTree was not found")
	}
}
