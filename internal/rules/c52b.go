package rules

import (
	"go/token"
	"strings"

	"golang.org/x/tools/go/ssa"

	"verif/internal/eng"
)

// sliceElemIndex: v is a load of element k (constant) of a slice; returns the slice and k.
func sliceElemIndex(v ssa.Value) (ssa.Value, int64, bool) {
	ld, ok := eng.Strip(v).(*ssa.UnOp)
	if !ok || ld.Op != token.MUL {
		return nil, 0, false
	}
	ia, ok := ld.X.(*ssa.IndexAddr)
	if !ok {
		return nil, 0, false
	}
	k, isK := eng.ConstInt(ia.Index)
	if !isK {
		return nil, 0, false
	}
	return ia.X, k, true
}

// ruleSubsetWiring (C52): the buckets n = 1..t partition the packs only if the numbers the
// user wrote reach the residue predicate in the right roles and the selected subset — not the
// whole list — is what gets read:
//   - buildPacksFilter hands element 0 of the parsed "n/t" to selectPacksByBucket as the bucket
//     and element 1 as the number of buckets (both are uint: swapped, it still compiles);
//   - repository.Checker.ReadPacks uses the pack list of the index for nothing but the call of
//     the filter: everything it counts, warms up and reads is the filter's result;
//   - the snapshot-filtered checker restricts the list and then returns what the caller's
//     filter makes of it.
func ruleSubsetWiring(c *eng.Ctx) {
	const rule = "subset-wiring"
	if bf := c.NeedFn(rule, "cmd/restic.buildPacksFilter"); bf != nil {
		conv := c.P.CallsTo(bf, "cmd/restic.stringToIntSlice")
		n := 0
		for _, fn := range c.P.WithLits(bf) {
			for _, call := range c.P.CallsTo(fn, "cmd/restic.selectPacksByBucket") {
				n++
				c.Touch(fn)
				for i, want := range []int64{0, 1} {
					role := []string{"bucket", "number-of-buckets"}[i]
					arg := eng.Arg(call, i+1)
					ok := false
					for _, o := range capturedOrigins(c, fn, arg) {
						base, k, isElem := sliceElemIndex(o)
						if !isElem || k != want {
							continue
						}
						for _, cv := range conv {
							res := eng.Results(cv)
							if len(res) > 0 && eng.SameAs(res[0])(base) {
								ok = true
							}
						}
					}
					c.Check(ok, rule, "buildPacksFilter:"+role+"-is-element-"+string(rune('0'+want)), call.Pos(), "selectPacksByBucket receives element %d of the parsed n/t as its %s", want, role)
				}
			}
		}
		c.Check(n == 1 && len(conv) == 1, rule, "buildPacksFilter:shape", bf.Pos(), "%d calls of selectPacksByBucket, %d of stringToIntSlice", n, len(conv))
	}
	if rp := c.NeedFn(rule, pkgRepo+".(*Checker).ReadPacks"); rp != nil && len(rp.Params) >= 3 {
		sizes := c.P.CallsTo(rp, pkgPack+".Size")
		filterP := rp.Params[2]
		var fcalls []ssa.CallInstruction
		for _, call := range eng.Calls(rp) {
			if !call.Common().IsInvoke() && eng.SameAs(filterP)(call.Common().Value) {
				fcalls = append(fcalls, call)
			}
		}
		c.Check(len(sizes) == 1 && len(fcalls) == 1, rule, "ReadPacks:shape", rp.Pos(), "%d calls of pack.Size, %d of the filter", len(sizes), len(fcalls))
		if len(sizes) == 1 && len(fcalls) == 1 {
			res := eng.Results(sizes[0])
			okOnly := len(res) > 0
			if okOnly {
				for _, ref := range *res[0].Referrers() {
					switch x := ref.(type) {
					case *ssa.DebugRef:
					case ssa.CallInstruction:
						if x != fcalls[0] {
							okOnly = false
						}
					default:
						okOnly = false
					}
				}
			}
			c.Check(okOnly, rule, "ReadPacks:index-list-only-feeds-the-filter", sizes[0].Pos(), "the list of all packs is used for nothing but the call of the subset filter")
			// the walks over packs range over the filter's result
			nr := 0
			for _, b := range rp.Blocks {
				for _, in := range b.Instrs {
					if rg, ok := in.(*ssa.Range); ok {
						if strings.Contains(rg.X.Type().String(), "map[") && strings.Contains(rg.X.Type().String(), "int64") {
							nr++
							c.Check(eng.SameAs(fcalls[0].Value())(rg.X), rule, "ReadPacks:reads-the-filtered-list", rg.Pos(), "the loop over packs ranges over the filter's result")
						}
					}
				}
			}
			c.Check(nr >= 1, rule, "ReadPacks:pack-loops", rp.Pos(), "%d loops over the pack list", nr)
		}
	}
	if rp := c.NeedFn(rule, "internal/checker.(*Checker).ReadPacks"); rp != nil && len(rp.Params) >= 3 {
		okRet := false
		for _, lit := range c.P.Lits(rp) {
			if lit.Parent() != rp {
				continue
			}
			for _, r := range eng.Returns(lit) {
				call := eng.RootCall(eng.RetVal(r, 0))
				if call == nil || call.Call.IsInvoke() {
					continue
				}
				if fv, ok := call.Call.Value.(*ssa.FreeVar); ok {
					_ = fv
				}
				for _, o := range capturedOrigins(c, lit, call.Call.Value) {
					if eng.SameAs(rp.Params[2])(o) {
						okRet = true
					}
				}
			}
		}
		c.Check(okRet, rule, "checker.ReadPacks:snapshot-filter-then-subset-filter", rp.Pos(), "the filtered checker returns what the caller's subset filter makes of the restricted list")
	}
}

// capturedOrigins resolves v inside literal fn to its origins; a captured variable is
// replaced by the values stored to its cell in the enclosing function.
func capturedOrigins(c *eng.Ctx, fn *ssa.Function, v ssa.Value) []ssa.Value {
	var out []ssa.Value
	for _, o := range eng.Origins(v, nil) {
		fv, isFV := o.(*ssa.FreeVar)
		if ld, ok := o.(*ssa.UnOp); ok && ld.Op == token.MUL && !isFV {
			fv, isFV = ld.X.(*ssa.FreeVar)
		}
		if !isFV {
			out = append(out, o)
			continue
		}
		bound, _ := boundCell(c.P, fn, fv)
		al, isAl := bound.(*ssa.Alloc)
		if !isAl {
			if bound != nil {
				out = append(out, eng.Origins(bound, nil)...)
			} else {
				out = append(out, o)
			}
			continue
		}
		for _, ref := range *al.Referrers() {
			if st, isSt := ref.(*ssa.Store); isSt && st.Addr == al {
				out = append(out, eng.Origins(st.Val, nil)...)
			}
		}
	}
	return out
}
