package rules

import (
	"go/token"

	"golang.org/x/tools/go/ssa"

	"verif/internal/eng"
)

// ruleKeySearchComplete (C29, "a password opens the repository if some key file was created
// with it, for repositories with at most 20 keys"): searchKey tries every listed key up to
// the limit.
//   - the counter compared with maxKeys starts at 0 and is advanced in exactly one place, by
//     one, inside the listing callback — one step per listed key file, nothing else uses up
//     the budget;
//   - ErrMaxKeysReached is returned only behind counter > maxKeys (strictly), so the
//     maxKeys-th listed key is still tried;
//   - the callback reaches a nil return (go on with the next key) only after openKey was
//     attempted for the listed id, and a wrong password (ErrUnauthenticated) continues;
//   - before the listing starts, searchKey returns only with a successfully opened hinted
//     key: a hint that does not open falls through to the listing.
func ruleKeySearchComplete(c *eng.Ctx) {
	const rule = "key-search-complete"
	fn := c.NeedFn(rule, pkgRepo+".searchKey")
	if fn == nil {
		return
	}
	list := c.OneCall(rule, fn, pkgRepo+".(*Repository).List")
	if list == nil {
		return
	}
	var cb *ssa.Function
	for _, a := range list.Common().Args {
		if mc, ok := eng.Strip(a).(*ssa.MakeClosure); ok {
			cb, _ = mc.Fn.(*ssa.Function)
		}
	}
	if cb == nil {
		c.Unk(rule, "anchor:list-callback", list.Pos(), "the listing callback of searchKey is not a function literal")
		return
	}
	c.Touch(cb)
	maxP := eng.IsParam(fn, "maxKeys")
	isMax := func(v ssa.Value) bool {
		if maxP(v) {
			return true
		}
		// inside the callback maxKeys is a captured variable
		if ld, ok := v.(*ssa.UnOp); ok && ld.Op == token.MUL {
			if fv, ok := ld.X.(*ssa.FreeVar); ok && eng.LogicalName(fv) == "maxKeys" {
				return true
			}
		}
		if fv, ok := v.(*ssa.FreeVar); ok && eng.LogicalName(fv) == "maxKeys" {
			return true
		}
		return false
	}
	// the counter: the value compared with maxKeys in the callback
	var counterCell *ssa.FreeVar
	over := eng.CmpEdges(cb, func(op token.Token, x, y ssa.Value) (bool, bool) {
		flip := false
		if isMax(x) {
			x, y = y, x
			flip = true
		}
		if !isMax(y) {
			return false, false
		}
		ld, ok := x.(*ssa.UnOp)
		if !ok || ld.Op != token.MUL {
			return false, false
		}
		fv, ok := ld.X.(*ssa.FreeVar)
		if !ok {
			return false, false
		}
		want := map[token.Token]bool{token.GTR: true, token.LEQ: false}
		if flip {
			want = map[token.Token]bool{token.LSS: true, token.GEQ: false}
		}
		v, known := want[op]
		if !known {
			return false, false
		}
		counterCell = fv
		return true, v
	})
	if counterCell == nil {
		c.Bad(rule, "searchKey:limit-test", cb.Pos(), "no strict comparison `counter > maxKeys` in the listing callback (a non-strict test would skip the last permitted key)")
		return
	}
	// the cell in searchKey bound to that free variable
	var cell ssa.Value
	for i, fv := range cb.FreeVars {
		if fv == counterCell {
			for _, a := range list.Common().Args {
				if mc, ok := eng.Strip(a).(*ssa.MakeClosure); ok && i < len(mc.Bindings) {
					cell = mc.Bindings[i]
				}
			}
		}
	}
	if cell == nil {
		c.Unk(rule, "searchKey:counter-cell", cb.Pos(), "the counter of the listing callback does not resolve to a variable of searchKey")
		return
	}
	// stores: searchKey may only initialise it with 0; the callback advances it once by one
	inits, steps, other := 0, 0, 0
	for _, b := range fn.Blocks {
		for _, in := range b.Instrs {
			if st, ok := in.(*ssa.Store); ok && st.Addr == cell {
				if k, isK := eng.ConstInt(st.Val); isK && k == 0 {
					inits++
				} else {
					other++
					c.Bad(rule, "searchKey:counter-changed-outside-listing", st.Pos(), "the key counter is changed outside the listing callback: something other than a listed key uses up the maxKeys budget")
				}
			}
		}
	}
	for _, l := range c.P.WithLits(fn) {
		if l == fn {
			continue
		}
		for _, b := range l.Blocks {
			for _, in := range b.Instrs {
				st, ok := in.(*ssa.Store)
				if !ok {
					continue
				}
				fv, isFV := st.Addr.(*ssa.FreeVar)
				if !isFV || fv.Name() != counterCell.Name() {
					continue
				}
				bo, isBo := st.Val.(*ssa.BinOp)
				k, isK := int64(0), false
				if isBo {
					k, isK = eng.ConstInt(bo.Y)
				}
				if l == cb && isBo && bo.Op == token.ADD && isK && k == 1 {
					steps++
				} else {
					other++
				}
			}
		}
	}
	c.Check(inits <= 1 && steps == 1 && other == 0, rule, "searchKey:counter-steps-once-per-listed-key", cb.Pos(), "the key counter starts at 0 (%d explicit initialisations) and is advanced by one in exactly one place of the listing callback (%d), nowhere else (%d)", inits, steps, other)
	// ErrMaxKeysReached only behind counter > maxKeys
	nMax := 0
	for _, r := range eng.Returns(cb) {
		for _, o := range eng.Origins(eng.RetVal(r, 0), nil) {
			if ld, ok := o.(*ssa.UnOp); ok && ld.Op == token.MUL {
				if g, ok := ld.X.(*ssa.Global); ok && g.Name() == "ErrMaxKeysReached" {
					nMax++
					c.MustPass(rule, "searchKey:ErrMaxKeysReached→counter>maxKeys", eng.Entry(cb), r, eng.NewCut().AddEdges(over...), "counter > maxKeys")
				}
			}
		}
	}
	c.Check(nMax == 1, rule, "searchKey:limit-return", cb.Pos(), "one return of ErrMaxKeysReached in the callback (%d)", nMax)
	// nil returns only after the key was tried
	opens := c.P.CallsTo(cb, pkgRepo+".openKey")
	for _, r := range eng.Returns(cb) {
		if eng.IsNilConst(eng.RetVal(r, 0)) {
			c.MustPass(rule, "searchKey:next-key→this-key-was-tried", eng.Entry(cb), r, eng.CallCut(opens...), "openKey(ctx, s, id, password) for the listed id")
		}
	}
	for _, o := range opens {
		c.Check(eng.IsParam(cb, "id")(eng.Arg(o, 2)), rule, "searchKey:tries-the-listed-key", o.Pos(), "openKey is applied to the listed id")
	}
	// a wrong password continues with the next key
	unauth := eng.CondEdges(cb, func(cond ssa.Value) (bool, bool) {
		call, ok := cond.(*ssa.Call)
		if !ok || len(call.Call.Args) != 2 {
			return false, false
		}
		if n := c.P.CalleeName(call); len(n) < 9 || n[len(n)-9:] != "errors.Is" {
			return false, false
		}
		if ld, ok := eng.Strip(call.Call.Args[1]).(*ssa.UnOp); ok && ld.Op == token.MUL {
			if g, ok := ld.X.(*ssa.Global); ok && g.Name() == "ErrUnauthenticated" {
				return true, true
			}
		}
		return false, false
	})
	contOK := len(unauth) > 0
	for _, e := range unauth {
		for _, r := range eng.Returns(cb) {
			if eng.FindPath(eng.EdgeStart(cb, e), r, nil) != nil && !eng.IsNilConst(eng.RetVal(r, 0)) {
				contOK = false
			}
		}
	}
	c.Check(contOK, rule, "searchKey:wrong-password→next-key", cb.Pos(), "on ErrUnauthenticated the callback returns nil, so the listing continues with the next key (%d edges)", len(unauth))
	// before the listing: only successful returns
	hintOpens := c.P.CallsTo(fn, pkgRepo+".openKey")
	for _, r := range eng.Returns(fn) {
		if eng.FindPath(eng.Entry(fn), r, eng.CallCut(list)) == nil {
			continue // after the listing
		}
		c.MustPass(rule, "searchKey:return-before-listing→hinted-key-opened", eng.Entry(fn), r, eng.SuccessCut(hintOpens...), "openKey of the hinted key succeeded")
	}
}
