package rules

import (
	"go/token"

	"golang.org/x/tools/go/ssa"

	"verif/internal/eng"
)

// ruleEagerReadSuffices (C06, "reading the pack header yields exactly those blobs"): readHeader
// first reads a fixed number of bytes from the end of the file and learns the real length of the
// header from them. The bytes of that first read are handed out as the header only when the real
// length is not larger than what was asked for: the return of the first readRecords result lies
// behind `c <= max`, c being the length that very call reported and max the size that very call
// was given — in bytes, not in a rounded number of entries.
func ruleEagerReadSuffices(c *eng.Ctx) {
	const rule = "eager-read-suffices"
	fn := c.NeedFn(rule, pkgPack+".readHeader")
	if fn == nil {
		return
	}
	reads := c.P.CallsTo(fn, pkgPack+".readRecords")
	if !c.Check(len(reads) == 2, rule, "readHeader:two-reads", fn.Pos(), "an eager read and a full read (%d readRecords calls)", len(reads)) {
		return
	}
	first := reads[0]
	res := eng.Results(first)
	if len(res) < 2 {
		c.Unk(rule, "readHeader:first-read-results", first.Pos(), "results of the eager read are not bound")
		return
	}
	buf, total, asked := res[0], res[1], eng.Arg(first, 2)
	enough := eng.CmpEdges(fn, func(op token.Token, x, y ssa.Value) (bool, bool) {
		isTotal, isAsked := eng.SameAs(total), eng.SameAs(asked)
		switch {
		case isTotal(x) && isAsked(y):
			switch op {
			case token.LEQ:
				return true, true
			case token.GTR:
				return true, false
			}
		case isAsked(x) && isTotal(y):
			switch op {
			case token.GEQ:
				return true, true
			case token.LSS:
				return true, false
			}
		}
		return false, false
	})
	// every success after the eager read either knows that the header fits into what was read, or
	// has read the whole header (the returned bytes may be a phi of the two reads)
	second := eng.SuccessCut(reads[1])
	cut := eng.Union(eng.NewCut().AddEdges(enough...), second)
	n := 0
	for _, r := range eng.Returns(fn) {
		if eng.IsNilConst(eng.RetVal(r, 0)) || eng.FindPath(eng.After(first.(ssa.Instruction)), r, nil) == nil {
			continue
		}
		n++
		c.MustPass(rule, "readHeader:eager-bytes-returned→header-fits", eng.After(first.(ssa.Instruction)), r, cut, "the header length reported by the eager read is not larger than the number of bytes it was asked to read, or the whole header was read")
	}
	c.Check(n >= 1, rule, "readHeader:eager-return", fn.Pos(), "%d returns of header bytes after the eager read", n)
	_ = buf
	// the second read asks for exactly the reported length
	c.Check(eng.SameAs(total)(eng.Arg(reads[1], 2)), rule, "readHeader:full-read-asks-for-reported-length", reads[1].Pos(), "the second read is given the length the first one reported")
}

// ruleListChecksBlobArea (C06, "any truncated, extended … pack is rejected with an error, never
// … a wrong listing"): the offsets List reports are running sums of the entry lengths, counted
// from the start of the file. They are right only if the blobs and the header account for the
// whole file, so List would have to compare that sum (plus the header size) with the size it was
// given. It does not: a pack that lost bytes at the front, or gained some, is listed without an
// error, with offsets that do not belong to its blobs. The comparison cannot simply be added —
// List is also called on readers that hold only the tail of a pack (verifyHeader, streaming) —
// so this is a known finding; check and prune compare sizes one level up.
func ruleListChecksBlobArea(c *eng.Ctx) {
	const rule = "list-checks-blob-area"
	fn := c.NeedFn(rule, pkgPack+".List")
	if fn == nil {
		return
	}
	isSize := eng.IsParam(fn, "size")
	var mentionsSize func(v ssa.Value, d int) bool
	mentionsSize = func(v ssa.Value, d int) bool {
		if d > 5 {
			return false
		}
		if isSize(v) {
			return true
		}
		switch x := v.(type) {
		case *ssa.BinOp:
			return mentionsSize(x.X, d+1) || mentionsSize(x.Y, d+1)
		case *ssa.Convert:
			return mentionsSize(x.X, d+1)
		}
		return false
	}
	var sumsLengths func(v ssa.Value, d int) bool
	sumsLengths = func(v ssa.Value, d int) bool {
		if d > 5 {
			return false
		}
		switch x := v.(type) {
		case *ssa.Phi:
			for _, e := range x.Edges {
				if bo, ok := e.(*ssa.BinOp); ok && bo.Op == token.ADD && (bo.X == ssa.Value(x) || bo.Y == ssa.Value(x)) {
					return true
				}
			}
		case *ssa.BinOp:
			return sumsLengths(x.X, d+1) || sumsLengths(x.Y, d+1)
		case *ssa.Convert:
			return sumsLengths(x.X, d+1)
		}
		return false
	}
	cmp := eng.CmpEdges(fn, func(op token.Token, x, y ssa.Value) (bool, bool) {
		if (mentionsSize(x, 0) && sumsLengths(y, 0)) || (mentionsSize(y, 0) && sumsLengths(x, 0)) {
			return true, true
		}
		return false, false
	})
	if len(cmp) == 0 {
		c.Bad(rule, "List:blobs+header==size", fn.Pos(), "List never compares the sum of the entry lengths with the size of the file: a pack truncated or extended in front of its header is listed without error, with offsets that do not belong to its blobs")
		return
	}
	c.Ok(rule, "List:blobs+header==size", fn.Pos(), "List compares the sum of the entry lengths with the file size")
}
