package rules

import (
	"go/token"

	"golang.org/x/tools/go/ssa"

	"verif/internal/eng"
)

// ruleFirstDoubleWildcard (C28, "the 'children may match' answer is never false when some path
// below the directory matches"): childMatch cuts the directory's path at the position
// hasDoubleWildcard reports and matches only the pattern's prefix up to there, assuming that
// everything before that position is static. That holds for the *first* `**` only: the scan
// over the pattern's parts returns at the first empty part — from the edge on which a part is
// found to be `**` the next iteration of the scan is not reachable.
func ruleFirstDoubleWildcard(c *eng.Ctx) {
	const rule = "first-double-wildcard"
	fn := c.NeedFn(rule, "internal/filter.hasDoubleWildcard")
	if fn == nil {
		return
	}
	hit := eng.CmpEdges(fn, func(op token.Token, x, y ssa.Value) (bool, bool) {
		k, ok := y.(*ssa.Const)
		if !ok || k.Value == nil || k.Value.ExactString() != `""` {
			return false, false
		}
		switch op {
		case token.EQL:
			return true, true
		case token.NEQ:
			return true, false
		}
		return false, false
	})
	var header *ssa.BasicBlock
	for _, b := range fn.Blocks {
		for _, p := range b.Preds {
			if b.Dominates(p) && (header == nil || b.Dominates(header)) {
				header = b
			}
		}
	}
	if len(hit) == 0 || header == nil || len(header.Instrs) == 0 {
		c.Unk(rule, "hasDoubleWildcard:shape", fn.Pos(), "expected a loop over the pattern parts with a test for the empty part (found %d tests, loop: %v)", len(hit), header != nil)
		return
	}
	ok := true
	for _, e := range hit {
		if eng.FindPath(eng.EdgeStart(fn, e), header.Instrs[0], nil) != nil {
			ok = false
		}
	}
	c.Check(ok, rule, "hasDoubleWildcard:returns-at-the-first-hit", fn.Pos(), "once a `**` part is found the scan does not go on: the position reported is that of the first one")
	// and childMatch cuts at exactly that position
	if cm := c.NeedFn(rule, "internal/filter.childMatch"); cm != nil {
		calls := c.P.CallsTo(cm, "internal/filter.hasDoubleWildcard")
		cutOK := false
		for _, call := range calls {
			res := eng.Results(call)
			if len(res) < 2 || res[1] == nil {
				continue
			}
			for _, b := range cm.Blocks {
				for _, in := range b.Instrs {
					if sl, isSl := in.(*ssa.Slice); isSl && sl.High != nil && eng.SameAs(res[1])(sl.High) {
						cutOK = true
					}
				}
			}
		}
		c.Check(cutOK, rule, "childMatch:cuts-at-reported-position", cm.Pos(), "childMatch shortens the path to the position hasDoubleWildcard reported")
	}
}

// ruleDoubleStarBound (C28, "'**' matches any number of components"): match expands the first
// `**` into 0..n single wildcards and recurses for the rest of the pattern. n must leave one
// path component for every part that is *not* a `**` — and nothing for the other `**`, which
// may stand for no component at all. The bound of that loop is therefore not computed from
// len(pattern.parts), which counts the other `**` as if each needed a component (genuine
// defect, fixed: /a/**/b/**/c did not match /a/b/c).
func ruleDoubleStarBound(c *eng.Ctx) {
	const rule = "doublestar-bound"
	fn := c.NeedFn(rule, "internal/filter.match")
	if fn == nil {
		return
	}
	partsF := c.P.Field("internal/filter.Pattern", "parts")
	isLenOfParts := func(v ssa.Value) bool {
		call, ok := v.(*ssa.Call)
		if !ok {
			return false
		}
		b, isB := call.Call.Value.(*ssa.Builtin)
		return isB && b.Name() == "len" && partsF != nil && eng.LoadsField(call.Call.Args[0], partsF)
	}
	var mentionsLenParts func(v ssa.Value, d int) bool
	mentionsLenParts = func(v ssa.Value, d int) bool {
		if d > 6 {
			return false
		}
		if isLenOfParts(v) {
			return true
		}
		if bo, ok := v.(*ssa.BinOp); ok {
			return mentionsLenParts(bo.X, d+1) || mentionsLenParts(bo.Y, d+1)
		}
		return false
	}
	// the recursive call marks the expansion loop
	rec := c.P.CallsTo(fn, "internal/filter.match")
	if len(rec) == 0 {
		c.Unk(rule, "match:expansion-loop", fn.Pos(), "the recursive expansion of `**` was not found")
		return
	}
	var header *ssa.BasicBlock
	for _, b := range fn.Blocks {
		if !b.Dominates(rec[0].Block()) {
			continue
		}
		for _, p := range b.Preds {
			if b.Dominates(p) && (header == nil || header.Dominates(b)) {
				header = b
			}
		}
	}
	if header == nil {
		c.Unk(rule, "match:expansion-loop", rec[0].Pos(), "the recursion is not inside a loop")
		return
	}
	ifi, ok := header.Instrs[len(header.Instrs)-1].(*ssa.If)
	if !ok {
		c.Unk(rule, "match:expansion-bound", header.Instrs[0].Pos(), "the loop over the expansions has no condition in its header")
		return
	}
	cond, _ := eng.Unnot(ifi.Cond)
	_, x, y, isCmp := eng.Cmp(cond)
	c.Check(isCmp && !mentionsLenParts(x, 0) && !mentionsLenParts(y, 0), rule, "match:expansion-bound-ignores-other-doublestars", rec[0].Pos(), "the number of expansions of the first `**` is not bounded through len(pattern.parts), which counts further `**` as mandatory components")
}
