package rules

import (
	"go/token"
	"go/types"
	"strings"

	"golang.org/x/tools/go/ssa"

	"verif/internal/eng"
)

const pkgWalker = "internal/walker"

// isNodeRewriteFunc: func(*data.Node, string) *data.Node
func isNodeRewriteFunc(sig *types.Signature) bool {
	if sig.Params().Len() != 2 || sig.Results().Len() != 1 {
		return false
	}
	return strings.HasSuffix(sig.Params().At(0).Type().String(), "data.Node") && strings.HasSuffix(sig.Results().At(0).Type().String(), "data.Node") &&
		sig.Params().At(1).Type().String() == "string"
}

// ruleFilterIdentity (C27): the node filters built for --exclude / --include hand a node
// through unchanged or drop it; they never edit it.
func ruleFilterIdentity(c *eng.Ctx) {
	const rule = "filter-identity"
	nodeT := c.P.NamedType(pkgData + ".Node")
	if nodeT == nil {
		c.Unk(rule, "anchor:data.Node", 0, "type does not resolve")
		return
	}
	nst := nodeT.Underlying().(*types.Struct)
	for _, gname := range []string{"cmd/restic.gatherExcludeFilters", "cmd/restic.gatherIncludeFilters"} {
		g := c.NeedFn(rule, gname)
		if g == nil {
			continue
		}
		short := gname[strings.LastIndex(gname, ".")+1:]
		nf := 0
		for _, lit := range c.P.Lits(g) {
			// no literal of the builder writes a node field
			for _, b := range lit.Blocks {
				for _, in := range b.Instrs {
					if st, ok := in.(*ssa.Store); ok {
						if fa, isFA := st.Addr.(*ssa.FieldAddr); isFA {
							fv := eng.FieldVar(fa.X.Type(), fa.Field)
							for i := 0; i < nst.NumFields(); i++ {
								if nst.Field(i) == fv {
									c.Bad(rule, short+":no-node-field-written", st.Pos(), "the filter assigns Node.%s: kept entries must keep their metadata and data", fv.Name())
								}
							}
						}
					}
				}
			}
			if !isNodeRewriteFunc(lit.Signature) {
				continue
			}
			nf++
			ok := true
			for _, r := range eng.Returns(lit) {
				v := eng.RetVal(r, 0)
				if !(eng.IsNilConst(v) || eng.IsParam(lit, lit.Params[0].Name())(v)) {
					ok = false
				}
			}
			c.Check(ok, rule, short+":returns-node-or-nil", lit.Pos(), "the node filter returns its node argument itself or nil")
		}
		c.Check(nf == 1, rule, short+":one-node-filter", g.Pos(), "%s builds one node filter (%d)", short, nf)
		c.Ok(rule, short+":no-node-field-written", g.Pos(), "no literal of %s stores to a field of data.Node", short)
	}
	// exclude: a node is dropped exactly when one of the reject functions matches its path
	if g := c.P.Fn("cmd/restic.gatherExcludeFilters"); g != nil {
		var filterLit, selLit *ssa.Function
		for _, lit := range c.P.Lits(g) {
			if lit.Parent() != g {
				continue
			}
			if isNodeRewriteFunc(lit.Signature) {
				filterLit = lit
			} else if lit.Signature.Params().Len() == 1 && lit.Signature.Results().Len() == 1 {
				selLit = lit
			}
		}
		if filterLit == nil || selLit == nil {
			c.Unk(rule, "gatherExcludeFilters:shape", g.Pos(), "node filter / selection helper not found")
		} else {
			// selection helper: true ⇔ no reject(nodepath)
			var rejects []ssa.CallInstruction
			for _, call := range eng.Calls(selLit) {
				if !call.Common().IsInvoke() && call.Common().StaticCallee() == nil {
					if eng.IsParam(selLit, selLit.Params[0].Name())(eng.Arg(call, 0)) {
						rejects = append(rejects, call)
					}
				}
			}
			okSel := len(rejects) >= 1
			for _, r := range eng.Returns(selLit) {
				k, isK := eng.RetVal(r, 0).(*ssa.Const)
				if !isK || k.Value == nil {
					okSel = false
					continue
				}
				isTrue := k.Value.String() == "true"
				for _, e := range eng.ResultCut(true, 0, rejects...).EdgeList() {
					reach := eng.FindPath(eng.EdgeStart(selLit, e), r, nil) != nil
					if isTrue && reach {
						okSel = false // selected although a reject function matched
					}
				}
				if !isTrue && eng.FindPath(eng.Entry(selLit), r, eng.ResultCut(true, 0, rejects...)) != nil {
					okSel = false // dropped without any match
				}
			}
			c.Check(okSel, rule, "gatherExcludeFilters:dropped-iff-a-pattern-matches", selLit.Pos(), "the selection helper returns false exactly on the edge where a reject function returned true for the path, and true only when none did")
			// the filter keeps the node iff the helper says so, asked about the node's own path
			var sel []ssa.CallInstruction
			for _, call := range eng.Calls(filterLit) {
				for _, o := range eng.Origins(call.Common().Value, nil) {
					if mc, ok := o.(*ssa.MakeClosure); ok && mc.Fn == ssa.Value(selLit) {
						sel = append(sel, call)
					}
					if f, ok := o.(*ssa.Function); ok && f == selLit {
						sel = append(sel, call)
					}
				}
				if ld, ok := call.Common().Value.(*ssa.UnOp); ok {
					if fv, isFV := ld.X.(*ssa.FreeVar); isFV {
						if cell, _ := boundCell(c.P, filterLit, fv); cell != nil {
							if a, isA := cell.(*ssa.Alloc); isA {
								for _, st := range cellStores(a) {
									if mc, isMC := eng.Strip(st.Val).(*ssa.MakeClosure); isMC && mc.Fn == ssa.Value(selLit) {
										sel = append(sel, call)
									}
								}
							}
						}
					}
				}
			}
			okF := len(sel) >= 1
			for _, s := range sel {
				if !eng.IsParam(filterLit, filterLit.Params[1].Name())(eng.Arg(s, 0)) {
					okF = false
				}
			}
			for _, r := range eng.Returns(filterLit) {
				if eng.IsNilConst(eng.RetVal(r, 0)) {
					if eng.FindPath(eng.Entry(filterLit), r, eng.ResultCut(false, 0, sel...)) != nil {
						okF = false
					}
				} else if eng.FindPath(eng.Entry(filterLit), r, eng.ResultCut(true, 0, sel...)) != nil {
					okF = false
				}
			}
			c.Check(okF, rule, "gatherExcludeFilters:filter-follows-selection", filterLit.Pos(), "the node is kept exactly when the selection helper, asked about the node's path, returns true")
		}
	}
	c.Floor(rule, 6, 8)
}

// ruleRewriteTreeShape (C27): RewriteTree drops an entry only when the filter dropped it or
// its subtree became empty, adds every other entry as returned by the filter, and refuses to
// rewrite a tree it cannot re-encode identically.
func ruleRewriteTreeShape(c *eng.Ctx) {
	const rule = "rewrite-tree"
	fn := c.NeedFn(rule, pkgWalker+".(*TreeRewriter).RewriteTree")
	if fn == nil {
		return
	}
	// with range-over-func the loop body is a literal
	var body *ssa.Function
	var rewriteCall ssa.CallInstruction
	for _, f := range c.P.WithLits(fn) {
		for _, call := range eng.Calls(f) {
			if c.P.CalleeName(call) == "field:"+pkgWalker+".RewriteOpts.RewriteNode" {
				body, rewriteCall = f, call
			}
		}
	}
	if body == nil {
		c.Unk(rule, "RewriteTree:RewriteNode-call", fn.Pos(), "the call of opts.RewriteNode was not found")
		return
	}
	c.Touch(body)
	var adds []ssa.CallInstruction
	for _, call := range eng.Calls(body) {
		if eng.MethodName(call) == "AddNode" {
			adds = append(adds, call)
		}
	}
	recs := c.P.CallsTo(body, pkgWalker+".(*TreeRewriter).RewriteTree")
	var isNull []ssa.CallInstruction
	for _, call := range eng.Calls(body) {
		if eng.MethodName(call) == "IsNull" {
			isNull = append(isNull, call)
		}
	}
	if len(adds) == 0 || len(recs) != 1 {
		c.Unk(rule, "RewriteTree:shape", body.Pos(), "AddNode / recursive call not found (%d/%d)", len(adds), len(recs))
		return
	}
	// 1. what is added is what the filter returned
	res := rewriteCall.Value()
	for _, a := range adds {
		c.Check(eng.SameAs(res)(eng.Arg(a, 0)), rule, "RewriteTree:adds-filter-result", a.Pos(), "AddNode receives the node returned by RewriteNode")
	}
	// 2. the filter sees the tree's node and its path
	nodeF := c.P.Field(pkgData+".NodeOrError", "Node")
	c.Check(mentionsFieldDeepArgs(eng.Arg(rewriteCall, 0), nodeF), rule, "RewriteTree:filter-gets-tree-node", rewriteCall.Pos(), "RewriteNode is given item.Node")
	okPath := false
	if call := eng.RootCall(eng.Arg(rewriteCall, 1)); call != nil && c.P.CalleeName(call) == "path.Join" {
		okPath = true
	}
	for _, o := range eng.Origins(eng.Arg(rewriteCall, 1), nil) {
		if call := eng.RootCall(o); call != nil && c.P.CalleeName(call) == "path.Join" {
			okPath = true
		}
	}
	c.Check(okPath, rule, "RewriteTree:filter-gets-joined-path", rewriteCall.Pos(), "the path given to the filter is path.Join(nodepath, node.Name)")
	// 3. a kept node is skipped only for an empty (null) rewritten subtree
	nonNil := eng.NilEdges(body, eng.SameAs(res), false)
	done := func(in ssa.Instruction) bool {
		if r, ok := in.(*ssa.Return); ok {
			// the body literal returns true to continue the iteration; in the plain-loop form a back edge
			if k, isK := eng.RetVal(r, 0).(*ssa.Const); isK && k.Value != nil && k.Value.String() == "true" {
				return true
			}
		}
		for _, e := range backEdges(body) {
			b := body.Blocks[e[0]]
			if b.Instrs[len(b.Instrs)-1] == in {
				return true
			}
		}
		return false
	}
	cut := eng.Union(eng.CallCut(adds...), eng.ResultCut(true, 0, isNull...))
	okSkip := len(nonNil) > 0
	for _, e := range nonNil {
		if eng.FindPathF(eng.EdgeStart(body, e), done, cut) != nil {
			okSkip = false
		}
	}
	c.Check(okSkip, rule, "RewriteTree:kept-node-added-unless-subtree-empty", rewriteCall.Pos(), "after the filter kept a node the iteration moves on only through AddNode or the edge where the rewritten subtree ID is null")
	// 4. the directory's new subtree is the recursive result
	subF := c.P.Field(pkgData+".Node", "Subtree")
	okSub := false
	for _, st := range c.P.FieldStoresIn(body, subF) {
		for _, o := range eng.Origins(st.Val, nil) {
			if a, ok := o.(*ssa.Alloc); ok {
				for _, s2 := range cellStores(a) {
					if resultOf(s2.Val, recs[0], 0) {
						okSub = true
					}
				}
			}
		}
		if a, ok := st.Val.(*ssa.Alloc); ok {
			for _, s2 := range cellStores(a) {
				if resultOf(s2.Val, recs[0], 0) {
					okSub = true
				}
			}
		}
	}
	c.Check(okSub, rule, "RewriteTree:subtree-is-recursive-result", recs[0].Pos(), "node.Subtree is set to the ID returned by the recursive RewriteTree")
	// 5. re-encode check before any rewriting, unless explicitly waived
	unstableF := c.P.Field(pkgWalker+".RewriteOpts", "AllowUnstableSerialization")
	idEq := eng.CmpEdgesEq(fn, func(x, y ssa.Value) bool {
		isID := func(v ssa.Value) bool { return eng.IsParam(fn, "nodeID")(v) }
		return isID(x) || isID(y)
	})
	guard := eng.NewCut().AddEdges(idEq...).AddEdges(eng.FieldEdges(fn, unstableF, true)...)
	var target ssa.Instruction = rewriteCall.(ssa.Instruction)
	if body != fn {
		for _, b := range fn.Blocks {
			for _, in := range b.Instrs {
				if mc, ok := in.(*ssa.MakeClosure); ok && mc.Fn == ssa.Value(body) {
					target = mc
				}
			}
		}
	}
	c.MustPass(rule, "RewriteTree:re-encodes-identically→rewrite", eng.Entry(fn), target, guard, "the tree re-encodes to the same ID (nodeID == testID), or AllowUnstableSerialization")
	// 6. memoisation only of finished trees
	fin := c.P.CallsWhere(fn, func(call ssa.CallInstruction) bool { return eng.MethodName(call) == "Finalize" })
	for _, b := range fn.Blocks {
		for _, in := range b.Instrs {
			if mu, ok := in.(*ssa.MapUpdate); ok && mentionsFieldDeepArgs(mu.Map, c.P.Field(pkgWalker+".TreeRewriter", "replaces")) {
				c.MustPass(rule, "RewriteTree:memo-after-finalize", eng.Entry(fn), mu, eng.SuccessCut(fin...), "tb.Finalize succeeded")
				c.Check(eng.IsParam(fn, "nodeID")(mu.Key) && len(fin) == 1 && resultOf(mu.Value, fin[0], 0), rule, "RewriteTree:memo-maps-old-to-new", mu.Pos(), "replaces[nodeID] = newTreeID")
			}
		}
	}
	c.Floor(rule, 7, 9)
}

// ruleRewriteUnchanged (C27): a rewrite that produces the same tree (and no metadata change)
// saves nothing.
func ruleRewriteUnchanged(c *eng.Ctx) {
	const rule = "rewrite-unchanged"
	fn := c.NeedFn(rule, "cmd/restic.filterAndReplaceSnapshot")
	if fn == nil {
		return
	}
	treeF := c.P.Field(pkgData+".Snapshot", "Tree")
	same := eng.CmpEdges(fn, func(op token.Token, x, y ssa.Value) (bool, bool) {
		if op != token.EQL && op != token.NEQ {
			return false, false
		}
		if !(mentionsFieldDeepArgs(x, treeF) || mentionsFieldDeepArgs(y, treeF)) {
			return false, false
		}
		return true, op == token.NEQ // the edge on which the tree differs
	})
	saves := c.P.CallsTo(fn, fnSaveSnapshot)
	c.Check(len(same) > 0 && len(saves) >= 1, rule, "filterAndReplaceSnapshot:shape", fn.Pos(), "tree comparison and SaveSnapshot found (%d/%d)", len(same), len(saves))
	// specialised: same tree, no new metadata, matching summary → SaveSnapshot unreachable
	seed := func(env *eng.PSEnv) {
		for _, b := range fn.Blocks {
			for _, in := range b.Instrs {
				bo, ok := in.(*ssa.BinOp)
				if !ok || (bo.Op != token.EQL && bo.Op != token.NEQ) {
					continue
				}
				if mentionsFieldDeepArgs(bo.X, treeF) || mentionsFieldDeepArgs(bo.Y, treeF) {
					if !eng.IsNilConst(bo.Y) && !eng.IsNilConst(bo.X) {
						env.Assume(bo, bo.Op == token.EQL)
					}
				}
			}
		}
		env.AssumeNilAlways(fn.Params[paramPos(fn, "newMetadata")], true)
		// summary == nil: the filter did not recompute statistics
		for _, b := range fn.Blocks {
			for _, in := range b.Instrs {
				if bo, ok := in.(*ssa.BinOp); ok && (bo.Op == token.EQL || bo.Op == token.NEQ) && eng.IsNilConst(bo.Y) {
					if strings.HasSuffix(bo.X.Type().String(), "data.SnapshotSummary") {
						env.Assume(bo, bo.Op == token.EQL)
					}
				}
			}
		}
	}
	for _, s := range saves {
		res := c.P.FindPathSeeded(eng.Entry(fn), func(in ssa.Instruction) bool { return in == s.(ssa.Instruction) }, nil, nil, seed)
		c.Check(res == nil, rule, "filterAndReplaceSnapshot:same-tree→nothing-saved", s.Pos(), "with an identical filtered tree, no metadata change and no recomputed summary, SaveSnapshot is unreachable")
	}
	// and the removal of the old snapshot (--forget) only after the new one was saved
	c.Floor(rule, 2, 2)
}
