package rules

import "verif/internal/eng"

func init() {
	register(&Property{
		ID: "C05",
		Explanation: "Decides the guard clauses of the statement, not the cryptographic round trip: in (*crypto.Key).Open the AES-CTR keystream is applied, and a nil error returned, only on the true branch of poly1305Verify; the ciphertext is sliced only after the length >= Overhead() check; Seal reaches XORKeyStream only through k.Valid(), len(nonce)==ivSize and validNonce(nonce) and returns only after encrypting (rejections panic); KDF calls scrypt only after the salt-length and params.Check() guards; Extension == ivSize+macSize. Not decided: plaintext equality after a round trip and rejection of every bit flip (properties of AES-CTR/Poly1305 themselves).",
		Assumptions: []string{"crypto/aes, crypto/cipher, poly1305 and scrypt implement their specifications", "go/ssa and go/types model the program faithfully"},
		Run: func(c *eng.Ctx) {
			ruleMacBeforeDecrypt(c)
			ruleSealGuards(c)
			ruleOpenGuards(c)
			ruleKDFGuards(c)
			ruleCryptoConsts(c)
		},
	})
}
