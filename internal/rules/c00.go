package rules

import "verif/internal/eng"

func init() {
	register(&Property{
		ID: "C04",
		Explanation: "Decides: (fresh-nonce) every call of (*crypto.Key).Seal in the program takes a nonce that originates solely from a crypto.NewRandomNonce() call in the same function, that call feeds exactly one Seal, and the Seal cannot be re-executed without a new nonce call; (rng) NewRandomNonce/NewRandomKey/NewSalt fill the returned buffer from crypto/rand.Read and a short or failed read cannot reach a return; (ciphertext-only) everything added to a pack, written to the pack file, handed to the backend for unpacked files and stored in Key.Data originates from Seal output, and key files serialise only the informational fields; (backend-save-callers) Backend.Save is called only from the classified savers in package repository and from wrappers forwarding their own handle. (savepacker-once) the upload workers call savePacker — which seals and appends the header and uploads the pack — once per packer taken from their queue: a second call for the same packer would store the same blob ciphertexts and nonces under a second name (added after a seeded 'retry once' in the worker). Not decided: secrecy of AES-CTR output, compression side channels, pack-size leakage.",
		Assumptions: append([]string{"crypto/rand.Read returns unpredictable bytes"}, commonAssumptions...),
		Technique:   "static analysis: call-site enumeration + backward value-origin slice (go/ssa)",
		AllConfigs:  true,
		Run: func(c *eng.Ctx) {
			ruleSavePackerOnce(c)
			ruleFreshNonce(c)
			ruleRNG(c)
			ruleCiphertextOnly(c)
			ruleBackendSaveCallers(c)
		},
		Controls: []Control{
			{Name: "worker-retries-savepacker", File: "internal/repository/packer_uploader.go",
				Old: "					err := repo.savePacker(ctx, t.tpe, t.packer)\n", New: "					err := repo.savePacker(ctx, t.tpe, t.packer)\n					if err != nil && ctx.Err() == nil {\n						err = repo.savePacker(ctx, t.tpe, t.packer)\n					}\n", Rule: "savepacker-once"},
			{Name: "reuse-nonce-for-header", File: "internal/repository/pack/pack.go",
				Old: "encryptedHeader = p.k.Seal(encryptedHeader, nonce, header, nil)", New: "encryptedHeader = p.k.Seal(encryptedHeader, encryptedHeader[:16], header, nil)", Rule: "fresh-nonce"},
			{Name: "save-plaintext-blob", File: "internal/repository/repository.go",
				Old: "return pm.SaveBlob(ctx, t, id, ciphertext, uncompressedLength)", New: "return pm.SaveBlob(ctx, t, id, data, uncompressedLength)", Rule: "ciphertext-only"},
		},
	})
	register(&Property{
		ID: "C05",
		Explanation: "Decides the guard clauses of the statement, not the cryptographic round trip: in (*crypto.Key).Open the AES-CTR keystream is applied, and a nil error returned, only on the true branch of poly1305Verify; the ciphertext is sliced only after the length >= Overhead() check; Seal reaches XORKeyStream only through k.Valid(), len(nonce)==ivSize and validNonce(nonce) and returns only after encrypting (rejections panic); KDF calls scrypt only after the salt-length and params.Check() guards; Extension == ivSize+macSize; (key-validity) by specialised evaluation MACKey.Valid cannot return true with every byte of K zero, nor with every byte of R zero (with r == 0 the Poly1305 tag is independent of the message), EncryptionKey.Valid cannot return true for the zero key, Key.Valid requires both, and OpenKey succeeds only behind master.Valid() — added after a seeded change that merged the two MAC-key loops into an OR. Not decided: plaintext equality after a round trip and rejection of every bit flip (properties of AES-CTR/Poly1305 themselves).",
		Assumptions: append([]string{"crypto/aes, crypto/cipher, poly1305 and scrypt implement their specifications"}, commonAssumptions...),
		Technique:   "static analysis: CFG edge-cut reachability (must-pass-through) on go/ssa + constant evaluation",
		Run: func(c *eng.Ctx) {
			ruleMacBeforeDecrypt(c)
			ruleSealGuards(c)
			ruleOpenGuards(c)
			ruleKDFGuards(c)
			ruleCryptoConsts(c)
			ruleKeyValidity(c)
		},
		Controls: []Control{
			{Name: "mac-key-valid-with-one-zero-half", File: "internal/repository/crypto/crypto.go",
				Old: "	if !nonzeroK {\n		return false\n	}\n", New: "	if nonzeroK {\n		return true\n	}\n", Rule: "key-validity"},
			{Name: "key-valid-ignores-mac-key", File: "internal/repository/crypto/crypto.go",
				Old: "	return k.EncryptionKey.Valid() && k.MACKey.Valid()", New: "	return k.EncryptionKey.Valid() || k.MACKey.Valid()", Rule: "key-validity"},
			{Name: "decrypt-before-verify", File: "internal/repository/crypto/crypto.go",
				Old: "	if !poly1305Verify(ct, nonce, &k.MACKey, mac) {\n		return nil, ErrUnauthenticated\n	}\n", New: "	if !poly1305Verify(ct, nonce, &k.MACKey, mac) && len(dst) > 0 {\n		return nil, ErrUnauthenticated\n	}\n", Rule: "mac-before-decrypt"},
			{Name: "seal-accepts-zero-nonce", File: "internal/repository/crypto/crypto.go",
				Old: "	if !validNonce(nonce) {\n		panic(\"nonce is invalid\")\n	}\n", New: "", Rule: "seal-guards"},
		},
	})
}
