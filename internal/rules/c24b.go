package rules

import (
	"golang.org/x/tools/go/ssa"

	"verif/internal/eng"
)

// ruleFilterNegativesJustified (C24, "filters select exactly the snapshots satisfying them"):
// a snapshot is rejected by the path filter only because a requested path is missing from it,
// and by a tag list only because a requested tag is missing: in Snapshot.HasPaths every
// `return false` lies behind the miss edge of the lookup of a requested path in the set of the
// snapshot's paths; in Snapshot.HasTags every `return false` lies behind the false edge of
// sn.hasTag(tag). Shortcuts on lengths or counts are wrong as soon as the request repeats an
// entry.
func ruleFilterNegativesJustified(c *eng.Ctx) {
	const rule = "filter-negatives-justified"
	if fn := c.NeedFn(rule, "internal/data.(*Snapshot).HasPaths"); fn != nil {
		var miss []eng.EdgeKey
		for _, b := range fn.Blocks {
			for _, in := range b.Instrs {
				if lk, ok := in.(*ssa.Lookup); ok && lk.CommaOk {
					for _, ref := range *lk.Referrers() {
						if ex, isEx := ref.(*ssa.Extract); isEx && ex.Index == 1 {
							miss = append(miss, eng.BoolEdges(fn, eng.SameAs(ex), false)...)
						}
					}
				}
			}
		}
		n := 0
		for _, r := range eng.Returns(fn) {
			if k, ok := eng.RetVal(r, 0).(*ssa.Const); ok && k.Value != nil && k.Value.String() == "false" {
				n++
				c.MustPass(rule, "HasPaths:false→a-requested-path-is-missing", eng.Entry(fn), r, eng.NewCut().AddEdges(miss...), "a requested path was not found among the snapshot's paths")
			} else if !ok {
				c.Bad(rule, "HasPaths:result", r.Pos(), "HasPaths returns a computed value (%s)", c.P.Describe(eng.RetVal(r, 0)))
			}
		}
		c.Check(n >= 1, rule, "HasPaths:negative-returns", fn.Pos(), "%d negative returns", n)
	}
	if fn := c.NeedFn(rule, "internal/data.(*Snapshot).HasTags"); fn != nil {
		has := c.P.CallsTo(fn, "internal/data.(*Snapshot).hasTag")
		n := 0
		for _, r := range eng.Returns(fn) {
			if k, ok := eng.RetVal(r, 0).(*ssa.Const); ok && k.Value != nil && k.Value.String() == "false" {
				n++
				c.MustPass(rule, "HasTags:false→a-requested-tag-is-missing", eng.Entry(fn), r, eng.ResultCut(false, 0, has...), "sn.hasTag(tag) is false")
			}
		}
		c.Check(n >= 1 && len(has) >= 1, rule, "HasTags:negative-returns", fn.Pos(), "%d negative returns, %d hasTag calls", n, len(has))
	}
}

// headerExitEdges returns the edges that leave a loop through its header: from a block that
// dominates one of its own predecessors to a successor from which the header cannot be reached
// again. A `return` in the middle of the body is not such an edge.
func headerExitEdges(fn *ssa.Function) []eng.EdgeKey {
	reach := func(from, to *ssa.BasicBlock) bool {
		seen := map[*ssa.BasicBlock]bool{}
		work := []*ssa.BasicBlock{from}
		for len(work) > 0 {
			b := work[len(work)-1]
			work = work[:len(work)-1]
			if b == to {
				return true
			}
			if seen[b] {
				continue
			}
			seen[b] = true
			work = append(work, b.Succs...)
		}
		return false
	}
	var out []eng.EdgeKey
	for _, h := range fn.Blocks {
		isHeader := false
		for _, p := range h.Preds {
			if h.Dominates(p) {
				isHeader = true
			}
		}
		if !isHeader {
			continue
		}
		for _, s := range h.Succs {
			if !reach(s, h) {
				out = append(out, eng.EdgeKey{h.Index, s.Index})
			}
		}
	}
	return out
}

// ruleTagListConjunction (C24): a tag list is a conjunction — HasTags says yes only after the
// loop over the requested tags has run to its end. A `return true` from inside the loop accepts
// a snapshot without looking at the remaining tags (genuine defect, fixed: the empty tag, which
// stands for "has no tags", ended the evaluation, so `--tag ,foo` selected untagged snapshots).
func ruleTagListConjunction(c *eng.Ctx) {
	const rule = "tag-list-conjunction"
	fn := c.NeedFn(rule, "internal/data.(*Snapshot).HasTags")
	if fn == nil {
		return
	}
	exits := headerExitEdges(fn)
	if len(exits) == 0 {
		c.Unk(rule, "HasTags:loop", fn.Pos(), "no loop over the requested tags found")
		return
	}
	n := 0
	for _, r := range eng.Returns(fn) {
		k, ok := eng.RetVal(r, 0).(*ssa.Const)
		if ok && k.Value != nil && k.Value.String() == "false" {
			continue
		}
		n++
		c.MustPass(rule, "HasTags:positive→all-tags-examined", eng.Entry(fn), r, eng.NewCut().AddEdges(exits...), "the loop over the requested tags ran to its end")
	}
	c.Check(n >= 1, rule, "HasTags:positive-returns", fn.Pos(), "%d positive returns", n)
}
