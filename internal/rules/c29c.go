package rules

import (
	"strings"

	"golang.org/x/tools/go/ssa"

	"verif/internal/eng"
)

// ruleKeyRemovalExclusive (C29, "key add, key passwd and key remove keep at least one working
// key", "the key in use cannot be removed"): the guard "refusing to remove key currently used"
// knows only the key of its own process. What keeps two processes from removing each other's
// key, or a key another process is working with, is the exclusive lock. Every removal of a key
// file in cmd/restic is reached only from a command that opened the repository with
// openWithExclusiveLock — except the removal of the key a command has just added and found
// broken, which nobody else can be using.
func ruleKeyRemovalExclusive(c *eng.Ctx) {
	const rule = "key-removal-exclusive"
	exempt := map[string]string{
		"cmd/restic.switchToNewKeyAndRemoveIfBroken": "removes only the key this command has just added and could not open",
	}
	opens := func(fn *ssa.Function) []string {
		var out []string
		for _, f := range c.P.WithLits(fn) {
			for _, call := range eng.Calls(f) {
				n := c.P.CalleeName(call)
				if strings.HasPrefix(n, "cmd/restic.openWith") && strings.HasSuffix(n, "Lock") {
					out = append(out, strings.TrimPrefix(n, "cmd/restic."))
				}
			}
		}
		return out
	}
	sites := c.P.AllCallsTo(pkgRepo + ".RemoveKey")
	n := 0
	for _, s := range sites {
		root := eng.Root(s.Fn)
		if eng.PkgOf(root) != "cmd/restic" || strings.Contains(c.P.Pos(root.Pos()), "_test.go") {
			continue
		}
		n++
		c.Touch(root)
		key := c.P.FnName(root) + "→RemoveKey"
		if why, ok := exempt[c.P.FnName(root)]; ok {
			c.Ok(rule, key, s.Call.Pos(), "exempt: %s", why)
			continue
		}
		// walk up the static callers until functions that open the repository are found
		seen := map[*ssa.Function]bool{root: true}
		frontier := []*ssa.Function{root}
		var modes []string
		for depth := 0; depth < 4 && len(frontier) > 0; depth++ {
			var next []*ssa.Function
			for _, f := range frontier {
				if o := opens(f); len(o) > 0 {
					modes = append(modes, o...)
					continue
				}
				for _, cs := range c.P.AllCallsTo(c.P.FnName(f)) {
					p := eng.Root(cs.Fn)
					if !seen[p] && !strings.Contains(c.P.Pos(p.Pos()), "_test.go") {
						seen[p] = true
						next = append(next, p)
					}
				}
			}
			frontier = next
		}
		ok := len(modes) > 0
		for _, m := range modes {
			if m != "openWithExclusiveLock" {
				ok = false
			}
		}
		c.Check(ok, rule, key, s.Call.Pos(), "the command that reaches this removal opens the repository with the exclusive lock (%s)", strings.Join(modes, ", "))
	}
	c.Check(n >= 2, rule, "RemoveKey:call-sites", 0, "%d removals of key files in cmd/restic", n)
}
