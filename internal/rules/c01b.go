package rules

import (
	"golang.org/x/tools/go/ssa"

	"verif/internal/eng"
)

// ruleXattrsExact (C01, "extended attributes of a restored entry are those recorded"): where
// the platform restores extended attributes by name (setxattr/listxattr/removexattr), a
// successful restore of a node's attributes has always looked at what the target carries:
// every nil-error return of nodeRestoreExtendedAttributes lies behind the listing of the
// target's attributes, and an attribute is removed only if it is not among those just set and
// the filter selects it. A node that records no attributes is no exception — a file created
// below a directory with a default ACL inherits attributes that have to go.
func ruleXattrsExact(c *eng.Ctx) {
	const rule = "xattrs-exact"
	fn := c.P.Fn("internal/fs.nodeRestoreExtendedAttributes")
	if fn == nil {
		c.Unk(rule, "anchor:nodeRestoreExtendedAttributes", 0, "internal/fs.nodeRestoreExtendedAttributes does not resolve")
		return
	}
	c.Touch(fn)
	lists := c.P.CallsTo(fn, "internal/fs.listxattr")
	sets := c.P.CallsTo(fn, "internal/fs.setxattr")
	removes := c.P.CallsTo(fn, "internal/fs.removexattr")
	if len(lists)+len(sets)+len(removes) == 0 {
		c.Ok(rule, "nodeRestoreExtendedAttributes:other-mechanism", fn.Pos(), "this platform does not restore attributes by name through setxattr/listxattr (no-op or platform API)")
		return
	}
	if len(lists) == 0 {
		c.Bad(rule, "nodeRestoreExtendedAttributes:lists-target", fn.Pos(), "attributes are set but the target's attributes are never listed: unexpected ones cannot be removed")
		return
	}
	n := 0
	for _, r := range eng.Returns(fn) {
		if !eng.IsNilConst(eng.RetVal(r, 0)) {
			continue
		}
		n++
		c.MustPass(rule, "nodeRestoreExtendedAttributes:success→target-attributes-listed", eng.Entry(fn), r, eng.SuccessCut(lists...), "listxattr(path) succeeded")
	}
	c.Check(n >= 1 && len(removes) >= 1, rule, "nodeRestoreExtendedAttributes:removes-unexpected", fn.Pos(), "%d success returns, %d removexattr calls", n, len(removes))
	// removal only of attributes that were not just set: behind the miss edge of a lookup in the map filled next to setxattr
	var miss []eng.EdgeKey
	for _, b := range fn.Blocks {
		for _, in := range b.Instrs {
			if lk, ok := in.(*ssa.Lookup); ok && lk.CommaOk {
				for _, ref := range *lk.Referrers() {
					if ex, isEx := ref.(*ssa.Extract); isEx && ex.Index == 1 {
						miss = append(miss, eng.BoolEdges(fn, eng.SameAs(ex), false)...)
					}
				}
			}
		}
	}
	for _, rm := range removes {
		c.MustPass(rule, "nodeRestoreExtendedAttributes:not-expected→remove", eng.After(lists[0].(ssa.Instruction)), rm.(ssa.Instruction), eng.NewCut().AddEdges(miss...), "the attribute is not among those recorded for the node")
	}
}
