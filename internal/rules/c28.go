package rules

import (
	"go/constant"
	"go/token"
	"strings"

	"golang.org/x/tools/go/ssa"

	"verif/internal/eng"
)

const pkgFilter = "internal/filter"

// rulePatternTotality (C28): the pattern code is never handed the inputs it cannot handle:
// preparePattern (which reads patternStr[0]) only sees non-empty patterns, pattern lists are
// validated before matchers are built from them, the case-insensitive matchers fold both
// sides, and matching errors are reported.
func rulePatternTotality(c *eng.Ctx) {
	const rule = "pattern-totality"
	// 1. preparePattern only with a non-empty string
	sites := c.P.AllCallsTo(pkgFilter + ".preparePattern")
	n := 0
	for _, s := range sites {
		if strings.HasSuffix(c.P.Pos(s.Call.Pos()), "_test.go") {
			continue
		}
		n++
		arg := eng.Arg(s.Call, 0)
		nonEmpty := eng.CmpEdges(s.Fn, func(op token.Token, x, y ssa.Value) (bool, bool) {
			k, isK := y.(*ssa.Const)
			if !isK || k.Value == nil || k.Value.ExactString() != `""` || !eng.SameAs(arg)(x) {
				// len(x) != 0 form
				if kk, isInt := eng.ConstInt(y); isInt && kk == 0 && eng.IsLenOf(x, eng.SameAs(arg)) {
					switch op {
					case token.NEQ, token.GTR:
						return true, true
					case token.EQL:
						return true, false
					}
				}
				return false, false
			}
			switch op {
			case token.NEQ:
				return true, true
			case token.EQL:
				return true, false
			}
			return false, false
		})
		c.MustPass(rule, c.P.FnName(s.Fn)+"→preparePattern:non-empty", eng.Entry(s.Fn), s.Call.(ssa.Instruction), eng.NewCut().AddEdges(nonEmpty...), "the pattern string is not empty (preparePattern reads patternStr[0])")
	}
	if n < 3 {
		c.Unk(rule, "preparePattern:floor", 0, "expected at least 3 call sites of preparePattern, found %d", n)
	}
	// 2. validated before use
	for _, spec := range []struct {
		fn       string
		builders []string
	}{
		{pkgFilter + ".ExcludePatternOptions.CollectPatterns", []string{pkgFilter + ".RejectByPattern", pkgFilter + ".RejectByInsensitivePattern"}},
		{pkgFilter + ".IncludePatternOptions.CollectPatterns", []string{pkgFilter + ".IncludeByPattern", pkgFilter + ".IncludeByInsensitivePattern"}},
	} {
		fn := c.NeedFn(rule, spec.fn)
		if fn == nil {
			continue
		}
		vals := c.P.CallsTo(fn, pkgFilter+".ValidatePatterns")
		nb := 0
		for _, b := range c.P.CallsTo(fn, spec.builders...) {
			nb++
			var same []ssa.CallInstruction
			for _, v := range vals {
				if sameFieldLoad(eng.Arg(v, 0), eng.Arg(b, 0)) || eng.SameAs(eng.Arg(v, 0))(eng.Arg(b, 0)) {
					same = append(same, v)
				}
			}
			name := c.P.CalleeName(b)
			c.MustPass(rule, spec.fn[len(pkgFilter)+1:]+"→"+name[strings.LastIndex(name, ".")+1:]+":validated", eng.Entry(fn), b.(ssa.Instruction), eng.SuccessCut(same...), "ValidatePatterns succeeded on the same pattern list")
		}
		c.Check(nb == 2, rule, spec.fn[len(pkgFilter)+1:]+":builders", fn.Pos(), "both matcher constructors are used (%d)", nb)
		// patterns read from files are validated before they are merged into the lists
		for _, rd := range c.P.CallsTo(fn, pkgFilter+".readPatternsFromFiles") {
			var same []ssa.CallInstruction
			for _, v := range vals {
				if resultOf(eng.Arg(v, 0), rd, 0) {
					same = append(same, v)
				}
			}
			for _, app := range eng.Calls(fn) {
				if c.P.CalleeName(app) != "builtin.append" {
					continue
				}
				args := app.Common().Args
				if len(args) == 2 && resultOf(args[1], rd, 0) {
					c.MustPass(rule, spec.fn[len(pkgFilter)+1:]+":file-patterns-validated-before-merge", eng.Entry(fn), app.(ssa.Instruction), eng.SuccessCut(same...), "ValidatePatterns succeeded on the patterns read from the files")
				}
			}
		}
	}
	// 3. case-insensitive matchers fold the patterns and the item
	for _, spec := range [][2]string{
		{pkgFilter + ".RejectByInsensitivePattern", pkgFilter + ".RejectByPattern"},
		{pkgFilter + ".IncludeByInsensitivePattern", pkgFilter + ".IncludeByPattern"},
	} {
		fn := c.NeedFn(rule, spec[0])
		if fn == nil {
			continue
		}
		short := spec[0][strings.LastIndex(spec[0], ".")+1:]
		inner := c.P.CallsTo(fn, spec[1])
		okPat := len(inner) == 1
		if okPat {
			// the list given to the sensitive constructor is filled with ToLower(pattern)
			okPat = false
			for _, o := range eng.Origins(eng.Arg(inner[0], 0), nil) {
				if mk, ok := o.(*ssa.MakeSlice); ok {
					for _, r := range *mk.Referrers() {
						if ia, isIA := r.(*ssa.IndexAddr); isIA {
							for _, r2 := range *ia.Referrers() {
								if st, isSt := r2.(*ssa.Store); isSt {
									if call := eng.RootCall(st.Val); call != nil && c.P.CalleeName(call) == "strings.ToLower" {
										okPat = true
									}
								}
							}
						}
					}
				}
			}
		}
		c.Check(okPat, rule, short+":patterns-lowered", fn.Pos(), "%s builds the matcher from strings.ToLower of every pattern", short)
		okItem := false
		for _, lit := range c.P.Lits(fn) {
			for _, call := range eng.Calls(lit) {
				if call.Common().IsInvoke() || call.Common().StaticCallee() != nil {
					continue
				}
				if a := eng.RootCall(eng.Arg(call, 0)); a != nil && c.P.CalleeName(a) == "strings.ToLower" && eng.IsParam(lit, lit.Params[0].Name())(eng.Arg(a, 0)) {
					okItem = true
				}
			}
		}
		c.Check(okItem, rule, short+":item-lowered", fn.Pos(), "the returned matcher applies strings.ToLower to the item before matching")
	}
	// 4. errors of the matchers are reported by list, and an empty path is rejected before it is split
	if ls := c.NeedFn(rule, pkgFilter+".list"); ls != nil {
		for _, call := range c.P.CallsTo(ls, pkgFilter+".match", pkgFilter+".childMatch", pkgFilter+".prepareStr") {
			ev := eng.ErrResult(call)
			bad := false
			for _, e := range eng.FailureEdges(call) {
				from, ecut := eng.EdgeOrigin(ls, e, nil)
				res := c.P.FindPathSeeded(from, func(in ssa.Instruction) bool { _, ok := in.(*ssa.Return); return ok }, ecut,
					func(env *eng.PSEnv, target ssa.Instruction) bool {
						return env.MayBeNil(eng.RetVal(target.(*ssa.Return), 2))
					}, func(env *eng.PSEnv) { env.AssumeNil(ev, false) })
				if res != nil {
					bad = true
				}
			}
			name := c.P.CalleeName(call)
			c.Check(!bad && len(eng.FailureEdges(call)) > 0, rule, "list:"+name[strings.LastIndex(name, ".")+1:]+"-error-reported", call.Pos(), "an error of %s ends list with that error", name)
		}
	}
	if ps := c.NeedFn(rule, pkgFilter+".prepareStr"); ps != nil {
		splits := c.P.CallsTo(ps, pkgFilter+".splitPath")
		isStr := eng.IsParam(ps, "str")
		nonEmpty := eng.CmpEdges(ps, func(op token.Token, x, y ssa.Value) (bool, bool) {
			k, isK := y.(*ssa.Const)
			if !isK || k.Value == nil || k.Value.ExactString() != `""` || !isStr(x) {
				return false, false
			}
			return true, op == token.NEQ
		})
		for _, s := range splits {
			c.MustPass(rule, "prepareStr:non-empty→split", eng.Entry(ps), s.(ssa.Instruction), eng.NewCut().AddEdges(nonEmpty...), "str != \"\"")
		}
	}
	if m := c.NeedFn(rule, pkgFilter+".match"); m != nil {
		for _, call := range c.P.CallsTo(m, "path/filepath.Match") {
			ev := eng.ErrResult(call)
			bad := false
			for _, e := range eng.FailureEdges(call) {
				from, ecut := eng.EdgeOrigin(m, e, nil)
				res := c.P.FindPathSeeded(from, func(in ssa.Instruction) bool { _, ok := in.(*ssa.Return); return ok }, ecut,
					func(env *eng.PSEnv, target ssa.Instruction) bool {
						return env.MayBeNil(eng.RetVal(target.(*ssa.Return), 1))
					}, func(env *eng.PSEnv) { env.AssumeNil(ev, false) })
				if res != nil {
					bad = true
				}
			}
			c.Check(!bad, rule, "match:bad-pattern-error-reported", call.Pos(), "a malformed glob reported by filepath.Match ends match with an error")
		}
	}
	// 5. a pattern component is compared literally (the fast path) only if it contains none of the
	// characters filepath.Match interprets: `\` (escape), `[`, `*`, `?`
	if pp := c.NeedFn(rule, pkgFilter+".preparePattern"); pp != nil {
		calls := c.P.CallsTo(pp, "strings.ContainsAny")
		okSet := false
		var set string
		for _, call := range calls {
			if k, isK := eng.Arg(call, 1).(*ssa.Const); isK && k.Value != nil && k.Value.Kind() == constant.String {
				set = constant.StringVal(k.Value)
				okSet = true
				for _, ch := range []string{"\\", "[", "*", "?"} {
					if !strings.Contains(set, ch) {
						okSet = false
					}
				}
			}
		}
		c.Check(okSet, rule, "preparePattern:literal-fast-path-excludes-all-metacharacters", pp.Pos(), "isSimple is decided by strings.ContainsAny(part, %q): the set must contain every character filepath.Match treats specially (\\ [ * ?), otherwise an escaped component like `\\#tmp` is compared byte by byte and never matches", set)
	}
	c.Floor(rule, 14, 16)
}
