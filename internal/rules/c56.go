package rules

import (
	"go/token"
	"strings"

	"golang.org/x/tools/go/ssa"

	"verif/internal/eng"
)

// ruleIndexMapShape (C56): structural conditions of the chained hash table: the table is
// grown (and re-bucketed) before the bucket of a new key is computed; a new entry is
// prepended to its bucket's chain with the chain's bloom bits carried over; lookups walk the
// chain of the key's bucket and yield only entries whose full ID matches; the reserved entry 0
// is never enumerated.
func ruleIndexMapShape(c *eng.Ctx) {
	const rule = "indexmap-shape"
	const im = pkgIndex + ".(*indexMap)."
	add := c.NeedFn(rule, im+"add")
	if add != nil {
		pre := c.P.CallsTo(add, im+"preallocate")
		hash := c.P.CallsTo(add, im+"hash")
		newE := c.P.CallsTo(add, im+"newEntry")
		bloomIns := c.P.CallsTo(add, pkgIndex+".bloomInsertID")
		if len(pre) != 1 || len(hash) != 1 || len(newE) != 1 || len(bloomIns) != 1 {
			c.Unk(rule, "add:shape", add.Pos(), "expected one preallocate, hash, newEntry and bloomInsertID call, found %d/%d/%d/%d", len(pre), len(hash), len(newE), len(bloomIns))
		} else {
			c.MustPass(rule, "add:grow-before-hash", eng.Entry(add), hash[0].(ssa.Instruction), eng.CallCut(pre...), "m.preallocate(numentries+1) (the bucket count the hash is reduced by is final)")
			// preallocate is asked for one more than the current number of entries
			okN := false
			if bo, ok := eng.Strip(eng.Arg(pre[0], 0)).(*ssa.BinOp); ok && bo.Op == token.ADD {
				if k, isK := eng.ConstInt(bo.Y); isK && k == 1 && mentionsFieldDeepArgs(bo.X, c.P.Field(pkgIndex+".indexMap", "numentries")) {
					okN = true
				}
			}
			c.Check(okN, rule, "add:room-for-one-more", pre[0].Pos(), "preallocate is called with numentries+1")
			// prepend: e.next = m.buckets[h]; m.buckets[h] = bloomInsertID(idx, e.next, id)
			nextF := c.P.Field(pkgIndex+".indexEntry", "next")
			idF := c.P.Field(pkgIndex+".indexEntry", "id")
			bucketsF := c.P.Field(pkgIndex+".indexMap", "buckets")
			isH := eng.SameAs(hash[0].Value())
			bucketLoad := func(v ssa.Value) bool {
				ld, ok := eng.Strip(v).(*ssa.UnOp)
				if !ok || ld.Op != token.MUL {
					return false
				}
				ia, ok := ld.X.(*ssa.IndexAddr)
				return ok && mentionsField(ia.X, bucketsF) && isH(ia.Index)
			}
			okNext := false
			for _, st := range c.P.FieldStoresIn(add, nextF) {
				if bucketLoad(st.Val) {
					okNext = true
				}
			}
			c.Check(okNext, rule, "add:new-entry-points-to-old-head", add.Pos(), "e.next = m.buckets[h]")
			okID := false
			for _, st := range c.P.FieldStoresIn(add, idF) {
				if eng.IsParam(add, "id")(st.Val) {
					okID = true
				}
			}
			c.Check(okID, rule, "add:entry-carries-its-key", add.Pos(), "e.id = id")
			okHead := false
			for _, b := range add.Blocks {
				for _, in := range b.Instrs {
					st, ok := in.(*ssa.Store)
					if !ok {
						continue
					}
					ia, ok := st.Addr.(*ssa.IndexAddr)
					if !ok || !mentionsField(ia.X, bucketsF) || !isH(ia.Index) {
						continue
					}
					if eng.SameAs(bloomIns[0].Value())(st.Val) {
						okHead = true
					}
				}
			}
			c.Check(okHead, rule, "add:bucket-head-is-new-entry", add.Pos(), "m.buckets[h] = bloomInsertID(...)")
			a0, a1, a2 := eng.Arg(bloomIns[0], 0), eng.Arg(bloomIns[0], 1), eng.Arg(bloomIns[0], 2)
			// the old head: read back from e.next, or the very value that was stored there
			oldHead := mentionsFieldDeepArgs(a1, nextF)
			for _, st := range c.P.FieldStoresIn(add, nextF) {
				if bucketLoad(st.Val) && eng.SameAs(st.Val)(a1) {
					oldHead = true
				}
			}
			okArgs := resultOf(a0, newE[0], 1) && oldHead && eng.IsParam(add, "id")(a2)
			c.Check(okArgs, rule, "add:bloom-of-new-head", bloomIns[0].Pos(), "the new head is (index of the new entry, bloom bits of the old head, key)")
			// numentries++ on every path
			cnt := c.P.FieldStoresIn(add, c.P.Field(pkgIndex+".indexMap", "numentries"))
			cut := eng.NewCut()
			for _, st := range cnt {
				cut.AddInstrs(st)
			}
			for _, r := range eng.Returns(add) {
				c.MustPass(rule, "add:counts-the-entry", eng.Entry(add), r, cut, "m.numentries++")
			}
		}
	}
	// preallocate: re-bucketing hashes with the new table size
	if pa := c.NeedFn(rule, im+"preallocate"); pa != nil {
		bucketsF := c.P.Field(pkgIndex+".indexMap", "buckets")
		var resize []ssa.Instruction
		for _, st := range c.P.FieldStoresIn(pa, bucketsF) {
			if _, isMk := eng.Strip(st.Val).(*ssa.MakeSlice); isMk {
				resize = append(resize, st)
			}
		}
		hashes := c.P.CallsTo(pa, im+"hash")
		c.Check(len(resize) == 1 && len(hashes) >= 1, rule, "preallocate:shape", pa.Pos(), "preallocate allocates the new bucket array once and re-hashes (%d/%d)", len(resize), len(hashes))
		for _, h := range hashes {
			c.MustPass(rule, "preallocate:rehash-after-resize", eng.Entry(pa), h.(ssa.Instruction), eng.NewCut().AddInstrs(resize...), "m.buckets = make([]uint, newSize)")
		}
	}
	// lookups
	idF := c.P.Field(pkgIndex+".indexEntry", "id")
	idMatch := func(fn *ssa.Function) []eng.EdgeKey {
		return eng.CmpEdgesEq(fn, func(x, y ssa.Value) bool {
			return mentionsFieldDeepArgs(x, idF) || mentionsFieldDeepArgs(y, idF)
		})
	}
	if get := c.NeedFn(rule, im+"get"); get != nil {
		for _, r := range eng.Returns(get) {
			if eng.IsNilConst(eng.RetVal(r, 0)) {
				continue
			}
			c.MustPass(rule, "get:returns-only-full-id-match", eng.Entry(get), r, eng.NewCut().AddEdges(idMatch(get)...), "e.id == id")
		}
		walksBucketOfKey(c, rule, "get", get)
	}
	if vw := c.NeedFn(rule, im+"valuesWithID"); vw != nil {
		for _, lit := range c.P.Lits(vw) {
			if lit.Parent() != vw {
				continue
			}
			for _, call := range eng.Calls(lit) {
				if n := c.P.CalleeName(call); strings.HasPrefix(n, "param:yield") {
					c.MustPass(rule, "valuesWithID:yields-only-full-id-match", eng.Entry(lit), call.(ssa.Instruction), eng.NewCut().AddEdges(idMatch(lit)...), "e.id == id")
				}
			}
			walksBucketOfKey(c, rule, "valuesWithID", lit)
		}
	}
	if fi := c.NeedFn(rule, im+"firstIndex"); fi != nil {
		walksBucketOfKey(c, rule, "firstIndex", fi)
	}
	// entry 0 is the reserved null entry: init allocates it, enumerations start at 1
	if init := c.NeedFn(rule, im+"init"); init != nil {
		c.Check(len(c.P.CallsTo(init, im+"newEntry")) == 1, rule, "init:reserves-entry-0", init.Pos(), "init allocates exactly one entry (index 0 = end of chain)")
	}
	for _, name := range []string{"values", "preallocate"} {
		fn := c.NeedFn(rule, im+name)
		if fn == nil {
			continue
		}
		okStart := false
		for _, f := range c.P.WithLits(fn) {
			for _, call := range c.P.CallsTo(f, im+"resolve") {
				// resolve(i) with i a loop variable initialised to 1
				if phi, ok := eng.Arg(call, 0).(*ssa.Phi); ok {
					for _, e := range phi.Edges {
						if k, isK := eng.ConstInt(e); isK && k == 1 {
							okStart = true
						}
					}
				}
			}
		}
		c.Check(okStart, rule, name+":enumeration-starts-at-1", fn.Pos(), "%s enumerates the block list from index 1 (0 is the reserved null entry)", name)
	}
	c.Floor(rule, 12, 14)
}

// walksBucketOfKey: the chain walk starts at m.buckets[m.hash(id)] and continues while
// bloomHasID(ei, id).
func walksBucketOfKey(c *eng.Ctx, rule, name string, fn *ssa.Function) {
	const im = pkgIndex + ".(*indexMap)."
	bucketsF := c.P.Field(pkgIndex+".indexMap", "buckets")
	hashes := c.P.CallsTo(fn, im+"hash")
	blooms := c.P.CallsTo(fn, pkgIndex+".bloomHasID")
	ok := len(hashes) == 1 && len(blooms) == 1
	if ok {
		// the walk variable starts as m.buckets[h]
		start := false
		for _, o := range originsThroughPhi(eng.Arg(blooms[0], 0)) {
			if ld, isLd := o.(*ssa.UnOp); isLd && ld.Op == token.MUL {
				if ia, isIA := ld.X.(*ssa.IndexAddr); isIA && mentionsFieldDeepArgs(ia.X, bucketsF) && eng.SameAs(hashes[0].Value())(ia.Index) {
					start = true
				}
			}
		}
		ok = start
	}
	c.Check(ok, rule, name+":walks-chain-of-the-keys-bucket", fn.Pos(), "%s starts at m.buckets[m.hash(id)] and follows the chain while bloomHasID allows", name)
}

// originsThrophPhi lists the non-phi values a phi (transitively) merges.
func originsThroughPhi(v ssa.Value) []ssa.Value {
	var out []ssa.Value
	seen := map[ssa.Value]bool{}
	var rec func(v ssa.Value)
	rec = func(v ssa.Value) {
		if seen[v] {
			return
		}
		seen[v] = true
		if phi, ok := v.(*ssa.Phi); ok {
			for _, e := range phi.Edges {
				rec(e)
			}
			return
		}
		out = append(out, v)
	}
	rec(v)
	return out
}

// ruleBloomLayout (C56): the bloom bits live above bit bloomShift of a bucket word, the index
// below; all five helpers agree on that layout, and an index that does not fit panics.
func ruleBloomLayout(c *eng.Ctx) {
	const rule = "bloom-layout"
	shift, e1 := c.P.EvalInt(pkgIndex + ".bloomShift")
	mask, e2 := c.P.EvalInt(pkgIndex + ".bloomMask")
	if e1 != nil || e2 != nil {
		c.Unk(rule, "constants", 0, "bloomShift/bloomMask do not evaluate: %v %v", e1, e2)
		return
	}
	c.Check(mask == (int64(1)<<uint(shift))-1, rule, "bloomMask==1<<bloomShift-1", 0, "bloomMask (%#x) is the low %d bits", mask, shift)
	c.Check(shift > 0 && shift < 64, rule, "bloomShift-in-word", 0, "0 < bloomShift (%d) < 64", shift)
	hasConst := func(fn *ssa.Function, op token.Token, k int64) bool {
		for _, b := range fn.Blocks {
			for _, in := range b.Instrs {
				if bo, ok := in.(*ssa.BinOp); ok && bo.Op == op {
					y := bo.Y
					if cv, isCv := y.(*ssa.Convert); isCv {
						y = cv.X // a constant converted to the word type (32-bit friendly spelling)
					}
					if v, isK := eng.ConstInt(y); isK && v == k {
						return true
					}
				}
			}
		}
		return false
	}
	if f := c.NeedFn(rule, pkgIndex+".bloomForID"); f != nil {
		c.Check(hasConst(f, token.REM, 64-shift), rule, "bloomForID:modulus", f.Pos(), "the bit number is id[0] %% (64-bloomShift) = %d: it fits above the index bits", 64-shift)
	}
	if f := c.NeedFn(rule, pkgIndex+".bloomHasID"); f != nil {
		c.Check(hasConst(f, token.SHR, shift), rule, "bloomHasID:shift", f.Pos(), "bloomHasID reads the bits above bloomShift")
	}
	if f := c.NeedFn(rule, pkgIndex+".bloomInsertID"); f != nil {
		c.Check(hasConst(f, token.SHL, shift), rule, "bloomInsertID:shift", f.Pos(), "bloomInsertID places the new bit above bloomShift")
		// old bloom bits are carried over: nextIdx &^ mask
		okCarry := false
		for _, b := range f.Blocks {
			for _, in := range b.Instrs {
				if bo, ok := in.(*ssa.BinOp); ok && (bo.Op == token.AND_NOT || bo.Op == token.AND) && eng.IsParam(f, "nextIdx")(bo.X) {
					okCarry = true
				}
			}
		}
		c.Check(okCarry, rule, "bloomInsertID:carries-old-bits", f.Pos(), "the bloom bits of the previous head are kept")
	}
	if f := c.NeedFn(rule, pkgIndex+".bloomCleanID"); f != nil {
		c.Check(hasConst(f, token.AND, mask), rule, "bloomCleanID:mask", f.Pos(), "bloomCleanID keeps the low bloomShift bits")
	}
	// every allocated index fits below the bloom bits
	if ne := c.NeedFn(rule, pkgIndex+".(*indexMap).newEntry"); ne != nil {
		alloc := c.P.CallsWhere(ne, func(call ssa.CallInstruction) bool { return eng.MethodName(call) == "Alloc" })
		clean := c.P.CallsTo(ne, pkgIndex+".bloomCleanID")
		ok := len(alloc) == 1 && len(clean) == 1
		if ok {
			fits := eng.CmpEdgesEq(ne, func(x, y ssa.Value) bool {
				return (eng.SameAs(clean[0].Value())(x) && resultOf(y, alloc[0], 1)) || (eng.SameAs(clean[0].Value())(y) && resultOf(x, alloc[0], 1))
			})
			for _, r := range eng.Returns(ne) {
				c.MustPass(rule, "newEntry:index-fits-below-bloom-bits", eng.Entry(ne), r, eng.NewCut().AddEdges(fits...), "idx == bloomCleanID(idx)")
			}
		} else {
			c.Unk(rule, "newEntry:shape", ne.Pos(), "Alloc / bloomCleanID not found")
		}
	}
	// resolve strips the bloom bits before indexing
	if rs := c.NeedFn(rule, pkgIndex+".(*indexMap).resolve"); rs != nil {
		ok := false
		for _, call := range eng.Calls(rs) {
			if eng.MethodName(call) == "Ref" {
				if cl := eng.RootCall(eng.Arg(call, 0)); cl != nil && c.P.CalleeName(cl) == pkgIndex+".bloomCleanID" {
					ok = true
				}
			}
		}
		c.Check(ok, rule, "resolve:strips-bloom-bits", rs.Pos(), "resolve looks up bloomCleanID(idx)")
	}
	c.Floor(rule, 8, 9)
}
